package main

import (
	"fmt"
	"go/token"
	"go/types"
	"strings"

	"golang.org/x/tools/go/ssa"
)

func init() {
	register(&Rule{ID: "C18.COLOUR", Min: 7, Doc: "the depth-first search follows the white/grey/black discipline on jobNode.status", Run: runC18Colour})
	register(&Rule{ID: "C18.CYCLE", Min: 4, Doc: "cycle reconstruction only follows nodes still on the search stack and cannot revisit a node of the path", Run: runC18Cycle})
	register(&Rule{ID: "C18.REPORT", Min: 5, Doc: "dangling references are reported at the referring job, suppress cycle detection, and at most one cycle is reported", Run: runC18Report})
}

// statusConsts: name -> value of the nodeStatus constants.
func statusConsts(p *Prog) map[string]int64 {
	out := map[string]int64{}
	nm := p.Named("nodeStatus")
	if nm == nil {
		return out
	}
	scope := p.Main.Types.Scope()
	for _, n := range scope.Names() {
		if k, ok := scope.Lookup(n).(*types.Const); ok && types.Identical(k.Type(), nm) {
			if v, ok := constantInt(k); ok {
				out[strings.TrimPrefix(recordedConstName(n), "nodeStatus")] = v
			}
		}
	}
	return out
}

// statusTest: the If compares <node>.status with a constant; returns the node value and the constant.
func statusTest(ifi *ssa.If) (node ssa.Value, k int64, eq bool, ok bool) {
	bo, isBin := ifi.Cond.(*ssa.BinOp)
	if !isBin || (bo.Op != token.EQL && bo.Op != token.NEQ) {
		return nil, 0, false, false
	}
	c, isC := bo.Y.(*ssa.Const)
	v := bo.X
	if !isC {
		c, isC = bo.X.(*ssa.Const)
		v = bo.Y
	}
	if !isC {
		return nil, 0, false, false
	}
	f, base := fieldLoad(v)
	if f != "jobNode.status" {
		return nil, 0, false, false
	}
	n, okc := constInt(c)
	return base, n, bo.Op == token.EQL, okc
}

func runC18Colour(c *Ctx) {
	p := c.P
	fn := p.Func("detectCyclicNode")
	first := p.Func("detectFirstCycle")
	if fn == nil || first == nil {
		c.anchorMissing("detectCyclicNode / detectFirstCycle")
		return
	}
	sc := statusConsts(p)
	if len(sc) != 3 {
		c.undecided("nodeStatus|constants", fn.Pos(), fmt.Sprintf("%d status constants", len(sc)))
		return
	}
	v := fn.Params[0]
	// stores to v.status
	type sstore struct {
		st  *ssa.Store
		val int64
	}
	var stores []sstore
	eachInstr(fn, func(_ *ssa.BasicBlock, _ int, in ssa.Instruction) {
		if st, ok := in.(*ssa.Store); ok {
			if fa, ok := st.Addr.(*ssa.FieldAddr); ok && fieldAddrName(fa) == "jobNode.status" {
				k, _ := constInt(st.Val)
				if fa.X != ssa.Value(v) {
					c.bad("detectCyclicNode|status of another node written", st.Pos(), "the status of a node other than the visited one is changed")
				}
				stores = append(stores, sstore{st, k})
			}
		}
	})
	// (a) grey on entry: a store of Active in the entry block before anything else can observe the node
	greyFirst := false
	for _, s := range stores {
		if s.val == sc["Active"] && s.st.Block().Index == 0 {
			greyFirst = true
			for _, in := range fn.Blocks[0].Instrs[:instrIndex(s.st)] {
				if _, isCall := in.(*ssa.Call); isCall {
					greyFirst = false
				}
			}
		}
	}
	if greyFirst {
		c.ok("detectCyclicNode|grey on entry", fn.Pos(), "the node is marked active before any neighbour is looked at")
	} else {
		c.bad("detectCyclicNode|grey on entry", fn.Pos(), "the node is not marked active first: a cycle through it is not seen and the recursion is not bounded")
	}
	// (b) returns: nil only after black; non-nil never after black
	nRet := 0
	for _, b := range fn.Blocks {
		ret, ok := b.Instrs[len(b.Instrs)-1].(*ssa.Return)
		if !ok {
			continue
		}
		nRet++
		black := false
		for _, s := range stores {
			if s.val == sc["Finished"] && (s.st.Block() == b || s.st.Block().Dominates(b)) {
				black = true
			}
		}
		isNil := isNilConst(ret.Results[0])
		construct := fmt.Sprintf("detectCyclicNode|return#%d", nRet)
		if !isNil {
			// definitely non-nil: a fresh edge, or a value tested non-nil on this path
			definite := false
			if _, ok := ret.Results[0].(*ssa.Alloc); ok {
				definite = true
			}
			for ifi, outcome := range controllingConds(b) {
				if v, nilSucc, ok := nilTest(ifi); ok && v == ret.Results[0] && (nilSucc == 0) != outcome {
					definite = true
				}
			}
			if !definite {
				c.bad(construct, ret.Pos(), "the result of a deeper search is returned without testing it: when it is nil the remaining neighbours are skipped and the node stays active (missed cycles, false cycles)")
				continue
			}
		}
		switch {
		case isNil && black:
			c.ok(construct, ret.Pos(), "no cycle: the node is finished before returning")
		case isNil && !black:
			c.bad(construct, ret.Pos(), "returns without a cycle but leaves the node active: a later search reports a false cycle through it")
		case !isNil && !black:
			c.ok(construct, ret.Pos(), "cycle found: the nodes of the search stack stay active for the reconstruction")
		default:
			c.bad(construct, ret.Pos(), "a cycle is returned after the node was finished: the reconstruction cannot find the path")
		}
	}
	// (c) recursion only into white neighbours, edge only for a grey neighbour, from the current node to it
	for _, call := range findCalls(fn, "detectCyclicNode") {
		arg := call.Common().Args[0]
		white := false
		for ifi, outcome := range controllingConds(call.Block()) {
			if n, k, eq, ok := statusTest(ifi); ok && n == arg && k == sc["New"] && eq == outcome {
				white = true
			}
		}
		if white {
			c.ok("detectCyclicNode|recursion into new nodes only", call.Pos(), "guarded by status == new of the same node: at most one visit per node, so the search terminates")
		} else {
			c.bad("detectCyclicNode|recursion into new nodes only", call.Pos(), "the recursive visit is not restricted to nodes that were never visited: the search may not terminate or reports finished nodes")
		}
		// the result of the recursion is propagated when non-nil
		prop := false
		for _, ref := range *call.(*ssa.Call).Referrers() {
			if _, ok := ref.(*ssa.Return); ok {
				prop = true
			}
		}
		if prop {
			c.ok("detectCyclicNode|cycle propagated", call.Pos(), "a cycle found deeper is returned")
		} else {
			c.bad("detectCyclicNode|cycle propagated", call.Pos(), "a cycle found by the recursive visit is dropped")
		}
	}
	eachInstr(fn, func(b *ssa.BasicBlock, _ int, in ssa.Instruction) {
		al, ok := in.(*ssa.Alloc)
		if !ok || typeStr(al.Type()) != "*edge" {
			return
		}
		var from, to ssa.Value
		for _, ref := range *al.Referrers() {
			if fa, ok := ref.(*ssa.FieldAddr); ok {
				for _, r2 := range *fa.Referrers() {
					if st, ok := r2.(*ssa.Store); ok {
						switch fieldAddrName(fa) {
						case "edge.from":
							from = st.Val
						case "edge.to":
							to = st.Val
						}
					}
				}
			}
		}
		grey := false
		for ifi, outcome := range controllingConds(b) {
			if n, k, eq, ok := statusTest(ifi); ok && n == to && k == sc["Active"] && eq == outcome {
				grey = true
			}
		}
		if grey && from == ssa.Value(v) {
			c.ok("detectCyclicNode|back edge", al.Pos(), "edge{current, active neighbour}")
		} else {
			c.bad("detectCyclicNode|back edge", al.Pos(), "the reported edge is not from the visited node to a neighbour that is still active: the printed cycle is not a cycle of the graph")
		}
	})
	// every neighbour is examined: the loop over them is left early only with a cycle
	if leaks := searchLoopLeaks(p, fn); len(leaks) == 0 {
		c.ok("detectCyclicNode|every neighbour examined", fn.Pos(), "the loop over the neighbours is left before its end only by returning a cycle")
	} else {
		c.bad("detectCyclicNode|every neighbour examined", fn.Pos(), strings.Join(leaks, "; ")+": the remaining neighbours are never looked at, a cycle through them is missed")
	}
	// (d) the search starts from new nodes only, and propagates the first cycle
	for _, call := range findCalls(first, "detectCyclicNode") {
		arg := call.Common().Args[0]
		white := false
		for ifi, outcome := range controllingConds(call.Block()) {
			if n, k, eq, ok := statusTest(ifi); ok && n == arg && k == sc["New"] && eq == outcome {
				white = true
			}
		}
		if white {
			c.ok("detectFirstCycle|starts at new nodes", call.Pos(), "every node is searched at most once")
		} else {
			c.bad("detectFirstCycle|starts at new nodes", call.Pos(), "a search is started at a node that was already visited")
		}
	}
	// every node is a candidate start: the loop ranges over all values of the map parameter
	allNodes := false
	eachInstr(first, func(_ *ssa.BasicBlock, _ int, in ssa.Instruction) {
		if rg, ok := in.(*ssa.Range); ok {
			// the graph: the map parameter, or the rule's own map of nodes when the function is a method of the rule
			if len(first.Params) > 0 && rg.X == ssa.Value(first.Params[0]) && typeStr(rg.X.Type()) == "map[string]*jobNode" {
				allNodes = true
			}
			if f, _ := fieldLoad(rg.X); f == "RuleJobNeeds.nodes" {
				allNodes = true
			}
		}
	})
	if allNodes {
		c.ok("detectFirstCycle|all nodes", first.Pos(), "start candidates are all nodes of the graph")
	} else {
		c.bad("detectFirstCycle|all nodes", first.Pos(), "not every node is a start candidate: cycles in unreached components are missed")
	}
	// (e) who writes status
	var others []string
	for _, f := range p.Funcs {
		if f == fn {
			continue
		}
		eachInstr(f, func(_ *ssa.BasicBlock, _ int, in ssa.Instruction) {
			if st, ok := in.(*ssa.Store); ok {
				if fa, ok := st.Addr.(*ssa.FieldAddr); ok && fieldAddrName(fa) == "jobNode.status" {
					if k, _ := constInt(st.Val); k != sc["New"] || FuncName(f) != "(*RuleJobNeeds).VisitJobPre" {
						others = append(others, FuncName(f))
					}
				}
			}
		})
	}
	if len(others) == 0 {
		c.ok("jobNode.status|writers", fn.Pos(), "created new in VisitJobPre, changed by detectCyclicNode only")
	} else {
		c.bad("jobNode.status|writers", fn.Pos(), "also written by "+strings.Join(others, ", "))
	}
}

func runC18Cycle(c *Ctx) {
	p := c.P
	fn := p.Func("collectCycle")
	if fn == nil {
		c.anchorMissing("collectCycle")
		return
	}
	sc := statusConsts(p)
	src, edges := fn.Params[0], fn.Params[1]
	recs := findCalls(fn, "collectCycle")
	if len(recs) != 1 {
		c.bad("collectCycle|recursion", fn.Pos(), fmt.Sprintf("%d recursive calls", len(recs)))
		return
	}
	rec := recs[0]
	dest := rec.Common().Args[0]
	// only active
	active, notOnPath := false, false
	for ifi, outcome := range controllingConds(rec.Block()) {
		if n, k, eq, ok := statusTest(ifi); ok && n == dest && k == sc["Active"] && eq == outcome {
			active = true
		}
		if ex, ok := ifi.Cond.(*ssa.Extract); ok && ex.Index == 1 {
			if lk, ok := ex.Tuple.(*ssa.Lookup); ok && lk.X == ssa.Value(edges) && lk.Index == dest && !outcome {
				notOnPath = true
			}
		}
	}
	if active {
		c.ok("collectCycle|follows the search stack", rec.Pos(), "only neighbours that are still active are followed")
	} else {
		c.bad("collectCycle|follows the search stack", rec.Pos(), "nodes that are not on the search stack are followed: the printed path need not be a cycle")
	}
	if notOnPath {
		c.ok("collectCycle|no revisit", rec.Pos(), "the recursion is only entered for a node that is not yet on the collected path")
	} else {
		c.bad("collectCycle|no revisit", rec.Pos(), "a node already on the collected path may be entered again: the reconstruction does not terminate")
	}
	// edges[src] = dest before the recursion; deleted when the branch fails
	var add *ssa.MapUpdate
	eachInstr(fn, func(_ *ssa.BasicBlock, _ int, in ssa.Instruction) {
		if mu, ok := in.(*ssa.MapUpdate); ok && mu.Map == ssa.Value(edges) && mu.Key == ssa.Value(src) && mu.Value == dest {
			add = mu
		}
	})
	if add != nil && dom(add, rec) {
		c.ok("collectCycle|path recorded before descending", add.Pos(), "edges[src] = dest dominates the recursion: every node of the path is a key, so the depth is bounded by the number of nodes")
	} else {
		c.bad("collectCycle|path recorded before descending", fn.Pos(), "the edge is not recorded before descending")
	}
	// every neighbour is tried: the loop over them is left early only when the cycle was closed
	if leaks := searchLoopLeaks(p, fn); len(leaks) == 0 {
		c.ok("collectCycle|every neighbour tried", fn.Pos(), "the loop over the neighbours is left before its end only by returning true")
	} else {
		c.bad("collectCycle|every neighbour tried", fn.Pos(), strings.Join(leaks, "; ")+": the neighbour that continues the cycle is never tried when an earlier one is left over from a finished search, and the collected path does not close")
	}
	del := false
	eachInstr(fn, func(_ *ssa.BasicBlock, _ int, in ssa.Instruction) {
		if call, ok := in.(*ssa.Call); ok {
			if bi, ok := call.Call.Value.(*ssa.Builtin); ok && bi.Name() == "delete" && call.Call.Args[0] == ssa.Value(edges) && call.Call.Args[1] == ssa.Value(src) {
				if instrReachableAfter(rec, call) {
					del = true
				}
			}
		}
	})
	if del {
		c.ok("collectCycle|failed branch removed", fn.Pos(), "delete(edges, src) after a branch that did not close the cycle")
	} else {
		c.bad("collectCycle|failed branch removed", fn.Pos(), "edges of a failed branch stay in the result: the printed cycle contains nodes that are not on it")
	}
}

func runC18Report(c *Ctx) {
	p := c.P
	fn := p.Method("RuleJobNeeds", "VisitWorkflowPost")
	if fn == nil {
		c.anchorMissing("(*RuleJobNeeds).VisitWorkflowPost")
		return
	}
	// the resolution of the needs entries may live in VisitWorkflowPost or in a method of the rule that it calls
	scope := []*ssa.Function{fn}
	for _, h := range p.withHelpers(fn, 1) {
		if h != fn && h.Signature.Recv() != nil && pointeeName(h.Signature.Recv().Type()) == "RuleJobNeeds" {
			scope = append(scope, h)
		}
	}
	// dangling reference: reported iff the lookup of a needs entry fails, at the referring node's position
	var dangling ssa.CallInstruction
	var danglingIf *ssa.If
	var errfCalls []ssa.CallInstruction
	for _, f := range scope {
		errfCalls = append(errfCalls, findCalls(f, "(*RuleBase).Errorf")...)
	}
	for _, call := range errfCalls {
		for ifi, outcome := range controllingConds(call.Block()) {
			if t, k := lookupCond(ifi.Cond); t == "RuleJobNeeds.nodes" && !outcome {
				// key ranges over the needs of the node
				okKey := false
				if ld, ok := k.(*ssa.UnOp); ok {
					if ia, ok := ld.X.(*ssa.IndexAddr); ok {
						if f, _ := fieldLoad(ia.X); f == "jobNode.needs" {
							okKey = true
						}
					}
				}
				if okKey {
					dangling, danglingIf = call, ifi
				}
			}
		}
	}
	if dangling == nil {
		c.bad("(*RuleJobNeeds).VisitWorkflowPost|dangling reference", fn.Pos(), "no diagnostic is control-dependent on a needs entry missing from the job table")
	} else {
		extra := 0
		for ifi, outcome := range controllingConds(dangling.Block()) {
			cc := classifyCond(ifi, outcome)
			if cc.kind != "loop" && cc.kind != "lookup" {
				extra++
			}
		}
		posArg := dangling.Common().Args[1]
		f, _ := fieldLoad(posArg)
		switch {
		case extra > 0:
			c.bad("(*RuleJobNeeds).VisitWorkflowPost|dangling reference", dangling.Pos(), "the report depends on further conditions")
		case f != "jobNode.pos":
			c.bad("(*RuleJobNeeds).VisitWorkflowPost|dangling reference", dangling.Pos(), "not reported at the referring job")
		default:
			c.ok("(*RuleJobNeeds).VisitWorkflowPost|dangling reference", dangling.Pos(), "reported iff the needs entry is not a job, at the referring job")
		}
		// every needs entry of every job is looked up: the loops around the lookup are not left early (the report itself is
		// outside the loop when it is followed by a break or a return)
		if exits := earlyExitsAround(p, danglingIf.Block()); len(exits) == 0 {
			c.ok("(*RuleJobNeeds).VisitWorkflowPost|every reference looked up", dangling.Pos(), "the loops over the jobs and over their needs entries run to their end")
		} else {
			c.bad("(*RuleJobNeeds).VisitWorkflowPost|every reference looked up", dangling.Pos(), strings.Join(exits, "; ")+": the needs entries behind it are neither reported when they dangle nor made edges of the graph")
		}
	}
	// resolved neighbours: appended iff found, the looked-up node itself
	okAppend := false
	for _, sf := range scope {
		eachInstr(sf, func(b *ssa.BasicBlock, _ int, in ssa.Instruction) {
			call, ok := in.(*ssa.Call)
			if !ok {
				return
			}
			if bi, ok := call.Call.Value.(*ssa.Builtin); !ok || bi.Name() != "append" {
				return
			}
			if f, _ := fieldLoad(call.Call.Args[0]); f != "jobNode.resolved" {
				return
			}
			for ifi, outcome := range controllingConds(b) {
				if t, _ := lookupCond(ifi.Cond); t == "RuleJobNeeds.nodes" && outcome {
					okAppend = true
				}
			}
		})
	}
	if okAppend {
		c.ok("(*RuleJobNeeds).VisitWorkflowPost|edges of the graph", fn.Pos(), "an edge is added iff the needed job exists")
	} else {
		c.bad("(*RuleJobNeeds).VisitWorkflowPost|edges of the graph", fn.Pos(), "the resolved edges are not exactly the needs entries that exist")
	}
	// cycle detection only when everything resolved; exactly one call, its report not in a loop
	dets := findCalls(fn, "detectFirstCycle")
	if len(dets) != 1 {
		c.bad("(*RuleJobNeeds).VisitWorkflowPost|cycle detection", fn.Pos(), fmt.Sprintf("%d calls of detectFirstCycle", len(dets)))
		return
	}
	det := dets[0]
	if dangling != nil {
		// a path from the dangling report to the detection must pass a test of the `valid` flag
		guarded := false
		for ifi := range controllingConds(det.Block()) {
			if dangling.Parent() != fn {
				break // reported in a helper: no flag of this function can depend on it
			}
			var ph *ssa.Phi
			want := true
			if x, ok := ifi.Cond.(*ssa.Phi); ok && isBoolType(x.Type()) {
				ph = x
			}
			if u, ok := ifi.Cond.(*ssa.UnOp); ok && u.Op == token.NOT {
				if x, ok := u.X.(*ssa.Phi); ok {
					ph, want = x, false
				}
			}
			if ph == nil {
				continue
			}
			// the flag is false exactly on the edges coming from the dangling report, and detection is on its true side
			clearedByReport := false
			var walk func(x *ssa.Phi, d int)
			walk = func(x *ssa.Phi, d int) {
				if d > 4 {
					return
				}
				for i, e := range x.Edges {
					if k, ok := e.(*ssa.Const); ok && k.Value != nil && k.Value.String() == "false" {
						pred := x.Block().Preds[i]
						if pred == dangling.Block() || dangling.Block().Dominates(pred) {
							clearedByReport = true
						}
					}
					if p2, ok := e.(*ssa.Phi); ok {
						walk(p2, d+1)
					}
				}
			}
			walk(ph, 0)
			if clearedByReport && controllingConds(det.Block())[ifi] == want {
				guarded = true
			}
		}
		// The statement specifies the cycle diagnostic for graphs whose references all resolve; with a dangling reference
		// both skipping the detection and running it on the resolved edges are allowed. What is required is that the
		// detection is not skipped for any other reason.
		switch {
		case guarded:
			c.ok("(*RuleJobNeeds).VisitWorkflowPost|cycle detection whenever all references resolve", det.Pos(), "detection is control-dependent only on the flag cleared by the dangling report")
		case onlyLoopExits(fn, det.Block()):
			c.ok("(*RuleJobNeeds).VisitWorkflowPost|cycle detection whenever all references resolve", det.Pos(), "detection runs on every path (dangling references are simply not edges)")
		default:
			c.bad("(*RuleJobNeeds).VisitWorkflowPost|cycle detection whenever all references resolve", det.Pos(), "cycle detection is conditional on something other than the absence of dangling references: a cyclic graph whose references all resolve may get no diagnostic")
		}
	}
	if blockInCycle(det.Block()) {
		c.bad("(*RuleJobNeeds).VisitWorkflowPost|one cycle diagnostic", det.Pos(), "cycle detection is repeated")
	} else {
		var reports []ssa.CallInstruction
		for _, n := range []string{"(*RuleBase).Error", "(*RuleBase).Errorf"} {
			for _, call := range findCalls(fn, n) {
				if call != dangling && instrReachableAfter(det, call) {
					reports = append(reports, call)
				}
			}
		}
		okOne := len(reports) == 1 && !blockInCycle(reports[0].Block())
		if okOne {
			// controlled by the detection result being non-nil
			nonNil := false
			for ifi, outcome := range controllingConds(reports[0].Block()) {
				if v, nilSucc, ok := nilTest(ifi); ok && v == det.(ssa.Value) && (nilSucc == 0) != outcome {
					nonNil = true
				}
			}
			okOne = nonNil
		}
		if okOne {
			c.ok("(*RuleJobNeeds).VisitWorkflowPost|one cycle diagnostic", reports[0].Pos(), "reported once, iff the search returned a back edge")
		} else {
			c.bad("(*RuleJobNeeds).VisitWorkflowPost|one cycle diagnostic", det.Pos(), "the cyclic-dependency diagnostic is not emitted exactly once per detected cycle")
		}
	}
	// the reconstruction starts from the back edge
	okStart := false
	for _, call := range findCalls(fn, "collectCycle") {
		if f, base := fieldLoad(call.Common().Args[0]); f == "edge.to" && base == det.(ssa.Value) {
			okStart = true
		}
	}
	seeded := false
	eachInstr(fn, func(_ *ssa.BasicBlock, _ int, in ssa.Instruction) {
		if mu, ok := in.(*ssa.MapUpdate); ok {
			kf, kb := fieldLoad(mu.Key)
			vf, vb := fieldLoad(mu.Value)
			if kf == "edge.from" && vf == "edge.to" && kb == det.(ssa.Value) && vb == det.(ssa.Value) {
				seeded = true
			}
		}
	})
	if okStart && seeded {
		c.ok("(*RuleJobNeeds).VisitWorkflowPost|reconstruction from the back edge", fn.Pos(), "edges[from] = to, then the path from `to` back to `from` is collected")
	} else {
		c.bad("(*RuleJobNeeds).VisitWorkflowPost|reconstruction from the back edge", fn.Pos(), "the cycle is not reconstructed from the detected back edge")
	}
}

// onlyLoopExits: every condition controlling b is the exit test of a loop that b is not part of (such a test only says
// that the loop, which terminates, is over).
func onlyLoopExits(fn *ssa.Function, b *ssa.BasicBlock) bool {
	heads := map[*ssa.BasicBlock]bool{}
	for _, h := range loopHeaders(fn) {
		heads[h] = true
	}
	for ifi := range controllingConds(b) {
		h := ifi.Block()
		if !heads[h] || naturalLoop(h)[b] {
			return false
		}
	}
	return true
}
