package main

import (
	"fmt"
	"go/constant"
	"go/token"
	"go/types"
	"sort"
	"strings"

	"golang.org/x/tools/go/ssa"
)

func init() {
	register(&Rule{ID: "C19.EQ", Min: 3, Doc: "structural equality of container values compares the sizes of both sides (symmetric)", Run: runC19Eq})
	register(&Rule{ID: "C19.EXPR", Min: 4, Doc: "values written as expressions are never the reason for a duplicate/exclude report", Run: runC19Expr})
	register(&Rule{ID: "C19.CAND", Min: 4, Doc: "candidates are row values plus include values not structurally equal to one present; exclude values are matched candidate-first", Run: runC19Cand})
	register(&Rule{ID: "C06.ANY", Min: 15, Doc: "wherever a type test can lead to a diagnostic, `any` is accepted without one", Run: runC06Any})
	register(&Rule{ID: "C06.ASSIGN", Min: 7, Doc: "every Assignable accepts `any`; every Merge falls back to `any`", Run: runC06Assign})
	register(&Rule{ID: "C06.OPEN", Min: 5, Doc: "an undefined property is only reported for a strict object", Run: runC06Open})
	register(&Rule{ID: "C06.CMP", Min: 100, Doc: "the operand table of the comparison operators is monotone under replacing an operand by any", Run: runC06Cmp})
	register(&Rule{ID: "C06.LOOSE", Min: 2, Doc: "a scope built from an expression of unknown type is open, not strict", Run: runC06Loose})
}

// ---- C19.EQ ----

func runC19Eq(c *Ctx) {
	p := c.P
	runC19SubsetSeq(c)
	for _, fn := range p.Funcs {
		if fn.Name() != "Equals" || fn.Signature.Recv() == nil || fn.Parent() != nil {
			continue
		}
		recvT := namedOf(fn.Signature.Recv().Type())
		if recvT == nil {
			continue
		}
		st, ok := recvT.Underlying().(*types.Struct)
		if !ok {
			continue
		}
		// container fields
		for i := 0; i < st.NumFields(); i++ {
			switch st.Field(i).Type().Underlying().(type) {
			case *types.Map, *types.Slice:
			default:
				continue
			}
			fname := recvT.Obj().Name() + "." + st.Field(i).Name()
			construct := FuncName(fn) + "|sizes of " + fname
			// a comparison len(recv.f) ?= len(other.f)
			found := false
			eachInstr(fn, func(_ *ssa.BasicBlock, _ int, in ssa.Instruction) {
				bo, ok := in.(*ssa.BinOp)
				if !ok || (bo.Op != token.NEQ && bo.Op != token.EQL) {
					return
				}
				lenOf := func(v ssa.Value) ssa.Value {
					call, ok := v.(*ssa.Call)
					if !ok {
						return nil
					}
					if b, ok := call.Call.Value.(*ssa.Builtin); !ok || b.Name() != "len" {
						return nil
					}
					ld, ok := call.Call.Args[0].(*ssa.UnOp)
					if !ok {
						return nil
					}
					fa, ok := ld.X.(*ssa.FieldAddr)
					if !ok || fieldAddrName(fa) != fname {
						return nil
					}
					return fa.X
				}
				a, b := lenOf(bo.X), lenOf(bo.Y)
				if a != nil && b != nil && a != b {
					found = true
				}
			})
			if found {
				c.ok(construct, fn.Pos(), "the sizes of both containers are compared")
			} else {
				c.bad(construct, fn.Pos(), "equality iterates one side only and never compares the sizes: {a: 1} equals {a: 1, b: 2} but not vice versa, so duplicate detection depends on the order of the values")
			}
		}
	}
}

// sizesCompared: some function of fns compares len(a.f) with len(b.f) for two different values a, b (f given as T.f).
func sizesCompared(fns []*ssa.Function, fname string) bool {
	found := false
	lenOf := func(v ssa.Value) ssa.Value {
		call, ok := v.(*ssa.Call)
		if !ok {
			return nil
		}
		if b, ok := call.Call.Value.(*ssa.Builtin); !ok || b.Name() != "len" {
			return nil
		}
		ld, ok := call.Call.Args[0].(*ssa.UnOp)
		if !ok {
			return nil
		}
		fa, ok := ld.X.(*ssa.FieldAddr)
		if !ok || fieldAddrName(fa) != fname {
			return nil
		}
		return fa.X
	}
	for _, fn := range fns {
		eachInstr(fn, func(_ *ssa.BasicBlock, _ int, in ssa.Instruction) {
			bo, ok := in.(*ssa.BinOp)
			if !ok || (bo.Op != token.NEQ && bo.Op != token.EQL) {
				return
			}
			a, b := lenOf(bo.X), lenOf(bo.Y)
			if a != nil && b != nil && a != b {
				found = true
			}
		})
	}
	return found
}

// the sequence case of the exclude filter's subset test: sequences match element by element, so they have the same length
func runC19SubsetSeq(c *Ctx) {
	p := c.P
	sub := p.Func("isYAMLValueSubset")
	if sub == nil {
		c.anchorMissing("isYAMLValueSubset")
		return
	}
	construct := "isYAMLValueSubset|sizes of RawYAMLArray.Elems"
	if sizesCompared(p.withHelpers(sub, 2), "RawYAMLArray.Elems") {
		c.ok(construct, sub.Pos(), "a sequence of the filter matches a sequence of the same length only")
	} else {
		c.bad(construct, sub.Pos(), "the lengths of the two sequences are never compared for equality: an exclude value [a] matches the candidate [a, b] (or the other way round), so the entry is not reported")
	}
}

// ---- C19.EXPR ----

func runC19Expr(c *Ctx) {
	p := c.P
	sub := p.Func("isYAMLValueSubset")
	if sub == nil {
		c.anchorMissing("isYAMLValueSubset")
	} else {
		ci, fi := subsetParamRoles(sub)
		// (a) the function starts with the test of the filter side: type assertion to *RawYAMLString, ContainsExpression, return true
		okEntry := false
		if ifi, ok := sub.Blocks[0].Instrs[len(sub.Blocks[0].Instrs)-1].(*ssa.If); ok {
			if ex, ok := ifi.Cond.(*ssa.Extract); ok {
				if ta, ok := ex.Tuple.(*ssa.TypeAssert); ok && ta.X == sub.Params[fi] && strings.HasSuffix(typeStr(ta.AssertedType), "RawYAMLString") {
					t := sub.Blocks[0].Succs[0]
					for _, in := range t.Instrs {
						if call, ok := in.(*ssa.Call); ok {
							if f := staticCallee(&call.Call); f != nil && FuncName(f) == "ContainsExpression" {
								if i2, ok := t.Instrs[len(t.Instrs)-1].(*ssa.If); ok && i2.Cond == ssa.Value(call) {
									rb := t.Succs[0]
									if ret, ok := rb.Instrs[len(rb.Instrs)-1].(*ssa.Return); ok {
										if k, ok := ret.Results[0].(*ssa.Const); ok && k.Value != nil && k.Value.String() == "true" {
											okEntry = true
										}
									}
								}
							}
						}
					}
				}
			}
		}
		if okEntry {
			c.ok("isYAMLValueSubset|filter side expression first", sub.Pos(), "the first test returns true when the exclude value is an expression")
		} else {
			c.bad("isYAMLValueSubset|filter side expression first", sub.Pos(), "the function does not start by accepting an exclude value written as an expression: such entries can be reported")
		}
		// (b) every `return false` is reached only when the candidate value is known not to be an expression string
		occ := 0
		for _, b := range sub.Blocks {
			ret, ok := b.Instrs[len(b.Instrs)-1].(*ssa.Return)
			if !ok {
				continue
			}
			k, isConst := ret.Results[0].(*ssa.Const)
			if !isConst || k.Value == nil || k.Value.String() != "false" {
				// `return v.Equals(sub)` etc.: treated below through its controlling conditions as well
				if isConst {
					continue
				}
			}
			occ++
			construct := fmt.Sprintf("isYAMLValueSubset|negative result#%d", occ)
			conds := controllingConds(b)
			for _, pr := range b.Preds {
				if ifi, ok := pr.Instrs[len(pr.Instrs)-1].(*ssa.If); ok && len(b.Preds) == 1 {
					conds[ifi] = pr.Succs[0] == b
				}
			}
			known := false
			for ifi, outcome := range conds {
				switch cnd := ifi.Cond.(type) {
				case *ssa.Extract:
					if ta, ok := cnd.Tuple.(*ssa.TypeAssert); ok && ta.X == sub.Params[ci] && cnd.Index == 1 {
						tn := typeStr(ta.AssertedType)
						if outcome && (strings.HasSuffix(tn, "RawYAMLObject") || strings.HasSuffix(tn, "RawYAMLArray")) {
							known = true // the candidate is a mapping or a sequence
						}
					}
				case *ssa.Call:
					if f := staticCallee(&cnd.Call); f != nil && FuncName(f) == "ContainsExpression" && !outcome {
						// ContainsExpression(v.Value) == false on the candidate
						if ld, ok := cnd.Call.Args[0].(*ssa.UnOp); ok {
							if fa, ok := ld.X.(*ssa.FieldAddr); ok {
								if ex, ok := fa.X.(*ssa.Extract); ok {
									if ta, ok := ex.Tuple.(*ssa.TypeAssert); ok && ta.X == sub.Params[ci] {
										known = true
									}
								}
							}
						}
					}
				}
			}
			// the default clause of the type switch over the candidate (no concrete type matched) is also fine
			if !known {
				allFalse := 0
				for ifi, outcome := range conds {
					if ex, ok := ifi.Cond.(*ssa.Extract); ok {
						if ta, ok := ex.Tuple.(*ssa.TypeAssert); ok && ta.X == sub.Params[ci] && !outcome {
							allFalse++
						}
					}
				}
				if allFalse >= 3 {
					known = true
				}
			}
			if known {
				c.ok(construct, ret.Pos(), "only reached when the candidate value is a mapping/sequence or a string without ${{ }}")
			} else {
				c.bad(construct, ret.Pos(), "a negative result can be returned before the candidate value has been tested for being an expression: a row or include entry written as ${{ }} makes an exclude entry be reported")
			}
		}
	}
	// checkDuplicateInRow: reports only when row.Values is non-nil (rows given by an expression have no values)
	dup := p.Method("RuleMatrix", "checkDuplicateInRow")
	if dup == nil {
		c.anchorMissing("(*RuleMatrix).checkDuplicateInRow")
	} else {
		for _, call := range findCalls(dup, "(*RuleBase).Errorf") {
			guarded := false
			for ifi, outcome := range controllingConds(call.Block()) {
				if v, nilSucc, ok := nilTest(ifi); ok {
					if ld, ok := v.(*ssa.UnOp); ok {
						if fa, ok := ld.X.(*ssa.FieldAddr); ok && fieldAddrName(fa) == "MatrixRow.Values" {
							if (nilSucc == 0) != outcome {
								guarded = true
							}
						}
					}
					// the values handed in as a parameter that every caller fills from MatrixRow.Values
					if prm, ok := v.(*ssa.Parameter); ok && (nilSucc == 0) != outcome {
						idx := paramIndexOf(dup, prm)
						callers := p.callersOf(dup)
						all := idx >= 0 && len(callers) > 0
						for _, e := range callers {
							if e.Site == nil || e.Site.Common().IsInvoke() || idx >= len(e.Site.Common().Args) {
								all = false
								continue
							}
							if f, _ := fieldLoad(e.Site.Common().Args[idx]); f != "MatrixRow.Values" {
								all = false
							}
						}
						if all {
							guarded = true
						}
					}
				}
			}
			if guarded {
				c.ok("(*RuleMatrix).checkDuplicateInRow|report", call.Pos(), "only reached when the row has literal values")
			} else {
				c.bad("(*RuleMatrix).checkDuplicateInRow|report", call.Pos(), "the duplicate report is not guarded by `row.Values != nil`")
			}
		}
	}
	// VisitJobPre: nothing is checked when the whole matrix is an expression
	vj := p.Method("RuleMatrix", "VisitJobPre")
	if vj == nil {
		c.anchorMissing("(*RuleMatrix).VisitJobPre")
		return
	}
	okGuard := true
	for _, name := range []string{"(*RuleMatrix).checkDuplicateInRow", "(*RuleMatrix).checkExclude"} {
		for _, call := range findCalls(vj, name) {
			guarded := false
			for ifi, outcome := range controllingConds(call.Block()) {
				if v, nilSucc, ok := nilTest(ifi); ok {
					if ld, ok := v.(*ssa.UnOp); ok {
						if fa, ok := ld.X.(*ssa.FieldAddr); ok && fieldAddrName(fa) == "Matrix.Expression" && (nilSucc == 0) == outcome {
							guarded = true
						}
					}
				}
			}
			if !guarded {
				okGuard = false
			}
		}
	}
	if okGuard {
		c.ok("(*RuleMatrix).VisitJobPre|matrix expression", vj.Pos(), "rows and exclude are only checked when matrix is not an expression")
	} else {
		c.bad("(*RuleMatrix).VisitJobPre|matrix expression", vj.Pos(), "matrix checks run even when the matrix is given by an expression")
	}
}

// ---- C06 ----

// diagReach: blocks from which a diagnostic call is made, per function (direct sema.errorf / rule.Errorf / errorfAtExpr).
func emitsDiag(in ssa.Instruction) bool {
	call, ok := in.(ssa.CallInstruction)
	if !ok {
		return false
	}
	f := staticCallee(call.Common())
	if f == nil {
		return false
	}
	switch FuncName(f) {
	case "(*ExprSemanticsChecker).errorf", "(*RuleBase).Errorf", "(*RuleBase).Error", "errorfAtExpr", "errorAtExpr":
		return true
	}
	return false
}

func runC06Any(c *Ctx) {
	p := c.P
	anyT := p.Named("AnyType")
	if anyT == nil {
		c.anchorMissing("type AnyType")
		return
	}
	region := map[*ssa.Function]bool{}
	for _, fn := range p.Funcs {
		file := p.File(fn.Pos())
		if strings.HasSuffix(file, "/expr_sema.go") || strings.HasSuffix(file, "/rule_expression.go") {
			region[fn] = true
		}
	}
	occ := map[string]int{}
	for fn := range region {
		// group comma-ok type assertions by the tested value (a type switch is a chain on one value)
		groups := map[ssa.Value][]*ssa.TypeAssert{}
		var order []ssa.Value
		eachInstr(fn, func(_ *ssa.BasicBlock, _ int, in ssa.Instruction) {
			ta, ok := in.(*ssa.TypeAssert)
			if !ok || !ta.CommaOk || typeStr(ta.X.Type()) != "ExprType" {
				return
			}
			if _, seen := groups[ta.X]; !seen {
				order = append(order, ta.X)
			}
			groups[ta.X] = append(groups[ta.X], ta)
		})
		// split the assertions on one value into chains: the next test of a chain sits in the failure block of the previous one
		var chains [][]*ssa.TypeAssert
		for _, v := range order {
			tas := groups[v]
			failOf := map[*ssa.TypeAssert]*ssa.BasicBlock{}
			for _, ta := range tas {
				for _, ref := range *ta.Referrers() {
					if ex, ok := ref.(*ssa.Extract); ok && ex.Index == 1 {
						for _, r2 := range *ex.Referrers() {
							if ifi, ok := r2.(*ssa.If); ok {
								failOf[ta] = ifi.Block().Succs[1]
							}
						}
					}
				}
			}
			next := map[*ssa.TypeAssert]*ssa.TypeAssert{}
			hasPrev := map[*ssa.TypeAssert]bool{}
			for _, a := range tas {
				for _, b := range tas {
					if a != b && failOf[a] != nil && failOf[a] == b.Block() {
						next[a] = b
						hasPrev[b] = true
					}
				}
			}
			for _, a := range tas {
				if hasPrev[a] {
					continue
				}
				var ch []*ssa.TypeAssert
				for x := a; x != nil && len(ch) < 32; x = next[x] {
					ch = append(ch, x)
				}
				chains = append(chains, ch)
			}
		}
		for _, tas := range chains {
			v := tas[0].X
			// outcome blocks: success block of each assertion; the final failure block (default)
			type outcome struct {
				name  string
				block *ssa.BasicBlock
			}
			var outs []outcome
			var lastFail *ssa.BasicBlock
			hasAny := false
			for _, ta := range tas {
				for _, ref := range *ta.Referrers() {
					ex, ok := ref.(*ssa.Extract)
					if !ok || ex.Index != 1 {
						continue
					}
					for _, r2 := range *ex.Referrers() {
						if ifi, ok := r2.(*ssa.If); ok {
							outs = append(outs, outcome{typeStr(ta.AssertedType), ifi.Block().Succs[0]})
							lastFail = ifi.Block().Succs[1]
							if typeStr(ta.AssertedType) == "AnyType" {
								hasAny = true
							}
						}
					}
				}
			}
			if len(outs) == 0 {
				continue
			}
			// does an outcome lead to a diagnostic that another outcome avoids?
			leads := func(b *ssa.BasicBlock) bool {
				// diagnostic in the blocks dominated by b (the body of the case)
				for _, blk := range fn.Blocks {
					if blk == b || (len(b.Preds) == 1 && b.Dominates(blk)) {
						for _, in := range blk.Instrs {
							if emitsDiag(in) {
								return true
							}
						}
					}
				}
				return false
			}
			// flag pattern: an outcome stores a boolean constant into a variable which later decides about a diagnostic
			flagDiag := func(b *ssa.BasicBlock) (feedsDiag, feedsClean bool) {
				for _, blk := range fn.Blocks {
					if !(blk == b || (len(b.Preds) == 1 && b.Dominates(blk))) {
						continue
					}
					for _, succ := range blk.Succs {
						for _, in := range succ.Instrs {
							phi, ok := in.(*ssa.Phi)
							if !ok {
								break
							}
							for i, pr := range succ.Preds {
								if pr != blk {
									continue
								}
								k, ok := phi.Edges[i].(*ssa.Const)
								if !ok || k.Value == nil || !isBoolType(k.Type()) {
									continue
								}
								dv, found := flagDiagValue(fn, phi, leads)
								if !found {
									continue
								}
								if (k.Value.String() == "true") == dv {
									feedsDiag = true
								} else {
									feedsClean = true
								}
							}
						}
					}
				}
				return
			}
			flagPattern := false
			var diagOutcomes, cleanOutcomes []string
			for _, o := range outs {
				fd, fc := flagDiag(o.block)
				if fd || fc {
					flagPattern = true
				}
				if leads(o.block) || fd {
					diagOutcomes = append(diagOutcomes, o.name)
				} else {
					cleanOutcomes = append(cleanOutcomes, o.name)
				}
			}
			defaultDiag := false
			if lastFail != nil {
				// the default outcome: the failure block of the last assertion, unless it is another assertion of the chain
				isChain := false
				for _, ta := range tas {
					if ta.Block() == lastFail {
						isChain = true
					}
				}
				if !isChain && leads(lastFail) {
					defaultDiag = true
				}
				if !isChain && flagPattern {
					// the variable keeps its earlier value, which may be the one that is diagnosed
					if _, fc := flagDiag(lastFail); !fc {
						defaultDiag = true
					}
				}
			}
			if len(diagOutcomes) == 0 && !defaultDiag {
				continue // this type test cannot lead to a diagnostic
			}
			k := FuncName(fn) + "|type test of " + describeTested(v)
			occ[k]++
			construct := fmt.Sprintf("%s#%d", k, occ[k])
			sort.Strings(diagOutcomes)
			anyIsClean := false
			for _, n := range cleanOutcomes {
				if n == "AnyType" {
					anyIsClean = true
				}
			}
			switch {
			case hasAny && anyIsClean:
				c.ok(construct, tas[0].Pos(), "AnyType is tested and its outcome is free of diagnostics (outcomes with diagnostics: "+strings.Join(diagOutcomes, ", ")+fmt.Sprintf("; default=%v)", defaultDiag))
			case hasAny:
				c.bad(construct, tas[0].Pos(), "the outcome for AnyType itself leads to a diagnostic")
			case !defaultDiag:
				// no default diagnostic: an `any` value falls through without a report
				c.ok(construct, tas[0].Pos(), "only specific types are diagnosed ("+strings.Join(diagOutcomes, ", ")+"); an `any` value falls through without a diagnostic")
			default:
				c.bad(construct, tas[0].Pos(), "a value of a type other than the listed ones is diagnosed and AnyType is not among the accepted cases: an expression whose type is unknown is reported")
			}
		}
	}
}

func describeTested(v ssa.Value) string {
	switch x := v.(type) {
	case *ssa.Call:
		if f := staticCallee(&x.Call); f != nil {
			return "result of " + FuncName(f)
		}
		if x.Call.IsInvoke() {
			return "result of " + x.Call.Method.Name()
		}
	case *ssa.Parameter:
		return "parameter " + x.Name()
	case *ssa.UnOp:
		if fa, ok := x.X.(*ssa.FieldAddr); ok {
			return "field " + fieldAddrName(fa)
		}
	case *ssa.Phi:
		return "variable " + x.Comment
	case *ssa.Extract:
		return "tuple element"
	case *ssa.Lookup:
		return "map element"
	}
	return "value"
}

func runC06Assign(c *Ctx) {
	p := c.P
	for _, fn := range p.Funcs {
		if fn.Parent() != nil || fn.Signature.Recv() == nil {
			continue
		}
		recv := typeStr(fn.Signature.Recv().Type())
		switch fn.Name() {
		case "Assignable":
			if len(fn.Params) != 2 || typeStr(fn.Params[1].Type()) != "ExprType" {
				continue
			}
			construct := "(" + recv + ").Assignable|accepts any"
			// either returns the constant true everywhere, or the outcome for AnyType returns the constant true
			allTrue := true
			for _, b := range fn.Blocks {
				if ret, ok := b.Instrs[len(b.Instrs)-1].(*ssa.Return); ok {
					if k, ok := ret.Results[0].(*ssa.Const); !ok || k.Value == nil || k.Value.String() != "true" {
						allTrue = false
					}
				}
			}
			if allTrue {
				c.ok(construct, fn.Pos(), "returns true unconditionally")
				continue
			}
			okAny := false
			eachInstr(fn, func(_ *ssa.BasicBlock, _ int, in ssa.Instruction) {
				ta, ok := in.(*ssa.TypeAssert)
				if !ok || !ta.CommaOk || ta.X != fn.Params[1] || typeStr(ta.AssertedType) != "AnyType" {
					return
				}
				for _, ref := range *ta.Referrers() {
					if ex, ok := ref.(*ssa.Extract); ok && ex.Index == 1 {
						for _, r2 := range *ex.Referrers() {
							if ifi, ok := r2.(*ssa.If); ok {
								t := ifi.Block().Succs[0]
								// follow to the return
								for i := 0; i < 3 && t != nil; i++ {
									if ret, ok := t.Instrs[len(t.Instrs)-1].(*ssa.Return); ok {
										if k, ok := ret.Results[0].(*ssa.Const); ok && k.Value != nil && k.Value.String() == "true" {
											okAny = true
										}
										break
									}
									if len(t.Succs) == 1 {
										t = t.Succs[0]
									} else {
										break
									}
								}
							}
						}
					}
				}
			})
			// every return an AnyType argument can reach yields true
			for _, ret := range anyPathReturns(fn, fn.Params[1]) {
				if k, ok := ret.Results[0].(*ssa.Const); !ok || k.Value == nil || k.Value.String() != "true" {
					okAny = false
				}
			}
			if okAny {
				c.ok(construct, fn.Pos(), "the case for AnyType returns true")
			} else {
				c.bad(construct, fn.Pos(), "a value of type any is not assignable to "+recv+": making a type less precise introduces a diagnostic")
			}
		case "Merge":
			if len(fn.Params) != 2 || typeStr(fn.Params[1].Type()) != "ExprType" {
				continue
			}
			construct := "(" + recv + ").Merge|falls back to any"
			// the default outcome (no listed type matched) returns AnyType{} (or the receiver for AnyType itself)
			okDefault := false
			for _, b := range fn.Blocks {
				ret, ok := b.Instrs[len(b.Instrs)-1].(*ssa.Return)
				if !ok {
					continue
				}
				if mi, ok := ret.Results[0].(*ssa.MakeInterface); ok && typeStr(mi.X.Type()) == "AnyType" {
					okDefault = true
				}
			}
			// ... and that outcome is the one an AnyType argument takes: every return reachable with an argument of type
			// any yields AnyType (or hands the argument back)
			anyKept := ""
			for _, ret := range anyPathReturns(fn, fn.Params[1]) {
				r := ret.Results[0]
				if mi, ok := r.(*ssa.MakeInterface); ok && typeStr(mi.X.Type()) == "AnyType" {
					continue
				}
				if r == ssa.Value(fn.Params[1]) {
					continue
				}
				anyKept = p.Pos(ret.Pos())
			}
			if okDefault && anyKept != "" {
				c.bad(construct, fn.Pos(), "merging with a value of type any yields a specific type (return at "+anyKept+"): replacing a type by any makes the merged type more specific, and uses the other type allowed are reported")
			} else if okDefault {
				c.ok(construct, fn.Pos(), "some outcome (conflict/default) yields AnyType")
			} else {
				c.bad(construct, fn.Pos(), "no outcome of Merge yields AnyType: conflicting types are not widened to any")
			}
		}
	}
}

// C06.LOOSE: where a scope object is built from expressions, the outcome for a non-object (any) type must
// open the object (Loose / NewEmptyObjectType), never leave it strict.
func runC06Loose(c *Ctx) {
	p := c.P
	cm := p.Method("RuleExpression", "checkMatrix")
	if cm == nil {
		c.anchorMissing("(*RuleExpression).checkMatrix")
		return
	}
	// every comma-ok assertion of a Merge result to *ObjectType: the failure edge must reach Loose() or a loose constructor
	occ := 0
	eachInstr(cm, func(_ *ssa.BasicBlock, _ int, in ssa.Instruction) {
		ta, ok := in.(*ssa.TypeAssert)
		if !ok || !ta.CommaOk || !strings.HasSuffix(typeStr(ta.AssertedType), "ObjectType") {
			return
		}
		call, ok := ta.X.(*ssa.Call)
		if !ok || !(call.Call.IsInvoke() && call.Call.Method.Name() == "Merge" || staticCallee(&call.Call) != nil && staticCallee(&call.Call).Name() == "Merge") {
			return
		}
		occ++
		construct := fmt.Sprintf("(*RuleExpression).checkMatrix|merge with an expression's type#%d", occ)
		for _, ref := range *ta.Referrers() {
			ex, ok := ref.(*ssa.Extract)
			if !ok || ex.Index != 1 {
				continue
			}
			for _, r2 := range *ex.Referrers() {
				ifi, ok := r2.(*ssa.If)
				if !ok {
					continue
				}
				fail := ifi.Block().Succs[1]
				opened := false
				// blocks reachable from the failure edge until the join: look for Loose() or a loose constructor in blocks dominated by it
				for _, blk := range cm.Blocks {
					if blk == fail || (len(fail.Preds) == 1 && fail.Dominates(blk)) {
						for _, i2 := range blk.Instrs {
							if c2, ok := i2.(ssa.CallInstruction); ok {
								if f := staticCallee(c2.Common()); f != nil {
									switch FuncName(f) {
									case "(*ObjectType).Loose", "NewEmptyObjectType":
										opened = true
									}
								}
							}
						}
					}
				}
				if opened {
					c.ok(construct, ta.Pos(), "when the merged type is not an object (e.g. any) the matrix object is opened")
				} else {
					c.bad(construct, ta.Pos(), "when the type of an include expression is not an object (e.g. any) the matrix stays strict: references to keys it may define are reported")
				}
			}
		}
	})
	if occ == 0 {
		c.undecided("(*RuleExpression).checkMatrix|merge with an expression's type", cm.Pos(), "no merge of an expression's type found")
	}
	// when the whole include section is an expression, the strict object built from the rows is never returned as is
	nret := 0
	for _, b := range cm.Blocks {
		ret, ok := b.Instrs[len(b.Instrs)-1].(*ssa.Return)
		if !ok {
			continue
		}
		underExpr := false
		for ifi, outcome := range controllingConds(b) {
			if v, nilSucc, ok := nilTest(ifi); ok {
				if f, _ := fieldLoad(v); f == "MatrixCombinations.Expression" && (nilSucc == 0) != outcome {
					underExpr = true
				}
			}
		}
		if !underExpr {
			continue
		}
		nret++
		construct := fmt.Sprintf("(*RuleExpression).checkMatrix|result when include is an expression#%d", nret)
		strict := false
		for _, k := range scopeCtors(p, ret.Results[0], 0, map[ssa.Value]bool{}) {
			if k == "NewEmptyStrictObjectType" {
				strict = true
			}
		}
		if strict {
			c.bad(construct, ret.Pos(), "the closed object built from the literal rows is returned although the include section is an expression whose keys are unknown: references to keys it may add are reported")
		} else {
			c.ok(construct, ret.Pos(), "the merged or an open object")
		}
	}
	if nret == 0 {
		c.undecided("(*RuleExpression).checkMatrix|result when include is an expression", cm.Pos(), "no return under `Include.Expression != nil`")
	}
}

// ---- C06.OPEN ----

// A failed lookup of a property in ObjectType.Props may only lead to a diagnostic for a strict object.
func runC06Open(c *Ctx) {
	p := c.P
	occ := map[string]int{}
	for _, fn := range p.Funcs {
		file := p.File(fn.Pos())
		if !strings.HasSuffix(file, "/expr_sema.go") && !strings.HasSuffix(file, "/rule_expression.go") {
			continue
		}
		eachInstr(fn, func(b *ssa.BasicBlock, _ int, in ssa.Instruction) {
			if !emitsDiag(in) {
				return
			}
			conds := controllingConds(b)
			failedLookup, strict := false, false
			for ifi, outcome := range conds {
				switch cnd := ifi.Cond.(type) {
				case *ssa.Extract:
					if lk, ok := cnd.Tuple.(*ssa.Lookup); ok && cnd.Index == 1 && !outcome {
						if ld, ok := lk.X.(*ssa.UnOp); ok {
							if fa, ok := ld.X.(*ssa.FieldAddr); ok && fieldAddrName(fa) == "ObjectType.Props" {
								failedLookup = true
							}
						}
					}
				case *ssa.Call:
					if f := staticCallee(&cnd.Call); f != nil && FuncName(f) == "(*ObjectType).IsStrict" && outcome {
						strict = true
					}
				}
			}
			if !failedLookup {
				return
			}
			k := FuncName(fn) + "|diagnostic after a failed property lookup"
			occ[k]++
			construct := fmt.Sprintf("%s#%d", k, occ[k])
			if strict {
				c.ok(construct, in.Pos(), "only reported when IsStrict() holds for the object")
			} else {
				c.bad(construct, in.Pos(), "an undefined property is reported without testing that the object is strict: an open object (Mapped != nil or loose) gets a diagnostic")
			}
		})
	}
	// IsStrict itself: the value of Mapped == nil on every return, with nothing else combined in
	is := p.Method("ObjectType", "IsStrict")
	if is == nil {
		c.anchorMissing("(*ObjectType).IsStrict")
		return
	}
	mappedOf := func(v ssa.Value, recv ssa.Value) bool {
		ld, ok := v.(*ssa.UnOp)
		if !ok || ld.Op != token.MUL {
			return false
		}
		fa, ok := ld.X.(*ssa.FieldAddr)
		return ok && fa.X == recv && fieldAddrName(fa) == "ObjectType.Mapped"
	}
	mappedIsNil := func(v ssa.Value, recv ssa.Value) (match, negated bool) {
		bo, ok := v.(*ssa.BinOp)
		if !ok || (bo.Op != token.EQL && bo.Op != token.NEQ) {
			return false, false
		}
		if (isNilConst(bo.Y) && mappedOf(bo.X, recv)) || (isNilConst(bo.X) && mappedOf(bo.Y, recv)) {
			return true, bo.Op == token.NEQ
		}
		return false, false
	}
	if other := returnsOtherThan(p, is, mappedIsNil, 0); len(other) == 0 {
		c.ok("(*ObjectType).IsStrict|definition", is.Pos(), "every return yields the value of Mapped == nil")
	} else {
		c.bad("(*ObjectType).IsStrict|definition", is.Pos(), "IsStrict is no longer exactly `Mapped == nil`: "+strings.Join(other, "; ")+": an object is taken for strict (or open) by something other than its Mapped type")
	}
	// IsLoose: the object is open to any property exactly when Mapped is AnyType
	if il := p.Method("ObjectType", "IsLoose"); il != nil {
		mappedIsAny := func(v ssa.Value, recv ssa.Value) (match, negated bool) {
			ex, ok := v.(*ssa.Extract)
			if !ok || ex.Index != 1 {
				return false, false
			}
			ta, ok := ex.Tuple.(*ssa.TypeAssert)
			if !ok || !ta.CommaOk || typeStr(ta.AssertedType) != "AnyType" || !mappedOf(ta.X, recv) {
				return false, false
			}
			return true, false
		}
		if other := returnsOtherThan(p, il, mappedIsAny, 0); len(other) == 0 {
			c.ok("(*ObjectType).IsLoose|definition", il.Pos(), "every return yields whether Mapped is AnyType")
		} else {
			c.bad("(*ObjectType).IsLoose|definition", il.Pos(), "IsLoose is no longer exactly `Mapped is AnyType`: "+strings.Join(other, "; "))
		}
	}
}

// returnsOtherThan: the returns of fn (a method with one boolean result) whose value is not exactly the value of the
// condition that `is` recognises on the receiver (match; negated when the value is its opposite). A constant is the
// value of the condition where the condition decided the branch; a phi is judged edge by edge; a call of another method
// on the same receiver is followed.
func returnsOtherThan(p *Prog, fn *ssa.Function, is func(v ssa.Value, recv ssa.Value) (match, negated bool), depth int) []string {
	if len(fn.Blocks) == 0 || len(fn.Params) == 0 {
		return []string{fn.Name() + " has no body"}
	}
	recv := ssa.Value(fn.Params[0])
	pos := func(b *ssa.BasicBlock) string {
		for i := len(b.Instrs) - 1; i >= 0; i-- {
			if at := b.Instrs[i].Pos(); at.IsValid() {
				return p.Pos(at)
			}
		}
		return fn.Name()
	}
	// decided: the conditions on the receiver whose outcome is known at the end of block b (with the value of the condition)
	decided := func(b *ssa.BasicBlock, viaSucc *ssa.BasicBlock) (known, val bool) {
		conds := controllingConds(b)
		if viaSucc != nil {
			if ifi, ok := b.Instrs[len(b.Instrs)-1].(*ssa.If); ok && b.Succs[0] != b.Succs[1] {
				conds[ifi] = b.Succs[0] == viaSucc
			}
		}
		for ifi, outcome := range conds {
			cond, flip := ifi.Cond, false
			for {
				u, ok := cond.(*ssa.UnOp)
				if !ok || u.Op != token.NOT {
					break
				}
				cond, flip = u.X, !flip
			}
			if m, neg := is(cond, recv); m {
				return true, outcome != (neg != flip)
			}
		}
		return false, false
	}
	var out []string
	var judge func(v ssa.Value, b *ssa.BasicBlock, viaSucc *ssa.BasicBlock, negate bool, seen map[ssa.Value]bool)
	judge = func(v ssa.Value, b *ssa.BasicBlock, viaSucc *ssa.BasicBlock, negate bool, seen map[ssa.Value]bool) {
		if m, neg := is(v, recv); m {
			if neg != negate {
				out = append(out, "the opposite is returned at "+pos(b))
			}
			return
		}
		switch x := v.(type) {
		case *ssa.UnOp:
			if x.Op == token.NOT {
				judge(x.X, b, viaSucc, !negate, seen)
				return
			}
		case *ssa.Const:
			if x.Value != nil && x.Value.Kind() == constant.Bool {
				if known, val := decided(b, viaSucc); known && val == (constant.BoolVal(x.Value) != negate) {
					return
				}
				out = append(out, x.Value.String()+" is returned at "+pos(b)+" on a path that the condition did not decide that way")
				return
			}
		case *ssa.Phi:
			if seen[x] {
				return
			}
			seen[x] = true
			for i, e := range x.Edges {
				judge(e, x.Block().Preds[i], x.Block(), negate, seen)
			}
			return
		case *ssa.Call:
			g := staticCallee(&x.Call)
			if g != nil && inModule(g) && depth < 2 && len(x.Call.Args) > 0 && x.Call.Args[0] == recv && g.Signature.Recv() != nil && g.Signature.Results().Len() == 1 && !negate {
				out = append(out, returnsOtherThan(p, g, is, depth+1)...)
				return
			}
		}
		out = append(out, "a value that combines or replaces the condition is returned at "+pos(b))
	}
	for _, b := range fn.Blocks {
		ret, ok := b.Instrs[len(b.Instrs)-1].(*ssa.Return)
		if !ok {
			continue
		}
		if len(ret.Results) != 1 {
			out = append(out, "not a single result at "+pos(b))
			continue
		}
		judge(ret.Results[0], b, nil, false, map[ssa.Value]bool{})
	}
	return out
}

// ---- C06.CMP ----

// The operand check of comparison operators is a finite table over (operator, kind of left, kind of right). The table is
// extracted from the control-flow graph by evaluating the type tests for each combination of kinds, and it must be
// monotone: an accepted (l, r) stays accepted when l or r is replaced by any.
var exprKinds = []string{"AnyType", "NullType", "NumberType", "BoolType", "StringType", "*ObjectType", "*ArrayType"}

func runC06Cmp(c *Ctx) {
	p := c.P
	fn := p.Func("validateCompareOpOperands")
	if fn == nil {
		c.anchorMissing("validateCompareOpOperands")
		return
	}
	if len(fn.Params) != 3 {
		c.undecided("validateCompareOpOperands|signature", fn.Pos(), "unexpected signature")
		return
	}
	// operator constants
	opT := fn.Params[0].Type()
	type opc struct {
		name string
		val  int64
	}
	var ops []opc
	scope := p.Main.Types.Scope()
	for _, n := range scope.Names() {
		if k, ok := scope.Lookup(n).(*types.Const); ok && types.Identical(k.Type(), opT) {
			if v, ok := constantInt(k); ok {
				ops = append(ops, opc{n, v})
			}
		}
	}
	if len(ops) < 6 {
		c.undecided("validateCompareOpOperands|operators", fn.Pos(), fmt.Sprintf("only %d operator constants found", len(ops)))
		return
	}
	// roles of values: 0 the operator, 1 the left operand type, 2 the right operand type. A return that hands the decision
	// to another function of the module (`return validateEqualityOpOperands(l, r)`) is followed with the roles of the
	// arguments; a call of a function that is already being evaluated is the recursion into element types.
	var evalIn func(f *ssa.Function, bind map[ssa.Value]int, stack []*ssa.Function, op int64, lk, rk string) string
	evalIn = func(f *ssa.Function, bind map[ssa.Value]int, stack []*ssa.Function, op int64, lk, rk string) string {
		if len(f.Blocks) == 0 {
			return "?"
		}
		roleOf := func(v ssa.Value) int {
			if r, ok := bind[v]; ok {
				return r
			}
			return -1
		}
		b := f.Blocks[0]
		for steps := 0; steps < 500; steps++ {
			last := b.Instrs[len(b.Instrs)-1]
			switch t := last.(type) {
			case *ssa.Return:
				if len(t.Results) != 1 {
					return "?"
				}
				switch r := t.Results[0].(type) {
				case *ssa.Const:
					if r.Value != nil {
						return r.Value.String()
					}
				case *ssa.Call:
					g := staticCallee(&r.Call)
					if g == nil {
						return "?"
					}
					if g == f {
						return "rec"
					}
					for _, s := range stack {
						if s == g {
							return "rec"
						}
					}
					if inModule(g) && len(stack) < 3 && len(g.Params) == len(r.Call.Args) {
						bind2 := map[ssa.Value]int{}
						for i, a := range r.Call.Args {
							if ro := roleOf(a); ro >= 0 {
								bind2[g.Params[i]] = ro
							}
						}
						return evalIn(g, bind2, append(stack, f), op, lk, rk)
					}
				}
				return "?"
			case *ssa.Panic:
				return "panic"
			case *ssa.Jump:
				b = b.Succs[0]
			case *ssa.If:
				var res *bool
				set := func(v bool) { res = &v }
				switch cnd := t.Cond.(type) {
				case *ssa.Extract:
					if ta, ok := cnd.Tuple.(*ssa.TypeAssert); ok && cnd.Index == 1 {
						switch roleOf(ta.X) {
						case 1:
							set(typeStr(ta.AssertedType) == lk)
						case 2:
							set(typeStr(ta.AssertedType) == rk)
						}
					}
				case *ssa.BinOp:
					if cnd.Op == token.EQL || cnd.Op == token.NEQ {
						var k *ssa.Const
						if roleOf(cnd.X) == 0 {
							k, _ = cnd.Y.(*ssa.Const)
						} else if roleOf(cnd.Y) == 0 {
							k, _ = cnd.X.(*ssa.Const)
						}
						if k != nil {
							if v, ok := constInt(k); ok {
								set((v == op) == (cnd.Op == token.EQL))
							}
						}
					}
				}
				if res == nil {
					return "?"
				}
				if *res {
					b = b.Succs[0]
				} else {
					b = b.Succs[1]
				}
			default:
				return "?"
			}
		}
		return "?"
	}
	eval := func(op int64, lk, rk string) string {
		return evalIn(fn, map[ssa.Value]int{fn.Params[0]: 0, fn.Params[1]: 1, fn.Params[2]: 2}, nil, op, lk, rk)
	}
	for _, op := range ops {
		tbl := map[[2]string]string{}
		for _, l := range exprKinds {
			for _, r := range exprKinds {
				tbl[[2]string{l, r}] = eval(op.val, l, r)
			}
		}
		for _, l := range exprKinds {
			for _, r := range exprKinds {
				v := tbl[[2]string{l, r}]
				construct := fmt.Sprintf("validateCompareOpOperands|%s(%s, %s)", op.name, l, r)
				switch v {
				case "?", "panic":
					c.undecided(construct, fn.Pos(), "the table entry could not be evaluated from the control-flow graph: "+v)
				case "false":
					// nothing to show: rejected combinations may become accepted
				case "true", "rec":
					la, ra := tbl[[2]string{"AnyType", r}], tbl[[2]string{l, "AnyType"}]
					if la == "true" && ra == "true" {
						c.ok(construct, fn.Pos(), "accepted, and still accepted when either operand is any")
					} else {
						c.bad(construct, fn.Pos(), fmt.Sprintf("accepted, but with the left operand any the result is %s and with the right operand any it is %s: loosening a type introduces a comparison diagnostic", la, ra))
					}
				}
			}
		}
	}
}

func constantInt(k *types.Const) (int64, bool) {
	s := k.Val().ExactString()
	var v int64
	if _, err := fmt.Sscanf(s, "%d", &v); err != nil {
		return 0, false
	}
	return v, true
}

func isBoolType(t types.Type) bool {
	b, ok := t.Underlying().(*types.Basic)
	return ok && b.Info()&types.IsBoolean != 0
}

// flagDiagValue: for a boolean variable (a web of phis) tested by an If, the value whose branch emits a diagnostic.
func flagDiagValue(fn *ssa.Function, phi *ssa.Phi, leads func(*ssa.BasicBlock) bool) (bool, bool) {
	web := map[ssa.Value]bool{phi: true}
	for changed := true; changed; {
		changed = false
		for _, b := range fn.Blocks {
			for _, in := range b.Instrs {
				ph, ok := in.(*ssa.Phi)
				if !ok {
					break
				}
				in2 := web[ph]
				for _, e := range ph.Edges {
					if web[e] && !in2 {
						web[ph] = true
						in2 = true
						changed = true
					}
				}
				if in2 {
					for _, e := range ph.Edges {
						if p2, ok := e.(*ssa.Phi); ok && !web[p2] {
							web[p2] = true
							changed = true
						}
					}
				}
			}
		}
	}
	for _, b := range fn.Blocks {
		ifi, ok := b.Instrs[len(b.Instrs)-1].(*ssa.If)
		if !ok {
			continue
		}
		cond, neg := ifi.Cond, false
		if u, ok := cond.(*ssa.UnOp); ok && u.Op == token.NOT {
			cond, neg = u.X, true
		}
		if !web[cond] {
			continue
		}
		t, f := leads(b.Succs[0]), leads(b.Succs[1])
		if t == f {
			continue
		}
		// value of the variable on the branch with the diagnostic
		v := t
		if neg {
			v = !v
		}
		return v, true
	}
	return false, false
}

// ---- C19.CAND ----

// The candidate values of a matrix key are the row values plus the include assignments that are not structurally equal to a
// value already present; an exclude value is compared candidate-first with the subset test; an unknown key is reported iff
// the key has no candidates.
func runC19Cand(c *Ctx) {
	p := c.P
	top := p.Method("RuleMatrix", "checkExclude")
	if top == nil {
		c.anchorMissing("(*RuleMatrix).checkExclude")
		return
	}
	// checkExclude and the functions of the module it calls: the table of candidates may be built in one of them and
	// consulted in another (the function split into "collect the candidates" and "check the exclude entries")
	scope := p.withHelpers(top, 1)
	fn := top // the function that builds the table
	for _, f := range scope {
		eachInstr(f, func(_ *ssa.BasicBlock, _ int, in ssa.Instruction) {
			if mu, ok := in.(*ssa.MapUpdate); ok {
				if rf, idx := rangePart(mu.Key); rf == "Matrix.Rows" && idx == 1 {
					fn = f
				}
			}
		})
	}
	// the candidate table: the map updated with Matrix.Rows keys
	var rows ssa.Value
	eachInstr(fn, func(_ *ssa.BasicBlock, _ int, in ssa.Instruction) {
		if mu, ok := in.(*ssa.MapUpdate); ok {
			if rf, idx := rangePart(mu.Key); rf == "Matrix.Rows" && idx == 1 {
				if f, _ := fieldLoad(mu.Value); f == "MatrixRow.Values" {
					rows = mu.Map
					// only for rows without an expression
					okGuard := false
					for ifi, outcome := range controllingConds(mu.Block()) {
						if v, nilSucc, ok := nilTest(ifi); ok {
							if f, _ := fieldLoad(v); f == "MatrixRow.Expression" && (nilSucc == 0) == outcome {
								okGuard = true
							}
						}
					}
					if okGuard {
						c.ok("(*RuleMatrix).checkExclude|row values are candidates", mu.Pos(), "rows[key] = literal values, for rows that are not an expression")
					} else {
						c.bad("(*RuleMatrix).checkExclude|row values are candidates", mu.Pos(), "row values are entered without testing that the row is literal")
					}
				}
			}
		}
	})
	if rows == nil {
		c.bad("(*RuleMatrix).checkExclude|row values are candidates", fn.Pos(), "the candidate table is not filled from the matrix rows")
		return
	}
	// include: the append of an assignment's value
	var apd *ssa.Call
	eachInstr(fn, func(_ *ssa.BasicBlock, _ int, in ssa.Instruction) {
		call, ok := in.(*ssa.Call)
		if !ok {
			return
		}
		if bi, ok := call.Call.Value.(*ssa.Builtin); !ok || bi.Name() != "append" {
			return
		}
		lk, ok := call.Call.Args[0].(*ssa.Lookup)
		if !ok || lk.X != rows {
			return
		}
		if rf, idx := rangePart(lk.Index); rf == "MatrixCombination.Assigns" && idx == 1 {
			apd = call
		}
	})
	if apd == nil {
		c.bad("(*RuleMatrix).checkExclude|include values are candidates", fn.Pos(), "include assignments are not appended to the candidates of their key")
	} else {
		// the loop over the assignments of one include entry
		var hdr *ssa.BasicBlock
		if lk, ok := apd.Call.Args[0].(*ssa.Lookup); ok {
			if ex, ok := lk.Index.(*ssa.Extract); ok {
				hdr = ex.Tuple.(*ssa.Next).Block()
			}
		}
		fromHdr := reachableBlocks([]*ssa.BasicBlock{hdr}, nil)
		var bad []string
		nEq := 0
		for _, b := range fn.Blocks {
			if !fromHdr[b] || !reachableBlocks(b.Succs, nil)[hdr] {
				continue
			}
			// only blocks that can still reach the append or skip it (inside the loop)
			ifi, ok := b.Instrs[len(b.Instrs)-1].(*ssa.If)
			if !ok {
				continue
			}
			// restrict to the include loop: the block is dominated by the header of this loop
			if !hdr.Dominates(b) {
				continue
			}
			switch cnd := ifi.Cond.(type) {
			case *ssa.Extract:
				if _, ok := cnd.Tuple.(*ssa.Next); ok {
					continue
				}
				if lk, ok := cnd.Tuple.(*ssa.Lookup); ok {
					if _, isMake := lk.X.(*ssa.MakeMap); isMake {
						continue // the set of keys whose row is an expression
					}
				}
				bad = append(bad, "a test at "+p.Pos(ifi.Pos()))
			case *ssa.BinOp:
				if isRangeIndexCond(cnd) || isCountedLoopCond(b, cnd) {
					continue
				}
				bad = append(bad, "a comparison at "+p.Pos(cnd.Pos()))
			case *ssa.Call:
				if cnd.Call.IsInvoke() && cnd.Call.Method.Name() == "Equals" {
					if f, _ := fieldLoad(cnd.Call.Args[0]); f == "MatrixAssign.Value" {
						nEq++
						// an equal value is what is left out: the append is not reached from the true edge of the test
						// within the same iteration over the assignments
						if reachableBlocks([]*ssa.BasicBlock{b.Succs[0]}, map[*ssa.BasicBlock]bool{hdr: true})[apd.Block()] {
							bad = append(bad, "the value is appended when it Equals() a present value (test at "+p.Pos(cnd.Pos())+")")
						}
						if !reachableBlocks([]*ssa.BasicBlock{b.Succs[1]}, map[*ssa.BasicBlock]bool{hdr: true})[apd.Block()] {
							bad = append(bad, "the value is not appended when it differs from a present value (test at "+p.Pos(cnd.Pos())+")")
						}
						continue
					}
				}
				bad = append(bad, describeCall(cnd)+" at "+p.Pos(cnd.Pos()))
			default:
				bad = append(bad, "a condition at "+p.Pos(ifi.Pos()))
			}
		}
		sort.Strings(bad)
		switch {
		case len(bad) > 0:
			c.bad("(*RuleMatrix).checkExclude|include values are candidates", apd.Pos(), "an include value is left out of the candidates for a reason other than being structurally equal to a present value or belonging to an expression row: "+strings.Join(bad, "; "))
		case nEq == 0:
			c.bad("(*RuleMatrix).checkExclude|include values are candidates", apd.Pos(), "no structural equality test before adding an include value")
		default:
			c.ok("(*RuleMatrix).checkExclude|include values are candidates", apd.Pos(), "appended unless Equals() an existing candidate or the row is an expression")
		}
	}
	// the values that denote the table in each function of the scope: the map itself where it is built, the result of the
	// builder where it is called, the parameter of a function that is handed one of those
	isRows := map[ssa.Value]bool{rows: true}
	if fn != top {
		k := -1
		for _, b := range fn.Blocks {
			if ret, ok := b.Instrs[len(b.Instrs)-1].(*ssa.Return); ok {
				for i, r := range ret.Results {
					if r == rows {
						k = i
					}
				}
			}
		}
		// the builder may return the table as a field of a struct it composes (`return candidates{rows: rows, ...}`): the
		// field index the table is stored in, for a struct that is a single result
		fld := -1
		if k < 0 && fn.Signature.Results().Len() == 1 {
			eachInstr(fn, func(_ *ssa.BasicBlock, _ int, in ssa.Instruction) {
				st, ok := in.(*ssa.Store)
				if !ok || st.Val != rows {
					return
				}
				fa, ok := st.Addr.(*ssa.FieldAddr)
				if !ok {
					return
				}
				al, ok := fa.X.(*ssa.Alloc)
				if !ok {
					return
				}
				for _, ref := range *al.Referrers() {
					if ld, ok := ref.(*ssa.UnOp); ok && ld.Op == token.MUL {
						for _, r2 := range *ld.Referrers() {
							if _, ok := r2.(*ssa.Return); ok {
								fld = fa.Field
							}
						}
					}
				}
			})
			if fld >= 0 {
				for _, call := range findCalls(top, FuncName(fn)) {
					if cv, ok := call.(*ssa.Call); ok {
						for _, ref := range *cv.Referrers() {
							if f, ok := ref.(*ssa.Field); ok && f.Field == fld {
								isRows[f] = true
							}
							// the result kept in a local of the caller: loads of that field of the local
							if st, ok := ref.(*ssa.Store); ok && st.Val == ssa.Value(cv) {
								if al, ok := st.Addr.(*ssa.Alloc); ok && onlyStore(al, st) {
									for _, r2 := range *al.Referrers() {
										if fa, ok := r2.(*ssa.FieldAddr); ok && fa.Field == fld {
											for _, r3 := range *fa.Referrers() {
												if ld, ok := r3.(*ssa.UnOp); ok && ld.Op == token.MUL {
													isRows[ld] = true
												}
											}
										}
									}
								}
							}
						}
					}
				}
			}
		}
		for _, call := range findCalls(top, FuncName(fn)) {
			cv, ok := call.(*ssa.Call)
			if !ok || k < 0 {
				continue
			}
			if fn.Signature.Results().Len() == 1 {
				isRows[cv] = true
			}
			for _, ref := range *cv.Referrers() {
				if ex, ok := ref.(*ssa.Extract); ok && ex.Index == k {
					isRows[ex] = true
				}
			}
		}
	}
	for _, f := range scope {
		for _, e := range p.callersOf(f) {
			if e.Site == nil || e.Site.Common().IsInvoke() {
				continue
			}
			off := 0
			for i, a := range e.Site.Common().Args {
				if isRows[a] && i+off < len(f.Params) {
					isRows[f.Params[i+off]] = true
				}
			}
		}
	}
	// exclude: subset test candidate-first
	nSub := 0
	var subCalls []ssa.CallInstruction
	for _, f := range scope {
		if FuncName(f) == "isYAMLValueSubset" {
			continue // its recursive calls compare parts of a candidate with parts of an exclude value
		}
		subCalls = append(subCalls, findCalls(f, "isYAMLValueSubset")...)
	}
	for _, call := range subCalls {
		nSub++
		a := call.Common().Args
		ci, fi := subsetParamRoles(p.Func("isYAMLValueSubset"))
		f1, _ := fieldLoad(a[fi])
		fromRow := false
		if ld, ok := a[ci].(*ssa.UnOp); ok {
			if ia, ok := ld.X.(*ssa.IndexAddr); ok {
				if ex, ok := ia.X.(*ssa.Extract); ok {
					if lk, ok := ex.Tuple.(*ssa.Lookup); ok && isRows[lk.X] {
						fromRow = true
					}
				}
				if lk, ok := ia.X.(*ssa.Lookup); ok && isRows[lk.X] {
					fromRow = true
				}
			}
		}
		if fromRow && f1 == "MatrixAssign.Value" {
			c.ok("(*RuleMatrix).checkExclude|exclude value against candidates", call.Pos(), "isYAMLValueSubset(candidate, exclude value)")
		} else {
			c.bad("(*RuleMatrix).checkExclude|exclude value against candidates", call.Pos(), "the subset test is not applied as (candidate, exclude value)")
		}
	}
	if nSub == 0 {
		c.bad("(*RuleMatrix).checkExclude|exclude value against candidates", fn.Pos(), "exclude values are not matched with the subset test")
	}
	for _, call := range subCalls {
		c19ExcludeVerdict(c, call)
	}
	// unknown key
	okUnknown := false
	var errCalls []ssa.CallInstruction
	for _, f := range scope {
		errCalls = append(errCalls, findCalls(f, "(*RuleBase).Errorf")...)
	}
	for _, call := range errCalls {
		for ifi, outcome := range controllingConds(call.Block()) {
			if ex, ok := ifi.Cond.(*ssa.Extract); ok && ex.Index == 1 && !outcome {
				if lk, ok := ex.Tuple.(*ssa.Lookup); ok && isRows[lk.X] {
					if f, _ := fieldLoad(call.Common().Args[1]); f == "String.Pos" {
						okUnknown = true
					}
				}
			}
		}
	}
	if okUnknown {
		c.ok("(*RuleMatrix).checkExclude|unknown key", fn.Pos(), "reported at the key iff the key has no candidates")
	} else {
		c.bad("(*RuleMatrix).checkExclude|unknown key", fn.Pos(), "an exclude key without candidates is not reported at the key")
	}
}

// isCountedLoopCond: the condition of a hand-written counted loop `for i := 0; i < len(x); i++` at its header: a counter
// of that header compared with a length. Like the implicit index of a range loop it says nothing about the elements.
func isCountedLoopCond(b *ssa.BasicBlock, cnd *ssa.BinOp) bool {
	if cnd.Op != token.LSS {
		return false
	}
	ph, ok := cnd.X.(*ssa.Phi)
	if !ok || ph.Block() != b {
		return false
	}
	isHeader := false
	for _, h := range loopHeaders(b.Parent()) {
		if h == b {
			isHeader = true
		}
	}
	if !isHeader {
		return false
	}
	call, ok := cnd.Y.(*ssa.Call)
	if !ok {
		return false
	}
	bi, ok := call.Call.Value.(*ssa.Builtin)
	return ok && bi.Name() == "len"
}

// subsetParamRoles: which parameter of isYAMLValueSubset is the candidate value and which the filter (the exclude value):
// the filter is the one the function tests first for being a string that contains an expression. Found by that use, so
// that swapping the parameters does not confuse the rules.
func subsetParamRoles(sub *ssa.Function) (cand, filter int) {
	cand, filter = 0, 1
	if sub == nil || len(sub.Params) != 2 || len(sub.Blocks) == 0 {
		return
	}
	if ifi, ok := sub.Blocks[0].Instrs[len(sub.Blocks[0].Instrs)-1].(*ssa.If); ok {
		if ex, ok := ifi.Cond.(*ssa.Extract); ok {
			if ta, ok := ex.Tuple.(*ssa.TypeAssert); ok {
				for i, q := range sub.Params {
					if ta.X == ssa.Value(q) {
						filter, cand = i, 1-i
					}
				}
			}
		}
	}
	return
}
