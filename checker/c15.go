package main

import (
	"fmt"
	"go/token"
	"go/types"
	"sort"
	"strings"

	"golang.org/x/tools/go/ssa"
)

func init() {
	register(&Rule{ID: "C15.ROOT", Min: 1, Doc: "the path matched against `paths` globs is relative to the project root, not to the working directory", Run: runC15Root})
	register(&Rule{ID: "C15.ABSJOIN", Min: 2, Doc: "a path is joined to the working directory only when it is not absolute", Run: runC15AbsJoin})
	register(&Rule{ID: "C15.PURE", Min: 7, Doc: "filterErrors is an order-preserving filter without side effects", Run: runC15Pure})
	register(&Rule{ID: "C15.EXIT", Min: 5, Doc: "exit status table of Command.Main: 2 flag error, 0 help/version/no diagnostics, 3 fatal, 1 diagnostics", Run: runC15Exit})
	register(&Rule{ID: "C15.PAT", Min: 2, Doc: "ignore patterns are compiled and applied one by one", Run: runC15Pat})
}

func runC15Root(c *Ctx) {
	p := c.P
	pc := p.Method("Config", "PathConfigs")
	if pc == nil {
		c.anchorMissing("(*Config).PathConfigs")
		return
	}
	n := 0
	for _, e := range p.callersOf(pc) {
		if e.Site == nil || !inModule(e.Caller.Func) {
			continue
		}
		n++
		arg := e.Site.Common().Args[1]
		construct := FuncName(e.Caller.Func) + "|path given to (*Config).PathConfigs"
		// the value must (also) come from filepath.Rel whose base derives from (*Project).RootDir
		relOK, targetBad := false, false
		var raw []string
		for _, o := range p.Origins(arg, FlowOpts{MaxDepth: 8}) {
			switch o.Kind {
			case OExtern:
				if o.Name == "path/filepath.Rel" {
					call := o.Val.(*ssa.Call)
					for _, bo := range p.Origins(call.Call.Args[0], FlowOpts{MaxDepth: 6}) {
						if bo.Kind == OExtern && strings.HasSuffix(bo.Name, "absPath") {
							relOK = true
						}
						if bo.Kind == OField && bo.Field == "Project.root" {
							relOK = true
						}
					}
					// absPath(project.RootDir()): look through the in-package helper
					if rootDerived(p, call.Call.Args[0], 0) {
						relOK = true
					}
					if !relTargetIsWholePath(call.Call.Args[1], 0) {
						targetBad = true
					}
				}
			case OParam:
				raw = append(raw, FuncName(o.Fn)+" parameter "+o.Val.Name())
			}
		}
		if !relOK {
			c.bad(construct, e.Site.Pos(), "the path does not come from filepath.Rel(<project root>, ...): `paths` globs are matched against a path that depends on the working directory")
			continue
		}
		if targetBad {
			c.bad(construct, e.Site.Pos(), "what filepath.Rel makes relative to the project root is not the whole path of the file (made absolute at most): the `paths` globs are matched against something else than the file's path")
			continue
		}
		// the raw (cwd-relative) path may only be passed when there is no project or Rel failed
		bad := ""
		for _, o := range p.Origins(arg, FlowOpts{MaxDepth: 8}) {
			if o.Kind != OParam {
				continue
			}
			fn := o.Fn
			for _, b := range fn.Blocks {
				ret, ok := b.Instrs[len(b.Instrs)-1].(*ssa.Return)
				if !ok || len(ret.Results) == 0 || ret.Results[0] != o.Val {
					continue
				}
				guarded := false
				for ifi, outcome := range controllingConds(b) {
					v, nilSucc, ok := nilTest(ifi)
					if !ok {
						continue
					}
					isNilEdge := (nilSucc == 0) == outcome
					tn := typeStr(v.Type())
					if tn == "*Project" && isNilEdge {
						guarded = true
					}
					if tn == "error" && !isNilEdge {
						guarded = true
					}
				}
				// fallthrough return after `if err == nil { return r }`
				if !guarded {
					for _, pr := range b.Preds {
						if ifi, ok := pr.Instrs[len(pr.Instrs)-1].(*ssa.If); ok {
							if v, nilSucc, ok := nilTest(ifi); ok && typeStr(v.Type()) == "error" && pr.Succs[1-nilSucc] == b {
								guarded = true
							}
						}
					}
				}
				if !guarded {
					bad = "the unmodified path is returned at " + p.Pos(ret.Pos()) + " on a path where a project is known and filepath.Rel succeeded"
				}
			}
		}
		if bad != "" {
			c.bad(construct, e.Site.Pos(), bad)
		} else {
			c.ok(construct, e.Site.Pos(), "root-relative (filepath.Rel from the project root); the raw path only without a project or when Rel fails")
		}
	}
	if n == 0 {
		c.undecided("(*Config).PathConfigs|callers", pc.Pos(), "no caller")
	}
}

func rootDerived(p *Prog, v ssa.Value, depth int) bool {
	if depth > 6 {
		return false
	}
	switch x := v.(type) {
	case *ssa.Call:
		if f := staticCallee(&x.Call); f != nil {
			if FuncName(f) == "(*Project).RootDir" {
				return true
			}
			for _, a := range x.Call.Args {
				if rootDerived(p, a, depth+1) {
					return true
				}
			}
		}
	case *ssa.Phi:
		for _, e := range x.Edges {
			if rootDerived(p, e, depth+1) {
				return true
			}
		}
	case *ssa.UnOp:
		if fa, ok := x.X.(*ssa.FieldAddr); ok && fieldAddrName(fa) == "Project.root" {
			return true
		}
	}
	return false
}

func runC15AbsJoin(c *Ctx) {
	p := c.P
	occ := map[string]int{}
	for _, fn := range p.Funcs {
		eachInstr(fn, func(b *ssa.BasicBlock, _ int, in ssa.Instruction) {
			call, ok := in.(*ssa.Call)
			if !ok || calleeFullName(&call.Call) != "path/filepath.Join" {
				return
			}
			elems, ok := variadicStrings(call.Call.Args[0])
			if !ok || len(elems) < 2 {
				return
			}
			// first element derives from a `cwd` field
			fromCwd := false
			if ld, ok := elems[0].(*ssa.UnOp); ok {
				if fa, ok := ld.X.(*ssa.FieldAddr); ok && strings.HasSuffix(fieldAddrName(fa), ".cwd") {
					fromCwd = true
				}
			}
			// ... or is a parameter that every caller fills from a `cwd` field
			if prm, ok := elems[0].(*ssa.Parameter); ok && !fromCwd {
				idx := paramIndexOf(fn, prm)
				callers := p.callersOf(fn)
				all := idx >= 0 && len(callers) > 0
				for _, e := range callers {
					if e.Site == nil || e.Site.Common().IsInvoke() || idx >= len(e.Site.Common().Args) {
						all = false
						continue
					}
					if f, _ := fieldLoad(e.Site.Common().Args[idx]); !strings.HasSuffix(f, ".cwd") {
						all = false
					}
				}
				fromCwd = all
			}
			if !fromCwd {
				return
			}
			k := FuncName(fn) + "|filepath.Join(<cwd>, path)"
			occ[k]++
			construct := fmt.Sprintf("%s#%d", k, occ[k])
			// controlled by filepath.IsAbs(path) == false
			guarded := false
			for ifi, outcome := range controllingConds(b) {
				cond := ifi.Cond
				neg := false
				if un, ok := cond.(*ssa.UnOp); ok && un.Op == token.NOT {
					cond, neg = un.X, true
				}
				// `!IsAbs(p) && cwd != ""` is lowered to nested ifs; each is seen separately
				if cl, ok := cond.(*ssa.Call); ok && calleeFullName(&cl.Call) == "path/filepath.IsAbs" && sameValue(cl.Call.Args[0], elems[1]) {
					if outcome == neg {
						guarded = true
					}
				}
			}
			if guarded {
				c.ok(construct, call.Pos(), "only when filepath.IsAbs(path) is false")
			} else {
				c.bad(construct, call.Pos(), "a path is joined to the working directory without testing filepath.IsAbs first: an absolute path becomes <cwd>/<abs path> and no longer denotes the file (project-relative matching breaks for absolute arguments)")
			}
		})
	}
}

func sameValue(a, b ssa.Value) bool {
	if a == b {
		return true
	}
	// phi of the original parameter and itself etc.
	if pa, ok := b.(*ssa.Phi); ok {
		for _, e := range pa.Edges {
			if e == a {
				return true
			}
		}
	}
	if pa, ok := a.(*ssa.Phi); ok {
		for _, e := range pa.Edges {
			if e == b {
				return true
			}
		}
	}
	return false
}

// variadicStrings: elements of the []string built for a variadic call.
func variadicStrings(v ssa.Value) ([]ssa.Value, bool) {
	return variadicArgs(v)
}

func runC15Pure(c *Ctx) {
	p := c.P
	own := p.Own()
	fn := p.Method("Linter", "filterErrors")
	if fn == nil {
		c.anchorMissing("(*Linter).filterErrors")
		return
	}
	if m := own.mut[fn]; len(m) == 0 {
		c.ok("(*Linter).filterErrors|no side effect", fn.Pos(), "mutates nothing outside its own locals (log primitives aside)")
	} else {
		var at []string
		for r := range m {
			if pos, ok := own.mutWhy[fn][r]; ok {
				at = append(at, p.Pos(pos))
			}
		}
		sort.Strings(at)
		c.bad("(*Linter).filterErrors|no side effect", fn.Pos(), "mutates "+m.String()+" (at "+strings.Join(at, ", ")+"; an append into a non-owned slice counts as a write to its backing array): filtering must not modify the diagnostics or shared state")
	}
	if o := own.out[fn]; len(o) == 0 {
		c.ok("(*Linter).filterErrors|no output", fn.Pos(), "writes to no output stream")
	} else {
		c.bad("(*Linter).filterErrors|no output", fn.Pos(), "writes output while filtering")
	}
	// no reordering: no sorter reachable, and appended elements are the range elements of the input in order
	sorted := ""
	seenFn := map[*ssa.Function]bool{}
	var scan func(g *ssa.Function)
	scan = func(g *ssa.Function) {
		if seenFn[g] || g.Blocks == nil || !inModule(g) || logPrimitives[FuncName(g)] {
			return
		}
		seenFn[g] = true
		eachInstr(g, func(_ *ssa.BasicBlock, _ int, in ssa.Instruction) {
			call, ok := in.(ssa.CallInstruction)
			if !ok {
				return
			}
			if sorters[calleeFullName(call.Common())] {
				sorted = FuncName(g)
			}
			if h := staticCallee(call.Common()); h != nil {
				scan(h)
			}
		})
	}
	scan(fn)
	if sorted != "" {
		c.bad("(*Linter).filterErrors|order preserved", fn.Pos(), "a sorting call is reachable ("+sorted+"): the filter must keep the order of the remaining diagnostics")
	} else {
		c.ok("(*Linter).filterErrors|order preserved", fn.Pos(), "no sorting call reachable")
	}
	// every appended value is an element of the parameter slice, read at the loop index
	errs := fn.Params[1]
	bad := ""
	nApp := 0
	eachInstr(fn, func(_ *ssa.BasicBlock, _ int, in ssa.Instruction) {
		call, ok := in.(*ssa.Call)
		if !ok {
			return
		}
		if b, ok := call.Call.Value.(*ssa.Builtin); !ok || b.Name() != "append" {
			return
		}
		if typeStr(call.Type()) != "[]*Error" {
			return
		}
		nApp++
		elems, ok := variadicArgs(call.Call.Args[1])
		if !ok {
			bad = "appends a whole slice"
			return
		}
		for _, e := range elems {
			ld, ok := e.(*ssa.UnOp)
			if !ok {
				bad = "appends a value that is not an element of the input"
				continue
			}
			ia, ok := ld.X.(*ssa.IndexAddr)
			if !ok || ia.X != errs {
				bad = "appends a value that is not an element of the input"
			}
		}
	})
	rets := 0
	for _, b := range fn.Blocks {
		if ret, ok := b.Instrs[len(b.Instrs)-1].(*ssa.Return); ok {
			rets++
			r := ret.Results[0]
			if r == errs {
				continue
			}
			for _, o := range p.Origins(r, FlowOpts{MaxDepth: 5}) {
				if o.Kind != OAlloc && o.Kind != OParam {
					bad = "returns a slice of other origin"
				}
			}
		}
	}
	if bad != "" || nApp == 0 {
		if bad == "" {
			bad = "no append of input elements found"
		}
		c.bad("(*Linter).filterErrors|subset of the input", fn.Pos(), bad)
	} else {
		c.ok("(*Linter).filterErrors|subset of the input", fn.Pos(), fmt.Sprintf("%d append(s), each of the input's own element in iteration order; %d returns of the input or the filtered slice", nApp, rets))
	}
	// a diagnostic is dropped iff a pattern matches: the only `continue` edges are under Match calls
	matches := 0
	for _, hf := range p.withHelpers(fn, 1) {
		if FuncName(hf) == "(IgnorePatterns).Match" {
			continue
		}
		eachInstr(hf, func(_ *ssa.BasicBlock, _ int, in ssa.Instruction) {
			if call, ok := in.(ssa.CallInstruction); ok {
				if f := staticCallee(call.Common()); f != nil && FuncName(f) == "(IgnorePatterns).Match" {
					matches++
				}
			}
		})
	}
	// dropped iff matched, decided on paths: within one iteration of the loop over the input the diagnostic is appended
	// exactly when no IgnorePatterns.Match on it (directly or in a helper that returns that verdict) came out true, the loop
	// has no side exit, and the input is handed back as is only when both pattern sets are known to be empty
	problems, nIffApp, nInput := filterDropsIffMatched(fn, errs)
	var iff, short []string
	for _, pr := range problems {
		if strings.HasPrefix(pr, "the input is returned unfiltered") {
			short = append(short, pr)
		} else {
			iff = append(iff, pr)
		}
	}
	if len(iff) > 0 {
		c.bad("(*Linter).filterErrors|dropped iff matched", fn.Pos(), strings.Join(iff, "; "))
	} else {
		c.ok("(*Linter).filterErrors|dropped iff matched", fn.Pos(), fmt.Sprintf("%d append(s) of the current diagnostic, reached exactly on the paths on which no pattern matched it; the loop is left only at its header", nIffApp))
	}
	if len(short) > 0 {
		c.bad("(*Linter).filterErrors|unfiltered only without patterns", fn.Pos(), strings.Join(short, "; "))
	} else {
		c.ok("(*Linter).filterErrors|unfiltered only without patterns", fn.Pos(), fmt.Sprintf("%d return(s) of the input itself, each under len == 0 of both pattern sets", nInput))
	}
	if matches >= 2 {
		c.ok("(*Linter).filterErrors|patterns consulted", fn.Pos(), fmt.Sprintf("%d IgnorePatterns.Match calls (command line and per-path config)", matches))
	} else {
		c.bad("(*Linter).filterErrors|patterns consulted", fn.Pos(), "command-line and per-path patterns are not both consulted")
	}
}

func runC15Exit(c *Ctx) {
	p := c.P
	main := p.Method("Command", "Main")
	if main == nil {
		c.anchorMissing("(*Command).Main")
		return
	}
	// describe controlling conditions of every constant return
	describe := func(cond ssa.Value) string {
		switch x := cond.(type) {
		case *ssa.BinOp:
			for _, opnd := range []ssa.Value{x.X, x.Y} {
				if isNilConst(opnd) {
					other := x.X
					if other == opnd {
						other = x.Y
					}
					src := ""
					switch o := other.(type) {
					case *ssa.Extract:
						if call, ok := o.Tuple.(*ssa.Call); ok {
							src = calleeShort(call)
						}
					case *ssa.Call:
						src = calleeShort(o)
					}
					return fmt.Sprintf("err(%s) %s nil", src, x.Op)
				}
			}
			if ld, ok := x.Y.(*ssa.UnOp); ok {
				if g, ok := ld.X.(*ssa.Global); ok {
					return fmt.Sprintf("err %s %s", x.Op, g.Name())
				}
			}
			if call, ok := x.X.(*ssa.Call); ok && calleeFullName(&call.Call) == "builtin.len" {
				if k, ok := constInt(x.Y); ok {
					src := ""
					if ex, ok := call.Call.Args[0].(*ssa.Extract); ok {
						if c2, ok := ex.Tuple.(*ssa.Call); ok {
							src = calleeShort(c2)
						}
					}
					return fmt.Sprintf("len(result of %s) %s %d", src, x.Op, k)
				}
			}
		case *ssa.UnOp:
			if x.Op == token.MUL {
				if a, ok := x.X.(*ssa.Alloc); ok {
					return "flag " + a.Comment
				}
			}
		}
		return "?"
	}
	type rc struct {
		code  int64
		conds []string
		pos   token.Pos
	}
	var rets []rc
	for _, b := range main.Blocks {
		ret, ok := b.Instrs[len(b.Instrs)-1].(*ssa.Return)
		if !ok {
			continue
		}
		k, ok := constInt(ret.Results[0])
		if !ok {
			c.bad("(*Command).Main|return value", ret.Pos(), "a return value of Main is not a constant exit status")
			continue
		}
		var conds []string
		for ifi, outcome := range controllingConds(b) {
			conds = append(conds, fmt.Sprintf("%s=%v", describe(ifi.Cond), outcome))
		}
		sort.Strings(conds)
		rets = append(rets, rc{k, conds, ret.Pos()})
	}
	has := func(r rc, s string) bool {
		for _, c := range r.conds {
			if c == s {
				return true
			}
		}
		return false
	}
	want := []struct {
		name string
		code int64
		cond []string
	}{
		{"invalid flag", 2, []string{"err((*FlagSet).Parse) != nil=true", "err == ErrHelp=false"}},
		{"help", 0, []string{"err((*FlagSet).Parse) != nil=true", "err == ErrHelp=true"}},
		{"fatal error", 3, []string{"err((*Command).runLinter) != nil=true"}},
		{"diagnostics found", 1, []string{"err((*Command).runLinter) != nil=false", "len(result of (*Command).runLinter) > 0=true"}},
		{"no diagnostics", 0, []string{"err((*Command).runLinter) != nil=false", "len(result of (*Command).runLinter) > 0=false"}},
	}
	for _, w := range want {
		construct := "(*Command).Main|exit status for " + w.name
		found := false
		wrong := ""
		for _, r := range rets {
			all := true
			for _, cnd := range w.cond {
				if !has(r, cnd) {
					all = false
				}
			}
			if !all {
				continue
			}
			if r.code == w.code {
				found = true
			} else {
				wrong = fmt.Sprintf("returns %d at %s", r.code, p.Pos(r.pos))
			}
		}
		switch {
		case wrong != "":
			c.bad(construct, main.Pos(), fmt.Sprintf("expected exit status %d under %v but Main %s", w.code, w.cond, wrong))
		case !found:
			c.undecided(construct, main.Pos(), fmt.Sprintf("no return controlled by %v found (conditions seen: %v)", w.cond, rets))
		default:
			c.ok(construct, main.Pos(), fmt.Sprintf("returns %d under %v", w.code, w.cond))
		}
	}
}

func calleeShort(call *ssa.Call) string {
	if f := staticCallee(&call.Call); f != nil {
		if inModule(f) {
			return FuncName(f)
		}
		n := FuncName(f)
		return strings.Replace(n, "flag.", "", 1)
	}
	return calleeFullName(&call.Call)
}

func runC15Pat(c *Ctx) {
	p := c.P
	nl := p.Func("NewLinter")
	if nl == nil {
		c.anchorMissing("NewLinter")
		return
	}
	// the value stored into Linter.ignorePats
	var stored ssa.Value
	eachInstr(nl, func(_ *ssa.BasicBlock, _ int, in ssa.Instruction) {
		if st, ok := in.(*ssa.Store); ok {
			if fa, ok := st.Addr.(*ssa.FieldAddr); ok && fieldAddrName(fa) == "Linter.ignorePats" {
				stored = st.Val
			}
		}
	})
	if stored == nil {
		c.anchorMissing("store to Linter.ignorePats in NewLinter")
		return
	}
	// every regexp appended to it is compiled from exactly one element of opts.IgnorePatterns
	seen := map[ssa.Value]bool{}
	var compiled []*ssa.Call
	bad := ""
	var walk func(v ssa.Value)
	walk = func(v ssa.Value) {
		if seen[v] {
			return
		}
		seen[v] = true
		switch x := v.(type) {
		case *ssa.Phi:
			for _, e := range x.Edges {
				walk(e)
			}
		case *ssa.ChangeType:
			walk(x.X)
		case *ssa.Convert:
			walk(x.X)
		case *ssa.MakeSlice:
		case *ssa.Const:
		case *ssa.Call:
			if b, ok := x.Call.Value.(*ssa.Builtin); ok && b.Name() == "append" {
				walk(x.Call.Args[0])
				elems, ok := variadicArgs(x.Call.Args[1])
				if !ok {
					bad = "a whole slice of regexps is appended"
					return
				}
				for _, e := range elems {
					ex, ok := e.(*ssa.Extract)
					if !ok {
						bad = "an appended pattern is not the direct result of regexp.Compile"
						continue
					}
					call, ok := ex.Tuple.(*ssa.Call)
					if !ok || calleeFullName(&call.Call) != "regexp.Compile" {
						bad = "an appended pattern is not the direct result of regexp.Compile"
						continue
					}
					compiled = append(compiled, call)
				}
				return
			}
			bad = "the pattern list comes from " + calleeFullName(&x.Call)
		default:
			bad = "the pattern list has an unexpected origin"
		}
	}
	walk(stored)
	for _, call := range compiled {
		arg := call.Call.Args[0]
		ld, ok := arg.(*ssa.UnOp)
		okElem := false
		if ok {
			if ia, ok := ld.X.(*ssa.IndexAddr); ok {
				if l2, ok := ia.X.(*ssa.UnOp); ok {
					if fa, ok := l2.X.(*ssa.FieldAddr); ok && fieldAddrName(fa) == "LinterOptions.IgnorePatterns" {
						okElem = true
					}
				}
			}
		}
		if !okElem {
			bad = "a pattern is compiled from something other than a single element of LinterOptions.IgnorePatterns (e.g. several patterns joined into one regular expression: inline flags and anchors of one pattern then affect the others)"
		}
	}
	if bad != "" || len(compiled) == 0 {
		if bad == "" {
			bad = "no regexp.Compile of the patterns found"
		}
		c.bad("NewLinter|ignore patterns", nl.Pos(), bad)
	} else {
		c.ok("NewLinter|ignore patterns", nl.Pos(), fmt.Sprintf("%d append site(s): each regexp is compiled from one element of IgnorePatterns", len(compiled)))
	}
	// Match applies the patterns one by one
	m := p.funcByName("(IgnorePatterns).Match")
	if m == nil {
		c.anchorMissing("(IgnorePatterns).Match")
		return
	}
	n := 0
	eachInstr(m, func(_ *ssa.BasicBlock, _ int, in ssa.Instruction) {
		if call, ok := in.(*ssa.Call); ok && calleeFullName(&call.Call) == "(*regexp.Regexp).MatchString" {
			if ld, ok := call.Call.Args[1].(*ssa.UnOp); ok {
				if fa, ok := ld.X.(*ssa.FieldAddr); ok && fieldAddrName(fa) == "Error.Message" {
					n++
				}
			}
		}
	})
	// ... and says yes iff some pattern matches: every return is true exactly after a MatchString on the message that came
	// out true, and the loop over the patterns is not left before a match
	anyWhy := ""
	if n == 1 {
		for i, q := range m.Params {
			if nm := namedOf(q.Type()); nm != nil && nm.Obj().Name() == "Error" {
				anyWhy = returnsSomePatternMatched(m, i)
			}
		}
	}
	if n == 1 && anyWhy != "" {
		c.bad("(IgnorePatterns).Match|matches the message", m.Pos(), "the verdict is not `some pattern matches the message`: "+anyWhy)
	} else if n == 1 {
		c.ok("(IgnorePatterns).Match|matches the message", m.Pos(), "each pattern is matched against Error.Message")
	} else {
		c.bad("(IgnorePatterns).Match|matches the message", m.Pos(), "patterns are not matched one by one against the diagnostic's message")
	}
}

var _ types.Type
