package main

import (
	"go/token"
	"go/types"
	"sort"
	"strconv"
	"strings"

	"golang.org/x/tools/go/ssa"
)

// OWN / effect engine (DESIGN §3.3): per-function summaries, computed to a fixpoint over the package:
//
//	ret[f][i]  roots the i-th result may alias (alias mode) / be computed from (deriv mode)
//	mut[f]     roots of heap objects f may mutate (stores through pointers, map updates, in-place sorts ...)
//	diag[f]    roots the *position* of every diagnostic emitted (transitively) by f is computed from
//	out[f]     roots of io.Writers f may write to
//
// Roots are expressed relative to f: its parameters, free variables, package-level variables, fresh
// allocations, the element of an enclosing range-over-map, or unknown.

type RootKind int

const (
	RParam RootKind = iota
	RFreeVar
	RGlobal
	RFresh
	RLoopVar // key/value of a range-over-map instruction (V = *ssa.Range)
	RUnknown
)

type Root struct {
	K RootKind
	I int
	V ssa.Value // *ssa.Global for RGlobal, *ssa.Range for RLoopVar
	N string    // description for RUnknown
}

func (r Root) String() string {
	switch r.K {
	case RParam:
		return "param#" + itoa(r.I)
	case RFreeVar:
		return "captured#" + itoa(r.I)
	case RGlobal:
		return "global " + r.V.Name()
	case RFresh:
		return "fresh"
	case RLoopVar:
		return "loopvar"
	}
	return "unknown(" + r.N + ")"
}

func itoa(i int) string { return strconv.Itoa(i) }

type RootSet map[Root]struct{}

func (s RootSet) add(r Root) bool {
	if _, ok := s[r]; ok {
		return false
	}
	s[r] = struct{}{}
	return true
}

func (s RootSet) addAll(o RootSet) bool {
	ch := false
	for r := range o {
		if s.add(r) {
			ch = true
		}
	}
	return ch
}

func (s RootSet) has(k RootKind) bool {
	for r := range s {
		if r.K == k {
			return true
		}
	}
	return false
}

func (s RootSet) String() string {
	var out []string
	for r := range s {
		out = append(out, r.String())
	}
	sort.Strings(out)
	return "{" + strings.Join(out, ", ") + "}"
}

type rootMode int

const (
	modeAlias rootMode = iota
	modeDeriv
)

type Own struct {
	p     *Prog
	retA  map[*ssa.Function][]RootSet
	retD  map[*ssa.Function][]RootSet
	mut   map[*ssa.Function]RootSet
	diag  map[*ssa.Function]RootSet
	emits map[*ssa.Function]bool
	out   map[*ssa.Function]RootSet
	// mutWhy remembers one example instruction per (function, root) for reports
	mutWhy     map[*ssa.Function]map[Root]token.Pos
	defaultExt map[string]bool // external callees that fell into the conservative default
	funcs      []*ssa.Function
	iter       int
}

// diagPrimitives: functions that record a diagnostic; value = index of the position argument.
var diagPrimitives = map[string]int{
	"(*RuleBase).Error": 1, "(*RuleBase).Errorf": 1,
	"(*parser).error": 1, "(*parser).errorAt": 1, "(*parser).errorfAt": 1, "(*parser).errorf": 1,
	"(*ExprSemanticsChecker).errorf": 1,
}

// logPrimitives only write to a debug/log writer; their output is not part of any property.
var logPrimitives = map[string]bool{
	"(*RuleBase).Debug": true, "(*Linter).log": true, "(*Linter).debug": true,
	"(*LocalActionsCache).debug": true, "(*LocalReusableWorkflowCache).debug": true, "(*Visitor).reportElapsedTime": true,
}

// readOnlyExtern: externals that do not mutate their arguments (by prefix of the full name).
var readOnlyExtern = []string{
	"strings.", "strconv.", "unicode.", "unicode/utf8.", "errors.", "path.", "path/filepath.", "math.",
	"fmt.Sprint", "fmt.Errorf", "bytes.", "regexp.", "(*regexp.Regexp).", "github.com/bmatcuk/doublestar/v4.",
	"bufio.", "(*bufio.Scanner).", "os.Stat", "os.ReadFile", "os.Getwd", "os.IsPathSeparator", "os.ReadDir", "time.", "(time.", "runtime.", "runtime/debug.",
	"github.com/mattn/go-runewidth.", "encoding/json.Marshal", "net/url.", "(*net/url.", "(*encoding/json.SyntaxError)",
	"(*os/exec.ExitError).", "os/exec.Command", "golang.org/x/sys/execabs.", "github.com/mattn/go-shellwords.",
	"(*strings.Reader).", "(*strings.Builder).String", "(*strings.Builder).Len", "(*bytes.Reader).", "(*bufio.Scanner).Text",
	"github.com/robfig/cron/v3.", "(github.com/robfig/cron/v3.", "(*github.com/robfig/cron/v3.", "(*text/scanner.Scanner).Pos", "(*text/scanner.Scanner).Peek",
	"context.", "(*sync.", "(*golang.org/x/sync/semaphore.", "golang.org/x/sync/semaphore.", "(*golang.org/x/sync/errgroup.Group).Wait",
	"(*text/template.Template).", "text/template.", "(error).Error", "(*os.File).", "github.com/fatih/color.New", "github.com/mattn/go-colorable.",
	"(*flag.FlagSet).", "flag.", "io.ReadAll", "os.WriteFile", "(io/fs.FileInfo).", "(os.FileInfo).", "path/filepath.Walk",
}

// aliasExtern: externals whose result may alias (point into) their arguments.
var aliasExtern = []string{"(*gopkg.in/yaml.v3.Node).", "(*sync.Map)."}

// ioExtern: externals that write their payload to the writer at the given argument index.
var ioExtern = map[string]int{
	"fmt.Fprint": 0, "fmt.Fprintf": 0, "fmt.Fprintln": 0, "io.WriteString": 0,
	"(*github.com/fatih/color.Color).Fprint": 1, "(*github.com/fatih/color.Color).Fprintf": 1, "(*github.com/fatih/color.Color).Fprintln": 1,
	"(*text/template.Template).Execute": 1, "(io.Writer).Write": 0,
}

// mutExtern: externals that mutate the argument at the given index.
var mutExtern = map[string]int{
	"sort.Strings": 0, "sort.Ints": 0, "sort.Sort": 0, "sort.Stable": 0, "sort.Slice": 0, "sort.SliceStable": 0, "sort.Float64s": 0,
	"slices.Sort": 0, "slices.SortFunc": 0, "slices.SortStableFunc": 0, "slices.Reverse": 0,
	"encoding/json.Unmarshal": 1, "gopkg.in/yaml.v3.Unmarshal": 1, "(*gopkg.in/yaml.v3.Node).Decode": 1,
	"builtin.copy": 0, "builtin.delete": 0,
}

func (p *Prog) Own() *Own {
	if o, ok := p.memo("own").(*Own); ok {
		return o
	}
	o := &Own{p: p, retA: map[*ssa.Function][]RootSet{}, retD: map[*ssa.Function][]RootSet{}, mut: map[*ssa.Function]RootSet{},
		diag: map[*ssa.Function]RootSet{}, emits: map[*ssa.Function]bool{}, out: map[*ssa.Function]RootSet{},
		mutWhy: map[*ssa.Function]map[Root]token.Pos{}, defaultExt: map[string]bool{}}
	o.funcs = append(append([]*ssa.Function{}, p.Funcs...), p.Synth...)
	for _, f := range o.funcs {
		n := f.Signature.Results().Len()
		o.retA[f] = make([]RootSet, n)
		o.retD[f] = make([]RootSet, n)
		for i := 0; i < n; i++ {
			o.retA[f][i] = RootSet{}
			o.retD[f][i] = RootSet{}
		}
		o.mut[f] = RootSet{}
		o.diag[f] = RootSet{}
		o.out[f] = RootSet{}
		o.mutWhy[f] = map[Root]token.Pos{}
	}
	for o.iter = 0; o.iter < 30; o.iter++ {
		changed := false
		for _, f := range o.funcs {
			if o.analyze(f) {
				changed = true
			}
		}
		if !changed {
			break
		}
	}
	p.setMemo("own", o)
	return o
}

func pointerLike(t types.Type) bool {
	switch u := t.Underlying().(type) {
	case *types.Pointer, *types.Map, *types.Slice, *types.Chan, *types.Signature, *types.Interface:
		return true
	case *types.Struct:
		for i := 0; i < u.NumFields(); i++ {
			if pointerLike(u.Field(i).Type()) {
				return true
			}
		}
	case *types.Array:
		return pointerLike(u.Elem())
	}
	return false
}

type rootCtx struct {
	o    *Own
	f    *ssa.Function
	mode rootMode
	seen map[ssa.Value]bool
}

// roots of a value inside function f.
func (o *Own) roots(f *ssa.Function, v ssa.Value, mode rootMode) RootSet {
	c := &rootCtx{o: o, f: f, mode: mode, seen: map[ssa.Value]bool{}}
	out := RootSet{}
	c.walk(v, out, 0)
	return out
}

func (c *rootCtx) walk(v ssa.Value, out RootSet, depth int) {
	if v == nil || c.seen[v] {
		return
	}
	c.seen[v] = true
	if depth > 40 {
		out.add(Root{K: RUnknown, N: "depth"})
		return
	}
	if c.mode == modeAlias && !pointerLike(v.Type()) {
		if _, isAddr := v.(*ssa.Alloc); !isAddr {
			return // a plain value (string, number, empty struct): nothing can be mutated through it
		}
	}
	switch x := v.(type) {
	case *ssa.Parameter:
		for i, q := range x.Parent().Params {
			if q == x {
				out.add(Root{K: RParam, I: i})
			}
		}
	case *ssa.FreeVar:
		for i, q := range x.Parent().FreeVars {
			if q == x {
				out.add(Root{K: RFreeVar, I: i})
			}
		}
	case *ssa.Global:
		out.add(Root{K: RGlobal, V: x})
	case *ssa.Const, *ssa.Function, *ssa.Builtin:
		// no roots
	case *ssa.Alloc:
		out.add(Root{K: RFresh, V: x})
		// deriv mode: everything stored into it. Alias mode keeps object identity only: the content of a
		// fresh wrapper (e.g. the shared context table held by a new checker) is NOT tracked here; the
		// rules that need it (C09.IMM, C10.IMM, C10.COW) use the FLOW engine on the mutated object instead.
		if c.mode == modeDeriv {
			c.storedInto(x, out, depth)
		}
	case *ssa.MakeMap, *ssa.MakeSlice, *ssa.MakeChan:
		out.add(Root{K: RFresh, V: v})
	case *ssa.MakeClosure:
		out.add(Root{K: RFresh, V: v})
		if c.mode == modeDeriv {
			for _, b := range x.Bindings {
				c.walk(b, out, depth+1)
			}
		}
	case *ssa.FieldAddr:
		c.walk(x.X, out, depth+1)
	case *ssa.IndexAddr:
		c.walk(x.X, out, depth+1)
	case *ssa.Field:
		c.walk(x.X, out, depth+1)
	case *ssa.Index:
		c.walk(x.X, out, depth+1)
	case *ssa.Lookup:
		c.walk(x.X, out, depth+1)
	case *ssa.Slice:
		c.walk(x.X, out, depth+1)
	case *ssa.ChangeType:
		c.walk(x.X, out, depth+1)
	case *ssa.ChangeInterface:
		c.walk(x.X, out, depth+1)
	case *ssa.MakeInterface:
		c.walk(x.X, out, depth+1)
	case *ssa.Convert:
		c.walk(x.X, out, depth+1)
	case *ssa.TypeAssert:
		c.walk(x.X, out, depth+1)
	case *ssa.SliceToArrayPointer:
		c.walk(x.X, out, depth+1)
	case *ssa.Phi:
		for _, e := range x.Edges {
			c.walk(e, out, depth+1)
		}
	case *ssa.BinOp:
		if c.mode == modeDeriv {
			c.walk(x.X, out, depth+1)
			c.walk(x.Y, out, depth+1)
		}
	case *ssa.UnOp:
		if x.Op != token.MUL {
			if c.mode == modeDeriv {
				c.walk(x.X, out, depth+1)
			}
			return
		}
		c.load(x.X, out, depth+1)
	case *ssa.Extract:
		switch t := x.Tuple.(type) {
		case *ssa.Call:
			c.call(t, x.Index, out, depth+1)
		case *ssa.Next:
			if r, ok := t.Iter.(*ssa.Range); ok {
				if _, isMap := r.X.Type().Underlying().(*types.Map); isMap {
					if x.Index > 0 {
						out.add(Root{K: RLoopVar, V: r})
					}
					if x.Index == 2 {
						// the element also belongs to the container
						c.walk(r.X, out, depth+1)
					}
					return
				}
				c.walk(r.X, out, depth+1)
			}
		case *ssa.TypeAssert:
			if x.Index == 0 {
				c.walk(t.X, out, depth+1)
			}
		case *ssa.Lookup:
			if x.Index == 0 {
				c.walk(t.X, out, depth+1)
			}
		case *ssa.UnOp:
			c.walk(t.X, out, depth+1)
		default:
			out.add(Root{K: RUnknown, N: "extract"})
		}
	case *ssa.Call:
		c.call(x, 0, out, depth+1)
	case *ssa.Range, *ssa.Next:
		// handled through Extract
	default:
		out.add(Root{K: RUnknown, N: v.Name()})
	}
}

// load: the value read from address a.
func (c *rootCtx) load(a ssa.Value, out RootSet, depth int) {
	switch x := a.(type) {
	case *ssa.Alloc:
		// local variable cell: the values stored into it
		n := 0
		for _, ref := range *x.Referrers() {
			if s, ok := ref.(*ssa.Store); ok && s.Addr == x {
				n++
				c.walk(s.Val, out, depth+1)
			}
		}
		if n == 0 {
			out.add(Root{K: RFresh})
		}
		return
	case *ssa.FieldAddr:
		// field of a struct allocated in this function: field-sensitive
		if base, ok := x.X.(*ssa.Alloc); ok {
			n := 0
			for _, ref := range *base.Referrers() {
				fa, ok := ref.(*ssa.FieldAddr)
				if !ok || fa.Field != x.Field {
					continue
				}
				for _, r2 := range *fa.Referrers() {
					if s, ok := r2.(*ssa.Store); ok && s.Addr == fa {
						n++
						c.walk(s.Val, out, depth+1)
					}
				}
			}
			if n > 0 {
				return
			}
		}
	case *ssa.Global:
		out.add(Root{K: RGlobal, V: x})
		return
	}
	c.walk(a, out, depth)
}

// storedInto: values stored into (fields of) a local allocation (deriv mode).
func (c *rootCtx) storedInto(a *ssa.Alloc, out RootSet, depth int) {
	keep := func(v ssa.Value) bool { return c.mode == modeDeriv || pointerLike(v.Type()) }
	for _, ref := range *a.Referrers() {
		switch r := ref.(type) {
		case *ssa.Store:
			if r.Addr == a && keep(r.Val) {
				c.walk(r.Val, out, depth+1)
			}
		case *ssa.FieldAddr:
			for _, r2 := range *r.Referrers() {
				if s, ok := r2.(*ssa.Store); ok && s.Addr == r && keep(s.Val) {
					c.walk(s.Val, out, depth+1)
				}
			}
		case *ssa.IndexAddr:
			for _, r2 := range *r.Referrers() {
				if s, ok := r2.(*ssa.Store); ok && s.Addr == r && keep(s.Val) {
					c.walk(s.Val, out, depth+1)
				}
			}
		}
	}
}

// mapRoots translates a callee-relative root set to the caller at a call site.
func (o *Own) mapRoots(f *ssa.Function, call *ssa.CallCommon, callee *ssa.Function, rs RootSet, mode rootMode, out RootSet) {
	c := &rootCtx{o: o, f: f, mode: mode, seen: map[ssa.Value]bool{}}
	c.mapRoots(call, callee, rs, out, 0)
}

func (c *rootCtx) mapRoots(call *ssa.CallCommon, callee *ssa.Function, rs RootSet, out RootSet, depth int) {
	for r := range rs {
		switch r.K {
		case RParam:
			var arg ssa.Value
			if call.IsInvoke() {
				if r.I == 0 {
					arg = call.Value
				} else if r.I-1 < len(call.Args) {
					arg = call.Args[r.I-1]
				}
			} else if r.I < len(call.Args) {
				arg = call.Args[r.I]
			}
			if arg == nil {
				out.add(Root{K: RUnknown, N: "arg"})
				continue
			}
			c.walk(arg, out, depth+1)
		case RFreeVar:
			if mc, ok := call.Value.(*ssa.MakeClosure); ok && r.I < len(mc.Bindings) {
				c.walk(mc.Bindings[r.I], out, depth+1)
			} else {
				out.add(Root{K: RUnknown, N: "variable captured by " + FuncName(callee)})
			}
		case RLoopVar:
			out.add(Root{K: RFresh}) // the callee's own loop element: not visible to the caller
		case RFresh:
			out.add(Root{K: RFresh}) // allocated inside the callee
		default:
			out.add(r)
		}
	}
}

func (c *rootCtx) call(call *ssa.Call, idx int, out RootSet, depth int) {
	o := c.o
	callees := o.p.calleesOf(call)
	if b, ok := call.Call.Value.(*ssa.Builtin); ok {
		switch b.Name() {
		case "append":
			for _, a := range call.Call.Args {
				c.walk(a, out, depth+1)
			}
			out.add(Root{K: RFresh})
		case "len", "cap", "min", "max":
		default:
			out.add(Root{K: RFresh})
		}
		return
	}
	if len(callees) == 0 {
		out.add(Root{K: RUnknown, N: "dynamic call"})
		return
	}
	for _, g := range callees {
		var table map[*ssa.Function][]RootSet
		if c.mode == modeAlias {
			table = o.retA
		} else {
			table = o.retD
		}
		if rs, ok := table[g]; ok {
			if idx < len(rs) {
				tmp := RootSet{}
				c.mapRoots(&call.Call, g, rs[idx], tmp, depth)
				for r := range tmp {
					if r.K == RFresh && r.V == nil {
						r.V = call // a new object made by the callee: its site in this function is the call
					}
					out.add(r)
				}
			}
			continue
		}
		// external: the result is a new object (alias mode); it is computed from the arguments (deriv mode)
		out.add(Root{K: RFresh, V: call})
		if c.mode == modeDeriv || hasPrefixAny(externName(&call.Call, g), aliasExtern) {
			if call.Call.IsInvoke() {
				c.walk(call.Call.Value, out, depth+1)
			}
			for _, a := range call.Call.Args {
				c.walk(a, out, depth+1)
			}
		}
	}
}

func externName(call *ssa.CallCommon, g *ssa.Function) string {
	if g != nil {
		return funcFullName(g)
	}
	return calleeFullName(call)
}

func hasPrefixAny(s string, ps []string) bool {
	for _, p := range ps {
		if strings.HasPrefix(s, p) {
			return true
		}
	}
	return false
}

// stripSites removes function-local detail (allocation sites, loop elements) from a root set that
// is exported in a summary.
func stripSites(rs RootSet) RootSet {
	out := RootSet{}
	for r := range rs {
		switch r.K {
		case RFresh, RLoopVar:
			out.add(Root{K: RFresh})
		default:
			out.add(r)
		}
	}
	return out
}

func (o *Own) addMut(f *ssa.Function, rs RootSet, pos token.Pos) bool {
	ch := false
	for r := range rs {
		if r.K == RFresh || r.K == RLoopVar {
			continue
		}
		if o.mut[f].add(r) {
			ch = true
			o.mutWhy[f][r] = pos
		}
	}
	return ch
}

// analyze recomputes the summaries of f; returns true when something grew.
func (o *Own) analyze(f *ssa.Function) bool {
	changed := false
	name := FuncName(f)
	if logPrimitives[name] {
		return false
	}
	if _, isDiag := diagPrimitives[name]; isDiag {
		// the primitive itself: mutates only the diagnostics list of its receiver (modelled as diag, not mut)
		return false
	}
	for _, b := range f.Blocks {
		for _, in := range b.Instrs {
			switch x := in.(type) {
			case *ssa.Return:
				for i, r := range x.Results {
					if o.retA[f][i].addAll(stripSites(o.roots(f, r, modeAlias))) {
						changed = true
					}
					if o.retD[f][i].addAll(stripSites(o.roots(f, r, modeDeriv))) {
						changed = true
					}
				}
			case *ssa.Store:
				// a store to a local variable cell is not a heap mutation
				if _, isAlloc := x.Addr.(*ssa.Alloc); isAlloc {
					continue
				}
				if o.addMut(f, o.roots(f, x.Addr, modeAlias), x.Pos()) {
					changed = true
				}
			case *ssa.MapUpdate:
				if o.isPrivateCopy(f, x.Map, x) {
					continue // copy-on-write: the map was replaced by a private copy first (C10.COW checks the protocol)
				}
				if o.addMut(f, o.roots(f, x.Map, modeAlias), x.Pos()) {
					changed = true
				}
			case *ssa.Send:
				if o.addMut(f, o.roots(f, x.Chan, modeAlias), x.Pos()) {
					changed = true
				}
			case ssa.CallInstruction:
				if o.analyzeCall(f, x) {
					changed = true
				}
			}
		}
	}
	return changed
}

func (o *Own) analyzeCall(f *ssa.Function, site ssa.CallInstruction) bool {
	changed := false
	call := site.Common()
	if b, ok := call.Value.(*ssa.Builtin); ok {
		switch b.Name() {
		case "copy", "delete":
			if o.addMut(f, o.roots(f, call.Args[0], modeAlias), site.Pos()) {
				changed = true
			}
		case "close":
			if o.addMut(f, o.roots(f, call.Args[0], modeAlias), site.Pos()) {
				changed = true
			}
		case "append":
			// append writes into the spare capacity of its first argument's backing array
			if o.addMut(f, o.roots(f, call.Args[0], modeAlias), site.Pos()) {
				changed = true
			}
		}
		return changed
	}
	callees := o.p.calleesOf(site)
	if len(callees) == 0 {
		if o.mut[f].add(Root{K: RUnknown, N: "dynamic call"}) {
			o.mutWhy[f][Root{K: RUnknown, N: "dynamic call"}] = site.Pos()
			changed = true
		}
		return changed
	}
	for _, g := range callees {
		gname := FuncName(g)
		if _, analysed := o.mut[g]; analysed || inPkg(g, o.p.SPkg) {
			if logPrimitives[gname] {
				continue
			}
			if idx, ok := diagPrimitives[gname]; ok {
				if !o.emits[f] {
					o.emits[f] = true
					changed = true
				}
				if idx < len(call.Args) {
					if o.diag[f].addAll(stripLoop(o.diagRoots(f, call.Args[idx]))) {
						changed = true
					}
				}
				continue
			}
			if _, ok := o.mut[g]; ok {
				tmp := RootSet{}
				o.mapRoots(f, call, g, o.mut[g], modeAlias, tmp)
				if o.addMut(f, tmp, site.Pos()) {
					changed = true
				}
				if o.emits[g] {
					if !o.emits[f] {
						o.emits[f] = true
						changed = true
					}
					tmp = RootSet{}
					o.mapRoots(f, call, g, o.diag[g], modeDeriv, tmp)
					if len(o.diag[g]) == 0 {
						tmp.add(Root{K: RFresh}) // emits at a constant position
					}
					if o.diag[f].addAll(tmp) {
						changed = true
					}
				}
				tmp = RootSet{}
				o.mapRoots(f, call, g, o.out[g], modeAlias, tmp)
				if o.out[f].addAll(tmp) {
					changed = true
				}
				continue
			}
		}
		// external function
		full := externName(call, g)
		// closures handed to externals are considered called (sort.Slice less funcs, errgroup.Go bodies, Walk callbacks)
		for _, a := range call.Args {
			if mc, ok := a.(*ssa.MakeClosure); ok {
				if cl, ok := mc.Fn.(*ssa.Function); ok {
					if _, known := o.mut[cl]; known {
						fake := &ssa.CallCommon{Value: mc}
						tmp := RootSet{}
						o.mapRoots(f, fake, cl, o.mut[cl], modeAlias, tmp)
						if o.addMut(f, tmp, site.Pos()) {
							changed = true
						}
						if o.emits[cl] {
							o.emits[f] = true
							tmp = RootSet{}
							o.mapRoots(f, fake, cl, o.diag[cl], modeDeriv, tmp)
							if o.diag[f].addAll(tmp) {
								changed = true
							}
						}
						tmp = RootSet{}
						o.mapRoots(f, fake, cl, o.out[cl], modeAlias, tmp)
						if o.out[f].addAll(tmp) {
							changed = true
						}
					}
				}
			}
		}
		if idx, ok := ioExtern[full]; ok {
			var w ssa.Value
			if call.IsInvoke() {
				w = call.Value
			} else if idx < len(call.Args) {
				w = call.Args[idx]
			}
			if w != nil && o.out[f].addAll(o.roots(f, w, modeAlias)) {
				changed = true
			}
			continue
		}
		if idx, ok := mutExtern[full]; ok {
			if idx < len(call.Args) && o.addMut(f, o.roots(f, call.Args[idx], modeAlias), site.Pos()) {
				changed = true
			}
			continue
		}
		if hasPrefixAny(full, readOnlyExtern) || strings.HasSuffix(full, ").Error") || strings.HasSuffix(full, ").String") ||
			strings.HasSuffix(full, ").ExitCode") || strings.HasSuffix(full, ").IsDir") {
			continue
		}
		// conservative default: an unknown external may mutate everything it can reach through its arguments
		o.defaultExt[full] = true
		if call.IsInvoke() {
			if o.addMut(f, o.roots(f, call.Value, modeAlias), site.Pos()) {
				changed = true
			}
		}
		for _, a := range call.Args {
			if pointerLike(a.Type()) {
				if _, isStr := a.Type().Underlying().(*types.Basic); isStr {
					continue
				}
				if o.addMut(f, o.roots(f, a, modeAlias), site.Pos()) {
					changed = true
				}
			}
		}
	}
	return changed
}

// cowFuncs: functions that replace a shared table held in a field by a private copy before it is
// written (the protocol itself is checked by rule C10.COW). Value: the field made private.
var cowFuncs = map[string]string{
	"(*ExprSemanticsChecker).ensureVarsCopied":      "ExprSemanticsChecker.vars",
	"(*ExprSemanticsChecker).ensureGithubVarCopied": "ExprSemanticsChecker.vars",
}

// isPrivateCopy: the written map is (reached through) a field that a dominating call made private.
func (o *Own) isPrivateCopy(f *ssa.Function, m ssa.Value, at ssa.Instruction) bool {
	// find a FieldAddr load on the path from m
	var base ssa.Value
	field := ""
	v := m
	for i := 0; i < 12 && v != nil; i++ {
		switch x := v.(type) {
		case *ssa.UnOp:
			if fa, ok := x.X.(*ssa.FieldAddr); ok {
				if n := fieldAddrName(fa); n == "ExprSemanticsChecker.vars" {
					base, field = fa.X, n
				}
				v = fa.X
				continue
			}
			v = x.X
		case *ssa.FieldAddr:
			v = x.X
		case *ssa.TypeAssert:
			v = x.X
		case *ssa.Lookup:
			v = x.X
		case *ssa.Extract:
			v = x.Tuple
		default:
			v = nil
		}
		if base != nil {
			break
		}
	}
	if base == nil {
		return false
	}
	if FuncName(f) == "(*ExprSemanticsChecker).ensureVarsCopied" || FuncName(f) == "(*ExprSemanticsChecker).ensureGithubVarCopied" {
		return true // the copy functions themselves install / write the fresh copy
	}
	ab, ai := at.Block(), instrIndex(at)
	for _, ref := range *base.Referrers() {
		call, ok := ref.(ssa.CallInstruction)
		if !ok {
			continue
		}
		g := staticCallee(call.Common())
		if g == nil || cowFuncs[FuncName(g)] != field {
			// a callee that itself starts with the copy (e.g. UpdateInputs called from UpdateDispatchInputs)
			if g == nil || !o.alwaysCopiesFirst(g) {
				continue
			}
		}
		if instrDominates(call.Block(), instrIndex(call), ab, ai) {
			return true
		}
	}
	return false
}

// alwaysCopiesFirst: the first call in g's entry block, on its receiver, is a copy function.
func (o *Own) alwaysCopiesFirst(g *ssa.Function) bool {
	if g.Blocks == nil || len(g.Params) == 0 {
		return false
	}
	for _, in := range g.Blocks[0].Instrs {
		if call, ok := in.(ssa.CallInstruction); ok {
			h := staticCallee(call.Common())
			if h != nil && cowFuncs[FuncName(h)] != "" && len(call.Common().Args) > 0 && call.Common().Args[0] == g.Params[0] {
				return true
			}
			if h != nil && h != g && len(call.Common().Args) > 0 && call.Common().Args[0] == g.Params[0] && o.alwaysCopiesFirstDepth(h, 0) {
				return true
			}
			return false
		}
	}
	return false
}

func (o *Own) alwaysCopiesFirstDepth(g *ssa.Function, d int) bool {
	if d > 3 {
		return false
	}
	if g.Blocks == nil || len(g.Params) == 0 {
		return false
	}
	for _, in := range g.Blocks[0].Instrs {
		if call, ok := in.(ssa.CallInstruction); ok {
			h := staticCallee(call.Common())
			if h != nil && cowFuncs[FuncName(h)] != "" && len(call.Common().Args) > 0 && call.Common().Args[0] == g.Params[0] {
				return true
			}
			return false
		}
	}
	return false
}

// diagRoots: derivation roots of a diagnostic position argument.
// stripLoop keeps loop elements (they matter for the function's own map loops) but drops allocation sites.
func stripLoop(rs RootSet) RootSet {
	out := RootSet{}
	for r := range rs {
		if r.K == RFresh {
			out.add(Root{K: RFresh})
		} else {
			out.add(r)
		}
	}
	return out
}

func (o *Own) diagRoots(f *ssa.Function, pos ssa.Value) RootSet {
	rs := o.roots(f, pos, modeDeriv)
	if len(rs) == 0 {
		rs.add(Root{K: RFresh})
	}
	return rs
}
