package main

import (
	"fmt"
	"go/ast"
	"go/token"
	"go/types"
	"strings"

	"golang.org/x/tools/go/ssa"
)

func init() {
	register(&Rule{ID: "C01.TA", Min: 3, Doc: "every unchecked type assertion has an operand whose dynamic type is provably the asserted type", Run: runC01TA})
	register(&Rule{ID: "C01.NILMAP", Min: 10, Doc: "no write to a map-typed struct field that some constructor leaves nil", Run: runC01NilMap})
	register(&Rule{ID: "C01.PIPE", Min: 1, Doc: "os/exec typestate: no blocking write to Cmd.StdinPipe() before the process is started", Run: runC01Pipe})
	register(&Rule{ID: "C01.EXIT", Min: 3, Doc: "process termination only from cmd/actionlint; fatal errors map to exit status 3", Run: runC01Exit})
	register(&Rule{ID: "C01.UNSAFE", Min: 1, Doc: "no unsafe/reflect/cgo in the analysed package (soundness side condition of the call graph)", Run: runC01Unsafe})
}

// dynTypes computes the set of possible dynamic types of an interface-typed SSA value by following
// MakeInterface, Phi, static calls (their returns) up to a small depth. ok=false means unknown.
func dynTypes(v ssa.Value, depth int, seen map[ssa.Value]bool) (map[string]types.Type, bool) {
	out := map[string]types.Type{}
	if depth > 6 {
		return nil, false
	}
	if seen[v] {
		return out, true // cycle: contributes nothing new
	}
	seen[v] = true
	switch x := v.(type) {
	case *ssa.MakeInterface:
		out[typeStr(x.X.Type())] = x.X.Type()
		return out, true
	case *ssa.ChangeInterface:
		return dynTypes(x.X, depth+1, seen)
	case *ssa.Phi:
		for _, e := range x.Edges {
			s, ok := dynTypes(e, depth+1, seen)
			if !ok {
				return nil, false
			}
			for k, t := range s {
				out[k] = t
			}
		}
		return out, true
	case *ssa.Const:
		if x.IsNil() {
			out["nil"] = nil
			return out, true
		}
		return nil, false
	case *ssa.Extract:
		if call, ok := x.Tuple.(*ssa.Call); ok {
			return dynTypesOfCall(call, x.Index, depth, seen)
		}
		return nil, false
	case *ssa.Call:
		return dynTypesOfCall(x, 0, depth, seen)
	}
	return nil, false
}

func dynTypesOfCall(call *ssa.Call, idx int, depth int, seen map[ssa.Value]bool) (map[string]types.Type, bool) {
	f := staticCallee(&call.Call)
	if f == nil || f.Blocks == nil {
		return nil, false
	}
	out := map[string]types.Type{}
	for _, b := range f.Blocks {
		if len(b.Instrs) == 0 {
			continue
		}
		ret, ok := b.Instrs[len(b.Instrs)-1].(*ssa.Return)
		if !ok {
			continue
		}
		if idx >= len(ret.Results) {
			return nil, false
		}
		s, ok := dynTypes(ret.Results[idx], depth+1, seen)
		if !ok {
			return nil, false
		}
		for k, t := range s {
			out[k] = t
		}
	}
	return out, len(out) > 0
}

func typeAssertExprAt(fn *ssa.Function, pos token.Pos) string {
	var root ast.Node = fn.Syntax()
	for root == nil && fn.Parent() != nil {
		fn = fn.Parent()
		root = fn.Syntax()
	}
	if root == nil {
		return ""
	}
	res := ""
	ast.Inspect(root, func(n ast.Node) bool {
		if ta, ok := n.(*ast.TypeAssertExpr); ok && ta.Lparen == pos {
			res = exprStr(ta)
			return false
		}
		return res == ""
	})
	return res
}

func runC01TA(c *Ctx) {
	for _, fn := range c.P.Funcs {
		occ := map[string]int{}
		eachInstr(fn, func(_ *ssa.BasicBlock, _ int, in ssa.Instruction) {
			ta, ok := in.(*ssa.TypeAssert)
			if !ok || ta.CommaOk {
				return
			}
			txt := typeAssertExprAt(fn, ta.Pos())
			if txt == "" {
				txt = "assert " + typeStr(ta.AssertedType)
			}
			occ[txt]++
			construct := fmt.Sprintf("%s|%s#%d", FuncName(fn), txt, occ[txt])
			set, known := dynTypes(ta.X, 0, map[ssa.Value]bool{})
			if known {
				var bad []string
				for k, t := range set {
					if t == nil {
						bad = append(bad, "nil")
						continue
					}
					if _, isIface := ta.AssertedType.Underlying().(*types.Interface); isIface {
						if !types.Implements(t, ta.AssertedType.Underlying().(*types.Interface)) {
							bad = append(bad, k)
						}
					} else if !types.Identical(t, ta.AssertedType) {
						bad = append(bad, k)
					}
				}
				if len(bad) == 0 {
					c.ok(construct, ta.Pos(), "operand's dynamic type is always "+strings.Join(sortedKeys(set), ", "))
					return
				}
				c.bad(construct, ta.Pos(), "unchecked type assertion can fail: operand may hold "+strings.Join(bad, ", "))
				return
			}
			c.bad(construct, ta.Pos(), "unchecked type assertion whose operand's dynamic type cannot be established (panics when it is not "+typeStr(ta.AssertedType)+")")
		})
	}
}

// ---- C01.NILMAP ----
// For every MapUpdate whose map is loaded from a struct field T.f: either the update is dominated by a
// store of a fresh map to that field of the same base in the same function, or every composite literal
// / allocation site of T in the package initialises f.
func runC01NilMap(c *Ctx) {
	p := c.P
	// allocation sites of struct types and the fields they initialise (Alloc + FieldAddr stores in the same function)
	type allocInfo struct {
		fn   *ssa.Function
		pos  token.Pos
		init map[int]bool
	}
	allocs := map[string][]*allocInfo{} // by struct type string
	for _, fn := range p.Funcs {
		eachInstr(fn, func(_ *ssa.BasicBlock, _ int, in ssa.Instruction) {
			al, ok := in.(*ssa.Alloc)
			if !ok {
				return
			}
			elem := al.Type().(*types.Pointer).Elem()
			if _, isStruct := elem.Underlying().(*types.Struct); !isStruct {
				return
			}
			if _, isNamed := elem.(*types.Named); !isNamed {
				return
			}
			ai := &allocInfo{fn: fn, pos: al.Pos(), init: map[int]bool{}}
			for _, ref := range *al.Referrers() {
				fa, ok := ref.(*ssa.FieldAddr)
				if !ok {
					continue
				}
				for _, r2 := range *fa.Referrers() {
					if st, ok := r2.(*ssa.Store); ok && st.Addr == fa && !isNilConst(st.Val) {
						ai.init[fa.Field] = true
					}
				}
			}
			allocs[typeStr(elem)] = append(allocs[typeStr(elem)], ai)
		})
	}
	occ := map[string]int{}
	for _, fn := range p.Funcs {
		eachInstr(fn, func(b *ssa.BasicBlock, idx int, in ssa.Instruction) {
			mu, ok := in.(*ssa.MapUpdate)
			if !ok {
				return
			}
			load, ok := mu.Map.(*ssa.UnOp)
			if !ok || load.Op != token.MUL {
				return
			}
			fa, ok := load.X.(*ssa.FieldAddr)
			if !ok {
				return
			}
			fname, _ := fieldName(fa.X.Type(), fa.Field)
			key := FuncName(fn) + "|write " + fname
			occ[key]++
			construct := fmt.Sprintf("%s#%d", key, occ[key])
			// (1) dominated by a store of a non-nil map to the same field of the same base value
			for _, ref := range *fa.X.Referrers() {
				fa2, ok := ref.(*ssa.FieldAddr)
				if !ok || fa2.Field != fa.Field {
					continue
				}
				for _, r2 := range *fa2.Referrers() {
					st, ok := r2.(*ssa.Store)
					if !ok || st.Addr != fa2 || isNilConst(st.Val) {
						continue
					}
					if instrDominates(st.Block(), instrIndex(st), b, idx) {
						c.ok(construct, mu.Pos(), "dominated by an assignment of a map to the field in the same function")
						return
					}
				}
			}
			// (2) the base is a parameter and every caller assigns the field before the call (through a chain of callers)
			if prm, ok := fa.X.(*ssa.Parameter); ok {
				if why := guardedByCallerStore(p, prm, fa.Field, 0); why == "" {
					c.ok(construct, mu.Pos(), "every call chain assigns a map to the field before calling this function")
					return
				}
			}
			// (3) every allocation the base can come from initialises the field
			st := namedOf(fa.X.Type())
			if st == nil {
				c.undecided(construct, mu.Pos(), "map field of an unnamed struct")
				return
			}
			origs := p.Origins(fa.X, FlowOpts{Params: true, Fields: true, MaxDepth: 6})
			allAlloc := len(origs) > 0
			nAlloc := 0
			for _, o := range origs {
				switch o.Kind {
				case ONil:
				case OAlloc:
					al, isAlloc := o.Val.(*ssa.Alloc)
					if !isAlloc || !allocInitsField(al, fa.Field) {
						allAlloc = false
					}
					nAlloc++
				default:
					allAlloc = false
				}
			}
			if allAlloc && nAlloc > 0 {
				c.ok(construct, mu.Pos(), fmt.Sprintf("the struct can only come from %d allocation site(s), all of which initialise the field", nAlloc))
				return
			}
			// (4) type level: every allocation of the struct type initialises the field
			sites := allocs[typeStr(st)]
			var missing []string
			for _, ai := range sites {
				if !ai.init[fa.Field] {
					missing = append(missing, FuncName(ai.fn)+" ("+p.Pos(ai.pos)+")")
				}
			}
			if len(missing) > 0 {
				c.bad(construct, mu.Pos(), fmt.Sprintf("writes map field %s; the struct's provenance is not limited to allocations that initialise it, and it is left nil by the allocation in %s: assignment to entry in nil map", fname, shortList(missing, 3)))
				return
			}
			if len(sites) == 0 {
				c.undecided(construct, mu.Pos(), "no allocation site of "+typeStr(st)+" found in the package (zero value may be created elsewhere)")
				return
			}
			c.ok(construct, mu.Pos(), fmt.Sprintf("all %d allocation sites of %s initialise the field", len(sites), typeStr(st)))
		})
	}
}

func allocInitsField(al *ssa.Alloc, field int) bool {
	for _, ref := range *al.Referrers() {
		fa, ok := ref.(*ssa.FieldAddr)
		if !ok || fa.Field != field {
			continue
		}
		for _, r2 := range *fa.Referrers() {
			if st, ok := r2.(*ssa.Store); ok && st.Addr == fa && !isNilConst(st.Val) {
				return true
			}
		}
	}
	return false
}

// guardedByCallerStore: for parameter prm of its function, every static caller either stores a non-nil
// value to field `field` of the argument before the call (dominating it), or passes its own parameter
// for which the same holds (depth-bounded). Returns "" when guarded.
func guardedByCallerStore(p *Prog, prm *ssa.Parameter, field int, depth int) string {
	if depth > 3 {
		return "call chain too deep"
	}
	fn := prm.Parent()
	idx := -1
	for i, q := range fn.Params {
		if q == prm {
			idx = i
		}
	}
	edges := p.callersOf(fn)
	n := 0
	for _, e := range edges {
		if e.Site == nil || e.Site.Common().IsInvoke() {
			return "called through an interface from " + FuncName(e.Caller.Func)
		}
		if staticCallee(e.Site.Common()) != fn {
			return "called dynamically from " + FuncName(e.Caller.Func)
		}
		n++
		arg := e.Site.Common().Args[idx]
		site := e.Site.(ssa.Instruction)
		guarded := false
		if arg.Referrers() != nil {
			for _, ref := range *arg.Referrers() {
				fa, ok := ref.(*ssa.FieldAddr)
				if !ok || fa.Field != field {
					continue
				}
				for _, r2 := range *fa.Referrers() {
					if st, ok := r2.(*ssa.Store); ok && st.Addr == fa && !isNilConst(st.Val) &&
						instrDominates(st.Block(), instrIndex(st), site.Block(), instrIndex(site)) {
						guarded = true
					}
				}
			}
		}
		if guarded {
			continue
		}
		if ap, ok := arg.(*ssa.Parameter); ok {
			if why := guardedByCallerStore(p, ap, field, depth+1); why != "" {
				return why
			}
			continue
		}
		return "caller " + FuncName(e.Caller.Func) + " does not assign the field before the call"
	}
	if n == 0 {
		return "no static caller"
	}
	return ""
}

// ---- C01.PIPE ----
// Typestate of os/exec.Cmd inside one function: a write to the writer returned by StdinPipe() must be
// preceded (dominated) by Start/Run/Output/CombinedOutput on the same Cmd, or happen in another goroutine.
func runC01Pipe(c *Ctx) {
	n := 0
	badFns := map[*ssa.Function]bool{}
	for _, fn := range c.P.Funcs {
		eachInstr(fn, func(b *ssa.BasicBlock, idx int, in ssa.Instruction) {
			call, ok := in.(*ssa.Call)
			if !ok {
				return
			}
			name := calleeFullName(&call.Call)
			if name == "os/exec.Command" || name == "os/exec.CommandContext" || name == "(*os/exec.Cmd).StdinPipe" {
				n++
			}
			if name != "(*os/exec.Cmd).StdinPipe" {
				return
			}
			construct := FuncName(fn) + "|StdinPipe"
			cmd := call.Call.Args[0]
			// starts on the same cmd value
			var starts []ssa.Instruction
			for _, ref := range *cmd.Referrers() {
				if c2, ok := ref.(ssa.CallInstruction); ok {
					switch calleeFullName(c2.Common()) {
					case "(*os/exec.Cmd).Start", "(*os/exec.Cmd).Run", "(*os/exec.Cmd).Output", "(*os/exec.Cmd).CombinedOutput":
						starts = append(starts, c2)
					}
				}
			}
			// uses of the pipe writer as an argument of a call (io.WriteString, Write, fmt.Fprint...) in this function
			var pipe ssa.Value
			for _, ref := range *call.Referrers() {
				if ex, ok := ref.(*ssa.Extract); ok && ex.Index == 0 {
					pipe = ex
				}
			}
			if pipe == nil {
				c.ok(construct, call.Pos(), "pipe is not used")
				return
			}
			badUse := ""
			var walk func(v ssa.Value, depth int)
			walk = func(v ssa.Value, depth int) {
				if depth > 3 || v.Referrers() == nil {
					return
				}
				for _, ref := range *v.Referrers() {
					switch r := ref.(type) {
					case *ssa.MakeInterface:
						walk(r, depth+1)
					case *ssa.ChangeInterface:
						walk(r, depth+1)
					case ssa.CallInstruction:
						if _, isGo := r.(*ssa.Go); isGo {
							continue
						}
						nm := calleeFullName(r.Common())
						if r.Common().IsInvoke() && r.Common().Method.Name() == "Close" {
							continue
						}
						if strings.HasSuffix(nm, ".Close") {
							continue
						}
						dominated := false
						for _, s := range starts {
							if instrDominates(s.Block(), instrIndex(s), r.Block(), instrIndex(r)) {
								dominated = true
							}
						}
						if !dominated {
							badUse = fmt.Sprintf("%s at %s", nm, c.P.Pos(r.Pos()))
						}
					}
				}
			}
			walk(pipe, 0)
			if badUse != "" {
				badFns[fn] = true
				c.bad(construct, call.Pos(), "write to the stdin pipe ("+badUse+") is not preceded by Start/Run/Output on the same Cmd in this goroutine: it blocks once the pipe buffer is full because the child does not exist yet")
				return
			}
			c.ok(construct, call.Pos(), "every use of the pipe is dominated by the start of the process")
		})
		// an exec.Command site is discharged by what was found about the pipes of its function: none taken, or every use of
		// them after the start. When a pipe of the function is reported, the site is not counted as evidence.
		if badFns[fn] {
			continue
		}
		pipes := len(findCalls(fn, "(*os/exec.Cmd).StdinPipe"))
		eachInstr(fn, func(_ *ssa.BasicBlock, _ int, in ssa.Instruction) {
			if call, ok := in.(*ssa.Call); ok {
				if nm := calleeFullName(&call.Call); nm == "os/exec.Command" || nm == "os/exec.CommandContext" {
					if pipes == 0 {
						c.ok(FuncName(fn)+"|"+nm, call.Pos(), "no stdin pipe is taken from a Cmd in this function")
					} else {
						c.ok(FuncName(fn)+"|"+nm, call.Pos(), fmt.Sprintf("%d stdin pipe(s) taken in this function, each used only after the start of the process", pipes))
					}
				}
			}
		})
	}
	_ = n
}

// ---- C01.EXIT ----
func runC01Exit(c *Ctx) {
	p := c.P
	// (1) os.Exit / log.Fatal* / runtime.Goexit are not called from the library package
	forbidden := map[string]bool{"os.Exit": true, "log.Fatal": true, "log.Fatalf": true, "log.Fatalln": true, "runtime.Goexit": true, "log.Panic": true, "log.Panicf": true, "log.Panicln": true}
	found := 0
	for _, fn := range p.Funcs {
		eachInstr(fn, func(_ *ssa.BasicBlock, _ int, in ssa.Instruction) {
			if call, ok := in.(ssa.CallInstruction); ok {
				if nm := calleeFullName(call.Common()); forbidden[nm] {
					found++
					c.bad(FuncName(fn)+"|"+nm, call.Pos(), "library code terminates the process")
				}
			}
		})
	}
	if found == 0 {
		c.ok("package|no process termination", token.NoPos, fmt.Sprintf("%d functions scanned for os.Exit/log.Fatal*/runtime.Goexit", len(p.Funcs)))
	}
	// (2) (*Command).Main: the return reached when runLinter's error is non-nil is the constant 3
	main := p.Method("Command", "Main")
	if main == nil {
		c.anchorMissing("(*Command).Main")
		return
	}
	var errVal ssa.Value
	eachInstr(main, func(_ *ssa.BasicBlock, _ int, in ssa.Instruction) {
		if call, ok := in.(*ssa.Call); ok {
			if f := staticCallee(&call.Call); f != nil && FuncName(f) == "(*Command).runLinter" {
				for _, ref := range *call.Referrers() {
					if ex, ok := ref.(*ssa.Extract); ok && ex.Index == 1 {
						errVal = ex
					}
				}
			}
		}
	})
	if errVal == nil {
		c.anchorMissing("call of (*Command).runLinter in (*Command).Main")
		return
	}
	okc := false
	for _, b := range main.Blocks {
		if len(b.Instrs) == 0 {
			continue
		}
		v, nilSucc, ok := nilTest(b.Instrs[len(b.Instrs)-1])
		if !ok || v != errVal {
			continue
		}
		nonNil := b.Succs[1-nilSucc]
		// every return reachable from the non-nil edge without leaving ... the block itself must return constant 3
		rets := returnsFrom(nonNil)
		all3 := len(rets) > 0
		for _, r := range rets {
			if len(r.Results) != 1 {
				all3 = false
				continue
			}
			if k, ok := constInt(r.Results[0]); !ok || k != 3 {
				all3 = false
			}
		}
		if all3 {
			okc = true
			c.ok("(*Command).Main|fatal error exit status", b.Instrs[len(b.Instrs)-1].Pos(), "every return after a non-nil runLinter error is the constant 3")
		} else {
			okc = true
			c.bad("(*Command).Main|fatal error exit status", b.Instrs[len(b.Instrs)-1].Pos(), "a return reached with a non-nil runLinter error is not the constant 3")
		}
	}
	if !okc {
		c.undecided("(*Command).Main|fatal error exit status", main.Pos(), "no nil test of runLinter's error found")
	}
	// (3) cmd/actionlint main passes Main's result to os.Exit
	if p.SCmd != nil {
		if m := p.SCmd.Func("main"); m != nil {
			good := false
			eachInstr(m, func(_ *ssa.BasicBlock, _ int, in ssa.Instruction) {
				if call, ok := in.(*ssa.Call); ok && calleeFullName(&call.Call) == "os.Exit" {
					if inner, ok := call.Call.Args[0].(*ssa.Call); ok {
						if f := staticCallee(&inner.Call); f != nil && FuncName(f) == "(*Command).Main" {
							good = true
						}
					}
				}
			})
			if good {
				c.ok("cmd/actionlint.main|os.Exit(cmd.Main(...))", m.Pos(), "exit status is Main's return value")
			} else {
				c.bad("cmd/actionlint.main|os.Exit(cmd.Main(...))", m.Pos(), "main does not pass (*Command).Main's result to os.Exit")
			}
		}
	}
}

// returnsFrom collects Return instructions reachable from a block.
func returnsFrom(b *ssa.BasicBlock) []*ssa.Return {
	var out []*ssa.Return
	for blk := range reachableBlocks([]*ssa.BasicBlock{b}, nil) {
		if len(blk.Instrs) > 0 {
			if r, ok := blk.Instrs[len(blk.Instrs)-1].(*ssa.Return); ok {
				out = append(out, r)
			}
		}
	}
	return out
}

// ---- C01.UNSAFE ----
func runC01Unsafe(c *Ctx) {
	found := 0
	for _, f := range c.P.Main.Syntax {
		for _, imp := range f.Imports {
			path := strings.Trim(imp.Path.Value, `"`)
			switch path {
			case "unsafe", "C":
				found++
				c.bad("import "+path, imp.Pos(), "the call-graph and ownership arguments assume no unsafe/cgo")
			case "reflect":
				found++
				c.bad("import "+path, imp.Pos(), "the call-graph and ownership arguments assume that no function is called and no field is written through reflection")
			}
		}
	}
	if found == 0 {
		c.ok("package|imports", token.NoPos, fmt.Sprintf("%d files: no unsafe, reflect or cgo import", len(c.P.Main.Syntax)))
	}
}
