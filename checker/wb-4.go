package main

import (
	"fmt"
	"go/token"
	"go/types"
	"sort"
	"strings"

	"golang.org/x/tools/go/ssa"
)

// ---- C11: the ends of a chain and the depth of sanitising calls ----

// matcherField: the address v is a field of the untrusted-input matcher whose type prints as typ (the fields are found
// by their type, not by their name: the candidate set is the only []*UntrustedInputMap, the depth of sanitising calls
// the only int, the search roots the only UntrustedInputSearchRoots).
func matcherField(v ssa.Value, typ string) bool {
	fa, ok := v.(*ssa.FieldAddr)
	if !ok || pointeeName(fa.X.Type()) != "UntrustedInputChecker" {
		return false
	}
	_, fv := fieldName(fa.X.Type(), fa.Field)
	return fv != nil && typeStr(fv.Type()) == typ
}

func isMatcherMethod(f *ssa.Function) bool {
	return f != nil && inModule(f) && f.Blocks != nil && f.Signature.Recv() != nil && pointeeName(f.Signature.Recv().Type()) == "UntrustedInputChecker"
}

// matcherStepFuncs: the methods of the matcher that change the candidate set (the field itself or an element of it),
// directly or through another method of the matcher: the steps of a chain, its end and the reset.
func matcherStepFuncs(p *Prog) map[*ssa.Function]bool {
	return p.memoFuncSet("wb4.matcherSteps", func() map[*ssa.Function]bool {
		m := map[*ssa.Function]bool{}
		for _, fn := range p.Funcs {
			if !isMatcherMethod(fn) {
				continue
			}
			eachInstr(fn, func(_ *ssa.BasicBlock, _ int, in ssa.Instruction) {
				st, ok := in.(*ssa.Store)
				if !ok {
					return
				}
				if matcherField(st.Addr, "[]*UntrustedInputMap") {
					m[fn] = true
				}
				if ia, ok := st.Addr.(*ssa.IndexAddr); ok {
					if ld, ok := ia.X.(*ssa.UnOp); ok && ld.Op == token.MUL && matcherField(ld.X, "[]*UntrustedInputMap") {
						m[fn] = true
					}
				}
			})
		}
		for changed := true; changed; {
			changed = false
			for _, fn := range p.Funcs {
				if !isMatcherMethod(fn) || m[fn] {
					continue
				}
				eachInstr(fn, func(_ *ssa.BasicBlock, _ int, in ssa.Instruction) {
					if call, ok := in.(ssa.CallInstruction); ok && !m[fn] {
						if g := staticCallee(call.Common()); g != nil && m[g] {
							m[fn] = true
							changed = true
						}
					}
				})
			}
		}
		return m
	})
}

// matcherDepthTest: the If of fn that asks whether the matcher is inside a sanitising call (depth > 0 or depth != 0).
func matcherDepthTest(fn *ssa.Function) *ssa.If {
	for _, b := range fn.Blocks {
		ifi, ok := b.Instrs[len(b.Instrs)-1].(*ssa.If)
		if !ok {
			continue
		}
		bo, ok := ifi.Cond.(*ssa.BinOp)
		if !ok || bo.Op != token.GTR && bo.Op != token.NEQ {
			continue
		}
		ld, ok := bo.X.(*ssa.UnOp)
		if !ok || ld.Op != token.MUL || !matcherField(ld.X, "int") {
			continue
		}
		if k, ok := constInt(bo.Y); ok && k == 0 {
			return ifi
		}
	}
	return nil
}

// c11ChainEnds: the clauses of C11.RESET about where a chain ends. (1) OnVisitEnd reports the chain that reaches the root
// of the expression; (2) leaving a node, outside sanitising calls, always steps, ends or resets the chain - a node kind
// that does neither would let the next property access continue the chain of one of its operands; (3) a new chain is
// started only after the previous one was ended (reported), so several reads in one expression are reported each.
func c11ChainEnds(c *Ctx) {
	p := c.P
	end := p.Method("UntrustedInputChecker", "end")
	leave := p.Method("UntrustedInputChecker", "OnVisitNodeLeave")
	visitEnd := p.Method("UntrustedInputChecker", "OnVisitEnd")
	if end == nil || leave == nil || visitEnd == nil {
		c.anchorMissing("(*UntrustedInputChecker).end / OnVisitNodeLeave / OnVisitEnd")
		return
	}
	callsOf := func(fn *ssa.Function, want func(*ssa.Function) bool) []ssa.CallInstruction {
		var out []ssa.CallInstruction
		eachInstr(fn, func(_ *ssa.BasicBlock, _ int, in ssa.Instruction) {
			if call, ok := in.(*ssa.Call); ok {
				if g := staticCallee(&call.Call); g != nil && want(g) {
					out = append(out, call)
				}
			}
		})
		return out
	}
	isEnd := func(g *ssa.Function) bool { return g == end }
	// (1)
	{
		ends := callsOf(visitEnd, isEnd)
		all := len(ends) > 0
		for _, b := range visitEnd.Blocks {
			if _, ok := b.Instrs[len(b.Instrs)-1].(*ssa.Return); !ok {
				continue
			}
			covered := false
			for _, e := range ends {
				if e.Block() == b || e.Block().Dominates(b) {
					covered = true
				}
			}
			if !covered {
				all = false
			}
		}
		construct := "(*UntrustedInputChecker).OnVisitEnd|ends the last chain"
		if all {
			c.ok(construct, visitEnd.Pos(), "end() dominates every return: a read at the root of the expression is reported")
		} else {
			c.bad(construct, visitEnd.Pos(), "a path through OnVisitEnd does not call end(): the chain that is still open when the walk is over (`${{ github.event.issue.title }}`, the last read of any expression) is never reported")
		}
	}
	// (2)
	{
		steps := matcherStepFuncs(p)
		done := map[*ssa.BasicBlock]bool{}
		for _, call := range callsOf(leave, func(g *ssa.Function) bool { return steps[g] }) {
			done[call.Block()] = true
		}
		depth := matcherDepthTest(leave)
		seen := map[*ssa.BasicBlock]bool{leave.Blocks[0]: true}
		work := []*ssa.BasicBlock{leave.Blocks[0]}
		var miss *ssa.Return
		for len(work) > 0 && miss == nil {
			b := work[len(work)-1]
			work = work[:len(work)-1]
			if done[b] {
				continue
			}
			last := b.Instrs[len(b.Instrs)-1]
			if ret, ok := last.(*ssa.Return); ok {
				miss = ret
				break
			}
			for i, s := range b.Succs {
				if depth != nil && last == ssa.Instruction(depth) && i == 0 {
					continue
				}
				if !seen[s] {
					seen[s] = true
					work = append(work, s)
				}
			}
		}
		construct := "(*UntrustedInputChecker).OnVisitNodeLeave|every node steps or ends the chain"
		if miss == nil {
			c.ok(construct, leave.Pos(), "outside sanitising calls every path through the leave callback advances, ends or resets the candidate set")
		} else {
			c.bad(construct, leave.Pos(), "a node kind is left without stepping, ending or resetting the chain: the candidates of its operand stay open, so a property access on the result continues (and then drops or misreports) the chain - `fromJSON(github.event.issue.body).x` loses the report of the body")
		}
	}
	// (3)
	{
		starts := map[*ssa.Function]bool{}
		for _, fn := range p.Funcs {
			if !isMatcherMethod(fn) {
				continue
			}
			eachInstr(fn, func(_ *ssa.BasicBlock, _ int, in ssa.Instruction) {
				if ld, ok := in.(*ssa.UnOp); ok && ld.Op == token.MUL && matcherField(ld.X, "UntrustedInputSearchRoots") {
					starts[fn] = true
				}
			})
		}
		n, bad := 0, ""
		for _, fn := range p.Funcs {
			if !inModule(fn) || fn.Blocks == nil || starts[fn] {
				continue
			}
			ends := callsOf(fn, isEnd)
			for _, call := range callsOf(fn, func(g *ssa.Function) bool { return starts[g] }) {
				n++
				okHere := false
				for _, e := range ends {
					if dom(e, call) {
						okHere = true
					}
				}
				if !okHere && bad == "" {
					bad = p.Pos(call.Pos())
				}
			}
		}
		construct := "(*UntrustedInputChecker).OnVisitNodeLeave|a chain starts after the previous one was ended"
		switch {
		case len(starts) == 0 || n == 0:
			c.bad(construct, leave.Pos(), "no call starts a chain from the search roots: nothing is ever matched")
		case bad != "":
			c.bad(construct, leave.Pos(), "the chain is started at "+bad+" without end() before it on every path: the candidates of the previous chain are still in the set and are dropped by the first property access of the new one, so of `github.event.issue.title || github.event.issue.body` only the last read is reported")
		default:
			c.ok(construct, leave.Pos(), "end() dominates every call that puts a root of the search tree into the candidate set")
		}
	}
}

// c11SafeDepth: the clause of C11.SAFE about the nesting depth of sanitising calls. The depth is written in three places
// only: zeroed by Init (or a constructor), incremented by one in the enter callback exactly when the node is a sanitising
// call, decremented by one in the leave callback exactly when the node is a sanitising call and the depth is positive.
// While the depth is positive the leave callback does nothing to the chain.
func c11SafeDepth(c *Ctx) {
	p := c.P
	enter := p.Method("UntrustedInputChecker", "OnVisitNodeEnter")
	leave := p.Method("UntrustedInputChecker", "OnVisitNodeLeave")
	safe := p.Func("isSafeFuncCall")
	if enter == nil || leave == nil || safe == nil {
		c.anchorMissing("(*UntrustedInputChecker).OnVisitNodeEnter / OnVisitNodeLeave / isSafeFuncCall")
		return
	}
	construct := "(*UntrustedInputChecker).safeCalls|depth of sanitising calls is balanced"
	var problems []string
	// by: the stored value is the field's own value plus delta
	by := func(st *ssa.Store, delta token.Token) bool {
		bo, ok := st.Val.(*ssa.BinOp)
		if !ok || bo.Op != delta {
			return false
		}
		ld, ok := bo.X.(*ssa.UnOp)
		if !ok || ld.Op != token.MUL || !matcherField(ld.X, "int") {
			return false
		}
		k, ok := constInt(bo.Y)
		return ok && k == 1
	}
	// guards: the conditions controlling b are all taken on their true edge and are the test of a type assertion, the
	// sanitiser test, or (if allowed) the depth test; the sanitiser test is among them
	guards := func(b *ssa.BasicBlock, depth *ssa.If) bool {
		hasSafe := false
		for ifi, outcome := range controllingConds(b) {
			if !outcome {
				return false
			}
			switch x := ifi.Cond.(type) {
			case *ssa.Call:
				if staticCallee(&x.Call) != safe {
					return false
				}
				hasSafe = true
			case *ssa.Extract:
				if _, ok := x.Tuple.(*ssa.TypeAssert); !ok || x.Index != 1 {
					return false
				}
			default:
				if depth == nil || ifi != depth {
					return false
				}
			}
		}
		return hasSafe
	}
	nInc, nDec := 0, 0
	for _, fn := range p.Funcs {
		if !inModule(fn) || fn.Blocks == nil {
			continue
		}
		eachInstr(fn, func(b *ssa.BasicBlock, _ int, in ssa.Instruction) {
			st, ok := in.(*ssa.Store)
			if !ok || !matcherField(st.Addr, "int") {
				return
			}
			switch {
			case fn == enter:
				nInc++
				if !by(st, token.ADD) || !guards(b, nil) {
					problems = append(problems, "the enter callback does not add exactly one for exactly the sanitising calls (at "+p.Pos(st.Pos())+")")
				}
			case fn == leave:
				nDec++
				if !by(st, token.SUB) || !guards(b, matcherDepthTest(leave)) {
					problems = append(problems, "the leave callback does not subtract exactly one for exactly the sanitising calls (at "+p.Pos(st.Pos())+")")
				}
			default:
				if k, ok := constInt(st.Val); !ok || k != 0 {
					problems = append(problems, "the depth is written outside the callbacks at "+p.Pos(st.Pos()))
				}
			}
		})
	}
	if nInc != 1 || nDec != 1 {
		problems = append(problems, "the depth is not incremented once in the enter callback and decremented once in the leave callback")
	}
	// inside a sanitising call the leave callback leaves the chain alone, and it always gets to the decrement
	if depth := matcherDepthTest(leave); depth == nil {
		problems = append(problems, "the leave callback does not test the depth")
	} else {
		steps := matcherStepFuncs(p)
		inside := reachableBlocks([]*ssa.BasicBlock{depth.Block().Succs[0]}, nil)
		for b := range inside {
			for _, in := range b.Instrs {
				if call, ok := in.(*ssa.Call); ok {
					if g := staticCallee(&call.Call); g != nil && steps[g] {
						problems = append(problems, "inside a sanitising call the leave callback still advances or ends the chain (at "+p.Pos(call.Pos())+")")
					}
				}
			}
		}
		// the depth test comes first: nothing that steps the chain precedes it
		for _, call := range findStepCalls(leave, steps) {
			if !inside[call.Block()] && reachableBlocks([]*ssa.BasicBlock{call.Block()}, nil)[depth.Block()] && call.Block() != depth.Block() {
				problems = append(problems, "the chain is stepped before the depth is tested (at "+p.Pos(call.Pos())+")")
			}
			if call.Block() == depth.Block() {
				problems = append(problems, "the chain is stepped before the depth is tested (at "+p.Pos(call.Pos())+")")
			}
		}
	}
	if len(problems) == 0 {
		c.ok(construct, leave.Pos(), "zeroed by Init, +1 on entering and -1 on leaving exactly the sanitising calls; while it is positive the chain is left alone")
	} else {
		c.bad(construct, leave.Pos(), strings.Join(problems, "; ")+": a read inside contains/startsWith/endsWith is reported, or reads after such a call are no longer reported")
	}
}

func findStepCalls(fn *ssa.Function, steps map[*ssa.Function]bool) []*ssa.Call {
	var out []*ssa.Call
	eachInstr(fn, func(_ *ssa.BasicBlock, _ int, in ssa.Instruction) {
		if call, ok := in.(*ssa.Call); ok {
			if g := staticCallee(&call.Call); g != nil && steps[g] {
				out = append(out, call)
			}
		}
	})
	return out
}

// ---- C09.IMM / C10.IMM: the object through which a mutated container is reached ----

// holdersOf: the values through which container (or object) v is reached: for `x.f` the object x, for an element the
// container it is an element of - followed backward through conversions, phis, local variables, parameters (to the
// arguments of all callers) and the results of module functions. The provenance engine (flow.go) follows a field load to
// all stores of the field anywhere and so forgets which object held it: a map that was freshly made where its holder was
// built is still shared when the holder is.
func holdersOf(p *Prog, v ssa.Value, transitive bool) []ssa.Value {
	var out []ssa.Value
	seen := map[ssa.Value]bool{}
	var walk func(v ssa.Value, depth int)
	hold := func(h ssa.Value, depth int) {
		if !seen[h] {
			out = append(out, h)
		}
		if transitive {
			walk(h, depth)
		}
	}
	walk = func(v ssa.Value, depth int) {
		if v == nil || seen[v] || depth > 6 {
			return
		}
		seen[v] = true
		switch x := v.(type) {
		case *ssa.UnOp:
			if x.Op != token.MUL {
				return
			}
			switch a := x.X.(type) {
			case *ssa.FieldAddr:
				hold(a.X, depth)
			case *ssa.IndexAddr:
				hold(a.X, depth)
			case *ssa.Alloc:
				for _, ref := range *a.Referrers() {
					if s, ok := ref.(*ssa.Store); ok && s.Addr == ssa.Value(a) {
						walk(s.Val, depth)
					}
				}
			}
		case *ssa.FieldAddr:
			hold(x.X, depth)
		case *ssa.IndexAddr:
			hold(x.X, depth)
		case *ssa.Field:
			hold(x.X, depth)
		case *ssa.Lookup:
			hold(x.X, depth)
		case *ssa.Index:
			hold(x.X, depth)
		case *ssa.Extract:
			switch t := x.Tuple.(type) {
			case *ssa.Lookup:
				if x.Index == 0 {
					hold(t.X, depth)
				}
			case *ssa.TypeAssert:
				if x.Index == 0 {
					walk(t.X, depth)
				}
			case *ssa.Next:
				if r, ok := t.Iter.(*ssa.Range); ok && x.Index == 2 {
					hold(r.X, depth)
				}
			case *ssa.Call:
				if f := staticCallee(&t.Call); f != nil && inModule(f) && f.Blocks != nil {
					for _, b := range f.Blocks {
						if ret, ok := b.Instrs[len(b.Instrs)-1].(*ssa.Return); ok && x.Index < len(ret.Results) {
							walk(ret.Results[x.Index], depth+1)
						}
					}
				}
			}
		case *ssa.Call:
			if b, ok := x.Call.Value.(*ssa.Builtin); ok && b.Name() == "append" {
				walk(x.Call.Args[0], depth)
				return
			}
			if f := staticCallee(&x.Call); f != nil && inModule(f) && f.Blocks != nil {
				for _, b := range f.Blocks {
					if ret, ok := b.Instrs[len(b.Instrs)-1].(*ssa.Return); ok && len(ret.Results) > 0 {
						walk(ret.Results[0], depth+1)
					}
				}
			}
		case *ssa.TypeAssert:
			walk(x.X, depth)
		case *ssa.ChangeInterface:
			walk(x.X, depth)
		case *ssa.MakeInterface:
			walk(x.X, depth)
		case *ssa.ChangeType:
			walk(x.X, depth)
		case *ssa.Convert:
			walk(x.X, depth)
		case *ssa.Slice:
			walk(x.X, depth)
		case *ssa.Phi:
			for _, e := range x.Edges {
				walk(e, depth)
			}
		case *ssa.Parameter:
			fn := x.Parent()
			idx := -1
			for i, q := range fn.Params {
				if q == x {
					idx = i
				}
			}
			for _, e := range p.callersOf(fn) {
				if e.Site == nil {
					continue
				}
				cc := e.Site.Common()
				ai := idx
				if cc.IsInvoke() {
					if idx == 0 {
						walk(cc.Value, depth+1)
						continue
					}
					ai = idx - 1
				}
				if ai >= 0 && ai < len(cc.Args) {
					walk(cc.Args[ai], depth+1)
				}
			}
		}
	}
	walk(v, 0)
	return out
}

// sharedHolder: v is reached through an object that comes from a package-level table or the shared configuration.
func sharedHolder(p *Prog, v ssa.Value) string {
	if pointeeName(v.Type()) == "Linter" {
		return "the Linter itself, whose fields every per-file goroutine reads"
	}
	// a container held directly by a field of the Linter (objects further away have their own discipline: the formatter's
	// rule table is guarded by a mutex, decided by C10.LOCK)
	for _, h := range holdersOf(p, v, false) {
		if pointeeName(h.Type()) == "Linter" {
			return "a field of the Linter, which every per-file goroutine reads"
		}
	}
	for _, h := range holdersOf(p, v, true) {
		if _, isAlloc := h.(*ssa.Alloc); isAlloc {
			continue
		}
		if s := sharedOrigin(p, h, 0); s != "" {
			return s
		}
		if s := cacheElement(p, h); s != "" {
			return s
		}
	}
	return ""
}

// cacheElement: v is an entry handed out by one of the per-repository caches (a map field of a type that also has a
// mutex field and is reached from the Linter by every file of the repository).
func cacheElement(p *Prog, v ssa.Value) string {
	for _, o := range p.Origins(v, FlowOpts{Params: true, Fields: false, MaxDepth: 10}) {
		if o.Kind != OElem || o.Base == nil {
			continue
		}
		f, base := fieldLoad(o.Base)
		if f == "" || base == nil {
			continue
		}
		if _, isMap := o.Base.Type().Underlying().(*types.Map); !isMap {
			continue
		}
		n := namedOf(base.Type())
		if n == nil {
			continue
		}
		st, ok := n.Underlying().(*types.Struct)
		if !ok {
			continue
		}
		for i := 0; i < st.NumFields(); i++ {
			if t := typeStr(st.Field(i).Type()); t == "sync.RWMutex" || t == "sync.Mutex" {
				return "an entry of the cache " + f + " shared by all files of a repository"
			}
		}
	}
	return ""
}

// c09ImmIndirect: a map is written that is not loaded from a field on the spot (it is a parameter, a phi or the result of
// a call). Every type object through whose field the map can arrive is judged like the receiver of a direct write.
func c09ImmIndirect(c *Ctx, fn *ssa.Function, in ssa.Instruction, m ssa.Value, what string, occ map[string]int) {
	p := c.P
	if _, isMap := m.Type().Underlying().(*types.Map); !isMap {
		return
	}
	switch m.(type) {
	case *ssa.MakeMap:
		return
	}
	seenHolder := map[ssa.Value]bool{}
	for _, h := range holdersOf(p, m, false) {
		if n := pointeeName(h.Type()); n != "ObjectType" && n != "ArrayType" || seenHolder[h] {
			continue
		}
		seenHolder[h] = true
		if _, isAlloc := h.(*ssa.Alloc); isAlloc {
			continue
		}
		k := FuncName(fn) + "|" + what + " through a map handed on from a type object"
		occ[k]++
		construct := fmt.Sprintf("%s#%d", k, occ[k])
		origs := p.Origins(h, FlowOpts{Params: true, Fields: true, MaxDepth: 12})
		bad := describeOrigins(p, origs)
		if len(bad) == 0 {
			c.ok(construct, in.Pos(), fmt.Sprintf("the type object whose map is written (held at %s) can only be one of %d fresh allocations", p.Pos(h.Pos()), len(origs)))
			continue
		}
		c.bad(construct, in.Pos(), "writes into a map that belongs to a type object (held at "+p.Pos(h.Pos())+") that may be shared: it can be "+shortList(bad, 3)+". Types handed out by the checker are shared between expressions, jobs and files")
	}
}

// ---- C10.SIB: the files a per-repository cache reads lie under its own repository ----

// variadicFirst: the first element of the slice built for a variadic call (`[]T{a, b, c}...` as SSA builds it).
func variadicFirst(v ssa.Value) ssa.Value {
	sl, ok := v.(*ssa.Slice)
	if !ok {
		return nil
	}
	al, ok := sl.X.(*ssa.Alloc)
	if !ok {
		return nil
	}
	for _, ref := range *al.Referrers() {
		ia, ok := ref.(*ssa.IndexAddr)
		if !ok {
			continue
		}
		if k, ok := constInt(ia.Index); !ok || k != 0 {
			continue
		}
		for _, r2 := range *ia.Referrers() {
			if st, ok := r2.(*ssa.Store); ok && st.Addr == ssa.Value(ia) {
				return st.Val
			}
		}
	}
	return nil
}

// rootedAtOwnProject: the path v starts with the root directory of the project the cache (receiver type recvT) was made
// for: filepath.Join whose first element is again such a path, or RootDir() / .root of the receiver's *Project field.
func rootedAtOwnProject(p *Prog, v ssa.Value, recvT string, depth int, seen map[ssa.Value]bool) bool {
	if v == nil || depth > 6 {
		return false
	}
	if seen[v] {
		return true // a cycle through phis adds no other source
	}
	seen[v] = true
	ownProject := func(x ssa.Value) bool {
		ld, ok := x.(*ssa.UnOp)
		if !ok || ld.Op != token.MUL {
			return false
		}
		fa, ok := ld.X.(*ssa.FieldAddr)
		if !ok || pointeeName(fa.X.Type()) != recvT {
			return false
		}
		return pointeeName(ld.Type()) == "Project"
	}
	switch x := v.(type) {
	case *ssa.Call:
		switch calleeFullName(&x.Call) {
		case "path/filepath.Join":
			return rootedAtOwnProject(p, variadicFirst(x.Call.Args[0]), recvT, depth, seen)
		case "path/filepath.Clean", "path/filepath.FromSlash":
			return rootedAtOwnProject(p, x.Call.Args[0], recvT, depth, seen)
		}
		if f := staticCallee(&x.Call); f != nil && FuncName(f) == "(*Project).RootDir" && len(x.Call.Args) == 1 {
			return ownProject(x.Call.Args[0])
		}
		return false
	case *ssa.UnOp:
		if x.Op == token.MUL {
			if fa, ok := x.X.(*ssa.FieldAddr); ok && fieldAddrName(fa) == "Project.root" {
				return ownProject(fa.X)
			}
		}
		return false
	case *ssa.Phi:
		for _, e := range x.Edges {
			if !rootedAtOwnProject(p, e, recvT, depth, seen) {
				return false
			}
		}
		return true
	case *ssa.Parameter:
		fn := x.Parent()
		idx := -1
		for i, q := range fn.Params {
			if q == x {
				idx = i
			}
		}
		n := 0
		for _, e := range p.callersOf(fn) {
			if e.Site == nil || e.Site.Common().IsInvoke() || idx >= len(e.Site.Common().Args) {
				return false
			}
			n++
			if !rootedAtOwnProject(p, e.Site.Common().Args[idx], recvT, depth+1, seen) {
				return false
			}
		}
		return n > 0
	}
	return false
}

// c10CacheReadsOwnRepo: every file a per-repository cache opens is named by a path under the root of the project the cache
// was created for - not relative to the working directory or to another project.
func c10CacheReadsOwnRepo(c *Ctx) {
	p := c.P
	reads := map[string]bool{"os.ReadFile": true, "os.Stat": true, "os.Lstat": true, "os.Open": true, "os.OpenFile": true, "os.ReadDir": true, "io/ioutil.ReadFile": true}
	for _, T := range []string{"LocalActionsCache", "LocalReusableWorkflowCache"} {
		n, bad := 0, ""
		// the methods of the cache, their closures, and the module functions they call (a reader that is a plain function
		// instead of a method belongs to the cache all the same)
		scope := map[*ssa.Function]bool{}
		for _, fn := range p.Funcs {
			if !inModule(fn) || fn.Blocks == nil {
				continue
			}
			root := fn
			for root.Parent() != nil {
				root = root.Parent()
			}
			if root.Signature.Recv() == nil || pointeeName(root.Signature.Recv().Type()) != T {
				continue
			}
			for _, h := range p.withHelpers(fn, 2) {
				if inModule(h) && (h == fn || h.Signature.Recv() == nil) {
					scope[h] = true
				}
			}
		}
		for _, fn := range p.Funcs {
			if !scope[fn] {
				continue
			}
			eachInstr(fn, func(_ *ssa.BasicBlock, _ int, in ssa.Instruction) {
				call, ok := in.(*ssa.Call)
				if !ok || !reads[calleeFullName(&call.Call)] || len(call.Call.Args) == 0 {
					return
				}
				n++
				if !rootedAtOwnProject(p, call.Call.Args[0], T, 0, map[ssa.Value]bool{}) && bad == "" {
					bad = calleeFullName(&call.Call) + " at " + p.Pos(call.Pos())
				}
			})
		}
		construct := T + "|files are read under the cache's own project root"
		switch {
		case n == 0:
			c.undecided(construct, 0, "no file access found in the methods of "+T)
		case bad != "":
			c.bad(construct, 0, "the path given to "+bad+" does not start with the root directory of the project the cache was created for: a local action / reusable workflow is looked up relative to the working directory or another repository, so a file is checked against definitions that are not its own repository's")
		default:
			c.ok(construct, 0, fmt.Sprintf("%d file accesses, each on filepath.Join(<root of the cache's project>, ...)", n))
		}
	}
}

// ---- C11.PAIR: the kinds the matcher distinguishes are visited through check only ----

// c11OnlyCheckDispatches: the functions check hands a type-switched node to (checkVariable, checkObjectDeref, ...) run
// between the enter and the leave callback only when check itself calls them. For every node kind that the callbacks of
// the untrusted-input matcher treat specially (a type test on the callback's node parameter) no other function may call
// the kind's handler directly: the node would be typed without being seen by the matcher - a sanitising call not counted,
// a property access not stepped, a chain not ended.
func c11OnlyCheckDispatches(c *Ctx, check *ssa.Function) {
	p := c.P
	kinds := map[string]bool{}
	for _, nm := range []string{"OnVisitNodeEnter", "OnVisitNodeLeave"} {
		f := p.Method("UntrustedInputChecker", nm)
		if f == nil || len(f.Params) < 2 {
			c.anchorMissing("(*UntrustedInputChecker)." + nm)
			return
		}
		eachInstr(f, func(_ *ssa.BasicBlock, _ int, in ssa.Instruction) {
			if ta, ok := in.(*ssa.TypeAssert); ok && ta.X == ssa.Value(f.Params[1]) {
				kinds[typeStr(ta.AssertedType)] = true
			}
		})
	}
	construct := "(*ExprSemanticsChecker).check|kinds the matcher distinguishes are dispatched by check only"
	if len(kinds) == 0 {
		c.bad(construct, check.Pos(), "the callbacks of the untrusted-input matcher distinguish no node kind")
		return
	}
	var bad []string
	n := 0
	eachInstr(check, func(_ *ssa.BasicBlock, _ int, in ssa.Instruction) {
		call, ok := in.(ssa.CallInstruction)
		if !ok || len(call.Common().Args) < 2 {
			return
		}
		g := staticCallee(call.Common())
		if g == nil || !inModule(g) {
			return
		}
		ex, ok := call.Common().Args[1].(*ssa.Extract)
		if !ok {
			return
		}
		ta, ok := ex.Tuple.(*ssa.TypeAssert)
		if !ok || ta.X != ssa.Value(check.Params[1]) || !kinds[typeStr(ta.AssertedType)] {
			return
		}
		n++
		for _, e := range p.callersOf(g) {
			if e.Caller.Func != check {
				bad = append(bad, FuncName(e.Caller.Func)+" calls "+FuncName(g)+" ("+typeStr(ta.AssertedType)+")")
			}
		}
	})
	sort.Strings(bad)
	switch {
	case n == 0:
		c.bad(construct, check.Pos(), "check dispatches none of the kinds "+strings.Join(sortedKeys(kinds), ", ")+" to a handler")
	case len(bad) > 0:
		c.bad(construct, check.Pos(), shortList(bad, 3)+" without passing check: the enter/leave callbacks are skipped for that node, so a sanitising call is not counted (its arguments are reported) or a call/property access neither steps nor ends the chain (a read is lost)")
	default:
		c.ok(construct, check.Pos(), fmt.Sprintf("the handlers of the %d kinds with a case in the matcher's callbacks are called from check only", n))
	}
}

// ---- C09.AST: writes into containers held by AST nodes ----

// c09AstContainers: besides field stores, a rule can change the AST by writing an element of a slice or map that an AST
// node holds (`n.RunsOn.Labels[i] = x`, `delete(n.Env.Vars, k)`, `sort.Slice(n.Steps, ...)`), also after the container was
// handed on as a parameter. Such a write is reported unless the node holding the container was created on the spot.
// Returns the number of writes looked at and the number reported.
func c09AstContainers(c *Ctx, astTypes map[string]bool) (int, int) {
	p := c.P
	n, nbad := 0, 0
	for _, fn := range p.Funcs {
		if isParserFunc(fn) || !inModule(fn) || fn.Blocks == nil {
			continue
		}
		eachInstr(fn, func(_ *ssa.BasicBlock, _ int, in ssa.Instruction) {
			var cont ssa.Value
			kind := ""
			switch x := in.(type) {
			case *ssa.Store:
				if ia, ok := x.Addr.(*ssa.IndexAddr); ok {
					cont, kind = ia.X, "element assignment"
				}
			case *ssa.MapUpdate:
				if ld, ok := x.Map.(*ssa.UnOp); ok {
					if _, direct := ld.X.(*ssa.FieldAddr); direct {
						return // a map loaded from a field on the spot: judged with the field stores
					}
				}
				cont, kind = x.Map, "map write"
			case ssa.CallInstruction:
				cc := x.Common()
				name := calleeFullName(cc)
				if b, ok := cc.Value.(*ssa.Builtin); ok {
					name = "builtin." + b.Name()
				}
				if strings.HasPrefix(name, "sort.") || strings.HasPrefix(name, "slices.") || name == "builtin.delete" || name == "builtin.copy" {
					if idx, ok := mutExtern[name]; ok && idx < len(cc.Args) {
						cont, kind = cc.Args[idx], name
					}
				}
			}
			if cont == nil {
				return
			}
			for _, h := range holdersOf(p, cont, false) {
				if !astTypes[pointeeName(h.Type())] {
					continue
				}
				n++
				root := h
				for {
					switch r := root.(type) {
					case *ssa.FieldAddr:
						root = r.X
						continue
					case *ssa.IndexAddr:
						root = r.X
						continue
					}
					break
				}
				if _, isAlloc := root.(*ssa.Alloc); isAlloc {
					continue
				}
				nbad++
				c.bad(FuncName(fn)+"|"+kind+" in a container held by "+pointeeName(h.Type()), in.Pos(), "a rule writes into a slice or map that belongs to the workflow AST: later rules, jobs and steps read the modified node")
				return
			}
		})
	}
	return n, nbad
}
