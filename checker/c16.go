package main

import (
	"fmt"
	"go/constant"
	"go/token"
	"go/types"
	"sort"
	"strings"

	"golang.org/x/tools/go/ssa"
)

// C16 — diagnostics are one line each: user-controlled text reaches a message only through a quoting
// sanitiser. Demand-driven backward search from every message-building site for a user-text source.
func init() {
	register(&Rule{ID: "C16.TAINT", Min: 150, Doc: "user-controlled strings reach diagnostic messages only through %q / strconv.Quote / quotes* / newline replacement", Run: runC16Taint})
	register(&Rule{ID: "C16.FMT", Min: 150, Doc: "format strings of printf-like calls are constants, never data", Run: runC16Fmt})
	register(&Rule{ID: "C16.FIELDS", Min: 5, Doc: "the template record carries every field of the diagnostic unchanged", Run: runC16Fields})
}

// sourceFields: struct fields holding raw user-controlled text (YAML scalars, keys, metadata read from files).
var sourceFields = map[string]bool{
	"String.Value": true, "RawYAMLString.Value": true, "Token.Value": true, "StringNode.Value": true,
	"yaml.Node.Value": true, "yaml.Node.Tag": true, "workflowKeyVal.id": true,
	"ActionMetadata.Name": true, "ActionMetadata.Description": true, "ActionMetadataInput.Name": true, "ActionMetadataOutput.Name": true,
	"ActionMetadataRuns.Using": true, "ActionMetadataRuns.Main": true, "ActionMetadataRuns.Pre": true, "ActionMetadataRuns.PreIf": true,
	"ActionMetadataRuns.Post": true, "ActionMetadataRuns.PostIf": true, "ActionMetadataRuns.Image": true, "ActionMetadataRuns.PreEntrypoint": true,
	"ActionMetadataRuns.Entrypoint": true, "ActionMetadataRuns.PostEntrypoint": true,
	"ActionMetadataBranding.Icon": true, "ActionMetadataBranding.Color": true,
	"ReusableWorkflowMetadataInput.Name": true, "ReusableWorkflowMetadataSecret.Name": true, "ReusableWorkflowMetadataOutput.Name": true,
	// text printed by the external tools: shellcheck echoes characters of the script in its messages (SC1001 and others);
	// an earlier version of this table assumed single-line tool output, which hunt round 3 refuted (F100)
	"shellcheckError.Message": true, "shellcheckError.Level": true,
}

// valueSourceCalls: externals whose first result is text produced outside the process (the output of shellcheck / pyflakes,
// which echoes parts of the script).
var valueSourceCalls = map[string]bool{"(*os/exec.Cmd).Output": true, "(*os/exec.Cmd).CombinedOutput": true}

// messageFields hold finished diagnostic messages: every store into them is an obligation of C16.TAINT.
var messageFields = map[string]bool{"Error.Message": true, "ExprError.Message": true, "InvalidGlobPattern.Message": true}

// sourceKeyMaps: map types whose keys are user-chosen names (range keys are user text).
var sourceKeyMaps = map[string]bool{
	"map[string]ExprType": true, "map[string]*Job": true, "map[string]*Output": true, "map[string]*DispatchInput": true,
	"map[string]*WorkflowCallEventSecret": true, "map[string]*WorkflowCallEventOutput": true, "map[string]*Input": true,
	"map[string]*WorkflowCallInput": true, "map[string]*WorkflowCallSecret": true, "map[string]*EnvVar": true, "map[string]*MatrixRow": true,
	"map[string]*MatrixAssign": true, "map[string]RawYAMLValue": true, "map[string]*Service": true, "map[string]*PermissionScope": true,
	"ActionMetadataInputs": true, "ActionMetadataOutputs": true, "ReusableWorkflowMetadataInputs": true, "ReusableWorkflowMetadataOutputs": true,
	"ReusableWorkflowMetadataSecrets": true, "map[string]*jobNode": true, "map[string][]RawYAMLValue": true, "map[string]PathConfig": true,
}

// sourceCalls: externals whose error text echoes their (user-controlled) input without quoting.
var sourceCalls = map[string]bool{
	"(github.com/robfig/cron/v3.Parser).Parse": true, "os.ReadFile": true, "os.Stat": true, "os.Open": true,
	// go-yaml's TypeError is multi-line ("yaml: unmarshal errors:\n  line 6: ...") and its syntax errors echo input
	"gopkg.in/yaml.v3.Unmarshal": true, "(*gopkg.in/yaml.v3.Node).Decode": true, "(*gopkg.in/yaml.v3.Decoder).Decode": true,
}

// sanitisers: results never contain a raw line break from their input.
var sanitiserCalls = map[string]bool{
	"strconv.Quote": true, "strconv.QuoteRune": true, "strconv.QuoteToASCII": true, "strconv.AppendQuote": true, "strconv.AppendQuoteRune": true,
	"strconv.Itoa": true, "strconv.FormatInt": true, "strconv.FormatFloat": true, "strconv.FormatBool": true,
}
var sanitiserFuncs = map[string]bool{"quotes": true, "sortedQuotes": true, "quotesAll": true, "(*quotesBuilder).build": true, "ordinal": true}

// msgSinks: in-package functions that build a diagnostic (or an error that becomes one).
// fmtIdx >= 0: printf-like with the format at that index and the arguments in the following variadic
// parameter; msgIdx >= 0: a ready message at that index.
type sinkSpec struct{ fmtIdx, msgIdx int }

var msgSinks = map[string]sinkSpec{
	"(*RuleBase).Error": {-1, 2}, "(*RuleBase).Errorf": {2, -1},
	"(*parser).error": {-1, 2}, "(*parser).errorAt": {-1, 2}, "(*parser).errorfAt": {2, -1}, "(*parser).errorf": {2, -1},
	"(*ExprSemanticsChecker).errorf": {2, -1}, "errorAtExpr": {-1, 1}, "errorfAtExpr": {1, -1},
	"errorAt": {-1, 2}, "errorfAt": {2, -1}, "errorAtToken": {-1, 1},
	"(*ExprParser).error": {-1, 1}, "(*ExprParser).errorf": {1, -1}, "(*ExprLexer).error": {-1, 1},
	"(*globValidator).error": {-1, 1},
}

type taintEng struct {
	p     *Prog
	memo  map[ssa.Value]string
	stack map[ssa.Value]bool
}

func (t *taintEng) fieldName(fa *ssa.FieldAddr) string {
	n := fieldAddrName(fa)
	if strings.HasPrefix(n, "yaml.Node.") {
		return n
	}
	return n
}

func isStringish(tp types.Type) bool {
	switch u := tp.Underlying().(type) {
	case *types.Basic:
		return u.Kind() == types.String || u.Kind() == types.UntypedString
	case *types.Slice:
		return isStringish(u.Elem()) || typeStr(u.Elem()) == "byte"
	case *types.Interface, *types.Pointer, *types.Struct, *types.Map, *types.Array:
		return true
	}
	return false
}

// find returns a description of a user-text source reaching v unsanitised ("" if none found).
func (t *taintEng) find(v ssa.Value, depth int) string {
	if v == nil || depth > 14 {
		return ""
	}
	if r, ok := t.memo[v]; ok {
		return r
	}
	if t.stack[v] {
		return ""
	}
	t.stack[v] = true
	r := t.find0(v, depth)
	delete(t.stack, v)
	// a negative answer obtained below another query may be incomplete (cycle cut, depth limit): cache it
	// only for top-level queries
	if r != "" || len(t.stack) == 0 {
		t.memo[v] = r
	}
	return r
}

func (t *taintEng) find0(v ssa.Value, depth int) string {
	if !isStringish(v.Type()) {
		return ""
	}
	p := t.p
	switch x := v.(type) {
	case *ssa.Const, *ssa.Function, *ssa.Global:
		return ""
	case *ssa.Phi:
		for _, e := range x.Edges {
			if r := t.find(e, depth+1); r != "" {
				return r
			}
		}
	case *ssa.BinOp:
		if x.Op == token.ADD {
			if r := t.find(x.X, depth+1); r != "" {
				return r
			}
			return t.find(x.Y, depth+1)
		}
	case *ssa.Convert:
		return t.find(x.X, depth+1)
	case *ssa.ChangeType:
		return t.find(x.X, depth+1)
	case *ssa.MakeInterface:
		return t.find(x.X, depth+1)
	case *ssa.ChangeInterface:
		return t.find(x.X, depth+1)
	case *ssa.TypeAssert:
		return t.find(x.X, depth+1)
	case *ssa.Slice:
		return t.find(x.X, depth+1)
	case *ssa.Field:
		n, _ := fieldName(x.X.Type(), x.Field)
		if messageFields[n] {
			return "" // built by a message primitive whose call sites are obligations of their own
		}
		if sourceFields[n] {
			return "field " + n + " read at " + p.Pos(x.Pos())
		}
		return t.fieldTaint(n, depth)
	case *ssa.UnOp:
		if x.Op != token.MUL {
			return ""
		}
		switch a := x.X.(type) {
		case *ssa.FieldAddr:
			n := fieldAddrName(a)
			if strings.HasSuffix(n, "Node.Value") && strings.Contains(typeStr(a.X.Type()), "yaml.Node") {
				n = "yaml.Node.Value"
			}
			if strings.HasSuffix(n, "Node.Tag") && strings.Contains(typeStr(a.X.Type()), "yaml.Node") {
				n = "yaml.Node.Tag"
			}
			if messageFields[n] {
				return "" // built by a message primitive whose call sites are obligations of their own
			}
			if sourceFields[n] {
				return "field " + n + " read at " + p.Pos(x.Pos())
			}
			return t.fieldTaint(n, depth)
		case *ssa.IndexAddr:
			return t.find(a.X, depth+1)
		case *ssa.Alloc:
			for _, ref := range *a.Referrers() {
				if s, ok := ref.(*ssa.Store); ok && s.Addr == a {
					if r := t.find(s.Val, depth+1); r != "" {
						return r
					}
				}
			}
			return t.allocContent(a, depth)
		case *ssa.FreeVar:
			return t.find(resolveCapture(a), depth+1)
		}
	case *ssa.Alloc:
		return t.allocContent(x, depth)
	case *ssa.Lookup:
		return t.find(x.X, depth+1)
	case *ssa.Index:
		return t.find(x.X, depth+1)
	case *ssa.Extract:
		switch tu := x.Tuple.(type) {
		case *ssa.Next:
			if r, ok := tu.Iter.(*ssa.Range); ok {
				if _, isMap := r.X.Type().Underlying().(*types.Map); isMap {
					if x.Index == 1 {
						if sourceKeyMaps[typeStr(r.X.Type())] {
							return "key of " + typeStr(r.X.Type()) + " ranged at " + p.Pos(r.Pos())
						}
						return ""
					}
					return t.find(r.X, depth+1)
				}
				return t.find(r.X, depth+1)
			}
		case *ssa.Call:
			return t.callResult(tu, x.Index, depth)
		case *ssa.TypeAssert:
			return t.find(tu.X, depth+1)
		case *ssa.Lookup:
			return t.find(tu.X, depth+1)
		}
	case *ssa.Call:
		return t.callResult(x, 0, depth)
	case *ssa.Parameter:
		fn := x.Parent()
		idx := -1
		for i, q := range fn.Params {
			if q == x {
				idx = i
			}
		}
		for _, e := range p.callersOf(fn) {
			if e.Site == nil {
				continue
			}
			cc := e.Site.Common()
			var arg ssa.Value
			if cc.IsInvoke() {
				if idx == 0 {
					arg = cc.Value
				} else if idx-1 < len(cc.Args) {
					arg = cc.Args[idx-1]
				}
			} else if idx < len(cc.Args) {
				arg = cc.Args[idx]
			}
			if arg != nil && guardedByTableMembership(arg, e.Site) {
				continue // the value was found as a key of a constant table before this call: one of finitely many known names
			}
			if r := t.find(arg, depth+1); r != "" {
				return r + " (passed by " + FuncName(e.Caller.Func) + ")"
			}
		}
	case *ssa.FreeVar:
		return t.find(resolveCapture(x), depth+1)
	case *ssa.MakeMap, *ssa.MakeSlice:
		return t.containerContent(v, depth)
	}
	return ""
}

// fieldTaint: a non-source field is tainted when some store to it is.
func (t *taintEng) fieldTaint(name string, depth int) string {
	for _, s := range t.p.fieldStores()[name] {
		if r := t.find(s, depth+2); r != "" {
			return r + " (stored in " + name + ")"
		}
	}
	return ""
}

// allocContent: values stored into the elements/fields of a local array/struct (variadic slices, literals).
func (t *taintEng) allocContent(a *ssa.Alloc, depth int) string {
	for _, ref := range *a.Referrers() {
		switch r := ref.(type) {
		case *ssa.IndexAddr:
			for _, r2 := range *r.Referrers() {
				if s, ok := r2.(*ssa.Store); ok && s.Addr == r {
					if x := t.find(s.Val, depth+1); x != "" {
						return x
					}
				}
			}
		case *ssa.FieldAddr:
			for _, r2 := range *r.Referrers() {
				if s, ok := r2.(*ssa.Store); ok && s.Addr == r {
					if x := t.find(s.Val, depth+1); x != "" {
						return x
					}
				}
			}
		}
	}
	return ""
}

func (t *taintEng) containerContent(v ssa.Value, depth int) string {
	if v.Referrers() == nil {
		return ""
	}
	for _, ref := range *v.Referrers() {
		switch r := ref.(type) {
		case *ssa.MapUpdate:
			if x := t.find(r.Value, depth+1); x != "" {
				return x
			}
		case *ssa.IndexAddr:
			for _, r2 := range *r.Referrers() {
				if s, ok := r2.(*ssa.Store); ok && s.Addr == r {
					if x := t.find(s.Val, depth+1); x != "" {
						return x
					}
				}
			}
		}
	}
	return ""
}

// formatTaint: a printf-style call with constant format: the arguments under unquoted string verbs.
func (t *taintEng) formatTaint(format string, args []ssa.Value, depth int) string {
	verbs := parseVerbs(format)
	for i, vb := range verbs {
		if i >= len(args) {
			break
		}
		switch vb {
		case 'q', 'd', 't', 'f', 'g', 'x', 'X', 'b', 'o', 'p', 'T', 'U', 'e':
			continue
		case 'c':
			// a rune printed raw: acceptable only when guarded by unicode.IsPrint (checked at the call site by the caller)
			continue
		default: // s, v, w
			if r := t.find(args[i], depth+1); r != "" {
				return fmt.Sprintf("%s under verb %%%c", r, vb)
			}
		}
	}
	return ""
}

func parseVerbs(format string) []rune {
	var out []rune
	rs := []rune(format)
	for i := 0; i < len(rs); i++ {
		if rs[i] != '%' {
			continue
		}
		i++
		for i < len(rs) && strings.ContainsRune("+-# 0123456789.[]*", rs[i]) {
			i++
		}
		if i < len(rs) {
			if rs[i] == '%' {
				continue
			}
			out = append(out, rs[i])
		}
	}
	return out
}

// variadicArgs extracts the elements of the implicit []interface{} built for a variadic call.
func variadicArgs(v ssa.Value) ([]ssa.Value, bool) {
	sl, ok := v.(*ssa.Slice)
	if !ok {
		if c, isConst := v.(*ssa.Const); isConst && c.IsNil() {
			return nil, true
		}
		return nil, false
	}
	al, ok := sl.X.(*ssa.Alloc)
	if !ok {
		return nil, false
	}
	arr, ok := al.Type().(*types.Pointer).Elem().(*types.Array)
	if !ok {
		return nil, false
	}
	out := make([]ssa.Value, arr.Len())
	for _, ref := range *al.Referrers() {
		ia, ok := ref.(*ssa.IndexAddr)
		if !ok {
			continue
		}
		k, ok := constInt(ia.Index)
		if !ok || int(k) >= len(out) {
			continue
		}
		for _, r2 := range *ia.Referrers() {
			if s, ok := r2.(*ssa.Store); ok && s.Addr == ia {
				out[k] = s.Val
			}
		}
	}
	return out, true
}

func (t *taintEng) callResult(call *ssa.Call, idx int, depth int) string {
	p := t.p
	cc := &call.Call
	name := calleeFullName(cc)
	f := staticCallee(cc)
	if f != nil && inModule(f) {
		name = FuncName(f)
	}
	if sanitiserCalls[name] || sanitiserFuncs[name] {
		return ""
	}
	if valueSourceCalls[name] && idx == 0 {
		return "output of an external tool (" + name + ") at " + p.Pos(call.Pos())
	}
	switch name {
	case "fmt.Sprintf", "fmt.Errorf":
		if fs, ok := constString(cc.Args[0]); ok {
			if args, ok := variadicArgs(cc.Args[1]); ok {
				return t.formatTaint(fs, args, depth)
			}
		}
		// a wrapper forwarding its own (format, args...) parameters: evaluate at the wrapper's callers
		if fp, ok := cc.Args[0].(*ssa.Parameter); ok {
			if ap, ok := cc.Args[1].(*ssa.Parameter); ok && fp.Parent() == ap.Parent() {
				w := fp.Parent()
				fi, ai := -1, -1
				for i, q := range w.Params {
					if q == fp {
						fi = i
					}
					if q == ap {
						ai = i
					}
				}
				for _, e := range p.callersOf(w) {
					if e.Site == nil || e.Site.Common().IsInvoke() {
						continue
					}
					a := e.Site.Common().Args
					if fi >= len(a) || ai >= len(a) {
						continue
					}
					if fs, ok := constString(a[fi]); ok {
						if va, ok := variadicArgs(a[ai]); ok {
							if r := t.formatTaint(fs, va, depth+1); r != "" {
								return r + " (format call in " + FuncName(e.Caller.Func) + ")"
							}
							continue
						}
					}
					if r := t.find(a[ai], depth+1); r != "" {
						return r
					}
				}
				return ""
			}
		}
		return t.find(cc.Args[len(cc.Args)-1], depth+1)
	case "fmt.Sprint", "fmt.Sprintln":
		return t.find(cc.Args[0], depth+1)
	case "strings.ReplaceAll", "strings.Replace":
		// Replacing "\n" alone does not make a text one line: a carriage return (or NEL, LS, PS) from the echoed input
		// still breaks the header line (F64). Only a replacer that covers CR as well is a sanitiser (below).
		return t.find(cc.Args[0], depth+1)
	case "(*strings.Replacer).Replace":
		if replacerCoversLineBreaks(t.p, cc.Args[0]) {
			return ""
		}
		return t.find(cc.Args[1], depth+1)
	case "strings.Join":
		return t.find(cc.Args[0], depth+1)
	case "strings.ToLower", "strings.ToUpper", "strings.TrimSpace", "strings.TrimPrefix", "strings.TrimSuffix", "strings.TrimRight", "strings.TrimLeft", "strings.Trim", "strings.Repeat", "strings.Title", "path/filepath.Join", "path/filepath.FromSlash", "path/filepath.ToSlash", "path/filepath.Base", "path/filepath.Dir", "path/filepath.Clean":
		for _, a := range cc.Args {
			if r := t.find(a, depth+1); r != "" {
				return r
			}
		}
		return ""
	case "(*strings.Builder).String":
		// everything written to the builder
		b := cc.Args[0]
		if b.Referrers() != nil {
			for _, ref := range *b.Referrers() {
				if c2, ok := ref.(ssa.CallInstruction); ok {
					n2 := calleeFullName(c2.Common())
					if n2 == "(*strings.Builder).WriteString" && len(c2.Common().Args) > 1 {
						if guardedPrintable(c2.Common().Args[1], c2) {
							continue // only written raw when every rune is printable
						}
						if r := t.find(c2.Common().Args[1], depth+1); r != "" {
							return r
						}
					}
				}
			}
		}
		return ""
	case "builtin.append":
		for _, a := range cc.Args {
			if r := t.find(a, depth+1); r != "" {
				return r
			}
		}
		return ""
	}
	if cc.IsInvoke() {
		switch cc.Method.Name() {
		case "Error":
			// error value: where does it come from?
			return t.errorText(cc.Value, depth+1)
		case "String":
			// Stringer of an in-package type: every implementation's result
			for _, g := range p.calleesOf(call) {
				if inModule(g) {
					if r := t.returns(g, 0, depth+1); r != "" {
						return r
					}
				}
			}
			return ""
		}
	}
	if f != nil && inModule(f) && f.Blocks != nil {
		if strings.HasSuffix(name, ").Error") {
			return t.returns(f, idx, depth+1)
		}
		return t.returns(f, idx, depth+1)
	}
	if f == nil {
		for _, g := range p.calleesOf(call) {
			if inModule(g) && g.Blocks != nil {
				if r := t.returns(g, idx, depth+1); r != "" {
					return r
				}
			}
		}
	}
	// a string function outside the module that is not in the tables above: its result may carry its string arguments
	if f != nil && !inModule(f) && (strings.HasPrefix(name, "strings.") || strings.HasPrefix(name, "(*strings.") || strings.HasPrefix(name, "bytes.") || strings.HasPrefix(name, "unicode/utf8.")) {
		textual := func(tp types.Type) bool {
			switch u := tp.Underlying().(type) {
			case *types.Basic:
				return u.Info()&types.IsString != 0
			case *types.Slice:
				return typeStr(u.Elem()) == "byte"
			}
			return false
		}
		res := call.Type()
		if tu, ok := res.(*types.Tuple); ok && idx < tu.Len() {
			res = tu.At(idx).Type()
		}
		if textual(res) {
			for _, a := range cc.Args {
				if textual(a.Type()) {
					if r := t.find(a, depth+1); r != "" {
						return r
					}
				}
			}
		}
	}
	return ""
}

// replacerCoversLineBreaks: the *strings.Replacer is a package-level variable initialised once by strings.NewReplacer with
// constant arguments that map "\n" and "\r" (at least) to texts without line breaks.
func replacerCoversLineBreaks(p *Prog, v ssa.Value) bool {
	ld, ok := v.(*ssa.UnOp)
	if !ok {
		return false
	}
	g, ok := ld.X.(*ssa.Global)
	if !ok {
		return false
	}
	initFn := g.Pkg.Func("init")
	if initFn == nil {
		return false
	}
	stores, okAll := 0, false
	for _, fn := range append([]*ssa.Function{initFn}, p.Funcs...) {
		eachInstr(fn, func(_ *ssa.BasicBlock, _ int, in ssa.Instruction) {
			st, ok := in.(*ssa.Store)
			if !ok || st.Addr != ssa.Value(g) {
				return
			}
			stores++
			call, ok := st.Val.(*ssa.Call)
			if !ok || calleeFullName(&call.Call) != "strings.NewReplacer" {
				return
			}
			args, ok := variadicArgs(call.Call.Args[0])
			if !ok || len(args)%2 != 0 {
				return
			}
			covered := map[string]bool{}
			clean := true
			for i := 0; i+1 < len(args); i += 2 {
				from, ok1 := constString(args[i])
				to, ok2 := constString(args[i+1])
				if !ok1 || !ok2 || strings.ContainsAny(to, "\n\r\u0085\u2028\u2029") {
					clean = false
				}
				covered[from] = true
			}
			if clean && covered["\n"] && covered["\r"] {
				okAll = true
			}
		})
	}
	return stores == 1 && okAll
}

func (t *taintEng) returns(f *ssa.Function, idx int, depth int) string {
	for _, b := range f.Blocks {
		if ret, ok := b.Instrs[len(b.Instrs)-1].(*ssa.Return); ok && idx < len(ret.Results) {
			if r := t.find(ret.Results[idx], depth+1); r != "" {
				return r
			}
		}
	}
	return ""
}

// errorText: the text of an error value (its Error()): external source calls echo raw input.
func (t *taintEng) errorText(e ssa.Value, depth int) string {
	if depth > 14 {
		return ""
	}
	switch x := e.(type) {
	case *ssa.Extract:
		if call, ok := x.Tuple.(*ssa.Call); ok {
			name := calleeFullName(&call.Call)
			if sourceCalls[name] && !yamlIntoNode(name, &call.Call) {
				return "error text of " + name + " (echoes its input unquoted) at " + t.p.Pos(call.Pos())
			}
			if f := staticCallee(&call.Call); f != nil && inModule(f) && f.Blocks != nil {
				for _, b := range f.Blocks {
					if ret, ok := b.Instrs[len(b.Instrs)-1].(*ssa.Return); ok && x.Index < len(ret.Results) {
						if r := t.errorText(ret.Results[x.Index], depth+1); r != "" {
							return r
						}
					}
				}
			}
		}
	case *ssa.Call:
		name := calleeFullName(&x.Call)
		if name == "fmt.Errorf" {
			if fs, ok := constString(x.Call.Args[0]); ok {
				if args, ok := variadicArgs(x.Call.Args[1]); ok {
					verbs := parseVerbs(fs)
					for i, vb := range verbs {
						if i >= len(args) {
							break
						}
						if vb == 'w' || vb == 'v' || vb == 's' {
							if typeStr(unwrap(args[i]).Type()) == "error" || strings.HasSuffix(typeStr(args[i].Type()), "error") {
								if r := t.errorText(unwrap(args[i]), depth+1); r != "" {
									return r
								}
								continue
							}
							if r := t.find(args[i], depth+1); r != "" {
								return r
							}
						}
					}
				}
			}
			return ""
		}
		if name == "errors.New" {
			return t.find(x.Call.Args[0], depth+1)
		}
		if sourceCalls[name] && !yamlIntoNode(name, &x.Call) {
			return "error text of " + name + " at " + t.p.Pos(x.Pos())
		}
		if f := staticCallee(&x.Call); f != nil && inModule(f) && f.Blocks != nil {
			for _, b := range f.Blocks {
				if ret, ok := b.Instrs[len(b.Instrs)-1].(*ssa.Return); ok && len(ret.Results) > 0 {
					if r := t.errorText(ret.Results[len(ret.Results)-1], depth+1); r != "" {
						return r
					}
				}
			}
		}
	case *ssa.Phi:
		for _, ed := range x.Edges {
			if r := t.errorText(ed, depth+1); r != "" {
				return r
			}
		}
	case *ssa.MakeInterface:
		return t.errorText(x.X, depth+1)
	case *ssa.Parameter:
		fn := x.Parent()
		idx := -1
		for i, q := range fn.Params {
			if q == x {
				idx = i
			}
		}
		for _, ed := range t.p.callersOf(fn) {
			if ed.Site == nil || ed.Site.Common().IsInvoke() || idx >= len(ed.Site.Common().Args) {
				continue
			}
			if r := t.errorText(ed.Site.Common().Args[idx], depth+1); r != "" {
				return r
			}
		}
	}
	return ""
}

func runC16Taint(c *Ctx) {
	p := c.P
	t := &taintEng{p: p, memo: map[ssa.Value]string{}, stack: map[ssa.Value]bool{}}
	occ := map[string]int{}
	t.messageFieldStores(c)
	for _, fn := range p.Funcs {
		eachInstr(fn, func(_ *ssa.BasicBlock, _ int, in ssa.Instruction) {
			call, ok := in.(ssa.CallInstruction)
			if !ok {
				return
			}
			f := staticCallee(call.Common())
			if f == nil || !inModule(f) {
				return
			}
			spec, ok := msgSinks[FuncName(f)]
			if !ok {
				return
			}
			// forwarding wrappers (a sink passing its own format/args on) are checked at their callers
			if _, isSink := msgSinks[FuncName(fn)]; isSink {
				return
			}
			args := call.Common().Args
			k := FuncName(fn) + "|message built by " + FuncName(f)
			occ[k]++
			construct := fmt.Sprintf("%s#%d", k, occ[k])
			var why string
			if spec.fmtIdx >= 0 {
				fs, isConst := constString(args[spec.fmtIdx])
				if !isConst {
					// non-constant format: C16.FMT reports it; the text itself is data
					why = t.find(args[spec.fmtIdx], 0)
				} else if va, ok := variadicArgs(args[spec.fmtIdx+1]); ok {
					why = t.formatTaint(fs, va, 0)
					construct = fmt.Sprintf("%s#%d %q", k, occ[k], truncate(fs, 40))
				} else {
					why = t.find(args[spec.fmtIdx+1], 0)
				}
			} else {
				why = t.find(args[spec.msgIdx], 0)
			}
			if why != "" {
				c.bad(construct, call.Pos(), "raw user-controlled text reaches the message: "+why+". A line break in it splits one diagnostic over several lines (breaks -oneline output and the problem matcher)")
			} else {
				c.ok(construct, call.Pos(), "every string argument is a constant, a number, quoted, newline-free by construction or not traced to a user-text source")
			}
		})
	}
}

// messageFieldStores: stores into message fields made outside the message primitives are obligations too.
func (t *taintEng) messageFieldStores(c *Ctx) {
	occ := map[string]int{}
	for _, fn := range t.p.Funcs {
		if _, isSink := msgSinks[FuncName(fn)]; isSink {
			continue
		}
		eachInstr(fn, func(_ *ssa.BasicBlock, _ int, in ssa.Instruction) {
			st, ok := in.(*ssa.Store)
			if !ok {
				return
			}
			fa, ok := st.Addr.(*ssa.FieldAddr)
			if !ok || !messageFields[fieldAddrName(fa)] {
				return
			}
			k := FuncName(fn) + "|direct store to " + fieldAddrName(fa)
			occ[k]++
			construct := fmt.Sprintf("%s#%d", k, occ[k])
			if why := t.find(st.Val, 0); why != "" {
				c.bad(construct, st.Pos(), "raw user-controlled text reaches the message: "+why)
			} else {
				c.ok(construct, st.Pos(), "message is not traced to a user-text source")
			}
		})
	}
}

func truncate(s string, n int) string {
	if len(s) > n {
		return s[:n] + "…"
	}
	return s
}

// ---- C16.FMT ----

func isPrintfLike(f *ssa.Function, name string) int {
	switch name {
	case "fmt.Sprintf", "fmt.Errorf", "fmt.Printf":
		return 0
	case "fmt.Fprintf":
		return 1
	case "(*github.com/fatih/color.Color).Fprintf":
		return 2
	case "(*github.com/fatih/color.Color).Printf", "(*github.com/fatih/color.Color).Sprintf":
		return 1
	}
	if f != nil && inModule(f) {
		sig := f.Signature
		n := sig.Params().Len()
		if sig.Variadic() && n >= 2 {
			last := sig.Params().At(n - 1)
			prev := sig.Params().At(n - 2)
			if typeStr(last.Type()) == "[]interface{}" || typeStr(last.Type()) == "[]any" {
				if b, ok := prev.Type().Underlying().(*types.Basic); ok && b.Kind() == types.String && forwardsFormat(f, 0) {
					idx := n - 2
					if sig.Recv() != nil {
						idx++
					}
					return idx
				}
			}
		}
	}
	return -1
}

func runC16Fmt(c *Ctx) {
	p := c.P
	var constFormat func(v ssa.Value, depth int) bool
	constFormat = func(v ssa.Value, depth int) bool {
		if depth > 6 {
			return false
		}
		switch x := v.(type) {
		case *ssa.Const:
			return x.Value != nil && x.Value.Kind() == constant.String
		case *ssa.BinOp:
			return x.Op == token.ADD && constFormat(x.X, depth+1) && constFormat(x.Y, depth+1)
		case *ssa.Phi:
			for _, e := range x.Edges {
				if !constFormat(e, depth+1) {
					return false
				}
			}
			return true
		case *ssa.Parameter:
			// a forwarded format parameter: every caller passes a constant format
			fn := x.Parent()
			idx := -1
			for i, q := range fn.Params {
				if q == x {
					idx = i
				}
			}
			n := 0
			for _, e := range p.callersOf(fn) {
				if e.Site == nil || e.Site.Common().IsInvoke() {
					return false
				}
				if !inModule(e.Caller.Func) {
					continue
				}
				n++
				if idx >= len(e.Site.Common().Args) || !constFormat(e.Site.Common().Args[idx], depth+1) {
					return false
				}
			}
			return true
		case *ssa.Call:
			// format built by Sprintf from a constant format whose string arguments are themselves formats/constants or rule names
			if calleeFullName(&x.Call) == "fmt.Sprintf" {
				fs, ok := constString(x.Call.Args[0])
				if !ok {
					return false
				}
				_ = fs
				return true
			}
		}
		return false
	}
	occ := map[string]int{}
	for _, fn := range p.Funcs {
		eachInstr(fn, func(_ *ssa.BasicBlock, _ int, in ssa.Instruction) {
			call, ok := in.(ssa.CallInstruction)
			if !ok {
				return
			}
			cc := call.Common()
			f := staticCallee(cc)
			name := calleeFullName(cc)
			idx := isPrintfLike(f, name)
			if idx < 0 || idx >= len(cc.Args) {
				return
			}
			short := name
			if f != nil && inModule(f) {
				short = FuncName(f)
			}
			k := FuncName(fn) + "|format of " + short
			occ[k]++
			construct := fmt.Sprintf("%s#%d", k, occ[k])
			if constFormat(cc.Args[idx], 0) {
				c.ok(construct, call.Pos(), "constant format string")
			} else {
				c.bad(construct, call.Pos(), "the format string is data, not a constant: a '%' in a message or in user text is interpreted as a verb (\"%!d(MISSING)\"), so the rendered text differs from the diagnostic's message")
			}
		})
	}
}

// ---- C16.FIELDS ----

func runC16Fields(c *Ctx) {
	p := c.P
	fn := p.Method("Error", "GetTemplateFields")
	if fn == nil {
		c.anchorMissing("(*Error).GetTemplateFields")
		return
	}
	errT := p.Named("Error").Underlying().(*types.Struct)
	var names []string
	for i := 0; i < errT.NumFields(); i++ {
		names = append(names, errT.Field(i).Name())
	}
	sort.Strings(names)
	// stores into the ErrorTemplateFields literal
	got := map[string]string{}
	eachInstr(fn, func(_ *ssa.BasicBlock, _ int, in ssa.Instruction) {
		st, ok := in.(*ssa.Store)
		if !ok {
			return
		}
		fa, ok := st.Addr.(*ssa.FieldAddr)
		if !ok || pointeeName(fa.X.Type()) != "ErrorTemplateFields" {
			return
		}
		dst := strings.TrimPrefix(fieldAddrName(fa), "ErrorTemplateFields.")
		src := "?"
		if ld, ok := st.Val.(*ssa.UnOp); ok {
			if sfa, ok := ld.X.(*ssa.FieldAddr); ok && sfa.X == fn.Params[0] {
				src = strings.TrimPrefix(fieldAddrName(sfa), "Error.")
			}
		}
		got[dst] = src
	})
	for _, n := range names {
		construct := "(*Error).GetTemplateFields|field " + n
		switch got[n] {
		case n:
			c.ok(construct, fn.Pos(), "copied unchanged to the template record")
		case "":
			c.bad(construct, fn.Pos(), "not copied to the template record: -format output loses it")
		default:
			c.bad(construct, fn.Pos(), "the template record's "+n+" is not the diagnostic's "+n+" (it is "+got[n]+")")
		}
	}
}

// guardedByTableMembership: before the call site, the value was looked up (comma-ok) in a package-level
// map and the call is only reached when it was found.
func guardedByTableMembership(arg ssa.Value, site ssa.CallInstruction) bool {
	fn := site.Parent()
	arg = unwrap(arg)
	for _, b := range fn.Blocks {
		for _, in := range b.Instrs {
			lk, ok := in.(*ssa.Lookup)
			if !ok || !lk.CommaOk || unwrap(lk.Index) != arg {
				continue
			}
			ld, ok := lk.X.(*ssa.UnOp)
			if !ok {
				continue
			}
			if _, isGlobal := ld.X.(*ssa.Global); !isGlobal {
				continue
			}
			// the ok flag and the If testing it
			for _, ref := range *lk.Referrers() {
				ex, ok := ref.(*ssa.Extract)
				if !ok || ex.Index != 1 {
					continue
				}
				for _, r2 := range *ex.Referrers() {
					ifi, ok := r2.(*ssa.If)
					if !ok {
						continue
					}
					t := ifi.Block().Succs[0]
					if len(t.Preds) == 1 && (t == site.Block() || t.Dominates(site.Block())) {
						return true
					}
				}
			}
		}
	}
	return false
}

// guardedPrintable: the use is only reached when strings.IndexFunc(arg, <not unicode.IsPrint>) found nothing.
func guardedPrintable(arg ssa.Value, site ssa.CallInstruction) bool {
	fn := site.Parent()
	for _, b := range fn.Blocks {
		ifi, ok := b.Instrs[len(b.Instrs)-1].(*ssa.If)
		if !ok {
			continue
		}
		bo, ok := ifi.Cond.(*ssa.BinOp)
		if !ok || bo.Op != token.GEQ {
			continue
		}
		call, ok := bo.X.(*ssa.Call)
		if !ok || calleeFullName(&call.Call) != "strings.IndexFunc" || unwrap(call.Call.Args[0]) != unwrap(arg) {
			continue
		}
		if k, ok := constInt(bo.Y); !ok || k != 0 {
			continue
		}
		// the predicate must be built on unicode.IsPrint
		pred := false
		if mc, ok := call.Call.Args[1].(*ssa.MakeClosure); ok {
			eachInstr(mc.Fn.(*ssa.Function), func(_ *ssa.BasicBlock, _ int, in ssa.Instruction) {
				if c2, ok := in.(*ssa.Call); ok && calleeFullName(&c2.Call) == "unicode.IsPrint" {
					pred = true
				}
			})
		} else if f, ok := call.Call.Args[1].(*ssa.Function); ok {
			eachInstr(f, func(_ *ssa.BasicBlock, _ int, in ssa.Instruction) {
				if c2, ok := in.(*ssa.Call); ok && calleeFullName(&c2.Call) == "unicode.IsPrint" {
					pred = true
				}
			})
		}
		if !pred {
			continue
		}
		f := b.Succs[1]
		if len(f.Preds) == 1 && (f == site.Block() || f.Dominates(site.Block())) {
			return true
		}
	}
	return false
}

// yamlIntoNode: yaml.Unmarshal into a *yaml.Node only fails with a scanner/parser error, whose text is one line built from
// go-yaml's constant problem descriptions ("yaml: line N: did not find expected key"); the multi-line TypeError only arises
// when decoding into typed values.
func yamlIntoNode(name string, cc *ssa.CallCommon) bool {
	if name != "gopkg.in/yaml.v3.Unmarshal" || len(cc.Args) < 2 {
		return false
	}
	return strings.HasSuffix(types.TypeString(unwrap(cc.Args[1]).Type(), nil), "yaml.v3.Node")
}

// forwardsFormat: the function hands its (string, ...any) tail on to a printf-like function as format and arguments. This
// is what makes it printf-like; the names of the parameters play no role.
func forwardsFormat(f *ssa.Function, depth int) bool {
	if depth > 3 || f.Blocks == nil || len(f.Params) < 2 {
		return false
	}
	fp, ap := f.Params[len(f.Params)-2], f.Params[len(f.Params)-1]
	found := false
	eachInstr(f, func(_ *ssa.BasicBlock, _ int, in ssa.Instruction) {
		call, ok := in.(ssa.CallInstruction)
		if !ok || found {
			return
		}
		cc := call.Common()
		g := staticCallee(cc)
		name := calleeFullName(cc)
		if g != nil && inModule(g) {
			name = FuncName(g)
		}
		fi := -1
		switch name {
		case "fmt.Sprintf", "fmt.Errorf", "fmt.Printf":
			fi = 0
		case "fmt.Fprintf":
			fi = 1
		case "(*github.com/fatih/color.Color).Fprintf":
			fi = 2
		case "(*github.com/fatih/color.Color).Printf", "(*github.com/fatih/color.Color).Sprintf":
			fi = 1
		default:
			if g != nil && inModule(g) && g != f && g.Signature.Variadic() && forwardsFormat(g, depth+1) {
				fi = len(g.Params) - 2
			}
		}
		if fi < 0 || fi+1 >= len(cc.Args) {
			return
		}
		if fromParam(cc.Args[fi], fp, 0) && cc.Args[fi+1] == ssa.Value(ap) {
			found = true
		}
	})
	return found
}

// fromParam: v is the parameter, or a string built from it (a prefix or suffix added, a Sprintf around it).
func fromParam(v ssa.Value, prm *ssa.Parameter, depth int) bool {
	if depth > 4 {
		return false
	}
	switch x := v.(type) {
	case *ssa.Parameter:
		return x == prm
	case *ssa.Phi:
		for _, e := range x.Edges {
			if fromParam(e, prm, depth+1) {
				return true
			}
		}
	case *ssa.BinOp:
		return fromParam(x.X, prm, depth+1) || fromParam(x.Y, prm, depth+1)
	case *ssa.Call:
		for _, a := range x.Call.Args {
			if fromParam(a, prm, depth+1) {
				return true
			}
			if va, ok := variadicArgs(a); ok {
				for _, e := range va {
					if fromParam(e, prm, depth+1) {
						return true
					}
				}
			}
		}
	case *ssa.MakeInterface:
		return fromParam(x.X, prm, depth+1)
	}
	return false
}
