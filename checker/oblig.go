package main

import (
	"encoding/json"
	"fmt"
	"go/token"
	"os"
	"sort"
	"strings"
)

const (
	OK        = "ok"
	VIOLATION = "violation"
	UNDECIDED = "undecided"
)

// Ob is one obligation: a rule instance on a type-resolved construct.
type Ob struct {
	Rule      string `json:"rule"`
	Construct string `json:"construct"`
	Pos       string `json:"pos"`
	Verdict   string `json:"verdict"`
	Detail    string `json:"detail,omitempty"`
	Reviewed  string `json:"reviewed,omitempty"` // reason when discharged through reviewed.json
	fixture   bool
	trivial   bool
}

func (o *Ob) Key() string { return o.Rule + "|" + o.Construct }

// Rule is one static rule. Min is the number of instances confirmed by hand on the tree the rule
// was written against; fewer instances than that is a vacuity failure.
type Rule struct {
	ID   string
	Doc  string
	Min  int
	Run  func(c *Ctx)
	Cost string
}

// Ctx is the state of one rule run over one loaded program.
type Ctx struct {
	P    *Prog
	rule *Rule
	Obs  []*Ob
	rev  *Reviewed
	errs []string
	memo map[string]interface{}
}

func (c *Ctx) ob(construct string, pos token.Pos, verdict, detail string) *Ob {
	o := &Ob{Rule: c.rule.ID, Construct: construct, Pos: c.P.Pos(pos), Verdict: verdict, Detail: detail, fixture: c.P.InFixture(pos)}
	c.Obs = append(c.Obs, o)
	return o
}

func (c *Ctx) ok(construct string, pos token.Pos, detail string) *Ob {
	return c.ob(construct, pos, OK, detail)
}

// bad records a violation unless the (rule, construct) pair is a reviewed exception whose side
// conditions still hold.
func (c *Ctx) bad(construct string, pos token.Pos, detail string) *Ob {
	o := c.ob(construct, pos, VIOLATION, detail)
	c.applyReview(o)
	return o
}

func (c *Ctx) undecided(construct string, pos token.Pos, detail string) *Ob {
	o := c.ob(construct, pos, UNDECIDED, detail)
	c.applyReview(o)
	return o
}

func (c *Ctx) applyReview(o *Ob) {
	if c.rev == nil || o.fixture {
		return
	}
	if e := c.rev.find(o.Rule, o.Construct); e != nil {
		if msg := c.checkSideConditions(e); msg != "" {
			o.Detail += " [reviewed exception VOID: " + msg + "]"
			return
		}
		e.used = true
		o.Verdict = OK
		o.Reviewed = e.Reason
	}
}

// anchorMissing is used when a symbol a rule is parameterised on cannot be found.
func (c *Ctx) anchorMissing(what string) {
	c.ob("anchor "+what, token.NoPos, UNDECIDED, "anchor not found: the rule cannot re-identify "+what)
}

// ---- reviewed exceptions ----

type ReviewedEntry struct {
	Rule           string   `json:"rule"`
	Construct      string   `json:"construct"`
	Reason         string   `json:"reason"`
	SideConditions []string `json:"side_conditions,omitempty"`
	used           bool
}

type Reviewed struct {
	Entries []*ReviewedEntry `json:"entries"`
}

func loadReviewed(path string) (*Reviewed, error) {
	b, err := os.ReadFile(path)
	if err != nil {
		return nil, err
	}
	var r Reviewed
	if err := json.Unmarshal(b, &r); err != nil {
		return nil, fmt.Errorf("%s: %w", path, err)
	}
	return &r, nil
}

func (r *Reviewed) find(rule, construct string) *ReviewedEntry {
	for _, e := range r.Entries {
		if e.Rule == rule && e.Construct == construct {
			return e
		}
	}
	return nil
}

// ---- known findings ----

type KnownEntry struct {
	Property  string `json:"property"`
	Rule      string `json:"rule"`
	Construct string `json:"construct"`
	What      string `json:"what"`
}

type KnownFindings struct {
	Known []KnownEntry `json:"known"`
	Fixed []string     `json:"fixed"`
}

func loadKnown(path string) (*KnownFindings, error) {
	b, err := os.ReadFile(path)
	if err != nil {
		return nil, err
	}
	var k KnownFindings
	if err := json.Unmarshal(b, &k); err != nil {
		return nil, fmt.Errorf("%s: %w", path, err)
	}
	return &k, nil
}

func (k *KnownFindings) match(prop string, o *Ob) *KnownEntry {
	for i := range k.Known {
		e := &k.Known[i]
		if e.Property == prop && e.Rule == o.Rule && e.Construct == o.Construct {
			return e
		}
	}
	return nil
}

// ---- evidence ----

type RuleStat struct {
	Rule        string `json:"rule"`
	Doc         string `json:"doc"`
	Obligations int    `json:"obligations"`
	Discharged  int    `json:"discharged"`
	Reviewed    int    `json:"discharged_by_reviewed_exception"`
	Violations  int    `json:"violations"`
	Undecided   int    `json:"undecided"`
	MinExpected int    `json:"min_instances_expected"`
}

type Evidence struct {
	PropertyID  string                 `json:"property_id"`
	Tier        string                 `json:"tier"`
	Seed        int                    `json:"seed"`
	Level       string                 `json:"level"`
	Coverage    map[string]interface{} `json:"coverage"`
	Assumptions []string               `json:"assumptions"`
	WallS       float64                `json:"wall_s"`
	Violations  int                    `json:"violations"`
}

func writeJSON(path string, v interface{}) error {
	b, err := json.MarshalIndent(v, "", " ")
	if err != nil {
		return err
	}
	return os.WriteFile(path, append(b, '\n'), 0o644)
}

func sortObs(obs []*Ob) {
	sort.SliceStable(obs, func(i, j int) bool {
		if obs[i].Rule != obs[j].Rule {
			return obs[i].Rule < obs[j].Rule
		}
		if obs[i].Construct != obs[j].Construct {
			return obs[i].Construct < obs[j].Construct
		}
		return obs[i].Pos < obs[j].Pos
	})
}

func shortList(ss []string, n int) string {
	if len(ss) > n {
		return strings.Join(ss[:n], ", ") + fmt.Sprintf(", … (%d more)", len(ss)-n)
	}
	return strings.Join(ss, ", ")
}
