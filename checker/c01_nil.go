package main

import (
	"fmt"
	"go/ast"
	"go/token"
	"go/types"

	"golang.org/x/tools/go/ssa"
)

// C01.NIL — edge-sensitive "stated belief" nil rule (Engler): the code itself compares an SSA value v
// with nil. On the edge where v is nil, any instruction reachable without passing another test that
// re-establishes v != nil, and that dereferences v (or invokes a method on a nil interface, calls a nil
// func, writes a nil map), is a crash the code itself believes possible.
func init() {
	register(&Rule{ID: "C01.NIL", Min: 450, Doc: "no use of a value that must be non-nil on a path where the code itself established it is nil; a field of the workflow AST that the code tests for nil anywhere is used only behind a test of the same field path", Run: runC01Nil})
}

// nilTest describes `v == nil` / `v != nil` as the condition of an If.
func nilTest(in ssa.Instruction) (v ssa.Value, nilSucc int, ok bool) {
	ifi, isIf := in.(*ssa.If)
	if !isIf {
		return nil, 0, false
	}
	bo, isBin := ifi.Cond.(*ssa.BinOp)
	if !isBin || (bo.Op != token.EQL && bo.Op != token.NEQ) {
		return nil, 0, false
	}
	switch {
	case isNilConst(bo.Y):
		v = bo.X
	case isNilConst(bo.X):
		v = bo.Y
	default:
		return nil, 0, false
	}
	if isNilConst(v) {
		return nil, 0, false
	}
	switch v.Type().Underlying().(type) {
	case *types.Pointer, *types.Interface, *types.Map, *types.Signature, *types.Slice, *types.Chan:
	default:
		return nil, 0, false
	}
	if bo.Op == token.EQL {
		return v, 0, true
	}
	return v, 1, true
}

// derefOf reports why instruction in would fault if v were nil ("" if it would not).
func derefOf(in ssa.Instruction, v ssa.Value) string {
	switch x := in.(type) {
	case *ssa.UnOp:
		if x.Op == token.MUL && x.X == v {
			return "load through nil pointer"
		}
	case *ssa.Store:
		if x.Addr == v {
			return "store through nil pointer"
		}
	case *ssa.FieldAddr:
		if x.X == v {
			return "field access through nil pointer"
		}
	case *ssa.IndexAddr:
		if x.X == v {
			if _, isPtr := v.Type().Underlying().(*types.Pointer); isPtr {
				return "index through nil array pointer"
			}
		}
	case *ssa.MapUpdate:
		if x.Map == v {
			return "assignment to entry in nil map"
		}
	case *ssa.TypeAssert:
		if x.X == v && !x.CommaOk {
			return "type assertion on nil interface"
		}
	case ssa.CallInstruction:
		c := x.Common()
		if c.IsInvoke() {
			if c.Value == v {
				return "method call on nil interface"
			}
			return ""
		}
		if c.Value == v {
			return "call of nil func"
		}
		// method call with a pointer receiver that is dereferenced unconditionally by the callee
		if f := staticCallee(c); f != nil && f.Signature.Recv() != nil && len(c.Args) > 0 && c.Args[0] == v && len(f.Params) > 0 && f.Blocks != nil {
			if _, isPtr := v.Type().Underlying().(*types.Pointer); isPtr {
				recv := f.Params[0]
				for _, in2 := range f.Blocks[0].Instrs {
					if _, isIf := in2.(*ssa.If); isIf {
						break
					}
					if derefOf(in2, recv) != "" {
						return "method " + FuncName(f) + " dereferences its nil receiver"
					}
				}
			}
		}
	}
	return ""
}

// binExprAt finds the source text of the comparison whose operator is at pos.
func binExprAt(fn *ssa.Function, pos token.Pos) string {
	var root ast.Node = fn.Syntax()
	for root == nil && fn.Parent() != nil {
		fn = fn.Parent()
		root = fn.Syntax()
	}
	if root == nil {
		return ""
	}
	res := ""
	ast.Inspect(root, func(n ast.Node) bool {
		if be, ok := n.(*ast.BinaryExpr); ok && be.OpPos == pos {
			res = exprStr(be)
			return false
		}
		return res == ""
	})
	return res
}

// c01NilWalkValue: the walk of C01.NIL for the one SSA value v (no reloads of its field path).
func c01NilWalkValue(start *ssa.BasicBlock, v ssa.Value, seen map[*ssa.BasicBlock]bool, fault *string, faultPos *token.Pos) {
	work := []*ssa.BasicBlock{start}
	for len(work) > 0 && *fault == "" {
		blk := work[len(work)-1]
		work = work[:len(work)-1]
		if seen[blk] {
			continue
		}
		seen[blk] = true
		for _, in := range blk.Instrs {
			if why := derefOf(in, v); why != "" {
				*fault = why
				*faultPos = in.Pos()
				return
			}
		}
		if len(blk.Instrs) > 0 {
			if v2, ns2, ok2 := nilTest(blk.Instrs[len(blk.Instrs)-1]); ok2 && v2 == v {
				work = append(work, blk.Succs[ns2])
				continue
			}
		}
		work = append(work, blk.Succs...)
	}
}

func runC01Nil(c *Ctx) {
	for _, fn := range c.P.Funcs {
		occ := map[string]int{}
		for _, b := range fn.Blocks {
			if len(b.Instrs) == 0 {
				continue
			}
			last := b.Instrs[len(b.Instrs)-1]
			v, nilSucc, ok := nilTest(last)
			if !ok {
				continue
			}
			cond := last.(*ssa.If).Cond.(*ssa.BinOp)
			txt := binExprAt(fn, cond.Pos())
			if txt == "" {
				txt = "nil test of " + v.Name()
			}
			occ[txt]++
			construct := fmt.Sprintf("%s|%s#%d", FuncName(fn), txt, occ[txt])

			// Walk from the nil edge. At another test of the same value follow only the nil outcome. A value read from a
			// field (x.f, x.f.g) is the same value at every other load of that field path from the same x, until something
			// may have stored into one of the fields of the path: `x.f != nil || x.f.g != nil` uses x.f where it is nil.
			same := samePathLoads(fn, v)
			_, chain := fieldPathOf(v)
			start := b.Succs[nilSucc]
			seen := map[*ssa.BasicBlock]bool{}
			work := []*ssa.BasicBlock{start}
			var fault string
			var faultPos token.Pos
			for len(work) > 0 && fault == "" {
				blk := work[len(work)-1]
				work = work[:len(work)-1]
				if seen[blk] {
					continue
				}
				seen[blk] = true
				killed := false
				for _, in := range blk.Instrs {
					for w := range same {
						if why := derefOf(in, w); why != "" && (w == v || !killed) {
							fault = why
							faultPos = in.Pos()
						}
					}
					if fault != "" {
						break
					}
					if len(same) > 1 && !killed && c.P.mayStoreFields(in, chain) {
						killed = true
					}
				}
				if fault != "" {
					break
				}
				if killed {
					// behind a possible store only the tested SSA value itself is still known to be nil
					for _, s := range blk.Succs {
						c01NilWalkValue(s, v, map[*ssa.BasicBlock]bool{}, &fault, &faultPos)
					}
					continue
				}
				if len(blk.Instrs) > 0 {
					if v2, ns2, ok2 := nilTest(blk.Instrs[len(blk.Instrs)-1]); ok2 && same[v2] {
						work = append(work, blk.Succs[ns2])
						continue
					}
				}
				work = append(work, blk.Succs...)
			}
			if fault != "" {
				c.bad(construct, cond.Pos(), fmt.Sprintf("%s at %s on the path where the test established nil", fault, c.P.Pos(faultPos)))
			} else {
				c.ok(construct, cond.Pos(), fmt.Sprintf("%d blocks reachable from the nil edge, none uses the value", len(seen)))
			}
		}
	}
	c01NilFields(c)
}
