package main

import (
	"fmt"
	"go/ast"
	"go/constant"
	"go/token"
	"go/types"
	"strconv"
	"strings"

	"golang.org/x/tools/go/ssa"
)

func init() {
	register(&Rule{ID: "C14.DATA", Min: 1000, Doc: "every entry of the bundled data set is keyed by the lower-cased declared name and by a well-formed spec", Run: runC14Data})
	register(&Rule{ID: "C14.REQ", Min: 3, Doc: "sibling derivations of `required` agree: required && no default, where no default is a nil test of a pointer", Run: runC14Req})
	register(&Rule{ID: "C14.USE", Min: 10, Doc: "undefined/missing reports are control-dependent exactly on the lookup in the corresponding table", Run: runC14Use})
	register(&Rule{ID: "C14.OUT", Min: 8, Doc: "outputs are typed open only when the interface is unknown or dynamic", Run: runC14Out})
	register(&Rule{ID: "C14.TYPE", Min: 1, Doc: "the typed check of reusable workflow inputs uses the declared type of the same input", Run: runC14Type})
}

// ---- helpers ----

// fieldLoad: v is a load of field T.f; returns "T.f" and the base value.
func fieldLoad(v ssa.Value) (string, ssa.Value) {
	if ld, ok := v.(*ssa.UnOp); ok && ld.Op == token.MUL {
		if fa, ok := ld.X.(*ssa.FieldAddr); ok {
			return fieldAddrName(fa), fa.X
		}
	}
	if f, ok := v.(*ssa.Field); ok {
		n, _ := fieldName(f.X.Type(), f.Field)
		if nm := namedOf(f.X.Type()); nm != nil {
			return nm.Obj().Name() + "." + n, f.X
		}
	}
	return "", nil
}

// rangeKeyOf: v is the key (idx 1) or value (idx 2) extracted from ranging over a map that is a load of field T.f.
func rangePart(v ssa.Value) (field string, idx int) {
	ex, ok := v.(*ssa.Extract)
	if !ok {
		return "", 0
	}
	nx, ok := ex.Tuple.(*ssa.Next)
	if !ok {
		return "", 0
	}
	rg, ok := nx.Iter.(*ssa.Range)
	if !ok {
		return "", 0
	}
	f, _ := fieldLoad(rg.X)
	if f == "" {
		if p, ok := rg.X.(*ssa.Parameter); ok {
			f = "param:" + p.Name()
		}
	}
	return f, ex.Index
}

// lookupCond: cond is the ok of `_, ok := T.f[key]`; returns the table field and the key.
func lookupCond(cond ssa.Value) (table string, key ssa.Value) {
	ex, ok := cond.(*ssa.Extract)
	if !ok || ex.Index != 1 {
		return "", nil
	}
	lk, ok := ex.Tuple.(*ssa.Lookup)
	if !ok || !lk.CommaOk {
		// a look-up wrapper of the module: func(key) (value, found) whose body looks the key up in a global table (exactly
		// first, then by a comparison that folds case) and returns found=false only when no key matches
		if call, ok := ex.Tuple.(*ssa.Call); ok {
			if f := staticCallee(&call.Call); f != nil && inPkgName(f) && f.Blocks != nil && len(f.Params) == 1 && len(call.Call.Args) == 1 {
				table := ""
				eachInstr(f, func(_ *ssa.BasicBlock, _ int, in ssa.Instruction) {
					if l2, ok := in.(*ssa.Lookup); ok && l2.CommaOk && l2.Index == ssa.Value(f.Params[0]) {
						if g, ok := l2.X.(*ssa.UnOp); ok {
							if gl, ok := g.X.(*ssa.Global); ok {
								table = "global:" + gl.Name()
							}
						}
					}
				})
				if table != "" {
					return table, call.Call.Args[0]
				}
			}
		}
		return "", nil
	}
	f, _ := fieldLoad(lk.X)
	if f == "" {
		if g, ok := lk.X.(*ssa.UnOp); ok {
			if gl, ok := g.X.(*ssa.Global); ok {
				f = "global:" + gl.Name()
			}
		}
	}
	return f, lk.Index
}

type condClass struct {
	kind  string // loop, lookup, nilmeta, nilelem, field, other
	table string
	key   ssa.Value
	field string
	out   bool
	desc  string
}

func classifyCond(ifi *ssa.If, outcome bool) condClass {
	cc := condClass{kind: "other", out: outcome, desc: "condition at line?"}
	if ex, ok := ifi.Cond.(*ssa.Extract); ok {
		if _, ok := ex.Tuple.(*ssa.Next); ok && ex.Index == 0 {
			cc.kind = "loop"
			return cc
		}
	}
	if t, k := lookupCond(ifi.Cond); t != "" {
		cc.kind, cc.table, cc.key = "lookup", t, k
		return cc
	}
	if v, nilSucc, ok := nilTest(ifi); ok {
		isNil := (nilSucc == 0) == outcome
		cc.out = isNil
		switch x := v.(type) {
		case *ssa.Extract:
			if call, ok := x.Tuple.(*ssa.Call); ok {
				if f := staticCallee(&call.Call); f != nil && f.Name() == "FindMetadata" {
					cc.kind = "nilmeta"
					return cc
				}
			}
			if _, ok := x.Tuple.(*ssa.Next); ok {
				cc.kind = "nilelem"
				return cc
			}
			if _, ok := x.Tuple.(*ssa.Lookup); ok {
				cc.kind = "nilelem"
				return cc
			}
		case *ssa.Parameter:
			cc.kind = "nilparam"
			cc.field = x.Name()
			return cc
		}
		if f, _ := fieldLoad(v); f != "" {
			cc.kind, cc.field = "nilfield", f
			return cc
		}
		return cc
	}
	if f, _ := fieldLoad(ifi.Cond); f != "" {
		cc.kind, cc.field = "field", f
		return cc
	}
	if bo, ok := ifi.Cond.(*ssa.BinOp); ok {
		if b, ok := bo.X.Type().Underlying().(*types.Basic); ok && b.Info()&types.IsInteger != 0 {
			cc.kind = "intcmp"
			if isRangeIndexCond(bo) {
				cc.kind = "loop"
			}
			return cc
		}
	}
	if call, ok := ifi.Cond.(*ssa.Call); ok {
		cc.kind = "call"
		cc.field = calleeFullName(&call.Call)
		if f := staticCallee(&call.Call); f != nil && inPkgName(f) {
			cc.field = FuncName(f)
		}
		if cc.field == "strings.HasPrefix" && len(call.Call.Args) == 2 {
			if s, ok := constString(call.Call.Args[1]); ok {
				cc.field += "(" + s + ")"
			}
		}
		return cc
	}
	return cc
}

// ---- C14.DATA ----

func runC14Data(c *Ctx) {
	p := c.P
	var popular, outdated *ast.CompositeLit
	for _, f := range p.Main.Syntax {
		for _, d := range f.Decls {
			gd, ok := d.(*ast.GenDecl)
			if !ok {
				continue
			}
			for _, sp := range gd.Specs {
				vs, ok := sp.(*ast.ValueSpec)
				if !ok || len(vs.Names) != 1 || len(vs.Values) != 1 {
					continue
				}
				cl, ok := vs.Values[0].(*ast.CompositeLit)
				if !ok {
					continue
				}
				switch vs.Names[0].Name {
				case "PopularActions":
					popular = cl
				case "OutdatedPopularActionSpecs":
					outdated = cl
				}
			}
		}
	}
	if popular == nil || outdated == nil {
		c.anchorMissing("var PopularActions / OutdatedPopularActionSpecs")
		return
	}
	lit := func(e ast.Expr) (string, bool) {
		bl, ok := e.(*ast.BasicLit)
		if !ok || bl.Kind != token.STRING {
			return "", false
		}
		s, err := strconv.Unquote(bl.Value)
		return s, err == nil
	}
	specOK := func(s string) bool {
		at := strings.IndexByte(s, '@')
		if at <= 0 || at == len(s)-1 {
			return false
		}
		sl := strings.IndexByte(s[:at], '/')
		return sl > 0 && sl < at-1
	}
	specs := map[string]bool{}
	nEntries, nIn, nOut := 0, 0, 0
	for _, el := range popular.Elts {
		kv, ok := el.(*ast.KeyValueExpr)
		if !ok {
			continue
		}
		spec, ok := lit(kv.Key)
		if !ok {
			c.undecided("PopularActions|non-literal key", kv.Pos(), "key is not a string literal")
			continue
		}
		nEntries++
		if specs[spec] {
			c.bad("PopularActions["+spec+"]|unique", kv.Pos(), "duplicate spec")
		}
		specs[spec] = true
		if specOK(spec) {
			c.ok("PopularActions["+spec+"]|spec form", kv.Pos(), "owner/repo[/path]@ref")
		} else {
			c.bad("PopularActions["+spec+"]|spec form", kv.Pos(), "the key is not of the form owner/repo@ref: checkRepoAction can never look it up")
		}
		meta, ok := kv.Value.(*ast.CompositeLit)
		if !ok {
			continue
		}
		skipIn := false
		var inputs, outputs *ast.CompositeLit
		for _, fe := range meta.Elts {
			fkv, ok := fe.(*ast.KeyValueExpr)
			if !ok {
				continue
			}
			id, _ := fkv.Key.(*ast.Ident)
			if id == nil {
				continue
			}
			switch id.Name {
			case "Inputs":
				inputs, _ = fkv.Value.(*ast.CompositeLit)
			case "Outputs":
				outputs, _ = fkv.Value.(*ast.CompositeLit)
			case "SkipInputs":
				if v, ok := fkv.Value.(*ast.Ident); ok && v.Name == "true" {
					skipIn = true
				}
			}
		}
		_ = skipIn
		checkTable := func(what string, cl *ast.CompositeLit, n *int) {
			if cl == nil {
				return
			}
			seen := map[string]bool{}
			for _, e := range cl.Elts {
				ekv, ok := e.(*ast.KeyValueExpr)
				if !ok {
					continue
				}
				k, ok := lit(ekv.Key)
				if !ok {
					continue
				}
				*n++
				construct := "PopularActions[" + spec + "]." + what + "[" + k + "]"
				v, _ := ekv.Value.(*ast.CompositeLit)
				name := ""
				if v != nil && len(v.Elts) > 0 {
					first := v.Elts[0]
					if fkv, ok := first.(*ast.KeyValueExpr); ok {
						for _, e2 := range v.Elts {
							if kv2, ok := e2.(*ast.KeyValueExpr); ok {
								if id, ok := kv2.Key.(*ast.Ident); ok && id.Name == "Name" {
									fkv = kv2
								}
							}
						}
						first = fkv.Value
					}
					name, _ = lit(first)
				}
				switch {
				case seen[k]:
					c.bad(construct, ekv.Pos(), "duplicate key")
				case k != strings.ToLower(k):
					c.bad(construct, ekv.Pos(), "the key is not lower-case: the lookup with the lower-cased name from the workflow never finds it")
				case name == "" || strings.ToLower(name) != k:
					c.bad(construct, ekv.Pos(), fmt.Sprintf("the key is not the lower-cased declared name %q", name))
				default:
					c.ok(construct, ekv.Pos(), "key == lower(name)")
				}
				seen[k] = true
			}
		}
		checkTable("Inputs", inputs, &nIn)
		checkTable("Outputs", outputs, &nOut)
	}
	for _, el := range outdated.Elts {
		kv, ok := el.(*ast.KeyValueExpr)
		if !ok {
			continue
		}
		spec, ok := lit(kv.Key)
		if !ok {
			continue
		}
		switch {
		case specs[spec]:
			c.bad("OutdatedPopularActionSpecs["+spec+"]|disjoint", kv.Pos(), "the spec is also in PopularActions: the outdated report is unreachable for it")
		case !specOK(spec):
			c.bad("OutdatedPopularActionSpecs["+spec+"]|spec form", kv.Pos(), "not of the form owner/repo@ref")
		default:
			c.ok("OutdatedPopularActionSpecs["+spec+"]|disjoint", kv.Pos(), "well-formed and not in PopularActions")
		}
	}
	if nEntries < 100 || nIn < 500 || nOut < 100 || len(outdated.Elts) < 100 {
		c.undecided("PopularActions|size", popular.Pos(), fmt.Sprintf("data set smaller than expected: %d actions, %d inputs, %d outputs, %d outdated specs", nEntries, nIn, nOut, len(outdated.Elts)))
	} else {
		c.ok("PopularActions|size", popular.Pos(), fmt.Sprintf("data set enumerated: %d actions, %d inputs, %d outputs, %d outdated specs", nEntries, nIn, nOut, len(outdated.Elts)))
	}
}

// ---- C14.REQ ----

func runC14Req(c *Ctx) {
	p := c.P
	targets := map[string]bool{"ActionMetadataInput.Required": true, "ReusableWorkflowMetadataInput.Required": true}
	occ := map[string]int{}
	for _, fn := range p.Funcs {
		eachInstr(fn, func(_ *ssa.BasicBlock, _ int, in ssa.Instruction) {
			st, ok := in.(*ssa.Store)
			if !ok {
				return
			}
			fa, ok := st.Addr.(*ssa.FieldAddr)
			if !ok || !targets[fieldAddrName(fa)] {
				return
			}
			k := FuncName(fn) + "|" + fieldAddrName(fa)
			occ[k]++
			construct := fmt.Sprintf("%s#%d", k, occ[k])
			// the stored value is a conjunction with a nil test of a pointer-typed field called Default
			var leaves []ssa.Value
			var walk func(v ssa.Value, d int)
			walk = func(v ssa.Value, d int) {
				if d > 6 {
					return
				}
				if ph, ok := v.(*ssa.Phi); ok {
					for _, e := range ph.Edges {
						walk(e, d+1)
					}
					return
				}
				leaves = append(leaves, v)
			}
			walk(st.Val, 0)
			okDefault, why := false, "no test of a default value takes part in the derivation"
			for _, l := range leaves {
				bo, ok := l.(*ssa.BinOp)
				if !ok || bo.Op != token.EQL {
					continue
				}
				x := bo.X
				if isNilConst(x) {
					x = bo.Y
				}
				f, _ := fieldLoad(x)
				if !strings.HasSuffix(f, ".Default") {
					continue
				}
				if !(isNilConst(bo.X) || isNilConst(bo.Y)) {
					why = "the default is compared with a value instead of being tested for presence: an explicitly empty default counts as no default"
					continue
				}
				if _, isPtr := x.Type().Underlying().(*types.Pointer); isPtr {
					okDefault = true
				} else {
					why = "the Default field is not a pointer: presence cannot be told from the empty value"
				}
			}
			// a conjunction: no way of computing the value yields true without the test of the default (the constant a
			// short-circuit `||` puts in place of its second operand)
			for _, l := range leaves {
				if k, isConst := l.(*ssa.Const); isConst && k.Value != nil && k.Value.Kind() == constant.Bool && constant.BoolVal(k.Value) && okDefault {
					okDefault = false
					why = "the value is true on a path that does not pass the test of the default (a disjunction instead of `required && default == nil`): an optional input without default counts as required"
				}
			}
			if okDefault {
				c.ok(construct, st.Pos(), "required && (Default == nil) with a pointer-typed Default")
			} else {
				c.bad(construct, st.Pos(), why+" (the sibling derivations use `required && default == nil` on a pointer)")
			}
		})
	}
}

// ---- C14.USE ----

type usePair struct{ fn, call, decl, what string }

func runC14Use(c *Ctx) {
	p := c.P
	pairs := []usePair{
		{"(*RuleAction).checkAction", "ExecAction.Inputs", "ActionMetadata.Inputs", "input"},
		{"(*RuleWorkflowCall).checkWorkflowCallUsesLocal", "WorkflowCall.Inputs", "ReusableWorkflowMetadata.Inputs", "input"},
		{"(*RuleWorkflowCall).checkWorkflowCallUsesLocal", "WorkflowCall.Secrets", "ReusableWorkflowMetadata.Secrets", "secret"},
	}
	for _, pr := range pairs {
		var fn *ssa.Function
		for _, f := range p.Funcs {
			if FuncName(f) == pr.fn {
				fn = f
			}
		}
		if fn == nil {
			c.anchorMissing(pr.fn)
			continue
		}
		// the function and the helpers on the same receiver it delegates to (a check split into per-table methods)
		scope := []*ssa.Function{fn}
		for _, h := range p.withHelpers(fn, 1) {
			if h != fn && h.Signature.Recv() != nil && fn.Signature.Recv() != nil && typeStr(h.Signature.Recv().Type()) == typeStr(fn.Signature.Recv().Type()) {
				scope = append(scope, h)
			}
		}
		eachInstrH := func(visit func(b *ssa.BasicBlock, i int, in ssa.Instruction)) {
			for _, f := range scope {
				eachInstr(f, visit)
			}
		}
		// (a) undefined: a diagnostic inside the loop over the call site's table, controlled by a failed lookup in the declared table
		undefOK, undefWhy := false, "no diagnostic is control-dependent on a failed lookup of the call site's "+pr.what+" in "+pr.decl
		var undefPos token.Pos = fn.Pos()
		// (b) missing: an append controlled by Required and a failed lookup in the call site's table
		missOK, missWhy := false, "no collection of missing "+pr.what+"s is control-dependent on `Required` and a failed lookup in "+pr.call
		var missPos token.Pos = fn.Pos()
		var missApps []*ssa.Call // the appends that collect the names missing from this pair's table
		eachInstrH(func(b *ssa.BasicBlock, _ int, in ssa.Instruction) {
			isDiag := emitsDiag(in)
			isAppend := false
			if call, ok := in.(*ssa.Call); ok {
				if bi, ok := call.Call.Value.(*ssa.Builtin); ok && bi.Name() == "append" {
					isAppend = true
				}
			}
			if !isDiag && !isAppend {
				return
			}
			var lookupFail, required bool
			var extras []string
			relevant := false
			for ifi, outcome := range controllingConds(b) {
				cc := classifyCond(ifi, outcome)
				switch cc.kind {
				case "loop":
				case "lookup":
					rf, idx := rangePart(cc.key)
					if isDiag && cc.table == pr.decl && rf == pr.call && idx == 1 {
						relevant = true
						// the loop over the call site's table visits every entry: it is left only at its header
						if nx, ok := cc.key.(*ssa.Extract).Tuple.(*ssa.Next); ok {
							if ex := loopSideExit(nx.Block()); ex != nil {
								extras = append(extras, "the loop over "+pr.call+" is left from inside its body at "+p.Pos(exitPos(ex))+", so the "+pr.what+"s after that point are never looked up")
							}
						}
						if !outcome {
							lookupFail = true
						} else {
							extras = append(extras, "the lookup succeeded")
						}
					} else if isAppend && cc.table == pr.call && rf == pr.decl && idx == 1 {
						relevant = true
						if !outcome {
							lookupFail = true
						} else {
							extras = append(extras, "the lookup succeeded")
						}
					} else if cc.table == pr.decl || cc.table == pr.call {
						extras = append(extras, "lookup in "+cc.table+" with an unrelated key")
					} else {
						extras = append(extras, "lookup in "+cc.table)
					}
				case "nilmeta", "nilelem":
					v, _, _ := nilTest(ifi)
					isErr := types.Identical(v.Type(), types.Universe.Lookup("error").Type())
					if cc.out != isErr {
						extras = append(extras, "a nil value")
					}
				case "field":
					if strings.HasSuffix(cc.field, ".Required") && outcome {
						required = true
					} else if cc.field == "WorkflowCall.InheritSecrets" && !outcome && pr.what == "secret" {
					} else {
						extras = append(extras, "field "+cc.field)
					}
				default:
					extras = append(extras, cc.kind+" "+cc.field)
				}
			}
			if !relevant {
				return
			}
			if isDiag {
				undefPos = in.Pos()
				if lookupFail && len(extras) == 0 {
					undefOK = true
				} else if len(extras) > 0 {
					undefWhy = "the report of an undeclared " + pr.what + " additionally depends on: " + strings.Join(extras, "; ")
				}
			} else {
				missPos = in.Pos()
				if lookupFail {
					missApps = append(missApps, in.(*ssa.Call))
				}
				if lookupFail && required && len(extras) == 0 {
					missOK = true
				} else if len(extras) > 0 {
					missWhy = "the collection of missing " + pr.what + "s additionally depends on: " + strings.Join(extras, "; ")
				} else if !required {
					missWhy = "the collection of missing " + pr.what + "s is not restricted to required ones"
				}
			}
		})
		cu := pr.fn + "|undeclared " + pr.what + " reported iff not in " + pr.decl
		if undefOK {
			c.ok(cu, undefPos, "control-dependent on the failed lookup only")
		} else {
			c.bad(cu, undefPos, undefWhy)
		}
		cm := pr.fn + "|required " + pr.what + " reported iff not in " + pr.call
		if missOK {
			c.ok(cm, missPos, "control-dependent on Required and the failed lookup only")
		} else {
			c.bad(cm, missPos, missWhy)
		}
		// (c) every collected name is reported: the collection built by THIS pair's appends is ranged over by a loop that
		// emits a diagnostic about the element in every iteration and is left only when the collection is exhausted
		cr := pr.fn + "|collected " + pr.what + "s all reported"
		inScope := map[*ssa.Function]bool{}
		for _, f := range scope {
			inScope[f] = true
		}
		okAt, why := collectionReported(missApps, inScope)
		switch {
		case len(missApps) == 0:
			c.bad(cr, fn.Pos(), "no collection of missing "+pr.what+"s is built from a failed lookup in "+pr.call)
		case okAt != nil:
			c.ok(cr, okAt.Pos(), "the loop over the collection built from "+pr.decl+" reports every element and has no early exit")
		default:
			c.bad(cr, missApps[0].Pos(), why)
		}
	}
	// SkipInputs: checkAction for bundled actions only when found and not skip_inputs
	cra := p.Method("RuleAction", "checkRepoAction")
	if cra == nil {
		c.anchorMissing("(*RuleAction).checkRepoAction")
		return
	}
	calls := findCalls(cra, "(*RuleAction).checkAction")
	if len(calls) != 1 {
		c.bad("(*RuleAction).checkRepoAction|checkAction call", cra.Pos(), fmt.Sprintf("%d calls of checkAction", len(calls)))
		return
	}
	found, notSkipped := false, false
	var extras []string
	for ifi, outcome := range controllingConds(calls[0].Block()) {
		cc := classifyCond(ifi, outcome)
		switch {
		case cc.kind == "lookup" && cc.table == "global:PopularActions":
			if outcome {
				if _, isParam := resolveCapture(cc.key).(*ssa.Parameter); isParam {
					found = true
				} else {
					extras = append(extras, "the data set is looked up with a derived key")
				}
			}
		case cc.kind == "field" && cc.field == "ActionMetadata.SkipInputs":
			if !outcome {
				notSkipped = true
			}
		case cc.kind == "intcmp":
			// the format checks (idx == -1) return early
		default:
			extras = append(extras, cc.kind+" "+cc.field)
		}
	}
	if found && notSkipped && len(extras) == 0 {
		c.ok("(*RuleAction).checkRepoAction|checkAction call", calls[0].Pos(), "reached iff the spec is in the data set and inputs are not skipped (after the format checks)")
	} else {
		c.bad("(*RuleAction).checkRepoAction|checkAction call", calls[0].Pos(), fmt.Sprintf("found=%v notSkipped=%v extra conditions: %s", found, notSkipped, strings.Join(extras, "; ")))
	}
}

// collectionReported: the slice grown by apps (followed through phis, helper parameters and results inside scope) is
// indexed by the variable of a loop; that loop emits, in a block every iteration passes, a diagnostic into which the
// element flows, and no edge leaves the loop except from its header. Returns the diagnostic, or why there is none.
func collectionReported(apps []*ssa.Call, scope map[*ssa.Function]bool) (ssa.Instruction, string) {
	coll := map[ssa.Value]bool{}
	var work []ssa.Value
	add := func(v ssa.Value) {
		if v != nil && !coll[v] {
			coll[v] = true
			work = append(work, v)
		}
	}
	for _, a := range apps {
		add(a)
	}
	for len(work) > 0 {
		v := work[len(work)-1]
		work = work[:len(work)-1]
		if v.Referrers() == nil {
			continue
		}
		for _, ref := range *v.Referrers() {
			switch x := ref.(type) {
			case *ssa.Phi:
				add(x)
			case *ssa.Slice:
				if x.Low == nil && x.High == nil {
					add(x)
				}
			case *ssa.Return:
				// handed back by a helper: the results of its calls inside the scope
				for i, r := range x.Results {
					if r != v {
						continue
					}
					for f := range scope {
						eachInstr(f, func(_ *ssa.BasicBlock, _ int, in ssa.Instruction) {
							call, ok := in.(*ssa.Call)
							if !ok || staticCallee(&call.Call) != x.Parent() {
								return
							}
							if len(x.Results) == 1 {
								add(call)
								return
							}
							for _, r2 := range *call.Referrers() {
								if ex, ok := r2.(*ssa.Extract); ok && ex.Index == i {
									add(ex)
								}
							}
						})
					}
				}
			case ssa.CallInstruction:
				if g := staticCallee(x.Common()); g != nil && scope[g] && len(g.Params) == len(x.Common().Args) {
					for i, a := range x.Common().Args {
						if a == v {
							add(g.Params[i])
						}
					}
				}
			}
		}
	}
	appBlocks := map[*ssa.BasicBlock]bool{}
	for _, a := range apps {
		appBlocks[a.Block()] = true
	}
	why := "the collected names are not ranged over by a loop that goes round: at most a fixed element is reported"
	for v := range coll {
		if v.Referrers() == nil {
			continue
		}
		for _, ref := range *v.Referrers() {
			ia, ok := ref.(*ssa.IndexAddr)
			if !ok || ia.X != v {
				continue
			}
			// the innermost loop around the element access whose counter is the index
			var head *ssa.BasicBlock
			var body map[*ssa.BasicBlock]bool
			for _, h := range loopHeaders(ia.Parent()) {
				l := naturalLoop(h)
				if l[ia.Block()] && (head == nil || body[h]) {
					head, body = h, l
				}
			}
			if head == nil || !definedIn(ia.Index, body) {
				if ix, ok := ia.Index.(ssa.Instruction); ok && ix.Block() != nil && isRangeLoop(ix.Block()) && !appBlocks[ia.Block()] {
					pos := ia.Parent().Prog.Fset.Position(ia.Pos())
					why = fmt.Sprintf("the loop over the collected names (line %d) never goes round: every path through its body leaves it (break or return), so only the first name is reported", pos.Line)
				}
				continue
			}
			collecting := false
			for b := range appBlocks {
				if body[b] {
					collecting = true
				}
			}
			if collecting {
				continue
			}
			// left only from the header
			var exit *ssa.BasicBlock
			for b := range body {
				for _, s := range b.Succs {
					if !body[s] && b != head && (exit == nil || b.Index < exit.Index) {
						exit = b
					}
				}
			}
			// the element
			var elems []ssa.Value
			for _, r2 := range *ia.Referrers() {
				if u, ok := r2.(*ssa.UnOp); ok && u.Op == token.MUL {
					elems = append(elems, u)
				}
			}
			var diag ssa.Instruction
			always, about := false, false
			for b := range body {
				for _, in := range b.Instrs {
					if !emitsDiag(in) {
						continue
					}
					if diag == nil {
						diag = in
					}
					everyIter := true
					for _, latch := range head.Preds {
						if body[latch] && !(b == latch || b.Dominates(latch)) {
							everyIter = false
						}
					}
					flows := false
					for _, e := range elems {
						if flowsIntoInstr(e, in) {
							flows = true
						}
					}
					if everyIter && flows {
						diag, always, about = in, true, true
					} else if everyIter && !always {
						diag, always = in, true
					}
				}
			}
			pos := ia.Parent().Prog.Fset.Position(ia.Pos())
			at := fmt.Sprintf("line %d", pos.Line)
			switch {
			case diag == nil:
				why = "the loop over the collected names (" + at + ") emits no diagnostic"
			case !always:
				why = "the loop over the collected names (" + at + ") reports only under a further condition, not for every element"
			case !about:
				why = "the diagnostic in the loop over the collected names (" + at + ") does not depend on the element"
			case exit != nil:
				why = "the loop over the collected names (" + at + ") is left early (break or return inside it): the names after the first are not reported"
			default:
				return diag, ""
			}
		}
	}
	return nil, why
}

// flowsIntoInstr: the value reaches an operand of target, through computed values and through stores into locals (the
// argument arrays of variadic calls).
func flowsIntoInstr(src ssa.Value, target ssa.Instruction) bool {
	seen := map[ssa.Value]bool{}
	work := []ssa.Value{src}
	for len(work) > 0 && len(seen) < 400 {
		v := work[len(work)-1]
		work = work[:len(work)-1]
		if seen[v] || v.Referrers() == nil {
			continue
		}
		seen[v] = true
		for _, ref := range *v.Referrers() {
			if ref == target {
				return true
			}
			if st, ok := ref.(*ssa.Store); ok {
				if st.Val == v {
					a := st.Addr
					for {
						switch x := a.(type) {
						case *ssa.IndexAddr:
							a = x.X
							continue
						case *ssa.FieldAddr:
							a = x.X
							continue
						}
						break
					}
					if al, ok := a.(*ssa.Alloc); ok {
						work = append(work, al)
					}
				}
				continue
			}
			if val, ok := ref.(ssa.Value); ok {
				if _, isCall := val.(*ssa.Call); isCall && val.Parent() != target.Parent() {
					continue
				}
				work = append(work, val)
			}
		}
	}
	return false
}

// ---- C14.OUT ----

func runC14Out(c *Ctx) {
	p := c.P
	for _, name := range []string{"(*RuleExpression).getActionOutputsType", "(*RuleExpression).getWorkflowCallOutputsType", "typeOfActionOutputs"} {
		var fn *ssa.Function
		for _, f := range p.Funcs {
			if FuncName(f) == name {
				fn = f
			}
		}
		if fn == nil {
			c.anchorMissing(name)
			continue
		}
		strict := 0
		occ := 0
		for _, b := range fn.Blocks {
			ret, ok := b.Instrs[len(b.Instrs)-1].(*ssa.Return)
			if !ok || len(ret.Results) != 1 {
				continue
			}
			vals := []ssa.Value{ret.Results[0]}
			var preds []*ssa.BasicBlock
			if ph, ok := ret.Results[0].(*ssa.Phi); ok && ph.Block() == b {
				vals = ph.Edges
				preds = b.Preds
			}
			for i, v := range vals {
				call, ok := v.(*ssa.Call)
				if !ok {
					occ++
					c.undecided(fmt.Sprintf("%s|result#%d", name, occ), ret.Pos(), "the result is not a constructor call")
					continue
				}
				callee := ""
				if f := staticCallee(&call.Call); f != nil {
					callee = FuncName(f)
				}
				blk := b
				if preds != nil {
					blk = preds[i]
				}
				switch callee {
				case "NewStrictObjectType", "typeOfActionOutputs":
					strict++
					if callee == "NewStrictObjectType" {
						// the property map is filled from the declared outputs
						okFill := false
						if mk, ok := call.Call.Args[0].(*ssa.MakeMap); ok {
							for _, ref := range *mk.Referrers() {
								if mu, ok := ref.(*ssa.MapUpdate); ok {
									k := mu.Key
									if tl, ok := k.(*ssa.Call); ok && calleeFullName(&tl.Call) == "strings.ToLower" {
										k = tl.Call.Args[0]
									}
									if rf, idx := rangePart(k); strings.HasSuffix(rf, ".Outputs") && idx == 1 {
										okFill = true
									}
								}
							}
						}
						construct := name + "|strict object filled from declared outputs"
						if okFill {
							c.ok(construct, call.Pos(), "keys come from ranging over the callee's Outputs")
						} else {
							c.bad(construct, call.Pos(), "the strict outputs object is not filled from the callee's declared outputs")
						}
					}
				case "NewMapObjectType", "NewEmptyObjectType":
					occ++
					construct := fmt.Sprintf("%s|open result#%d", name, occ)
					reason := ""
					for ifi, outcome := range controllingConds(blk) {
						cc := classifyCond(ifi, outcome)
						switch {
						case cc.kind == "nilmeta":
							v, _, _ := nilTest(ifi)
							isErr := types.Identical(v.Type(), types.Universe.Lookup("error").Type())
							if isErr && !cc.out {
								reason = "metadata could not be read"
							} else if !isErr && cc.out {
								reason = "metadata not found"
							}
						case cc.kind == "nilparam" && cc.out, cc.kind == "nilfield" && cc.out && cc.field == "WorkflowCall.Uses":
							reason = "no uses: at the call site"
						case cc.kind == "call" && cc.field == "strings.HasPrefix(actions/github-script@)" && outcome:
							reason = "github-script sets outputs dynamically"
						case cc.kind == "lookup" && cc.table == "global:PopularActions" && !outcome:
							reason = "not in the bundled data set"
						case cc.kind == "field" && cc.field == "ActionMetadata.SkipOutputs" && outcome:
							reason = "skip_outputs"
						}
					}
					if reason != "" {
						c.ok(construct, call.Pos(), "open outputs because: "+reason)
					} else {
						c.bad(construct, call.Pos(), "outputs are typed open although none of the recognised reasons (no uses, metadata missing/unreadable, github-script, not bundled, skip_outputs) is established on this path: undeclared outputs of a known interface are not reported")
					}
				default:
					occ++
					c.undecided(fmt.Sprintf("%s|result#%d", name, occ), call.Pos(), "unrecognised constructor "+callee)
				}
			}
		}
		if strict == 0 {
			c.bad(name+"|strict result exists", fn.Pos(), "no path yields a strict outputs object")
		} else {
			c.ok(name+"|strict result exists", fn.Pos(), fmt.Sprintf("%d strict result(s)", strict))
		}
	}
}

// ---- C14.TYPE ----

func runC14Type(c *Ctx) {
	p := c.P
	fn := p.Method("RuleExpression", "checkWorkflowCall")
	if fn == nil {
		c.anchorMissing("(*RuleExpression).checkWorkflowCall")
		return
	}
	n := 0
	eachInstr(fn, func(b *ssa.BasicBlock, _ int, in ssa.Instruction) {
		if !emitsDiag(in) {
			return
		}
		for ifi, outcome := range controllingConds(b) {
			call, ok := ifi.Cond.(*ssa.Call)
			if !ok || !call.Call.IsInvoke() || call.Call.Method.Name() != "Assignable" {
				continue
			}
			n++
			construct := fmt.Sprintf("(*RuleExpression).checkWorkflowCall|typed input check#%d", n)
			f, base := fieldLoad(call.Call.Value)
			okRecv := false
			var sideExit *ssa.BasicBlock
			if f == "ReusableWorkflowMetadataInput.Type" {
				// base is the element looked up in m.Inputs with the range key of c.Inputs
				if ex, ok := base.(*ssa.Extract); ok {
					if lk, ok := ex.Tuple.(*ssa.Lookup); ok {
						tf := fieldLoadOrNil(lk.X)
						rf, idx := rangePart(lk.Index)
						if tf == "ReusableWorkflowMetadata.Inputs" && rf == "WorkflowCall.Inputs" && idx == 1 {
							okRecv = true
							if nx, ok := lk.Index.(*ssa.Extract).Tuple.(*ssa.Next); ok {
								sideExit = loopSideExit(nx.Block())
							}
						}
					}
				}
			}
			switch {
			case outcome:
				c.bad(construct, in.Pos(), "the diagnostic is emitted when the value IS assignable")
			case !okRecv:
				c.bad(construct, in.Pos(), "the declared type does not come from the callee's input of the same name")
			case sideExit != nil:
				c.bad(construct, exitPos(sideExit), "the loop over the inputs of the call is left from inside its body (break or return at "+p.Pos(exitPos(sideExit))+"): the values of the inputs behind that point are not checked against their declared types")
			default:
				c.ok(construct, in.Pos(), "reported iff the declared type of the same-named input does not accept the value's type")
			}
		}
	})
	if n == 0 {
		c.bad("(*RuleExpression).checkWorkflowCall|typed input check", fn.Pos(), "no diagnostic controlled by Assignable found")
	}
}

// isRangeIndexCond: the `i < len(s)` test go/ssa emits for ranging over a slice.
func isRangeIndexCond(bo *ssa.BinOp) bool {
	if bo.Op != token.LSS {
		return false
	}
	call, ok := bo.Y.(*ssa.Call)
	if !ok {
		return false
	}
	if bi, ok := call.Call.Value.(*ssa.Builtin); !ok || bi.Name() != "len" {
		return false
	}
	add, ok := bo.X.(*ssa.BinOp)
	if !ok || add.Op != token.ADD {
		return false
	}
	_, isPhi := add.X.(*ssa.Phi)
	return isPhi
}

// fieldLoadOrNil: the field a value is loaded from, also when the value is a join of that load with nil (a table that is
// left nil when its owner is absent: a lookup in the nil table finds nothing).
func fieldLoadOrNil(v ssa.Value) string {
	if f, _ := fieldLoad(v); f != "" {
		return f
	}
	ph, ok := v.(*ssa.Phi)
	if !ok {
		return ""
	}
	field := ""
	for _, e := range ph.Edges {
		if k, isConst := e.(*ssa.Const); isConst && k.IsNil() {
			continue
		}
		f, _ := fieldLoad(e)
		if f == "" || (field != "" && f != field) {
			return ""
		}
		field = f
	}
	return field
}
