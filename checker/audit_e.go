package main

import (
	"go/token"
	"go/types"
	"strings"

	"golang.org/x/tools/go/ssa"
)

// Helpers of the clauses repaired after the clause audit (C01.EXTTIME, C02.SRC, C02.TOTALORDER, C03.*, mapkey-writers).

// ---- C01.EXTTIME: where a pattern comes from and what bounds it ----

func stripConv(v ssa.Value) ssa.Value {
	for {
		switch x := v.(type) {
		case *ssa.ChangeType:
			v = x.X
		case *ssa.Convert:
			v = x.X
		default:
			return v
		}
	}
}

// keyOfField: v is a key of the map held in a struct field: the key variable of a range over the field, or the element
// variable of a loop over a slice that collects such keys. Returns "T.f" and the block that heads the iteration.
func keyOfField(v ssa.Value, d int) (string, *ssa.BasicBlock) {
	if d > 6 {
		return "", nil
	}
	v = stripConv(v)
	switch x := v.(type) {
	case *ssa.Extract:
		if f, idx := rangePart(x); idx == 1 && f != "" && !strings.HasPrefix(f, "param:") {
			return f, x.Tuple.(*ssa.Next).Block()
		}
	case *ssa.UnOp:
		if x.Op != token.MUL {
			return "", nil
		}
		ia, ok := x.X.(*ssa.IndexAddr)
		if !ok {
			return "", nil
		}
		var head *ssa.BasicBlock
		switch i := ia.Index.(type) {
		case *ssa.Phi:
			head = i.Block()
		case *ssa.BinOp:
			for _, o := range []ssa.Value{i.X, i.Y} {
				if ph, ok := o.(*ssa.Phi); ok {
					head = ph.Block()
				}
			}
		}
		if head == nil {
			return "", nil
		}
		if f := sliceCollectsKeys(ia.X, map[ssa.Value]bool{}); f != "" {
			return f, head
		}
	case *ssa.Phi:
		for _, e := range x.Edges {
			if f, h := keyOfField(e, d+1); f != "" {
				return f, h
			}
		}
	}
	return "", nil
}

// sliceCollectsKeys: the slice is built by appending keys of a map field (nothing else is appended).
func sliceCollectsKeys(s ssa.Value, seen map[ssa.Value]bool) string {
	if seen[s] {
		return ""
	}
	seen[s] = true
	switch x := s.(type) {
	case *ssa.Phi:
		for _, e := range x.Edges {
			if f := sliceCollectsKeys(e, seen); f != "" {
				return f
			}
		}
	case *ssa.Slice:
		return sliceCollectsKeys(x.X, seen)
	case *ssa.Call:
		if b, ok := x.Call.Value.(*ssa.Builtin); !ok || b.Name() != "append" || len(x.Call.Args) != 2 {
			return ""
		}
		field := ""
		if sl, ok := x.Call.Args[1].(*ssa.Slice); ok {
			if al, ok := sl.X.(*ssa.Alloc); ok {
				for _, ref := range *al.Referrers() {
					ia, ok := ref.(*ssa.IndexAddr)
					if !ok {
						continue
					}
					for _, r2 := range *ia.Referrers() {
						if st, ok := r2.(*ssa.Store); ok {
							f, _ := keyOfField(st.Val, 0)
							if f == "" {
								return "" // something that is not a key is appended as well
							}
							field = f
						}
					}
				}
			}
		}
		if field != "" {
			return field
		}
		return sliceCollectsKeys(x.Call.Args[0], seen)
	}
	return ""
}

// braceBound: cond compares strings.Count(x, "{") with a constant (directly, negated, or through a one-line predicate of the
// module that does so on its parameter). Returns x and the outcome of cond that means "over the bound".
func braceBound(cond ssa.Value, d int) (counted ssa.Value, over bool, ok bool) {
	if d > 2 {
		return nil, false, false
	}
	switch x := cond.(type) {
	case *ssa.UnOp:
		if x.Op == token.NOT {
			v, o, ok := braceBound(x.X, d)
			return v, !o, ok
		}
	case *ssa.BinOp:
		cnt, lim := x.X, x.Y
		op := x.Op
		if _, isConst := cnt.(*ssa.Const); isConst {
			cnt, lim = lim, cnt
			switch op { // K op count  ==  count op' K
			case token.LSS:
				op = token.GTR
			case token.LEQ:
				op = token.GEQ
			case token.GTR:
				op = token.LSS
			case token.GEQ:
				op = token.LEQ
			}
		}
		if _, isConst := constInt(lim); !isConst {
			return nil, false, false
		}
		call, isCall := cnt.(*ssa.Call)
		if !isCall || calleeFullName(&call.Call) != "strings.Count" || len(call.Call.Args) != 2 {
			return nil, false, false
		}
		if s, isStr := constString(call.Call.Args[1]); !isStr || s != "{" {
			return nil, false, false
		}
		switch op {
		case token.GTR, token.GEQ:
			return call.Call.Args[0], true, true
		case token.LSS, token.LEQ:
			return call.Call.Args[0], false, true
		}
	case *ssa.Call:
		g := staticCallee(&x.Call)
		if g == nil || !inModule(g) || g.Blocks == nil || g.Signature.Results().Len() != 1 {
			return nil, false, false
		}
		// every return of the predicate is the same kind of test on one parameter
		var counted ssa.Value
		over, n := false, 0
		for _, b := range g.Blocks {
			ret, isRet := b.Instrs[len(b.Instrs)-1].(*ssa.Return)
			if !isRet {
				continue
			}
			v, o, ok := braceBound(ret.Results[0], d+1)
			par, isPar := stripConv(v).(*ssa.Parameter)
			if !ok || !isPar || (n > 0 && o != over) {
				return nil, false, false
			}
			for i, q := range g.Params {
				if q == par && i < len(x.Call.Args) {
					counted = x.Call.Args[i]
				}
			}
			over = o
			n++
		}
		if n == 1 && counted != nil {
			return counted, over, true
		}
	}
	return nil, false, false
}

// failureReturn: the return reports failure: a non-nil error, or nil for a pointer result.
func failureReturn(ret *ssa.Return) bool {
	for _, r := range ret.Results {
		if types.Identical(r.Type(), types.Universe.Lookup("error").Type()) {
			if !isNilConst(r) {
				return true
			}
			continue
		}
		if _, isPtr := r.Type().Underlying().(*types.Pointer); isPtr && isNilConst(r) {
			return true
		}
	}
	return false
}

// boundsKeysOf: fn bounds the brace groups of every key of the map field: a test of strings.Count(key, "{") against a
// constant inside a loop over all keys, whose over-bound outcome leads to failure returns only, and the loop is passed on
// every path to a success return.
func boundsKeysOf(fn *ssa.Function, field string) (bool, string) {
	why := "no test of strings.Count(<key>, \"{\") against a constant in " + FuncName(fn)
	for _, b := range fn.Blocks {
		ifi, ok := b.Instrs[len(b.Instrs)-1].(*ssa.If)
		if !ok {
			continue
		}
		counted, over, ok := braceBound(ifi.Cond, 0)
		if !ok {
			continue
		}
		f, head := keyOfField(counted, 0)
		if f != field {
			why = "the brace groups counted in " + FuncName(fn) + " are not those of a key of " + field + " taken in a loop over all keys"
			continue
		}
		overSucc := b.Succs[1]
		if over {
			overSucc = b.Succs[0]
		}
		fails, good := 0, true
		for rb := range reachableBlocks([]*ssa.BasicBlock{overSucc}, map[*ssa.BasicBlock]bool{b: true}) {
			if ret, ok := rb.Instrs[len(rb.Instrs)-1].(*ssa.Return); ok {
				if failureReturn(ret) {
					fails++
				} else {
					good = false
				}
			}
		}
		if !good || fails == 0 {
			why = "a key over the bound does not make " + FuncName(fn) + " fail"
			continue
		}
		passed := true
		for _, rb := range fn.Blocks {
			if ret, ok := rb.Instrs[len(rb.Instrs)-1].(*ssa.Return); ok && !failureReturn(ret) && !head.Dominates(rb) {
				passed = false
			}
		}
		if !passed {
			why = FuncName(fn) + " can succeed without passing the loop that bounds the keys"
			continue
		}
		return true, ""
	}
	return false, why
}

// decodersOf: functions of the module that hand a *T to a parameter of interface type (a decoder fills it).
func (p *Prog) decodersOf(typ string) []*ssa.Function {
	var out []*ssa.Function
	for _, fn := range p.Funcs {
		found := false
		eachInstr(fn, func(_ *ssa.BasicBlock, _ int, in ssa.Instruction) {
			call, ok := in.(ssa.CallInstruction)
			if !ok || found {
				return
			}
			for _, a := range call.Common().Args {
				if mi, ok := a.(*ssa.MakeInterface); ok {
					if pt, ok := mi.X.Type().Underlying().(*types.Pointer); ok {
						if nm := namedOf(pt.Elem()); nm != nil && nm.Obj().Name() == typ && nm.Obj().Pkg() != nil && nm.Obj().Pkg().Path() == modPath {
							found = true
						}
					}
				}
			}
		})
		if found {
			out = append(out, fn)
		}
	}
	return out
}

// mapFieldWriters: functions that store the field or update the map loaded from it.
func (p *Prog) mapFieldWriters(field string) map[*ssa.Function]bool {
	out := map[*ssa.Function]bool{}
	for _, fn := range p.Funcs {
		eachInstr(fn, func(_ *ssa.BasicBlock, _ int, in ssa.Instruction) {
			switch x := in.(type) {
			case *ssa.Store:
				if fa, ok := x.Addr.(*ssa.FieldAddr); ok && fieldAddrName(fa) == field {
					out[fn] = true
				}
			case *ssa.MapUpdate:
				if f, _ := fieldLoad(x.Map); f == field {
					out[fn] = true
				}
			}
		})
	}
	return out
}
