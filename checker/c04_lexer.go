package main

// C04, lexer half: the deterministic automaton implemented by the hand-written lexer is extracted from the SSA form by abstract
// interpretation over a finite partition of the characters (every character constant the lexer compares with splits the
// alphabet), and checked for bisimilarity with the documented token automaton.

import (
	"fmt"
	"go/token"
	"go/types"
	"sort"
	"strings"

	"golang.org/x/tools/go/ssa"
)

func init() {
	register(&Rule{ID: "C04.LEX", Min: 20, Doc: "the lexer's automaton is bisimilar to the documented token automaton", Run: runC04Lex})
}

// ---- character classes ----

type classes struct {
	reps []rune // representative of each class, ascending
	desc []string
}

type cset []uint64

func (cs *classes) newSet(full bool) cset {
	s := make(cset, (len(cs.reps)+63)/64)
	if full {
		for i := range cs.reps {
			s[i/64] |= 1 << uint(i%64)
		}
	}
	return s
}
func (s cset) has(i int) bool { return s[i/64]&(1<<uint(i%64)) != 0 }
func (s cset) set(i int)      { s[i/64] |= 1 << uint(i%64) }
func (s cset) empty() bool {
	for _, w := range s {
		if w != 0 {
			return false
		}
	}
	return true
}
func (s cset) and(t cset) cset {
	o := make(cset, len(s))
	for i := range s {
		o[i] = s[i] & t[i]
	}
	return o
}
func (s cset) andNot(t cset) cset {
	o := make(cset, len(s))
	for i := range s {
		o[i] = s[i] &^ t[i]
	}
	return o
}
func (s cset) key() string { return fmt.Sprint([]uint64(s)) }

func buildClasses(consts map[rune]bool) *classes {
	var cs []rune
	for c := range consts {
		cs = append(cs, c)
	}
	sort.Slice(cs, func(i, j int) bool { return cs[i] < cs[j] })
	out := &classes{}
	q := func(r rune) string {
		if r == -1 {
			return "EOF"
		}
		return fmt.Sprintf("%q", r)
	}
	prev := rune(-2)
	for _, c := range cs {
		if c-prev > 1 {
			out.reps = append(out.reps, prev+1)
			if c-prev == 2 {
				out.desc = append(out.desc, q(prev+1))
			} else {
				out.desc = append(out.desc, q(prev+1)+".."+q(c-1))
			}
		}
		out.reps = append(out.reps, c)
		out.desc = append(out.desc, q(c))
		prev = c
	}
	if prev < 0x10FFFF {
		out.reps = append(out.reps, prev+1)
		out.desc = append(out.desc, q(prev+1)+"..")
	}
	return out
}

// ---- abstract values ----

type avKind int

const (
	avUnknown avKind = iota
	avCur            // the current (not yet consumed) character
	avInt            // known integer constant
	avBool           // known boolean
	avPred           // boolean depending on the current character: true exactly for the classes in set
)

type aval struct {
	k   avKind
	i   int64
	b   bool
	set cset
}

func (v aval) str() string {
	switch v.k {
	case avCur:
		return "cur"
	case avInt:
		return fmt.Sprintf("i%d", v.i)
	case avBool:
		return fmt.Sprintf("b%v", v.b)
	case avPred:
		return "p" + v.set.key()
	}
	return "?"
}

type lframe struct {
	fn    *ssa.Function
	block int
	idx   int
	prev  int // index of the predecessor block (for phis)
	env   map[ssa.Value]aval
	// where the result goes in the caller
	resultOf ssa.Value
}

type lstate struct {
	frames []*lframe
}

func (st *lstate) clone() *lstate {
	o := &lstate{}
	for _, f := range st.frames {
		nf := *f
		nf.env = make(map[ssa.Value]aval, len(f.env))
		for k, v := range f.env {
			nf.env[k] = v
		}
		o.frames = append(o.frames, &nf)
	}
	return o
}

func (st *lstate) key() string {
	var sb strings.Builder
	for _, f := range st.frames {
		fmt.Fprintf(&sb, "%s:%d:%d:%d{", f.fn.Name(), f.block, f.idx, f.prev)
		var es []string
		for k, v := range f.env {
			if v.k == avUnknown {
				continue
			}
			// only values that can still be used matter; keeping all known ones is finite and safe
			es = append(es, k.Name()+"="+v.str())
		}
		sort.Strings(es)
		sb.WriteString(strings.Join(es, ","))
		sb.WriteString("}")
	}
	return sb.String()
}

// after a consumption the previous character is gone
func (st *lstate) forgetCur() {
	for _, f := range st.frames {
		for k, v := range f.env {
			if v.k == avCur || v.k == avPred {
				f.env[k] = aval{}
			}
		}
	}
}

type lexOutcome struct {
	set  cset
	kind string // "goto", "emit", "error"
	tok  int64
	next *lstate
	pos  token.Pos
}

type lexModel struct {
	p         *Prog
	cls       *classes
	tk        *tokenKinds
	tokenFn   *ssa.Function
	errFns    map[*ssa.Function]bool
	undecided []string
	steps     int
}

func lexerFuncs(p *Prog) []*ssa.Function {
	var out []*ssa.Function
	for _, fn := range p.Funcs {
		if strings.HasSuffix(p.unitFile(fn), "/expr_lexer.go") {
			out = append(out, fn)
		}
	}
	return out
}

func isRuneType(t types.Type) bool {
	b, ok := t.Underlying().(*types.Basic)
	return ok && (b.Kind() == types.Int32 || b.Kind() == types.UntypedRune)
}

func collectRuneConsts(fns []*ssa.Function, into map[rune]bool) {
	for _, fn := range fns {
		eachInstr(fn, func(_ *ssa.BasicBlock, _ int, in ssa.Instruction) {
			bo, ok := in.(*ssa.BinOp)
			if !ok {
				return
			}
			switch bo.Op {
			case token.EQL, token.NEQ, token.LSS, token.LEQ, token.GTR, token.GEQ:
			default:
				return
			}
			for _, v := range []ssa.Value{bo.X, bo.Y} {
				if c, ok := v.(*ssa.Const); ok && isRuneType(c.Type()) {
					if n, ok := constInt(c); ok {
						into[rune(n)] = true
					}
				}
			}
		})
	}
}

func (m *lexModel) evalOperand(f *lframe, v ssa.Value) aval {
	if c, ok := v.(*ssa.Const); ok {
		if c.Value == nil {
			return aval{}
		}
		if isBoolType(c.Type()) {
			return aval{k: avBool, b: c.Value.String() == "true"}
		}
		if n, ok := constInt(c); ok {
			return aval{k: avInt, i: n}
		}
		return aval{}
	}
	return f.env[v]
}

func (m *lexModel) cmp(op token.Token, a, b int64) bool {
	switch op {
	case token.EQL:
		return a == b
	case token.NEQ:
		return a != b
	case token.LSS:
		return a < b
	case token.LEQ:
		return a <= b
	case token.GTR:
		return a > b
	case token.GEQ:
		return a >= b
	}
	return false
}

// run explores from a state (positioned right after a consumption or at the start) until the next consumption, token or error.
func (m *lexModel) run(st *lstate, s cset, out *[]lexOutcome, depth int) {
	m.steps++
	if depth > 4000 || m.steps > 2000000 {
		m.undecided = append(m.undecided, "exploration bound reached (a loop that does not consume input?)")
		return
	}
	for {
		f := st.frames[len(st.frames)-1]
		blk := f.fn.Blocks[f.block]
		if f.idx >= len(blk.Instrs) {
			m.undecided = append(m.undecided, "fell off block in "+f.fn.Name())
			return
		}
		in := blk.Instrs[f.idx]
		f.idx++
		switch x := in.(type) {
		case *ssa.Phi:
			f.env[x] = m.evalOperand(f, x.Edges[f.prev])
		case *ssa.BinOp:
			a, b := m.evalOperand(f, x.X), m.evalOperand(f, x.Y)
			switch x.Op {
			case token.EQL, token.NEQ, token.LSS, token.LEQ, token.GTR, token.GEQ:
				switch {
				case a.k == avInt && b.k == avInt:
					f.env[x] = aval{k: avBool, b: m.cmp(x.Op, a.i, b.i)}
				case a.k == avCur && b.k == avInt, a.k == avInt && b.k == avCur:
					set := m.cls.newSet(false)
					for i, r := range m.cls.reps {
						var t bool
						if a.k == avCur {
							t = m.cmp(x.Op, int64(r), b.i)
						} else {
							t = m.cmp(x.Op, a.i, int64(r))
						}
						if t {
							set.set(i)
						}
					}
					f.env[x] = aval{k: avPred, set: set}
				case a.k == avBool && b.k == avBool && (x.Op == token.EQL || x.Op == token.NEQ):
					f.env[x] = aval{k: avBool, b: (a.b == b.b) == (x.Op == token.EQL)}
				default:
					f.env[x] = aval{}
				}
			default:
				f.env[x] = aval{}
			}
		case *ssa.UnOp:
			v := m.evalOperand(f, x.X)
			if x.Op == token.NOT {
				switch v.k {
				case avBool:
					f.env[x] = aval{k: avBool, b: !v.b}
				case avPred:
					f.env[x] = aval{k: avPred, set: m.cls.newSet(true).andNot(v.set)}
				default:
					f.env[x] = aval{}
				}
			} else {
				f.env[x] = aval{}
			}
		case *ssa.ChangeType:
			f.env[x] = m.evalOperand(f, x.X)
		case *ssa.Convert:
			f.env[x] = m.evalOperand(f, x.X)
		case *ssa.Call:
			callee := staticCallee(&x.Call)
			name := calleeFullName(&x.Call)
			switch {
			case name == "(*text/scanner.Scanner).Peek":
				f.env[x] = aval{k: avCur}
			case name == "(*text/scanner.Scanner).Next":
				// consumption of the current character
				nst := st.clone()
				nst.forgetCur()
				*out = append(*out, lexOutcome{set: s, kind: "goto", next: nst, pos: x.Pos()})
				return
			case callee != nil && callee == m.tokenFn:
				k := m.evalOperand(f, x.Call.Args[1])
				if k.k != avInt {
					m.undecided = append(m.undecided, "token kind not constant at "+m.p.Pos(x.Pos()))
					return
				}
				*out = append(*out, lexOutcome{set: s, kind: "emit", tok: k.i, pos: x.Pos()})
				return
			case callee != nil && m.errFns[callee]:
				*out = append(*out, lexOutcome{set: s, kind: "error", pos: x.Pos()})
				return
			case callee != nil && inPkgName(callee) && callee.Blocks != nil:
				nf := &lframe{fn: callee, env: map[ssa.Value]aval{}, resultOf: x}
				for i, prm := range callee.Params {
					nf.env[prm] = m.evalOperand(f, x.Call.Args[i])
				}
				if len(st.frames) > 12 {
					m.undecided = append(m.undecided, "call depth in "+callee.Name())
					return
				}
				st.frames = append(st.frames, nf)
			default:
				f.env[x] = aval{}
			}
		case *ssa.If:
			c := m.evalOperand(f, x.Cond)
			take := func(succ int, ns cset, state *lstate) {
				fr := state.frames[len(state.frames)-1]
				fr.prev = predIndex(blk.Succs[succ], blk)
				fr.block = blk.Succs[succ].Index
				fr.idx = 0
				m.run(state, ns, out, depth+1)
			}
			switch c.k {
			case avBool:
				if c.b {
					take(0, s, st)
				} else {
					take(1, s, st)
				}
			case avPred:
				t, e := s.and(c.set), s.andNot(c.set)
				if !t.empty() {
					take(0, t, st.clone())
				}
				if !e.empty() {
					take(1, e, st.clone())
				}
			default:
				m.undecided = append(m.undecided, "condition not determined by the current character at "+m.p.Pos(x.Pos())+" in "+f.fn.Name())
			}
			return
		case *ssa.Jump:
			f.prev = predIndex(blk.Succs[0], blk)
			f.block = blk.Succs[0].Index
			f.idx = 0
		case *ssa.Return:
			var rv aval
			if len(x.Results) == 1 {
				rv = m.evalOperand(f, x.Results[0])
			}
			if len(st.frames) == 1 {
				m.undecided = append(m.undecided, "Next returns without producing a token at "+m.p.Pos(x.Pos()))
				return
			}
			st.frames = st.frames[:len(st.frames)-1]
			caller := st.frames[len(st.frames)-1]
			if f.resultOf != nil {
				caller.env[f.resultOf] = rv
			}
		case *ssa.Panic:
			*out = append(*out, lexOutcome{set: s, kind: "error", pos: x.Pos()})
			return
		default:
			if v, ok := in.(ssa.Value); ok {
				f.env[v] = aval{}
			}
		}
	}
}

func predIndex(b, pred *ssa.BasicBlock) int {
	for i, p := range b.Preds {
		if p == pred {
			return i
		}
	}
	return 0
}

// ---- the documented token automaton ----

type refAct struct {
	kind string // goto, emit, error
	next string
	tok  string
}

func isAlphaR(r rune) bool { return 'a' <= r && r <= 'z' || 'A' <= r && r <= 'Z' }
func isDigitR(r rune) bool { return '0' <= r && r <= '9' }
func isHexR(r rune) bool   { return isDigitR(r) || 'a' <= r && r <= 'f' || 'A' <= r && r <= 'F' }
func isAlnumR(r rune) bool { return isAlphaR(r) || isDigitR(r) }

// refRunes: constants the documented automaton distinguishes (added to the partition).
var refRunes = []rune{-1, ' ', '\n', '\r', '\t', 'a', 'z', 'A', 'Z', '_', '-', '+', '0', '1', '9', 'x', 'e', 'E', 'f', 'F', '.', '\'', '}', '!', '<', '>', '=', '&', '|', '(', ')', '[', ']', '*', ','}

// refStep is the token automaton of the documented expression language: identifiers [A-Za-z_][A-Za-z0-9_-]*, strings in single
// quotes with ” as the only escape, numbers in the JSON forms plus 0x hex (a number must not run into a letter or digit),
// the operators and punctuation of the grammar, }} as end marker, white space between tokens.
// relax names documented-language features a lexer may lack; they are only used to name a deviation precisely.
func refStep(state string, r rune, relax map[string]bool) refAct {
	g := func(n string) refAct { return refAct{kind: "goto", next: n} }
	e := func(t string) refAct { return refAct{kind: "emit", tok: t} }
	bad := refAct{kind: "error"}
	if strings.HasPrefix(state, "punct:") {
		return e(strings.TrimPrefix(state, "punct:"))
	}
	afterNumber := func(tok string) refAct {
		if isAlnumR(r) {
			return bad
		}
		return e(tok)
	}
	switch state {
	case "start":
		switch {
		case r == ' ' || r == '\n' || r == '\r' || r == '\t':
			return g("start")
		case r == -1:
			return bad
		case isAlphaR(r) || r == '_':
			return g("ident")
		case r == '0':
			return g("int0")
		case isDigitR(r):
			return g("intN")
		case r == '-':
			return g("minus")
		case r == '\'':
			return g("str")
		case r == '}':
			return g("rbrace")
		case r == '!':
			return g("bang")
		case r == '<':
			return g("lt")
		case r == '>':
			return g("gt")
		case r == '=':
			return g("eq")
		case r == '&':
			return g("amp")
		case r == '|':
			return g("pipe")
		case r == '(':
			return g("punct:LeftParen")
		case r == ')':
			return g("punct:RightParen")
		case r == '[':
			return g("punct:LeftBracket")
		case r == ']':
			return g("punct:RightBracket")
		case r == '.':
			return g("punct:Dot")
		case r == '*':
			return g("punct:Star")
		case r == ',':
			return g("punct:Comma")
		}
		return bad
	case "ident":
		if isAlnumR(r) || r == '_' || r == '-' {
			return g("ident")
		}
		return e("Ident")
	case "minus":
		switch {
		case r == '0':
			return g("int0")
		case isDigitR(r):
			return g("intN")
		}
		return bad
	case "int0":
		switch {
		case r == 'x':
			return g("hex0")
		case r == '.':
			return g("frac0")
		case r == 'e' || r == 'E':
			return g("exp0")
		}
		return afterNumber("Int")
	case "intN":
		switch {
		case isDigitR(r):
			return g("intN")
		case r == '.':
			return g("frac0")
		case r == 'e' || r == 'E':
			return g("exp0")
		}
		return afterNumber("Int")
	case "frac0":
		if isDigitR(r) {
			return g("fracN")
		}
		return bad
	case "fracN":
		switch {
		case isDigitR(r):
			return g("fracN")
		case r == 'e' || r == 'E':
			return g("exp0")
		}
		return afterNumber("Float")
	case "exp0":
		switch {
		case r == '-' || (r == '+' && !relax["exponent-plus-sign"]):
			return g("expSign")
		case r == '0' && relax["exponent-leading-zero"]:
			return g("expZ")
		case isDigitR(r):
			return g("expN")
		}
		return bad
	case "expSign":
		switch {
		case r == '0' && relax["exponent-leading-zero"]:
			return g("expZ")
		case isDigitR(r):
			return g("expN")
		}
		return bad
	case "expZ":
		return afterNumber("Float")
	case "expN":
		if isDigitR(r) {
			return g("expN")
		}
		return afterNumber("Float")
	case "hex0":
		// "0x hex": 0x followed by hexadecimal digits. The lexer (pinned by the project's own tests) rejects a second digit
		// after a leading zero digit (0x0F): the named relaxation hex-leading-zero
		switch {
		case r == '0' && relax["hex-leading-zero"]:
			return g("hexZ")
		case isHexR(r):
			return g("hexN")
		}
		return bad
	case "hexZ":
		return afterNumber("Int")
	case "hexN":
		if isHexR(r) {
			return g("hexN")
		}
		return afterNumber("Int")
	case "str":
		switch {
		case r == '\'':
			return g("strQ")
		case r == -1:
			return bad
		}
		return g("str")
	case "strQ":
		if r == '\'' {
			return g("str")
		}
		return e("String")
	case "rbrace":
		if r == '}' {
			return g("punct:End")
		}
		return bad
	case "bang":
		if r == '=' {
			return g("punct:NotEq")
		}
		return e("Not")
	case "lt":
		if r == '=' {
			return g("punct:LessEq")
		}
		return e("Less")
	case "gt":
		if r == '=' {
			return g("punct:GreaterEq")
		}
		return e("Greater")
	case "eq":
		if r == '=' {
			return g("punct:Eq")
		}
		return bad
	case "amp":
		if r == '&' {
			return g("punct:And")
		}
		return bad
	case "pipe":
		if r == '|' {
			return g("punct:Or")
		}
		return bad
	}
	return bad
}

var lexRelaxations = []string{"exponent-plus-sign", "exponent-leading-zero", "hex-leading-zero"}

// ---- bisimulation ----

type lexMismatch struct {
	word  string
	code  string
	ref   string
	pos   token.Pos
	state string
}

func (m *lexModel) bisim(start *lstate, relax map[string]bool) (pairs int, states map[string]bool, mm *lexMismatch) {
	type item struct {
		st   *lstate
		ref  string
		word []rune
	}
	seen := map[string]bool{}
	states = map[string]bool{}
	queue := []item{{start, "start", nil}}
	seen[start.key()+"|start"] = true
	trans := map[string][]lexOutcome{}
	for len(queue) > 0 {
		it := queue[0]
		queue = queue[1:]
		k := it.st.key()
		states[it.ref] = true
		outs, ok := trans[k]
		if !ok {
			var o []lexOutcome
			m.run(it.st.clone(), m.cls.newSet(true), &o, 0)
			trans[k] = o
			outs = o
		}
		if len(m.undecided) > 0 {
			return pairs, states, nil
		}
		covered := m.cls.newSet(false)
		for _, o := range outs {
			for ci, rep := range m.cls.reps {
				if !o.set.has(ci) {
					continue
				}
				covered.set(ci)
				ra := refStep(it.ref, rep, relax)
				codeDesc := o.kind
				if o.kind == "emit" {
					codeDesc = "token " + m.tk.names[o.tok]
				} else if o.kind == "goto" {
					codeDesc = "consumes it"
				} else {
					codeDesc = "reports an error"
				}
				refDesc := "reports an error"
				switch ra.kind {
				case "emit":
					refDesc = "token " + ra.tok
				case "goto":
					refDesc = "consumes it"
				}
				same := o.kind == ra.kind && (o.kind != "emit" || m.tk.names[o.tok] == ra.tok)
				if !same {
					w := string(append(append([]rune{}, it.word...), repRune(rep)))
					return pairs, states, &lexMismatch{word: w, code: codeDesc, ref: refDesc, pos: o.pos, state: it.ref + " on " + m.cls.desc[ci]}
				}
				pairs++
				if o.kind == "goto" {
					pk := o.next.key() + "|" + ra.next
					if !seen[pk] {
						seen[pk] = true
						queue = append(queue, item{o.next, ra.next, append(append([]rune{}, it.word...), repRune(rep))})
					}
				}
			}
		}
		for ci := range m.cls.reps {
			if !covered.has(ci) {
				m.undecided = append(m.undecided, "no outcome for class "+m.cls.desc[ci]+" in state "+it.ref)
				return pairs, states, nil
			}
		}
	}
	return pairs, states, nil
}

func repRune(r rune) rune {
	if r == -1 {
		return '␄'
	}
	return r
}

func runC04Lex(c *Ctx) {
	p := c.P
	next := p.Method("ExprLexer", "Next")
	tokenFn := p.Method("ExprLexer", "token")
	if next == nil || tokenFn == nil {
		c.anchorMissing("(*ExprLexer).Next / token")
		return
	}
	tk := p.tokenKinds()
	if tk == nil {
		c.anchorMissing("type TokenKind")
		return
	}
	consts := map[rune]bool{}
	for _, r := range refRunes {
		consts[r] = true
	}
	collectRuneConsts(lexerFuncs(p), consts)
	m := &lexModel{p: p, cls: buildClasses(consts), tk: tk, tokenFn: tokenFn, errFns: map[*ssa.Function]bool{}}
	for _, n := range []string{"unexpected", "unexpectedEOF", "error"} {
		if f := p.Method("ExprLexer", n); f != nil {
			m.errFns[f] = true
		}
	}
	// after an error (and at EOF) the lexer hands out the End token, so loops over tokens stop (used by C01.LOOP)
	if eof := p.Method("ExprLexer", "eof"); eof == nil {
		c.anchorMissing("(*ExprLexer).eof")
	} else {
		okKind := false
		eachInstr(eof, func(_ *ssa.BasicBlock, _ int, in ssa.Instruction) {
			if st, ok := in.(*ssa.Store); ok {
				if fa, ok := st.Addr.(*ssa.FieldAddr); ok && fieldAddrName(fa) == "Token.Kind" {
					if k, ok := constInt(st.Val); ok && int(k) < len(tk.names) && tk.names[k] == "End" {
						okKind = true
					}
				}
			}
		})
		okErr := true
		for _, n := range []string{"unexpected", "unexpectedEOF"} {
			f := p.Method("ExprLexer", n)
			if f == nil {
				okErr = false
				continue
			}
			for _, b := range f.Blocks {
				if ret, ok := b.Instrs[len(b.Instrs)-1].(*ssa.Return); ok {
					call, ok := ret.Results[0].(*ssa.Call)
					if !ok || staticCallee(&call.Call) != eof {
						okErr = false
					}
				}
			}
		}
		if okKind && okErr {
			c.ok("(*ExprLexer).unexpected|End token after an error", eof.Pos(), "the error paths return eof(), a token of kind End")
		} else {
			c.bad("(*ExprLexer).unexpected|End token after an error", eof.Pos(), "after a lexing error a token other than End is returned: loops reading tokens until End do not stop")
		}
	}
	start := &lstate{frames: []*lframe{{fn: next, env: map[ssa.Value]aval{}}}}
	// strict first, then with named relaxations (each one used is a deviation from the documented language)
	var subsets [][]string
	n := len(lexRelaxations)
	for mask := 0; mask < 1<<uint(n); mask++ {
		var s []string
		for i := 0; i < n; i++ {
			if mask&(1<<uint(i)) != 0 {
				s = append(s, lexRelaxations[i])
			}
		}
		subsets = append(subsets, s)
	}
	sort.SliceStable(subsets, func(i, j int) bool { return len(subsets[i]) < len(subsets[j]) })
	var firstMM *lexMismatch
	for _, sub := range subsets {
		relax := map[string]bool{}
		for _, s := range sub {
			relax[s] = true
		}
		m.undecided = nil
		m.steps = 0
		pairs, states, mm := m.bisim(start, relax)
		if len(m.undecided) > 0 {
			c.undecided("(*ExprLexer).Next|automaton extraction", next.Pos(), strings.Join(m.undecided, "; "))
			return
		}
		if mm != nil {
			if firstMM == nil {
				firstMM = mm
			}
			continue
		}
		// bisimilar modulo `sub`
		sts := sortedKeys(states)
		for _, s := range sts {
			c.ok("(*ExprLexer).Next|state "+s, next.Pos(), "same behaviour as the documented automaton for every character class")
		}
		c.ok("(*ExprLexer).Next|bisimulation", next.Pos(), fmt.Sprintf("%d (state, character class) pairs agree over %d classes; %d reference states reached", pairs, len(m.cls.reps), len(states)))
		for _, s := range sub {
			c.bad("(*ExprLexer).Next|deviation "+s, next.Pos(), "the lexer matches the documented automaton only without the feature `"+s+"`: "+relaxDoc[s])
		}
		return
	}
	c.bad("(*ExprLexer).Next|bisimulation", firstMM.pos, fmt.Sprintf("after reading %q (reference state %s) the lexer %s but the documented language %s", firstMM.word, firstMM.state, firstMM.code, firstMM.ref))
}

var relaxDoc = map[string]string{
	"exponent-plus-sign":    "JSON numbers allow an explicit + in the exponent (1e+3); the lexer reports an error for it",
	"exponent-leading-zero": "JSON numbers allow leading zeros in the exponent (1e01); the lexer reports an error for input `1e01`",
	"hex-leading-zero":      "0x hex is 0x followed by hexadecimal digits; the lexer reports an error for a digit after a leading zero digit (`0x0F`)",
}
