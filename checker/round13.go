package main

// Rules written after seeding round 13 (seeds Q).

import (
	"fmt"
	"go/token"
	"strings"

	"golang.org/x/tools/go/ssa"
)

func init() {
	register(&Rule{ID: "C06.MATMERGE", Min: 4, Doc: "the types of the values of a matrix row, of a sequence value and of an include assignment over a row are combined by Merge unconditionally: no type comparison that `any` satisfies decides whether a value is merged", Run: runC06MatMerge})
	register(&Rule{ID: "C14.POPSTATE", Min: 1, Doc: "the lookup of a bundled popular action keeps no state between calls: the callee's interface is a function of the spec and the data set", Run: runC14PopState})
}

// ---- C06.MATMERGE ----

// The type of a matrix property is the merge of the types of all its values; a value of unknown type (`${{ fromJSON(..) }}`)
// must widen it to any. EqualTypes and Assignable hold whenever one side is any, so a merge skipped "because the types are
// equal" keeps the strict literal type and references into the unknown value are reported (seed C05-Q). The rule reads the
// functions that type a matrix (checkMatrix and the functions of rule_expression.go it reaches that fold the result of
// checkRawYAMLValue) and their helpers in that file.
func runC06MatMerge(c *Ctx) {
	p := c.P
	raw := p.Method("RuleExpression", "checkRawYAMLValue")
	top := p.Method("RuleExpression", "checkMatrix")
	if raw == nil || top == nil {
		c.anchorMissing("(*RuleExpression).checkRawYAMLValue / checkMatrix")
		return
	}
	inFile := func(f *ssa.Function) bool {
		return f != nil && f.Blocks != nil && strings.HasSuffix(p.unitFile(f), "/rule_expression.go")
	}
	// the folding functions: callers of checkRawYAMLValue in the file (itself included), and what they call in the file
	// with a type as argument (a helper that does the combining)
	scope := map[*ssa.Function]bool{raw: true, top: true}
	for _, e := range p.callersOf(raw) {
		if e.Site != nil && inFile(e.Caller.Func) {
			scope[e.Caller.Func] = true
		}
	}
	for f := range scope {
		eachInstr(f, func(_ *ssa.BasicBlock, _ int, in ssa.Instruction) {
			call, ok := in.(*ssa.Call)
			if !ok {
				return
			}
			g := staticCallee(&call.Call)
			if g == nil || !inModule(g) || g.Blocks == nil || g.Signature.Recv() != nil && !inFile(g) {
				return
			}
			// a plain function or a method of the rule that takes and returns an ExprType
			takes, gives := false, false
			for i := 0; i < g.Signature.Params().Len(); i++ {
				if typeStr(g.Signature.Params().At(i).Type()) == "ExprType" {
					takes = true
				}
			}
			for i := 0; i < g.Signature.Results().Len(); i++ {
				if typeStr(g.Signature.Results().At(i).Type()) == "ExprType" {
					gives = true
				}
			}
			if takes && gives && strings.HasSuffix(p.unitFile(g), "/rule_expression.go") {
				scope[g] = true
			}
		})
	}
	var fns []*ssa.Function
	for _, f := range p.Funcs {
		if scope[f] {
			fns = append(fns, f)
		}
	}
	n := 0
	for _, f := range fns {
		k := 0
		eachInstr(f, func(b *ssa.BasicBlock, _ int, in ssa.Instruction) {
			call, ok := in.(*ssa.Call)
			if !ok || !call.Call.IsInvoke() || call.Call.Method.Name() != "Merge" {
				return
			}
			k++
			n++
			construct := fmt.Sprintf("%s|merge of matrix value types#%d", FuncName(f), k)
			guard := ""
			for ifi := range controllingConds(b) {
				if mentionsInvoke(ifi.Cond, "EqualTypes", 0) || mentionsInvoke(ifi.Cond, "Assignable", 0) {
					guard = p.Pos(ifi.Cond.Pos())
				}
			}
			if guard == "" {
				c.ok(construct, call.Pos(), "the value's type is merged whenever there is a type to merge it with")
			} else {
				c.bad(construct, call.Pos(), "the merge is skipped under a type comparison (at "+guard+") that holds whenever one side is any: a value of unknown type after a literal one no longer widens the matrix property, and a reference into the unknown value is reported")
			}
		})
		// no branch of a folding function rests on such a comparison at all
		bad := token.NoPos
		for _, b := range f.Blocks {
			if ifi, ok := b.Instrs[len(b.Instrs)-1].(*ssa.If); ok {
				if mentionsInvoke(ifi.Cond, "EqualTypes", 0) || mentionsInvoke(ifi.Cond, "Assignable", 0) {
					bad = ifi.Cond.Pos()
					if bad == token.NoPos {
						bad = f.Pos()
					}
				}
			}
		}
		n++
		construct := FuncName(f) + "|no branch on a comparison that any satisfies"
		if bad == token.NoPos {
			c.ok(construct, f.Pos(), "the typing of matrix values does not compare types")
		} else {
			c.bad(construct, bad, "a branch of the matrix typing tests EqualTypes / Assignable, which hold whenever one side is any: which type a matrix property gets depends on a comparison that an unknown value always passes")
		}
	}
	if n == 0 {
		c.anchorMissing("Merge calls in the typing of matrix values")
	}
}

// ---- C14.POPSTATE ----

// What an action of the bundled data set declares is a function of the `uses:` spec and of the data set. A lookup that
// keeps state between calls (an index filled at the first query, a memo of the last answer) makes the verdict for one step
// depend on the steps looked up before it (seed C14-Q: a per-repository index that only ever holds the keys of the first
// ref asked for). The rule: findPopularAction and the helpers it calls write nothing that outlives the call.
func runC14PopState(c *Ctx) {
	p := c.P
	fn := p.Func("findPopularAction")
	if fn == nil {
		c.anchorMissing("findPopularAction")
		return
	}
	fromGlobal := func(v ssa.Value) *ssa.Global {
		for d := 0; d < 6 && v != nil; d++ {
			switch x := v.(type) {
			case *ssa.Global:
				return x
			case *ssa.FieldAddr:
				v = x.X
			case *ssa.IndexAddr:
				v = x.X
			case *ssa.UnOp:
				v = x.X
			case *ssa.Field:
				v = x.X
			default:
				return nil
			}
		}
		return nil
	}
	mutators := map[string]bool{"Store": true, "LoadOrStore": true, "Swap": true, "Delete": true, "CompareAndSwap": true, "CompareAndDelete": true, "LoadAndDelete": true, "Do": true, "Add": true, "Range": false}
	for _, f := range p.withHelpers(fn, 2) {
		construct := FuncName(f) + "|no state kept between lookups"
		bad := ""
		eachInstr(f, func(_ *ssa.BasicBlock, _ int, in ssa.Instruction) {
			switch x := in.(type) {
			case *ssa.Store:
				if g := fromGlobal(x.Addr); g != nil {
					bad = "stores into the package variable " + g.Name() + " at " + p.Pos(x.Pos())
				}
			case *ssa.MapUpdate:
				if g := fromGlobal(x.Map); g != nil {
					bad = "updates the package-level map " + g.Name() + " at " + p.Pos(x.Pos())
				}
			case *ssa.Call:
				callee := staticCallee(&x.Call)
				if callee == nil || inModule(callee) || callee.Signature.Recv() == nil || len(x.Call.Args) == 0 {
					return
				}
				if g := fromGlobal(x.Call.Args[0]); g != nil && mutators[callee.Name()] {
					bad = "calls " + callee.Name() + " on the package variable " + g.Name() + " at " + p.Pos(x.Pos())
				}
			}
		})
		if bad == "" {
			c.ok(construct, f.Pos(), "the lookup writes no package-level variable, map or synchronised container")
		} else {
			c.bad(construct, f.Pos(), FuncName(f)+" "+bad+": what a later lookup finds depends on the lookups made before it in the same process (an action spelled in another letter case, or with another ref, is taken for unknown and its inputs and outputs go unchecked)")
		}
	}
}
