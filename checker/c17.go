package main

import (
	"fmt"
	"go/ast"
	"go/constant"
	"go/token"
	"go/types"
	"strings"

	"golang.org/x/tools/go/ssa"
)

func init() {
	register(&Rule{ID: "C17.MONO", Min: 10, Doc: "ref validation only adds errors on top of path validation: nothing is reported for paths only inside the shared validator", Run: runC17Mono})
	register(&Rule{ID: "C17.ARG", Min: 10, Doc: "the character named in a glob error is the character consumed, never a fresh look-ahead", Run: runC17Arg})
	register(&Rule{ID: "C17.CONSUME", Min: 8, Doc: "every character the glob scanner consumes is either known from look-ahead, classified against line breaks, or follows a reported error", Run: runC17Consume})
	register(&Rule{ID: "C17.COL", Min: 1, Doc: "the column of a glob error is the scanner's character column, inside the pattern", Run: runC17Col})
	register(&Rule{ID: "C17.TERM", Min: 2, Doc: "both loops of the glob validator consume a character per iteration and stop at EOF", Run: runC17Term})
}

func globDecls(p *Prog) map[string]*ast.FuncDecl {
	out := map[string]*ast.FuncDecl{}
	info := p.info()
	p.FuncDecls(func(_ *ast.File, d *ast.FuncDecl) {
		if d.Recv != nil && exprStr(d.Recv.List[0].Type) == "*globValidator" {
			out[DeclName(info, d)] = d
		}
	})
	return out
}

func isErrEmit(info *types.Info, call *ast.CallExpr) string {
	fn := calleeObj(info, call)
	if fn == nil {
		return ""
	}
	switch shortFuncName(fn) {
	case "(*globValidator).error", "(*globValidator).unexpected", "(*globValidator).invalidRefChar":
		return fn.Name()
	}
	return ""
}

func runC17Mono(c *Ctx) {
	p := c.P
	// SSA: every error emission in the validator's methods must not be controlled by isRef == false
	n := 0
	for _, fn := range p.Funcs {
		recv := fn.Signature.Recv()
		if recv == nil || pointeeName(recv.Type()) != "globValidator" {
			continue
		}
		occ := map[string]int{}
		eachInstr(fn, func(b *ssa.BasicBlock, _ int, in ssa.Instruction) {
			call, ok := in.(ssa.CallInstruction)
			if !ok {
				return
			}
			g := staticCallee(call.Common())
			if g == nil {
				return
			}
			gn := FuncName(g)
			if gn != "(*globValidator).error" && gn != "(*globValidator).unexpected" && gn != "(*globValidator).invalidRefChar" {
				return
			}
			if FuncName(fn) == "(*globValidator).unexpected" || FuncName(fn) == "(*globValidator).invalidRefChar" {
				return // the helpers forward to error
			}
			n++
			k := FuncName(fn) + "|" + g.Name()
			occ[k]++
			construct := fmt.Sprintf("%s#%d", k, occ[k])
			pathOnly := false
			for ifi, outcome := range controllingConds(b) {
				cond := ifi.Cond
				neg := false
				if un, ok := cond.(*ssa.UnOp); ok && un.Op == token.NOT {
					cond, neg = un.X, true
				}
				if ld, ok := cond.(*ssa.UnOp); ok && ld.Op == token.MUL {
					if fa, ok := ld.X.(*ssa.FieldAddr); ok && fieldAddrName(fa) == "globValidator.isRef" {
						if outcome == neg { // reached when isRef is false
							pathOnly = true
						}
					}
				}
			}
			if pathOnly {
				c.bad(construct, call.Pos(), "this error is only reported when the pattern is validated as a path filter: a pattern accepted as a ref filter could be rejected as a path filter")
			} else {
				c.ok(construct, call.Pos(), "reported for both kinds, or for refs only")
			}
		})
	}
	// the path-only pre-checks of ValidatePathGlob only concern characters refs reject anyway
	vp := p.Func("ValidatePathGlob")
	if vp == nil {
		c.anchorMissing("ValidatePathGlob")
		return
	}
	okPre := true
	eachInstr(vp, func(_ *ssa.BasicBlock, _ int, in ssa.Instruction) {
		if call, ok := in.(*ssa.Call); ok {
			nm := calleeFullName(&call.Call)
			if nm == "strings.HasPrefix" || nm == "strings.HasSuffix" || nm == "strings.Contains" || nm == "strings.ContainsAny" {
				s, isConst := constString(call.Call.Args[1])
				if !isConst || strings.Trim(s, " \t~^:") != "" {
					okPre = false
				}
			}
		}
	})
	if okPre {
		c.ok("ValidatePathGlob|path-only pre-checks", vp.Pos(), "the pre-checks only test characters (space) that ref validation rejects unconditionally")
	} else {
		c.bad("ValidatePathGlob|path-only pre-checks", vp.Pos(), "a path-only pre-check rejects characters that a ref filter may contain")
	}
	if n == 0 {
		c.undecided("globValidator|error emissions", 0, "no error emission found")
	}
}

func runC17Arg(c *Ctx) {
	p := c.P
	info := p.info()
	for name, d := range globDecls(p) {
		occ := 0
		var stack []ast.Node
		ast.Inspect(d.Body, func(n ast.Node) bool {
			if n == nil {
				stack = stack[:len(stack)-1]
				return true
			}
			stack = append(stack, n)
			call, ok := n.(*ast.CallExpr)
			if !ok {
				return true
			}
			kind := isErrEmit(info, call)
			if kind != "unexpected" && kind != "invalidRefChar" {
				return true
			}
			if name == "(*globValidator).unexpected" || name == "(*globValidator).invalidRefChar" {
				return true
			}
			occ++
			construct := fmt.Sprintf("%s|character named by %s#%d", name, kind, occ)
			arg := ast.Unparen(call.Args[0])
			switch a := arg.(type) {
			case *ast.Ident:
				c.ok(construct, call.Pos(), "names the variable "+a.Name+" holding the consumed character")
			case *ast.SelectorExpr:
				if exprStr(a) == "scanner.EOF" {
					c.ok(construct, call.Pos(), "names EOF")
				} else {
					c.bad(construct, call.Pos(), "names "+exprStr(a))
				}
			case *ast.BasicLit:
				// must be one of the constants of an enclosing case clause (switch on the consumed / peeked character)
				tv := info.Types[a]
				found := false
				for i := len(stack) - 1; i >= 0; i-- {
					if cc, ok := stack[i].(*ast.CaseClause); ok {
						for _, e := range cc.List {
							if ctv := info.Types[e]; ctv.Value != nil && tv.Value != nil && constant.Compare(ctv.Value, token.EQL, tv.Value) {
								found = true
							}
						}
					}
					// or the character established by an enclosing `if X.scan.Peek() == lit`
					if ifs, ok := stack[i].(*ast.IfStmt); ok {
						// the condition or one of its conjuncts
						conj := []ast.Expr{ifs.Cond}
						for k := 0; k < len(conj); k++ {
							if be, ok := ast.Unparen(conj[k]).(*ast.BinaryExpr); ok && be.Op == token.LAND {
								conj = append(conj, be.X, be.Y)
							}
						}
						for _, cj := range conj {
							if be, ok := ast.Unparen(cj).(*ast.BinaryExpr); ok && be.Op == token.EQL && isScanCall(be.X, "Peek") {
								if ctv := info.Types[be.Y]; ctv.Value != nil && tv.Value != nil && constant.Compare(ctv.Value, token.EQL, tv.Value) {
									found = true
								}
							}
						}
					}
				}
				if !found {
					// the statement was moved into a helper of the validator: the character is the one every call site has
					// established by look-ahead
					sites := globCallSites(p, name)
					all := len(sites) > 0
					for _, st := range sites {
						ok := false
						for _, cv := range lookaheadChars(info, st) {
							if tv.Value != nil && constant.Compare(cv, token.EQL, tv.Value) {
								ok = true
							}
						}
						if !ok {
							all = false
						}
					}
					if all {
						c.ok(construct, call.Pos(), fmt.Sprintf("names %s, the character established by look-ahead at each of the %d call sites of this helper", a.Value, len(sites)))
						return true
					}
				}
				if found {
					c.ok(construct, call.Pos(), "names the character of the enclosing case "+a.Value)
				} else {
					c.bad(construct, call.Pos(), "names the literal "+a.Value+" which is not the character the enclosing case is about")
				}
			case *ast.CallExpr:
				c.bad(construct, call.Pos(), "names "+exprStr(a)+": a fresh look-ahead is the character AFTER the offending one (or EOF)")
			default:
				c.bad(construct, call.Pos(), "names "+exprStr(arg))
			}
			return true
		})
	}
}

func isScanCall(e ast.Expr, method string) bool {
	call, ok := ast.Unparen(e).(*ast.CallExpr)
	if !ok {
		return false
	}
	sel, ok := call.Fun.(*ast.SelectorExpr)
	if !ok || sel.Sel.Name != method {
		return false
	}
	return strings.HasSuffix(exprStr(sel.X), ".scan")
}

func runC17Consume(c *Ctx) {
	p := c.P
	info := p.info()
	hasNewlineCases := func(sw *ast.SwitchStmt) bool {
		nl, cr := false, false
		for _, s := range sw.Body.List {
			for _, e := range s.(*ast.CaseClause).List {
				if tv := info.Types[e]; tv.Value != nil {
					if v, ok := constant.Int64Val(tv.Value); ok {
						if v == '\n' {
							nl = true
						}
						if v == '\r' {
							cr = true
						}
					}
				}
			}
		}
		return nl && cr
	}
	for name, d := range globDecls(p) {
		occ := 0
		var stack []ast.Node
		ast.Inspect(d.Body, func(n ast.Node) bool {
			if n == nil {
				stack = stack[:len(stack)-1]
				return true
			}
			stack = append(stack, n)
			if e, ok := n.(ast.Expr); !ok || !isScanCall(e, "Next") {
				return true
			}
			occ++
			construct := fmt.Sprintf("%s|consumed character#%d", name, occ)
			pos := n.Pos()
			// (2) known from look-ahead: inside a case of `switch X.scan.Peek()` with constant labels, or under `if Peek() == const`
			for i := len(stack) - 1; i >= 0; i-- {
				switch s := stack[i].(type) {
				case *ast.CaseClause:
					if i >= 2 {
						if sw, ok := stack[i-2].(*ast.SwitchStmt); ok && sw.Tag != nil && isScanCall(sw.Tag, "Peek") && len(s.List) > 0 {
							c.ok(construct, pos, "the character is known from the look-ahead switch")
							return true
						}
					}
				case *ast.IfStmt:
					if be, ok := s.Cond.(*ast.BinaryExpr); ok && be.Op == token.EQL && isScanCall(be.X, "Peek") && n.Pos() > s.Body.Pos() && n.End() < s.Body.End() {
						c.ok(construct, pos, "the character is known from the look-ahead test")
						return true
					}
				}
			}
			// (2'') in a helper of the validator all of whose call sites have fixed the character by look-ahead
			if sites := globCallSites(p, name); len(sites) > 0 {
				all := true
				for _, st := range sites {
					if len(lookaheadChars(info, st)) == 0 {
						all = false
					}
				}
				// and nothing is consumed in the helper before this call
				first := true
				ast.Inspect(d.Body, func(m ast.Node) bool {
					if e, ok := m.(ast.Expr); ok && isScanCall(e, "Next") && m.Pos() < n.Pos() {
						first = false
					}
					return true
				})
				if all && first {
					c.ok(construct, pos, fmt.Sprintf("the character is known from the look-ahead at each of the %d call sites of this helper", len(sites)))
					return true
				}
			}
			// the statement containing the call and its block
			var stmt ast.Stmt
			var block []ast.Stmt
			for i := len(stack) - 1; i >= 0; i-- {
				if st, ok := stack[i].(ast.Stmt); ok && stmt == nil {
					stmt = st
					if i > 0 {
						switch par := stack[i-1].(type) {
						case *ast.BlockStmt:
							block = par.List
						case *ast.CaseClause:
							block = par.Body
						}
					}
					break
				}
			}
			idx := -1
			for i, st := range block {
				if st == stmt {
					idx = i
				}
			}
			// (2') preceded by `if X.scan.Peek() != const { continue|return|break }`
			for i := idx - 1; i >= 0; i-- {
				if ifs, ok := block[i].(*ast.IfStmt); ok {
					if be, ok := ifs.Cond.(*ast.BinaryExpr); ok && be.Op == token.NEQ && isScanCall(be.X, "Peek") {
						leaves := false
						for _, st := range ifs.Body.List {
							switch st.(type) {
							case *ast.BranchStmt, *ast.ReturnStmt:
								leaves = true
							}
						}
						if leaves {
							c.ok(construct, pos, "the character is known: the preceding look-ahead test leaves otherwise")
							return true
						}
					}
				}
			}
			// (3) an error was already reported on this path (same block, earlier statement, or enclosing block before)
			for i := idx - 1; i >= 0; i-- {
				reported := false
				ast.Inspect(block[i], func(x ast.Node) bool {
					if call, ok := x.(*ast.CallExpr); ok && isErrEmit(info, call) != "" {
						reported = true
					}
					return true
				})
				if es, ok := block[i].(*ast.ExprStmt); ok && reported {
					_ = es
					c.ok(construct, pos, "an error for this pattern has already been reported on this path")
					return true
				}
			}
			// (1) the consumed character is dispatched by a switch that has cases for line breaks
			if as, ok := stmt.(*ast.AssignStmt); ok && len(as.Lhs) == 1 {
				v := exprStr(as.Lhs[0])
				if idx >= 0 && idx+1 < len(block) {
					// skip simple declarations between (e.g. prec := true)
					for j := idx + 1; j < len(block); j++ {
						if sw, ok := block[j].(*ast.SwitchStmt); ok && sw.Tag != nil && exprStr(sw.Tag) == v {
							if hasNewlineCases(sw) {
								c.ok(construct, pos, "dispatched by a switch with cases for '\\n' and '\\r'")
							} else {
								c.bad(construct, pos, "the consumed character is dispatched by a switch without cases for '\\n' and '\\r': a line break at this position is accepted silently")
							}
							return true
						}
						if _, isAssign := block[j].(*ast.AssignStmt); isAssign {
							continue
						}
						if _, isDecl := block[j].(*ast.DeclStmt); isDecl {
							continue
						}
						// an if that tests it for line breaks
						if ifs, ok := block[j].(*ast.IfStmt); ok && strings.Contains(exprStr(ifs.Cond), v+" == '\\n'") && strings.Contains(exprStr(ifs.Cond), v+" == '\\r'") {
							c.ok(construct, pos, "tested for line breaks right after being consumed")
							return true
						}
						break
					}
				}
			}
			c.bad(construct, pos, "a character is consumed without being known from look-ahead, without being classified against line breaks and without a prior error: whatever it is (including a line break) is accepted silently")
			return true
		})
	}
}

func runC17Col(c *Ctx) {
	p := c.P
	f := p.Method("globValidator", "error")
	if f == nil {
		c.anchorMissing("(*globValidator).error")
		return
	}
	// the Column stored in InvalidGlobPattern derives from text/scanner.Position.Column (not Offset)
	usesColumn, usesOffset := false, false
	eachInstr(f, func(_ *ssa.BasicBlock, _ int, in ssa.Instruction) {
		switch x := in.(type) {
		case *ssa.Field:
			n, _ := fieldName(x.X.Type(), x.Field)
			if strings.HasSuffix(n, "Position.Column") {
				usesColumn = true
			}
			if strings.HasSuffix(n, "Position.Offset") {
				usesOffset = true
			}
		case *ssa.FieldAddr:
			n := fieldAddrName(x)
			if strings.HasSuffix(n, "Position.Column") {
				usesColumn = true
			}
			if strings.HasSuffix(n, "Position.Offset") {
				usesOffset = true
			}
		}
	})
	if usesColumn && !usesOffset {
		c.ok("(*globValidator).error|column source", f.Pos(), "the column comes from scanner.Position.Column (characters), not from the byte offset")
	} else {
		c.bad("(*globValidator).error|column source", f.Pos(), "the error column is not taken from scanner.Position.Column: for non-ASCII patterns a byte offset lies outside the pattern")
	}
}

func runC17Term(c *Ctx) {
	p := c.P
	// validate: `for v.validateNext() {}`; validateNext consumes one character on every call and returns false at EOF
	vn := p.Method("globValidator", "validateNext")
	v := p.Method("globValidator", "validate")
	if vn == nil || v == nil {
		c.anchorMissing("(*globValidator).validateNext / validate")
		return
	}
	// validateNext: the first call in the entry block is scan.Next
	first := ""
	for _, in := range vn.Blocks[0].Instrs {
		if call, ok := in.(*ssa.Call); ok {
			first = calleeFullName(&call.Call)
			break
		}
	}
	if first == "(*text/scanner.Scanner).Next" {
		c.ok("(*globValidator).validateNext|consumes", vn.Pos(), "every call consumes one character first")
	} else {
		c.bad("(*globValidator).validateNext|consumes", vn.Pos(), "does not start by consuming a character: the outer loop may not make progress")
	}
	// every `return true` is controlled by Peek() != EOF
	okRet := true
	for _, b := range vn.Blocks {
		ret, isRet := b.Instrs[len(b.Instrs)-1].(*ssa.Return)
		if !isRet {
			continue
		}
		if k, ok := ret.Results[0].(*ssa.Const); ok && k.Value != nil && k.Value.String() == "true" {
			eofTested := false
			conds := controllingConds(b)
			for _, pr := range b.Preds {
				if ifi, ok := pr.Instrs[len(pr.Instrs)-1].(*ssa.If); ok {
					conds[ifi] = pr.Succs[0] == b
				}
			}
			for ifi := range conds {
				if bo, ok := ifi.Cond.(*ssa.BinOp); ok {
					for _, o := range []ssa.Value{bo.X, bo.Y} {
						if k, ok := constInt(o); ok && k == -1 {
							eofTested = true
						}
					}
				}
			}
			if !eofTested {
				okRet = false
			}
		}
	}
	if okRet {
		c.ok("(*globValidator).validateNext|stops at EOF", vn.Pos(), "`return true` is only reached when the look-ahead is not EOF")
	} else {
		c.bad("(*globValidator).validateNext|stops at EOF", vn.Pos(), "can return true at EOF: validate() would loop forever")
	}
	// the character-class loop: its body starts with scan.Next and it returns at EOF
	// (the loop may live in validateNext itself or in a method of the validator that validateNext calls for the `[` case;
	// every loop of those functions has to consume)
	loopOK, loops := true, 0
	for _, f := range p.withHelpers(vn, 1) {
		if f != vn && (f.Signature.Recv() == nil || pointeeName(f.Signature.Recv().Type()) != "globValidator") {
			continue
		}
		for _, h := range loopHeaders(f) {
			loops++
			consumes := false
			for b := range naturalLoop(h) {
				for _, in := range b.Instrs {
					if call, ok := in.(*ssa.Call); ok && calleeFullName(&call.Call) == "(*text/scanner.Scanner).Next" {
						consumes = true
					}
				}
			}
			if !consumes {
				loopOK = false
			}
		}
	}
	if loops == 0 {
		loopOK = false
	}
	if loopOK {
		c.ok("(*globValidator).validateNext|class loop consumes", vn.Pos(), "the [...] loop consumes a character per iteration (EOF is a case that returns)")
	} else {
		c.bad("(*globValidator).validateNext|class loop consumes", vn.Pos(), "the [...] loop does not consume a character per iteration")
	}
}

// lookaheadChars: the constant characters that the enclosing statements of a node have established for the next character:
// the labels of an enclosing case clause of `switch X.scan.Peek()`, and the literals of enclosing `if ... X.scan.Peek() == lit`
// tests (the condition or one of its conjuncts).
func lookaheadChars(info *types.Info, stack []ast.Node) []constant.Value {
	var out []constant.Value
	for i := len(stack) - 1; i >= 0; i-- {
		switch s := stack[i].(type) {
		case *ast.CaseClause:
			if i >= 2 {
				if sw, ok := stack[i-2].(*ast.SwitchStmt); ok && sw.Tag != nil && isScanCall(sw.Tag, "Peek") {
					for _, e := range s.List {
						if tv := info.Types[e]; tv.Value != nil {
							out = append(out, tv.Value)
						}
					}
				}
			}
		case *ast.IfStmt:
			if i+1 < len(stack) && stack[i+1] != ast.Node(s.Body) {
				continue // the node is in the condition or the else branch
			}
			conj := []ast.Expr{s.Cond}
			for k := 0; k < len(conj); k++ {
				if be, ok := ast.Unparen(conj[k]).(*ast.BinaryExpr); ok && be.Op == token.LAND {
					conj = append(conj, be.X, be.Y)
				}
			}
			for _, cj := range conj {
				if be, ok := ast.Unparen(cj).(*ast.BinaryExpr); ok && be.Op == token.EQL && isScanCall(be.X, "Peek") {
					if tv := info.Types[be.Y]; tv.Value != nil {
						out = append(out, tv.Value)
					}
				}
			}
		}
	}
	return out
}

// globCallSites: for a method of the glob validator, the syntactic context (stack of enclosing nodes) of each of its calls
// from the validator's other methods.
func globCallSites(p *Prog, name string) [][]ast.Node {
	i := strings.LastIndex(name, ".")
	if i < 0 {
		return nil
	}
	method := name[i+1:]
	var out [][]ast.Node
	for other, d := range globDecls(p) {
		if other == name {
			continue
		}
		var stack []ast.Node
		ast.Inspect(d.Body, func(n ast.Node) bool {
			if n == nil {
				stack = stack[:len(stack)-1]
				return true
			}
			stack = append(stack, n)
			if call, ok := n.(*ast.CallExpr); ok {
				if sel, ok := call.Fun.(*ast.SelectorExpr); ok && sel.Sel.Name == method {
					if _, isIdent := sel.X.(*ast.Ident); isIdent {
						out = append(out, append([]ast.Node(nil), stack...))
					}
				}
			}
			return true
		})
	}
	return out
}
