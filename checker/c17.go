package main

import (
	"fmt"
	"go/ast"
	"go/constant"
	"go/token"
	"go/types"
	"strings"

	"golang.org/x/tools/go/ssa"
)

func init() {
	register(&Rule{ID: "C17.MONO", Min: 10, Doc: "ref validation only adds errors on top of path validation: nothing is reported for paths only inside the shared validator", Run: runC17Mono})
	register(&Rule{ID: "C17.ARG", Min: 10, Doc: "the character named in a glob error is the character consumed, never a fresh look-ahead", Run: runC17Arg})
	register(&Rule{ID: "C17.CONSUME", Min: 8, Doc: "every character the glob scanner consumes is either known from look-ahead, classified against line breaks, or follows a reported error", Run: runC17Consume})
	register(&Rule{ID: "C17.COL", Min: 1, Doc: "the column of a glob error is the scanner's character column, inside the pattern", Run: runC17Col})
	register(&Rule{ID: "C17.TERM", Min: 2, Doc: "both loops of the glob validator consume a character per iteration and stop at EOF", Run: runC17Term})
}

func globDecls(p *Prog) map[string]*ast.FuncDecl {
	out := map[string]*ast.FuncDecl{}
	info := p.info()
	p.FuncDecls(func(_ *ast.File, d *ast.FuncDecl) {
		if d.Recv != nil && exprStr(d.Recv.List[0].Type) == "*globValidator" {
			out[DeclName(info, d)] = d
		}
	})
	return out
}

func isErrEmit(info *types.Info, call *ast.CallExpr) string {
	fn := calleeObj(info, call)
	if fn == nil {
		return ""
	}
	switch shortFuncName(fn) {
	case "(*globValidator).error", "(*globValidator).unexpected", "(*globValidator).invalidRefChar":
		return fn.Name()
	}
	return ""
}

func runC17Mono(c *Ctx) {
	p := c.P
	// SSA: every error emission in the validator's methods must not be controlled by isRef == false
	n := 0
	for _, fn := range p.Funcs {
		occ := map[string]int{}
		eachInstr(fn, func(b *ssa.BasicBlock, _ int, in ssa.Instruction) {
			call, ok := in.(ssa.CallInstruction)
			if !ok {
				return
			}
			g := staticCallee(call.Common())
			if g == nil {
				return
			}
			gn := FuncName(g)
			if gn != "(*globValidator).error" && gn != "(*globValidator).unexpected" && gn != "(*globValidator).invalidRefChar" {
				return
			}
			if FuncName(fn) == "(*globValidator).unexpected" || FuncName(fn) == "(*globValidator).invalidRefChar" {
				return // the helpers forward to error
			}
			n++
			k := FuncName(fn) + "|" + g.Name()
			occ[k]++
			construct := fmt.Sprintf("%s#%d", k, occ[k])
			pathOnly := isRefFalseControls(b)
			via := ""
			if !pathOnly {
				// the emission sits in a helper: it is path-only when a call on the way to it is
				if site := pathOnlyCallSite(p, fn, map[*ssa.Function]bool{}); site != nil {
					pathOnly = true
					via = " (through the call at " + p.Pos(site.Pos()) + ", which is only made for path filters)"
				}
			}
			if pathOnly {
				c.bad(construct, call.Pos(), "this error is only reported when the pattern is validated as a path filter"+via+": a pattern accepted as a ref filter could be rejected as a path filter")
			} else {
				c.ok(construct, call.Pos(), "reported for both kinds, or for refs only")
			}
		})
	}
	// the path-only pre-checks of ValidatePathGlob only concern characters refs reject anyway
	vp := p.Func("ValidatePathGlob")
	if vp == nil {
		c.anchorMissing("ValidatePathGlob")
		return
	}
	okPre := true
	eachInstr(vp, func(_ *ssa.BasicBlock, _ int, in ssa.Instruction) {
		if call, ok := in.(*ssa.Call); ok {
			nm := calleeFullName(&call.Call)
			if nm == "strings.HasPrefix" || nm == "strings.HasSuffix" || nm == "strings.Contains" || nm == "strings.ContainsAny" {
				s, isConst := constString(call.Call.Args[1])
				if !isConst || strings.Trim(s, " \t~^:") != "" {
					okPre = false
				}
			}
		}
	})
	if okPre {
		c.ok("ValidatePathGlob|path-only pre-checks", vp.Pos(), "the pre-checks only test characters (space) that ref validation rejects unconditionally")
	} else {
		c.bad("ValidatePathGlob|path-only pre-checks", vp.Pos(), "a path-only pre-check rejects characters that a ref filter may contain")
	}
	if n == 0 {
		c.undecided("globValidator|error emissions", 0, "no error emission found")
	}
}

// isRefFalseControls: the block is only reached when globValidator.isRef was found false.
func isRefFalseControls(b *ssa.BasicBlock) bool {
	for ifi, outcome := range controllingConds(b) {
		cond := ifi.Cond
		neg := false
		if un, ok := cond.(*ssa.UnOp); ok && un.Op == token.NOT {
			cond, neg = un.X, true
		}
		if ld, ok := cond.(*ssa.UnOp); ok && ld.Op == token.MUL {
			if fa, ok := ld.X.(*ssa.FieldAddr); ok && fieldAddrName(fa) == "globValidator.isRef" {
				if outcome == neg { // reached when isRef is false
					return true
				}
			}
		}
	}
	return false
}

// pathOnlyCallSite: a call, on some chain of calls that ends in fn, that is only
// made when isRef is false.
func pathOnlyCallSite(p *Prog, fn *ssa.Function, seen map[*ssa.Function]bool) ssa.CallInstruction {
	if seen[fn] {
		return nil
	}
	seen[fn] = true
	for _, e := range p.callersOf(fn) {
		if e.Site == nil || e.Caller == nil || e.Caller.Func == nil {
			continue
		}
		caller := e.Caller.Func
		if isRefFalseControls(e.Site.Block()) {
			return e.Site
		}
		if s := pathOnlyCallSite(p, caller, seen); s != nil {
			return s
		}
	}
	return nil
}

func runC17Arg(c *Ctx) {
	p := c.P
	info := p.info()
	runC17ArgLast(c)
	for name, d := range globDecls(p) {
		occ := 0
		var stack []ast.Node
		ast.Inspect(d.Body, func(n ast.Node) bool {
			if n == nil {
				stack = stack[:len(stack)-1]
				return true
			}
			stack = append(stack, n)
			call, ok := n.(*ast.CallExpr)
			if !ok {
				return true
			}
			kind := isErrEmit(info, call)
			if kind != "unexpected" && kind != "invalidRefChar" {
				return true
			}
			if name == "(*globValidator).unexpected" || name == "(*globValidator).invalidRefChar" {
				return true
			}
			occ++
			construct := fmt.Sprintf("%s|character named by %s#%d", name, kind, occ)
			arg := ast.Unparen(call.Args[0])
			switch a := arg.(type) {
			case *ast.Ident:
				c.ok(construct, call.Pos(), "names the variable "+a.Name+" holding the consumed character")
			case *ast.SelectorExpr:
				if exprStr(a) == "scanner.EOF" {
					c.ok(construct, call.Pos(), "names EOF")
				} else {
					c.bad(construct, call.Pos(), "names "+exprStr(a))
				}
			case *ast.BasicLit:
				// must be one of the constants of an enclosing case clause (switch on the consumed / peeked character)
				tv := info.Types[a]
				found := false
				for i := len(stack) - 1; i >= 0; i-- {
					if cc, ok := stack[i].(*ast.CaseClause); ok {
						for _, e := range cc.List {
							if ctv := info.Types[e]; ctv.Value != nil && tv.Value != nil && constant.Compare(ctv.Value, token.EQL, tv.Value) {
								found = true
							}
						}
					}
					// or the character established by an enclosing `if X.scan.Peek() == lit`
					if ifs, ok := stack[i].(*ast.IfStmt); ok {
						// the condition or one of its conjuncts
						conj := []ast.Expr{ifs.Cond}
						for k := 0; k < len(conj); k++ {
							if be, ok := ast.Unparen(conj[k]).(*ast.BinaryExpr); ok && be.Op == token.LAND {
								conj = append(conj, be.X, be.Y)
							}
						}
						for _, cj := range conj {
							if be, ok := ast.Unparen(cj).(*ast.BinaryExpr); ok && be.Op == token.EQL && isScanCall(be.X, "Peek") {
								if ctv := info.Types[be.Y]; ctv.Value != nil && tv.Value != nil && constant.Compare(ctv.Value, token.EQL, tv.Value) {
									found = true
								}
							}
						}
					}
				}
				if !found {
					// the statement was moved into a helper of the validator: the character is the one every call site has
					// established by look-ahead
					sites := globCallSites(p, name)
					all := len(sites) > 0
					for _, st := range sites {
						ok := false
						for _, cv := range lookaheadChars(info, st) {
							if tv.Value != nil && constant.Compare(cv, token.EQL, tv.Value) {
								ok = true
							}
						}
						if !ok {
							all = false
						}
					}
					if all {
						c.ok(construct, call.Pos(), fmt.Sprintf("names %s, the character established by look-ahead at each of the %d call sites of this helper", a.Value, len(sites)))
						return true
					}
				}
				if found {
					c.ok(construct, call.Pos(), "names the character of the enclosing case "+a.Value)
				} else {
					c.bad(construct, call.Pos(), "names the literal "+a.Value+" which is not the character the enclosing case is about")
				}
			case *ast.CallExpr:
				c.bad(construct, call.Pos(), "names "+exprStr(a)+": a fresh look-ahead is the character AFTER the offending one (or EOF)")
			default:
				c.bad(construct, call.Pos(), "names "+exprStr(arg))
			}
			return true
		})
	}
}

func isScanCall(e ast.Expr, method string) bool {
	call, ok := ast.Unparen(e).(*ast.CallExpr)
	if !ok {
		return false
	}
	sel, ok := call.Fun.(*ast.SelectorExpr)
	if !ok || sel.Sel.Name != method {
		return false
	}
	return strings.HasSuffix(exprStr(sel.X), ".scan")
}

func runC17Consume(c *Ctx) {
	p := c.P
	info := p.info()
	hasNewlineCases := func(sw *ast.SwitchStmt) bool {
		nl, cr := false, false
		for _, s := range sw.Body.List {
			for _, e := range s.(*ast.CaseClause).List {
				if tv := info.Types[e]; tv.Value != nil {
					if v, ok := constant.Int64Val(tv.Value); ok {
						if v == '\n' {
							nl = true
						}
						if v == '\r' {
							cr = true
						}
					}
				}
			}
		}
		return nl && cr
	}
	for name, d := range globDecls(p) {
		occ := 0
		var stack []ast.Node
		ast.Inspect(d.Body, func(n ast.Node) bool {
			if n == nil {
				stack = stack[:len(stack)-1]
				return true
			}
			stack = append(stack, n)
			if e, ok := n.(ast.Expr); !ok || !isScanCall(e, "Next") {
				return true
			}
			occ++
			construct := fmt.Sprintf("%s|consumed character#%d", name, occ)
			pos := n.Pos()
			// (2) known from look-ahead: inside a case of `switch X.scan.Peek()` with constant labels, or under `if Peek() == const`
			for i := len(stack) - 1; i >= 0; i-- {
				switch s := stack[i].(type) {
				case *ast.CaseClause:
					if i >= 2 {
						if sw, ok := stack[i-2].(*ast.SwitchStmt); ok && sw.Tag != nil && isScanCall(sw.Tag, "Peek") && len(s.List) > 0 {
							c.ok(construct, pos, "the character is known from the look-ahead switch")
							return true
						}
					}
				case *ast.IfStmt:
					if be, ok := s.Cond.(*ast.BinaryExpr); ok && be.Op == token.EQL && isScanCall(be.X, "Peek") && n.Pos() > s.Body.Pos() && n.End() < s.Body.End() {
						c.ok(construct, pos, "the character is known from the look-ahead test")
						return true
					}
				}
			}
			// (2'') in a helper of the validator all of whose call sites have fixed the character by look-ahead
			if sites := globCallSites(p, name); len(sites) > 0 {
				all := true
				for _, st := range sites {
					if len(lookaheadChars(info, st)) == 0 {
						all = false
					}
				}
				// and nothing is consumed in the helper before this call
				first := true
				ast.Inspect(d.Body, func(m ast.Node) bool {
					if e, ok := m.(ast.Expr); ok && isScanCall(e, "Next") && m.Pos() < n.Pos() {
						first = false
					}
					return true
				})
				if all && first {
					c.ok(construct, pos, fmt.Sprintf("the character is known from the look-ahead at each of the %d call sites of this helper", len(sites)))
					return true
				}
			}
			// the statement containing the call and its block
			var stmt ast.Stmt
			var block []ast.Stmt
			for i := len(stack) - 1; i >= 0; i-- {
				if st, ok := stack[i].(ast.Stmt); ok && stmt == nil {
					stmt = st
					if i > 0 {
						switch par := stack[i-1].(type) {
						case *ast.BlockStmt:
							block = par.List
						case *ast.CaseClause:
							block = par.Body
						}
					}
					break
				}
			}
			idx := -1
			for i, st := range block {
				if st == stmt {
					idx = i
				}
			}
			// (2') preceded by `if X.scan.Peek() != const { continue|return|break }`
			for i := idx - 1; i >= 0; i-- {
				if ifs, ok := block[i].(*ast.IfStmt); ok {
					if be, ok := ifs.Cond.(*ast.BinaryExpr); ok && be.Op == token.NEQ && isScanCall(be.X, "Peek") {
						leaves := false
						for _, st := range ifs.Body.List {
							switch st.(type) {
							case *ast.BranchStmt, *ast.ReturnStmt:
								leaves = true
							}
						}
						if leaves {
							c.ok(construct, pos, "the character is known: the preceding look-ahead test leaves otherwise")
							return true
						}
					}
				}
			}
			// (3) an error was already reported on this path (same block, earlier statement, or enclosing block before)
			for i := idx - 1; i >= 0; i-- {
				reported := false
				ast.Inspect(block[i], func(x ast.Node) bool {
					if call, ok := x.(*ast.CallExpr); ok && isErrEmit(info, call) != "" {
						reported = true
					}
					return true
				})
				if es, ok := block[i].(*ast.ExprStmt); ok && reported {
					_ = es
					c.ok(construct, pos, "an error for this pattern has already been reported on this path")
					return true
				}
			}
			// (1) the consumed character is dispatched by a switch that has cases for line breaks
			if as, ok := stmt.(*ast.AssignStmt); ok && len(as.Lhs) == 1 {
				v := exprStr(as.Lhs[0])
				if idx >= 0 && idx+1 < len(block) {
					// skip simple declarations between (e.g. prec := true)
					for j := idx + 1; j < len(block); j++ {
						if sw, ok := block[j].(*ast.SwitchStmt); ok && sw.Tag != nil && exprStr(sw.Tag) == v {
							if hasNewlineCases(sw) {
								c.ok(construct, pos, "dispatched by a switch with cases for '\\n' and '\\r'")
							} else {
								c.bad(construct, pos, "the consumed character is dispatched by a switch without cases for '\\n' and '\\r': a line break at this position is accepted silently")
							}
							return true
						}
						if _, isAssign := block[j].(*ast.AssignStmt); isAssign {
							continue
						}
						if _, isDecl := block[j].(*ast.DeclStmt); isDecl {
							continue
						}
						// an if that tests it for line breaks
						if ifs, ok := block[j].(*ast.IfStmt); ok && strings.Contains(exprStr(ifs.Cond), v+" == '\\n'") && strings.Contains(exprStr(ifs.Cond), v+" == '\\r'") {
							c.ok(construct, pos, "tested for line breaks right after being consumed")
							return true
						}
						break
					}
				}
			}
			c.bad(construct, pos, "a character is consumed without being known from look-ahead, without being classified against line breaks and without a prior error: whatever it is (including a line break) is accepted silently")
			return true
		})
	}
}

func runC17Col(c *Ctx) {
	p := c.P
	f := p.Method("globValidator", "error")
	if f == nil {
		c.anchorMissing("(*globValidator).error")
		return
	}
	// the Column stored in InvalidGlobPattern derives from text/scanner.Position.Column (not Offset)
	usesColumn, usesOffset := false, false
	eachInstr(f, func(_ *ssa.BasicBlock, _ int, in ssa.Instruction) {
		switch x := in.(type) {
		case *ssa.Field:
			n, _ := fieldName(x.X.Type(), x.Field)
			if strings.HasSuffix(n, "Position.Column") {
				usesColumn = true
			}
			if strings.HasSuffix(n, "Position.Offset") {
				usesOffset = true
			}
		case *ssa.FieldAddr:
			n := fieldAddrName(x)
			if strings.HasSuffix(n, "Position.Column") {
				usesColumn = true
			}
			if strings.HasSuffix(n, "Position.Offset") {
				usesOffset = true
			}
		}
	})
	if usesColumn && !usesOffset {
		c.ok("(*globValidator).error|column source", f.Pos(), "the column comes from scanner.Position.Column (characters), not from the byte offset")
	} else {
		c.bad("(*globValidator).error|column source", f.Pos(), "the error column is not taken from scanner.Position.Column: for non-ASCII patterns a byte offset lies outside the pattern")
	}
	// the callers have consumed the offending character, so the scanner stands one column behind it: the column stored
	// in the error is Position.Column - 1 (or the constant fallback for patterns with line breaks)
	var cols []ssa.Value
	eachInstr(f, func(_ *ssa.BasicBlock, _ int, in ssa.Instruction) {
		if st, ok := in.(*ssa.Store); ok {
			if fa, ok := st.Addr.(*ssa.FieldAddr); ok && fieldAddrName(fa) == "InvalidGlobPattern.Column" {
				cols = append(cols, st.Val)
			}
		}
	})
	construct := "(*globValidator).error|column of the consumed character"
	if len(cols) == 0 {
		c.bad(construct, f.Pos(), "no column is stored in the error")
		return
	}
	var leaves []ssa.Value
	seen := map[ssa.Value]bool{}
	var expand func(v ssa.Value)
	expand = func(v ssa.Value) {
		if seen[v] {
			return
		}
		seen[v] = true
		if ph, ok := v.(*ssa.Phi); ok {
			for _, e := range ph.Edges {
				expand(e)
			}
			return
		}
		leaves = append(leaves, v)
	}
	for _, v := range cols {
		expand(v)
	}
	wrong := ""
	for _, v := range leaves {
		l := linOf(v, 0)
		syms := 0
		okSym := true
		for k, n := range l {
			if k == "1" || n == 0 {
				continue
			}
			syms++
			if n != 1 || !strings.Contains(k, "Position.Column") {
				okSym = false
			}
		}
		switch {
		case syms == 0:
			// constant fallback
		case syms == 1 && okSym && linConst(l) == -1:
		default:
			wrong = l.String()
		}
	}
	if wrong == "" {
		c.ok(construct, f.Pos(), "the column is the scanner column minus one: the column of the character consumed last")
	} else {
		c.bad(construct, f.Pos(), "the column stored is "+wrong+", not the scanner column minus one: the scanner stands behind the character the error is about, so the report is not at the offending character (past the end of the pattern for its last character)")
	}
}

func runC17Term(c *Ctx) {
	p := c.P
	// validate: `for v.validateNext() {}`; validateNext consumes one character on every call and returns false at EOF
	vn := p.Method("globValidator", "validateNext")
	v := p.Method("globValidator", "validate")
	if vn == nil || v == nil {
		c.anchorMissing("(*globValidator).validateNext / validate")
		return
	}
	// validateNext: the first call in the entry block is scan.Next
	first := ""
	for _, in := range vn.Blocks[0].Instrs {
		if call, ok := in.(*ssa.Call); ok {
			first = calleeFullName(&call.Call)
			break
		}
	}
	if first == "(*text/scanner.Scanner).Next" {
		c.ok("(*globValidator).validateNext|consumes", vn.Pos(), "every call consumes one character first")
	} else {
		c.bad("(*globValidator).validateNext|consumes", vn.Pos(), "does not start by consuming a character: the outer loop may not make progress")
	}
	g := &globScan{p: p, may: map[*ssa.Function]bool{}, must: map[*ssa.Function]int{}}
	// every way of returning true is reached only on paths on which the look-ahead was compared with EOF and found
	// different (and nothing was consumed since)
	if badRets := g.returnsTrueAtEOF(vn, false, 0); len(badRets) == 0 {
		c.ok("(*globValidator).validateNext|stops at EOF", vn.Pos(), "true is only returned on paths on which the look-ahead was found to differ from EOF")
	} else {
		c.bad("(*globValidator).validateNext|stops at EOF", vn.Pos(), "can return true without the look-ahead having been found to differ from EOF on that path ("+strings.Join(badRets, ", ")+"): validate() would loop forever")
	}
	// the character-class loop: every way around it consumes a character, and it returns at EOF
	// (the loop may live in validateNext itself or in a method of the validator that validateNext calls for the `[` case;
	// every loop of those functions has to consume)
	loops := 0
	var stuck []string
	for _, f := range p.withHelpers(vn, 1) {
		if f != vn && (f.Signature.Recv() == nil || pointeeName(f.Signature.Recv().Type()) != "globValidator") {
			continue
		}
		for _, h := range loopHeaders(f) {
			if isRangeLoop(h) {
				continue
			}
			loops++
			if at := g.idleWayAround(h); at != "" {
				stuck = append(stuck, at)
			}
		}
	}
	switch {
	case loops == 0:
		c.bad("(*globValidator).validateNext|class loop consumes", vn.Pos(), "no [...] loop found")
	case len(stuck) == 0:
		c.ok("(*globValidator).validateNext|class loop consumes", vn.Pos(), "every way around the [...] loop consumes a character (EOF is a case that returns)")
	default:
		c.bad("(*globValidator).validateNext|class loop consumes", vn.Pos(), "the [...] loop can be gone around without consuming a character ("+strings.Join(stuck, "; ")+"): it would not end")
	}
}

// globScan: what the glob validator's code does to its scanner.
type globScan struct {
	p    *Prog
	may  map[*ssa.Function]bool
	must map[*ssa.Function]int // 1 = consumes on every path to a return, 2 = not, 3 = being computed
}

const (
	scanNextFn = "(*text/scanner.Scanner).Next"
	scanPeekFn = "(*text/scanner.Scanner).Peek"
)

// mayConsume: the instruction is a call that can advance the scanner (scan.Next, a function of the module from which
// scan.Next can be reached, or a call whose target is not known).
func (g *globScan) mayConsume(in ssa.Instruction) bool {
	call, ok := in.(ssa.CallInstruction)
	if !ok {
		return false
	}
	cc := call.Common()
	if calleeFullName(cc) == scanNextFn {
		return true
	}
	f := staticCallee(cc)
	if f == nil {
		if _, isBuiltin := cc.Value.(*ssa.Builtin); isBuiltin {
			return false
		}
		return true
	}
	if !inModule(f) {
		return false
	}
	if r, done := g.may[f]; done {
		return r
	}
	r := false
	for h := range g.p.reachable(f) {
		if len(findCalls(h, scanNextFn)) > 0 {
			r = true
			break
		}
	}
	g.may[f] = r
	return r
}

// mustConsume: the instruction is a call that advances the scanner whenever it returns: scan.Next, or a function of the
// module every path of which from entry to a return passes such a call.
func (g *globScan) mustConsume(in ssa.Instruction, depth int) bool {
	call, ok := in.(*ssa.Call)
	if !ok {
		return false
	}
	if calleeFullName(&call.Call) == scanNextFn {
		return true
	}
	f := staticCallee(&call.Call)
	if f == nil || !inModule(f) || len(f.Blocks) == 0 || depth > 3 {
		return false
	}
	switch g.must[f] {
	case 1:
		return true
	case 2, 3:
		return false
	}
	g.must[f] = 3
	idle := map[*ssa.BasicBlock]bool{} // blocks that can be passed without consuming
	for _, b := range f.Blocks {
		idle[b] = !g.blockMustConsume(b, depth+1)
	}
	res := 1
	if idle[f.Blocks[0]] {
		seen := map[*ssa.BasicBlock]bool{f.Blocks[0]: true}
		work := []*ssa.BasicBlock{f.Blocks[0]}
		for len(work) > 0 && res == 1 {
			b := work[len(work)-1]
			work = work[:len(work)-1]
			if _, isRet := b.Instrs[len(b.Instrs)-1].(*ssa.Return); isRet {
				res = 2
			}
			for _, s := range b.Succs {
				if idle[s] && !seen[s] {
					seen[s] = true
					work = append(work, s)
				}
			}
		}
	}
	g.must[f] = res
	return res == 1
}

func (g *globScan) blockMustConsume(b *ssa.BasicBlock, depth int) bool {
	for _, in := range b.Instrs {
		if g.mustConsume(in, depth) {
			return true
		}
	}
	return false
}

// idleWayAround: a way from the loop header back to it, inside the loop, on which no block consumes a character
// ("" when every way around consumes). The answer names the block that jumps back.
func (g *globScan) idleWayAround(h *ssa.BasicBlock) string {
	if g.blockMustConsume(h, 0) {
		return ""
	}
	body := naturalLoop(h)
	seen := map[*ssa.BasicBlock]bool{}
	work := []*ssa.BasicBlock{h}
	for len(work) > 0 {
		b := work[len(work)-1]
		work = work[:len(work)-1]
		for _, s := range b.Succs {
			if s == h {
				return "loop at " + g.p.Pos(blockPos(h)) + ": back from " + g.p.Pos(blockPos(b)) + " with nothing consumed"
			}
			if body[s] && !seen[s] && !g.blockMustConsume(s, 0) {
				seen[s] = true
				work = append(work, s)
			}
		}
	}
	return ""
}

// blockPos: a source position inside the block (the block itself when it has one, otherwise the nearest predecessor that has).
func blockPos(b *ssa.BasicBlock) token.Pos {
	seen := map[*ssa.BasicBlock]bool{}
	for b != nil && !seen[b] {
		seen[b] = true
		for i := len(b.Instrs) - 1; i >= 0; i-- {
			if pos := b.Instrs[i].Pos(); pos.IsValid() {
				return pos
			}
		}
		if len(b.Preds) == 0 {
			break
		}
		b = b.Preds[0]
	}
	return token.NoPos
}

// eofTest: what an outcome of the condition says about the look-ahead: +1 it is not EOF, -1 it is EOF, 0 nothing.
// The condition has to compare the result of a scan.Peek() call (returned as peek) with a constant.
func eofTest(cond ssa.Value) (peek *ssa.Call, whenTrue, whenFalse int) {
	switch x := cond.(type) {
	case *ssa.UnOp:
		if x.Op == token.NOT {
			pk, t, f := eofTest(x.X)
			return pk, f, t
		}
	case *ssa.BinOp:
		a, b, op := x.X, x.Y, x.Op
		if _, isConst := a.(*ssa.Const); isConst {
			a, b = b, a
			switch op {
			case token.LSS:
				op = token.GTR
			case token.GTR:
				op = token.LSS
			case token.LEQ:
				op = token.GEQ
			case token.GEQ:
				op = token.LEQ
			}
		}
		call, ok := a.(*ssa.Call)
		if !ok || calleeFullName(&call.Call) != scanPeekFn {
			return nil, 0, 0
		}
		k, ok := constInt(b)
		if !ok {
			return nil, 0, 0
		}
		switch {
		case op == token.EQL && k == -1:
			return call, -1, +1
		case op == token.NEQ && k == -1:
			return call, +1, -1
		case op == token.EQL && k >= 0:
			return call, +1, 0
		case op == token.NEQ && k >= 0:
			return call, 0, +1
		case op == token.LSS && k == 0, op == token.LEQ && k == -1:
			return call, -1, +1
		case op == token.GEQ && k == 0, op == token.GTR && k == -1:
			return call, +1, -1
		}
	}
	return nil, 0, 0
}

// peekFresh: nothing can have been consumed between the Peek call and the end of block b.
func (g *globScan) peekFresh(peek *ssa.Call, b *ssa.BasicBlock) bool {
	last := b.Instrs[len(b.Instrs)-1]
	if peek.Block() != b && !peek.Block().Dominates(b) {
		return false
	}
	fresh := true
	eachInstr(b.Parent(), func(_ *ssa.BasicBlock, _ int, in ssa.Instruction) {
		if fresh && g.mayConsume(in) && instrReachableAfter(peek, in) && (in.Block() == b || instrReachableAfter(in, last)) {
			if in.Block() == b && peek.Block() == b && instrIndex(in) < instrIndex(peek) {
				return // consumed before the look-ahead was taken
			}
			fresh = false
		}
	})
	return fresh
}

// returnsTrueAtEOF: the returns of fn (a function with one boolean result) that can yield true although the look-ahead
// was not found to differ from EOF on the path. A forward must-analysis: the fact "the look-ahead is not EOF" is
// established by the outcome of a comparison of a fresh scan.Peek() and is lost by anything that may consume; at a join
// it has to hold on every incoming edge. atEntry: whether the fact holds when fn is entered.
func (g *globScan) returnsTrueAtEOF(fn *ssa.Function, atEntry bool, depth int) []string {
	if len(fn.Blocks) == 0 {
		return []string{"no body: " + fn.Name()}
	}
	in := map[*ssa.BasicBlock]bool{}
	for _, b := range fn.Blocks {
		in[b] = true
	}
	in[fn.Blocks[0]] = atEntry
	// through: the fact after the first n instructions of b
	through := func(b *ssa.BasicBlock, n int) bool {
		st := in[b]
		for _, x := range b.Instrs[:n] {
			if g.mayConsume(x) {
				st = false
			}
		}
		return st
	}
	edge := func(b *ssa.BasicBlock, i int) bool {
		st := through(b, len(b.Instrs))
		if ifi, ok := b.Instrs[len(b.Instrs)-1].(*ssa.If); ok {
			if peek, t, f := eofTest(ifi.Cond); peek != nil && g.peekFresh(peek, b) {
				eff := t
				if i == 1 {
					eff = f
				}
				switch eff {
				case +1:
					return true
				case -1:
					return false
				}
			}
		}
		return st
	}
	for changed := true; changed; {
		changed = false
		for _, b := range fn.Blocks[1:] {
			st := true
			for _, pr := range b.Preds {
				for i, s := range pr.Succs {
					if s == b && !edge(pr, i) {
						st = false
					}
				}
			}
			if st != in[b] {
				in[b] = st
				changed = true
			}
		}
	}
	var out []string
	// yields: can the value, used at the end of block b, be true while the look-ahead may be EOF?
	var yields func(v ssa.Value, b *ssa.BasicBlock, seen map[ssa.Value]bool)
	yields = func(v ssa.Value, b *ssa.BasicBlock, seen map[ssa.Value]bool) {
		if seen[v] {
			return
		}
		seen[v] = true
		at := g.p.Pos(blockPos(b))
		switch x := v.(type) {
		case *ssa.Const:
			if x.Value != nil && x.Value.Kind() == constant.Bool && !constant.BoolVal(x.Value) {
				return
			}
		case *ssa.Phi:
			if x.Block() == b && !func() bool {
				for _, y := range b.Instrs {
					if g.mayConsume(y) {
						return true
					}
				}
				return false
			}() {
				for i, e := range x.Edges {
					pr := b.Preds[i]
					if k, ok := e.(*ssa.Const); ok && k.Value != nil && k.Value.Kind() == constant.Bool {
						if !constant.BoolVal(k.Value) {
							continue
						}
						for j, s := range pr.Succs {
							if s == b && !edge(pr, j) {
								out = append(out, "true from "+g.p.Pos(blockPos(pr))+" returned at "+at)
								break
							}
						}
						continue
					}
					// the value of a condition that was decided in the predecessor
					if _, isPhi := e.(*ssa.Phi); !isPhi {
						if ei, ok := e.(ssa.Instruction); ok && ei.Block() == pr {
							yields(e, pr, seen)
							continue
						}
					}
					for j, s := range pr.Succs {
						if s == b && !edge(pr, j) {
							out = append(out, "value from "+g.p.Pos(blockPos(pr))+" returned at "+at)
							break
						}
					}
				}
				return
			}
		case *ssa.BinOp, *ssa.UnOp:
			if peek, t, _ := eofTest(v); peek != nil && t == +1 && g.peekFresh(peek, b) {
				return
			}
		case *ssa.Call:
			if f := staticCallee(&x.Call); f != nil && inModule(f) && len(f.Blocks) > 0 && depth < 2 && x.Block() == b &&
				f.Signature.Results().Len() == 1 {
				later := false
				for _, y := range b.Instrs[instrIndex(x)+1:] {
					if g.mayConsume(y) {
						later = true
					}
				}
				if !later {
					out = append(out, g.returnsTrueAtEOF(f, through(b, instrIndex(x)), depth+1)...)
					return
				}
			}
		}
		if !through(b, len(b.Instrs)) {
			out = append(out, "return at "+at)
		}
	}
	for _, b := range fn.Blocks {
		ret, isRet := b.Instrs[len(b.Instrs)-1].(*ssa.Return)
		if !isRet {
			continue
		}
		if len(ret.Results) != 1 {
			out = append(out, "return at "+g.p.Pos(ret.Pos())+" (not a single result)")
			continue
		}
		yields(ret.Results[0], b, map[ssa.Value]bool{})
	}
	return out
}

// lookaheadChars: the constant characters that the enclosing statements of a node have established for the next character:
// the labels of an enclosing case clause of `switch X.scan.Peek()`, and the literals of enclosing `if ... X.scan.Peek() == lit`
// tests (the condition or one of its conjuncts).
func lookaheadChars(info *types.Info, stack []ast.Node) []constant.Value {
	var out []constant.Value
	for i := len(stack) - 1; i >= 0; i-- {
		switch s := stack[i].(type) {
		case *ast.CaseClause:
			if i >= 2 {
				if sw, ok := stack[i-2].(*ast.SwitchStmt); ok && sw.Tag != nil && isScanCall(sw.Tag, "Peek") {
					for _, e := range s.List {
						if tv := info.Types[e]; tv.Value != nil {
							out = append(out, tv.Value)
						}
					}
				}
			}
		case *ast.IfStmt:
			if i+1 < len(stack) && stack[i+1] != ast.Node(s.Body) {
				continue // the node is in the condition or the else branch
			}
			conj := []ast.Expr{s.Cond}
			for k := 0; k < len(conj); k++ {
				if be, ok := ast.Unparen(conj[k]).(*ast.BinaryExpr); ok && be.Op == token.LAND {
					conj = append(conj, be.X, be.Y)
				}
			}
			for _, cj := range conj {
				if be, ok := ast.Unparen(cj).(*ast.BinaryExpr); ok && be.Op == token.EQL && isScanCall(be.X, "Peek") {
					if tv := info.Types[be.Y]; tv.Value != nil {
						out = append(out, tv.Value)
					}
				}
			}
		}
	}
	return out
}

// globCallSites: for a method of the glob validator, the syntactic context (stack of enclosing nodes) of each of its calls
// from the validator's other methods.
func globCallSites(p *Prog, name string) [][]ast.Node {
	i := strings.LastIndex(name, ".")
	if i < 0 {
		return nil
	}
	method := name[i+1:]
	var out [][]ast.Node
	for other, d := range globDecls(p) {
		if other == name {
			continue
		}
		var stack []ast.Node
		ast.Inspect(d.Body, func(n ast.Node) bool {
			if n == nil {
				stack = stack[:len(stack)-1]
				return true
			}
			stack = append(stack, n)
			if call, ok := n.(*ast.CallExpr); ok {
				if sel, ok := call.Fun.(*ast.SelectorExpr); ok && sel.Sel.Name == method {
					if _, isIdent := sel.X.(*ast.Ident); isIdent {
						out = append(out, append([]ast.Node(nil), stack...))
					}
				}
			}
			return true
		})
	}
	return out
}
