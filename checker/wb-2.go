package main

import (
	"fmt"
	"go/token"
	"go/types"
	"sort"
	"strings"

	"golang.org/x/tools/go/ssa"
)

// Helpers of the white-box round on C04/C05/C06.

// rangeKeyOf: v is the key (idx 1) or value (idx 2) of a range over the field <field> of <base>.
func rangeKeyOf(v ssa.Value) (field string, base ssa.Value, idx int) {
	ex, ok := v.(*ssa.Extract)
	if !ok {
		return "", nil, 0
	}
	nx, ok := ex.Tuple.(*ssa.Next)
	if !ok {
		return "", nil, 0
	}
	rg, ok := nx.Iter.(*ssa.Range)
	if !ok {
		return "", nil, 0
	}
	f, b := fieldLoad(rg.X)
	return f, b, ex.Index
}

// leafValues: the values that may flow into v through interface conversions and phis.
func leafValues(v ssa.Value, seen map[ssa.Value]bool, out *[]ssa.Value) {
	if v == nil || seen[v] {
		return
	}
	seen[v] = true
	switch x := v.(type) {
	case *ssa.MakeInterface:
		leafValues(x.X, seen, out)
	case *ssa.ChangeInterface:
		leafValues(x.X, seen, out)
	case *ssa.ChangeType:
		leafValues(x.X, seen, out)
	case *ssa.Phi:
		for _, e := range x.Edges {
			leafValues(e, seen, out)
		}
	default:
		*out = append(*out, v)
	}
}

// propsUpdatesOf: the stores into <obj>.Props[...] in fn, for an object value obj.
func propsUpdatesOf(fn *ssa.Function, obj ssa.Value) []*ssa.MapUpdate {
	var out []*ssa.MapUpdate
	eachInstr(fn, func(_ *ssa.BasicBlock, _ int, in ssa.Instruction) {
		if mu, ok := in.(*ssa.MapUpdate); ok {
			if f, base := fieldLoad(mu.Map); f == "ObjectType.Props" && base == obj {
				out = append(out, mu)
			}
		}
	})
	return out
}

// constMember: the value stored under the constant key <name> into the map literal m (nil unless stored exactly once).
func constMember(fn *ssa.Function, m ssa.Value, name string) ssa.Value {
	var vals []ssa.Value
	eachInstr(fn, func(_ *ssa.BasicBlock, _ int, in ssa.Instruction) {
		if mu, ok := in.(*ssa.MapUpdate); ok && mu.Map == m {
			if s, ok := constString(mu.Key); ok && s == name {
				vals = append(vals, mu.Value)
			}
		}
	})
	if len(vals) != 1 {
		return nil
	}
	return vals[0]
}

// jobOutputsObject: is the object type value v the strict object of the declared outputs of one of the jobs in <jobs>
// (or, for a job that calls a reusable workflow, the outputs type of that job's call)? Returns a reason when it is not.
func jobOutputsObject(fn *ssa.Function, v ssa.Value, jobs map[ssa.Value]bool) string {
	var leaves []ssa.Value
	leafValues(v, map[ssa.Value]bool{}, &leaves)
	if len(leaves) == 0 {
		return "the outputs member has no origin"
	}
	fromJob := func(key ssa.Value) string {
		f, base, idx := rangeKeyOf(key)
		if f != "Job.Outputs" || idx != 1 {
			return "a property is entered under a key that is not an output name of a job"
		}
		if !jobs[base] {
			return "the output names are taken from a job other than the one the entry stands for"
		}
		return ""
	}
	for _, leaf := range leaves {
		call, ok := leaf.(*ssa.Call)
		if !ok {
			return "the outputs member is " + leaf.String()
		}
		f := staticCallee(&call.Call)
		if f == nil {
			return "the outputs member comes from a dynamic call"
		}
		switch FuncName(f) {
		case "NewEmptyStrictObjectType":
			mus := propsUpdatesOf(fn, call)
			if len(mus) == 0 {
				return "the strict outputs object is never filled"
			}
			for _, mu := range mus {
				if why := fromJob(mu.Key); why != "" {
					return why
				}
			}
		case "NewStrictObjectType":
			n := 0
			why := ""
			eachInstr(fn, func(_ *ssa.BasicBlock, _ int, in ssa.Instruction) {
				if mu, ok := in.(*ssa.MapUpdate); ok && len(call.Call.Args) == 1 && mu.Map == call.Call.Args[0] {
					n++
					if w := fromJob(mu.Key); w != "" {
						why = w
					}
				}
			})
			if n == 0 {
				return "the strict outputs object is never filled"
			}
			if why != "" {
				return why
			}
		case "(*RuleExpression).getWorkflowCallOutputsType":
			if len(call.Call.Args) != 2 {
				return "unexpected call of getWorkflowCallOutputsType"
			}
			if fl, base := fieldLoad(call.Call.Args[1]); fl != "Job.WorkflowCall" || !jobs[base] {
				return "the outputs of a workflow call other than the one of the job the entry stands for"
			}
		default:
			return "the outputs member is built by " + FuncName(f)
		}
	}
	return ""
}

// needsEntryOutputs: the entry mu (needs.<key> = strict object) of fn carries, as its member "outputs", the outputs of the
// job looked up in Workflow.Jobs under the same key.
func needsEntryOutputs(fn *ssa.Function, mu *ssa.MapUpdate) string {
	jobs := map[ssa.Value]bool{}
	eachInstr(fn, func(_ *ssa.BasicBlock, _ int, in ssa.Instruction) {
		lk, ok := in.(*ssa.Lookup)
		if !ok || !lk.CommaOk || lk.Index != mu.Key {
			return
		}
		if f, _ := fieldLoad(lk.X); f != "Workflow.Jobs" {
			return
		}
		for _, ref := range *lk.Referrers() {
			if ex, ok := ref.(*ssa.Extract); ok && ex.Index == 0 {
				jobs[ex] = true
			}
		}
	})
	if len(jobs) == 0 {
		return "the job is not looked up under the key of the entry"
	}
	var leaves []ssa.Value
	leafValues(mu.Value, map[ssa.Value]bool{}, &leaves)
	if len(leaves) != 1 {
		return "the entry has more than one origin"
	}
	call, ok := leaves[0].(*ssa.Call)
	if !ok || len(call.Call.Args) != 1 {
		return "the entry is not built from a map literal"
	}
	member := constMember(fn, call.Call.Args[0], "outputs")
	if member == nil {
		return "the entry has no single member \"outputs\""
	}
	return jobOutputsObject(fn, member, jobs)
}

var _ = fmt.Sprintf
var _ = sort.Strings
var _ = strings.Join

// stepIDValues: the values of fn that are the step's ID field: loads of Step.ID, and - in a helper called at <call> - the
// parameters that receive such a load.
func stepIDValues(fn *ssa.Function, call *ssa.Call) func(v ssa.Value) bool {
	params := map[ssa.Value]bool{}
	if call != nil {
		for i, a := range call.Call.Args {
			if f, _ := fieldLoad(a); f == "Step.ID" && i < len(fn.Params) {
				params[fn.Params[i]] = true
			}
		}
	}
	return func(v ssa.Value) bool {
		if params[v] {
			return true
		}
		f, _ := fieldLoad(v)
		return f == "Step.ID"
	}
}

// returnsAvoiding: is a return of fn reachable from its entry without executing one of the instructions in <must> and
// without taking the nil edge of a nil test on a value for which <exempt> holds? Returns the position of such a return.
func returnsAvoiding(fn *ssa.Function, must map[ssa.Instruction]bool, exempt func(ssa.Value) bool) (token.Pos, bool) {
	if len(fn.Blocks) == 0 {
		return token.NoPos, false
	}
	return returnsAvoidingFrom([]*ssa.BasicBlock{fn.Blocks[0]}, must, exempt)
}

// returnsAvoidingFrom: the same search started at the given blocks.
func returnsAvoidingFrom(start []*ssa.BasicBlock, must map[ssa.Instruction]bool, exempt func(ssa.Value) bool) (token.Pos, bool) {
	seen := map[*ssa.BasicBlock]bool{}
	stack := append([]*ssa.BasicBlock{}, start...)
	for len(stack) > 0 {
		b := stack[len(stack)-1]
		stack = stack[:len(stack)-1]
		if seen[b] {
			continue
		}
		seen[b] = true
		blocked := false
		for _, in := range b.Instrs {
			if must[in] {
				blocked = true
				break
			}
		}
		if blocked {
			continue
		}
		last := b.Instrs[len(b.Instrs)-1]
		if ret, ok := last.(*ssa.Return); ok {
			return ret.Pos(), true
		}
		skip := -1
		if v, nilSucc, ok := nilTest(last); ok && exempt != nil && exempt(v) {
			skip = nilSucc
		}
		for i, s := range b.Succs {
			if i != skip {
				stack = append(stack, s)
			}
		}
	}
	return token.NoPos, false
}

// innermostLoop: the smallest natural loop of the function that contains block b (header, body); nil when b is in no loop.
func innermostLoop(b *ssa.BasicBlock) (*ssa.BasicBlock, map[*ssa.BasicBlock]bool) {
	var bestH *ssa.BasicBlock
	var best map[*ssa.BasicBlock]bool
	for _, h := range loopHeaders(b.Parent()) {
		body := naturalLoop(h)
		if body[b] && (best == nil || len(body) < len(best)) {
			bestH, best = h, body
		}
	}
	return bestH, best
}

// everyIteration: block b of the loop (h, body) is executed on every iteration (no way from the header back to it avoids
// b) and the loop is left only at its header. Returns a reason when that does not hold.
func everyIteration(h *ssa.BasicBlock, body map[*ssa.BasicBlock]bool, b *ssa.BasicBlock) string {
	for x := range body {
		if x == h {
			continue
		}
		for _, s := range x.Succs {
			if !body[s] {
				return "the loop is left from its body"
			}
		}
	}
	seen := map[*ssa.BasicBlock]bool{}
	var stack []*ssa.BasicBlock
	for _, s := range h.Succs {
		if body[s] {
			stack = append(stack, s)
		}
	}
	for len(stack) > 0 {
		x := stack[len(stack)-1]
		stack = stack[:len(stack)-1]
		if seen[x] || x == b {
			continue
		}
		if x == h {
			return "an iteration can end without it"
		}
		seen[x] = true
		for _, s := range x.Succs {
			if body[s] {
				stack = append(stack, s)
			}
		}
	}
	return ""
}

// jobsScopeEntries: judges how checkWorkflowCallOutputs fills the jobs context: the object stored into jobsTy is built from
// a map that receives, on every iteration of one loop, an entry whose "outputs" member holds the outputs of the job found
// under the entry's key.
func jobsScopeEntries(fn *ssa.Function) (pos token.Pos, why string) {
	pos = fn.Pos()
	var maps []ssa.Value
	for _, st := range scopeStores(fn, "jobsTy") {
		var leaves []ssa.Value
		leafValues(st.Val, map[ssa.Value]bool{}, &leaves)
		for _, l := range leaves {
			call, ok := l.(*ssa.Call)
			if !ok || len(call.Call.Args) != 1 {
				return st.Pos(), "the jobs scope is not built from a map of per-job objects"
			}
			if f := staticCallee(&call.Call); f == nil || FuncName(f) != "NewStrictObjectType" {
				return st.Pos(), "the jobs scope is not built from a map of per-job objects"
			}
			maps = append(maps, call.Call.Args[0])
		}
	}
	if len(maps) == 0 {
		return pos, "jobsTy is never stored"
	}
	n := 0
	eachInstr(fn, func(_ *ssa.BasicBlock, _ int, in ssa.Instruction) {
		mu, ok := in.(*ssa.MapUpdate)
		if !ok || why != "" {
			return
		}
		isTarget := false
		for _, m := range maps {
			if mu.Map == m {
				isTarget = true
			}
		}
		if !isTarget {
			return
		}
		n++
		pos = mu.Pos()
		h, body := innermostLoop(mu.Block())
		if h == nil {
			why = "the entry is not made in a loop over the jobs"
			return
		}
		if w := everyIteration(h, body, mu.Block()); w != "" {
			why = "not every job gets its entry: " + w
			return
		}
		// the job of the entry: looked up in the job table parameter under the entry's key
		jobs := map[ssa.Value]bool{}
		eachInstr(fn, func(_ *ssa.BasicBlock, _ int, in2 ssa.Instruction) {
			lk, ok := in2.(*ssa.Lookup)
			if !ok || lk.Index != mu.Key {
				return
			}
			if _, isParam := lk.X.(*ssa.Parameter); !isParam {
				return
			}
			if lk.CommaOk {
				for _, ref := range *lk.Referrers() {
					if ex, ok := ref.(*ssa.Extract); ok && ex.Index == 0 {
						jobs[ex] = true
					}
				}
			} else {
				jobs[lk] = true
			}
		})
		if len(jobs) == 0 {
			// the key and the job come from one range over the job table
			if f, idx := rangePart(mu.Key); strings.HasPrefix(f, "param:") && idx == 1 {
				ex := mu.Key.(*ssa.Extract)
				for _, ref := range *ex.Tuple.Referrers() {
					if e2, ok := ref.(*ssa.Extract); ok && e2.Index == 2 {
						jobs[e2] = true
					}
				}
			}
		}
		if len(jobs) == 0 {
			why = "the job of the entry is not the one found under the entry's key"
			return
		}
		var leaves []ssa.Value
		leafValues(mu.Value, map[ssa.Value]bool{}, &leaves)
		if len(leaves) != 1 {
			why = "the entry has more than one origin"
			return
		}
		call, ok := leaves[0].(*ssa.Call)
		if !ok || len(call.Call.Args) != 1 {
			why = "the entry is not built from a map literal"
			return
		}
		member := constMember(fn, call.Call.Args[0], "outputs")
		if member == nil {
			why = "the entry has no single member \"outputs\""
			return
		}
		why = jobOutputsObject(fn, member, jobs)
	})
	if why == "" && n == 0 {
		why = "nothing is entered into the map of the jobs scope"
	}
	return pos, why
}

// flowsFrom: v is src or a phi (transitively) fed by src.
func flowsFrom(v, src ssa.Value, seen map[ssa.Value]bool) bool {
	if v == src {
		return true
	}
	if seen[v] {
		return false
	}
	seen[v] = true
	if ph, ok := v.(*ssa.Phi); ok {
		for _, e := range ph.Edges {
			if flowsFrom(e, src, seen) {
				return true
			}
		}
	}
	return false
}

// parseErrorReported: in fn, every path from the edge on which the error result of the Parse call is known to be non-nil
// to a return passes a call of the reporting function. Returns (position, reason) when that does not hold; found=false when
// the function never tests the error.
func parseErrorReported(fn *ssa.Function, parse ssa.CallInstruction, reports []ssa.CallInstruction) (pos token.Pos, why string, found bool) {
	pv, ok := parse.(ssa.Value)
	if !ok {
		return token.NoPos, "", false
	}
	var errv ssa.Value
	for _, ref := range *pv.Referrers() {
		if ex, ok := ref.(*ssa.Extract); ok && ex.Index == 1 {
			errv = ex
		}
	}
	if errv == nil {
		return parse.Pos(), "the error result of Parse is dropped", true
	}
	must := map[ssa.Instruction]bool{}
	for _, r := range reports {
		must[r] = true
	}
	for _, b := range fn.Blocks {
		v, nilSucc, ok := nilTest(b.Instrs[len(b.Instrs)-1])
		if !ok || !flowsFrom(v, errv, map[ssa.Value]bool{}) {
			continue
		}
		found = true
		// on these paths the error is known to be non-nil: a later test of it (or of a variable that took it over) does
		// not take its nil edge
		stillErr := func(x ssa.Value) bool { return flowsFrom(x, errv, map[ssa.Value]bool{}) }
		if p, bad := returnsAvoidingFrom([]*ssa.BasicBlock{b.Succs[1-nilSucc]}, must, stillErr); bad {
			return p, "a path from the failed parse returns without the report", true
		}
	}
	return token.NoPos, "", found
}

// parseErrorReturned: the error result of every Parse call of fn reaches a return value of fn.
func parseErrorReturned(fn *ssa.Function, parses []ssa.CallInstruction) bool {
	for _, pc := range parses {
		pv, ok := pc.(ssa.Value)
		if !ok {
			return false
		}
		returned := false
		for _, ref := range *pv.Referrers() {
			ex, ok := ref.(*ssa.Extract)
			if !ok || ex.Index != 1 {
				continue
			}
			for _, b := range fn.Blocks {
				if ret, ok := b.Instrs[len(b.Instrs)-1].(*ssa.Return); ok {
					for _, r := range ret.Results {
						if flowsFrom(r, ex, map[ssa.Value]bool{}) {
							returned = true
						}
					}
				}
			}
		}
		if !returned {
			return false
		}
	}
	return true
}

// anyPathReturns: the returns of a method with an ExprType parameter <prm> that can be reached when the argument is AnyType:
// a comma-ok type test of the parameter for AnyType is taken on its success edge, one for another type on its failure
// edge, every other branch both ways.
func anyPathReturns(fn *ssa.Function, prm *ssa.Parameter) []*ssa.Return {
	if len(fn.Blocks) == 0 {
		return nil
	}
	var out []*ssa.Return
	seen := map[*ssa.BasicBlock]bool{}
	stack := []*ssa.BasicBlock{fn.Blocks[0]}
	for len(stack) > 0 {
		b := stack[len(stack)-1]
		stack = stack[:len(stack)-1]
		if seen[b] {
			continue
		}
		seen[b] = true
		last := b.Instrs[len(b.Instrs)-1]
		if ret, ok := last.(*ssa.Return); ok {
			out = append(out, ret)
			continue
		}
		only := -1
		if ifi, ok := last.(*ssa.If); ok {
			if ex, ok := ifi.Cond.(*ssa.Extract); ok && ex.Index == 1 {
				if ta, ok := ex.Tuple.(*ssa.TypeAssert); ok && ta.CommaOk && ta.X == ssa.Value(prm) {
					if typeStr(ta.AssertedType) == "AnyType" {
						only = 0
					} else if _, isIface := ta.AssertedType.Underlying().(*types.Interface); !isIface {
						only = 1
					}
				}
			}
		}
		for i, s := range b.Succs {
			if only < 0 || i == only {
				stack = append(stack, s)
			}
		}
	}
	return out
}

// flagTrueFrom: on every path from the end of block <from> to the branch <g> the boolean variable that <g> tests holds the
// constant true. The variable is followed through the phis of the function: entering a block from a predecessor gives each
// boolean phi of that block the value of the corresponding edge (a constant, or the value another phi had). Returns false
// when some path reaches <g> with the variable false or unknown, or when <g> cannot be reached at all.
func flagTrueFrom(from *ssa.BasicBlock, g *ssa.If) bool {
	type state struct {
		b    *ssa.BasicBlock
		vals string
	}
	encode := func(m map[*ssa.Phi]int8, order []*ssa.Phi) string {
		bs := make([]byte, len(order))
		for i, ph := range order {
			bs[i] = byte('0' + m[ph] + 1)
		}
		return string(bs)
	}
	var order []*ssa.Phi
	for _, b := range from.Parent().Blocks {
		for _, in := range b.Instrs {
			if ph, ok := in.(*ssa.Phi); ok && isBoolType(ph.Type()) {
				order = append(order, ph)
			}
		}
	}
	eval := func(v ssa.Value, m map[*ssa.Phi]int8) int8 { // 1 true, 0 false, -1 unknown
		switch x := v.(type) {
		case *ssa.Const:
			if x.Value != nil && x.Value.String() == "true" {
				return 1
			}
			if x.Value != nil && x.Value.String() == "false" {
				return 0
			}
		case *ssa.Phi:
			if val, ok := m[x]; ok {
				return val
			}
		}
		return -1
	}
	type item struct {
		b, pred *ssa.BasicBlock
		vals    map[*ssa.Phi]int8
	}
	start := map[*ssa.Phi]int8{}
	for _, ph := range order {
		start[ph] = -1
	}
	var stack []item
	for _, s := range from.Succs {
		stack = append(stack, item{s, from, start})
	}
	seen := map[state]bool{}
	reached := false
	for len(stack) > 0 {
		it := stack[len(stack)-1]
		stack = stack[:len(stack)-1]
		// enter it.b from it.pred: all phis of the block are assigned in parallel
		vals := map[*ssa.Phi]int8{}
		for k, v := range it.vals {
			vals[k] = v
		}
		idx := -1
		for i, pr := range it.b.Preds {
			if pr == it.pred {
				idx = i
			}
		}
		for _, in := range it.b.Instrs {
			ph, ok := in.(*ssa.Phi)
			if !ok {
				break
			}
			if isBoolType(ph.Type()) && idx >= 0 {
				vals[ph] = eval(ph.Edges[idx], it.vals)
			}
		}
		st := state{it.b, encode(vals, order)}
		if seen[st] {
			continue
		}
		seen[st] = true
		if it.b == g.Block() {
			reached = true
			if eval(g.Cond, vals) != 1 {
				return false
			}
			continue
		}
		for _, s := range it.b.Succs {
			stack = append(stack, item{s, it.b, vals})
		}
	}
	return reached
}

// keyEnteredForEveryElement: fn holds a store into the Props of an object type whose key is the key of a range over the map
// field <field>, executed on every iteration of that range loop, and no loop around it is left from its body. Returns the
// position of the store and a reason when that does not hold.
func keyEnteredForEveryElement(fn *ssa.Function, field string) (token.Pos, string) {
	pos, why := fn.Pos(), "no store into the scope object under the keys of "+field
	eachInstr(fn, func(b *ssa.BasicBlock, _ int, in ssa.Instruction) {
		mu, ok := in.(*ssa.MapUpdate)
		if !ok {
			return
		}
		if f, _ := fieldLoad(mu.Map); f != "ObjectType.Props" {
			return
		}
		if f, _, idx := rangeKeyOf(mu.Key); f != field || idx != 1 {
			return
		}
		pos, why = mu.Pos(), ""
		h, body := innermostLoop(b)
		if h == nil {
			why = "the store is not inside the loop over " + field
			return
		}
		if w := everyIteration(h, body, b); w != "" {
			why = w
			return
		}
		for _, h2 := range loopHeaders(fn) {
			body2 := naturalLoop(h2)
			if h2 == h || !body2[h] {
				continue
			}
			for x := range body2 {
				for _, s := range x.Succs {
					if x != h2 && !body2[s] {
						why = "an enclosing loop is left from its body"
					}
				}
			}
		}
	})
	return pos, why
}
