package main

import (
	"fmt"
	"go/ast"
	"go/token"
	"go/types"
	"sort"
	"strings"

	"golang.org/x/tools/go/ssa"
)

// C02.MAP — every `range` over a map is an obligation: the iteration order (random in Go) must not be
// able to reach diagnostics (their text or their relative order at one position), the heap outside the
// loop, an output stream, or a returned value.
func init() {
	register(&Rule{ID: "C02.MAP", Min: 55, Doc: "no range-over-map whose iteration order can reach diagnostics, outer state, output or results", Run: runC02Map})
	register(&Rule{ID: "DBG.OWN", Doc: "debug: dump effect summaries", Run: func(c *Ctx) {
		o := c.P.Own()
		for _, f := range o.funcs {
			c.ok(FuncName(f), f.Pos(), fmt.Sprintf("mut=%s diag=%s emits=%v out=%s retA=%v", o.mut[f], o.diag[f], o.emits[f], o.out[f], o.retA[f]))
		}
		var ext []string
		for k := range o.defaultExt {
			ext = append(ext, k)
		}
		sort.Strings(ext)
		c.ok("default-externals", 0, fmt.Sprint(ext))
		c.ok("iterations", 0, fmt.Sprint(o.iter))
	}})
}

type mapLoop struct {
	fn       *ssa.Function
	rng      *ssa.Range
	next     *ssa.Next
	header   *ssa.BasicBlock
	blocks   map[*ssa.BasicBlock]bool
	exitOnly map[*ssa.BasicBlock]bool
	post     map[*ssa.BasicBlock]bool
	key      ssa.Value
	val      ssa.Value
	stmt     *ast.RangeStmt
}

// findMapLoops returns all range-over-map loops of a function.
func findMapLoops(fn *ssa.Function) []*mapLoop {
	var loops []*mapLoop
	eachInstr(fn, func(_ *ssa.BasicBlock, _ int, in ssa.Instruction) {
		r, ok := in.(*ssa.Range)
		if !ok {
			return
		}
		if _, isMap := r.X.Type().Underlying().(*types.Map); !isMap {
			return
		}
		l := &mapLoop{fn: fn, rng: r, blocks: map[*ssa.BasicBlock]bool{}}
		for _, ref := range *r.Referrers() {
			if n, ok := ref.(*ssa.Next); ok {
				l.next = n
			}
		}
		if l.next == nil {
			return
		}
		l.header = l.next.Block()
		for _, ref := range *l.next.Referrers() {
			if ex, ok := ref.(*ssa.Extract); ok {
				switch ex.Index {
				case 1:
					l.key = ex
				case 2:
					l.val = ex
				}
			}
		}
		// natural loop: blocks dominated by the header from which the header is reachable
		l.blocks[l.header] = true
		var work []*ssa.BasicBlock
		for _, p := range l.header.Preds {
			if l.header.Dominates(p) && !l.blocks[p] {
				l.blocks[p] = true
				work = append(work, p)
			}
		}
		for len(work) > 0 {
			b := work[len(work)-1]
			work = work[:len(work)-1]
			for _, p := range b.Preds {
				if !l.blocks[p] && l.header.Dominates(p) {
					l.blocks[p] = true
					work = append(work, p)
				}
			}
		}
		// exit-only region: blocks reached only by leaving the loop from its body (e.g. `return x` inside the
		// body); they are analysed as part of the body. Blocks reachable from the normal exit are post-loop code.
		l.exitOnly = map[*ssa.BasicBlock]bool{}
		var done []*ssa.BasicBlock
		for _, s := range l.header.Succs {
			if !l.blocks[s] {
				done = append(done, s)
			}
		}
		post := reachableBlocks(done, l.blocks)
		var exits []*ssa.BasicBlock
		for b := range l.blocks {
			if b == l.header {
				continue
			}
			for _, s := range b.Succs {
				if !l.blocks[s] && !post[s] {
					exits = append(exits, s)
				}
			}
		}
		stop := map[*ssa.BasicBlock]bool{}
		for b := range l.blocks {
			stop[b] = true
		}
		for b := range post {
			stop[b] = true
		}
		for b := range reachableBlocks(exits, stop) {
			l.exitOnly[b] = true
		}
		l.post = post
		loops = append(loops, l)
	})
	return loops
}

func rangeStmtAt(fn *ssa.Function, pos token.Pos) *ast.RangeStmt {
	var root ast.Node = fn.Syntax()
	if root == nil {
		return nil
	}
	var res *ast.RangeStmt
	ast.Inspect(root, func(n ast.Node) bool {
		if rs, ok := n.(*ast.RangeStmt); ok && (rs.For == pos || rs.X.Pos() == pos || rs.Pos() == pos) {
			res = rs
		}
		return res == nil
	})
	return res
}

// usesValue: does v (transitively through pure operators) use target?
func usesValue(v, target ssa.Value, depth int, seen map[ssa.Value]bool) bool {
	if v == target {
		return true
	}
	if depth > 12 || seen[v] {
		return false
	}
	seen[v] = true
	in, ok := v.(ssa.Instruction)
	if !ok {
		return false
	}
	for _, op := range in.Operands(nil) {
		if *op != nil && usesValue(*op, target, depth+1, seen) {
			return true
		}
	}
	return false
}

var sorters = map[string]bool{"sort.Strings": true, "sort.Ints": true, "sort.Float64s": true, "sort.Sort": true, "sort.Stable": true, "sort.Slice": true, "sort.SliceStable": true,
	"slices.Sort": true, "slices.SortFunc": true, "slices.SortStableFunc": true}

// orderInsensitiveConsumers: in-package functions that sort a copy of their argument.
var orderInsensitiveConsumers = map[string]bool{"sortedQuotes": true}

func runC02Map(c *Ctx) {
	p := c.P
	own := p.Own()
	for _, fn := range p.Funcs {
		loops := findMapLoops(fn)
		occ := map[string]int{}
		for _, l := range loops {
			what := typeStr(l.rng.X.Type())
			if rs := rangeStmtAt(fn, l.rng.Pos()); rs != nil {
				what = exprStr(rs.X)
			}
			occ[what]++
			construct := fmt.Sprintf("%s|range %s#%d", FuncName(fn), what, occ[what])
			problems, notes := analyzeMapLoop(p, own, l)
			if len(problems) > 0 {
				c.bad(construct, l.rng.Pos(), strings.Join(problems, "; "))
			} else {
				c.ok(construct, l.rng.Pos(), strings.Join(notes, "; "))
			}
		}
	}
	c02MapIterators(c)
}

func isConstLike(own *Own, fn *ssa.Function, v ssa.Value) bool {
	for r := range own.roots(fn, v, modeDeriv) {
		if r.K != RFresh {
			return false
		}
		if r.V != nil {
			// a fresh object is constant-like only when nothing variable was stored into it (already folded into the roots)
			continue
		}
	}
	return true
}

func analyzeMapLoop(p *Prog, own *Own, l *mapLoop) (problems, notes []string) {
	fn := l.fn
	inLoop := func(v ssa.Value) bool {
		if in, ok := v.(ssa.Instruction); ok && in.Block() != nil {
			return l.blocks[in.Block()]
		}
		return false
	}
	effects := 0 // order-sensitive-but-accepted effects (diag at element position, keyed writes, collects)
	loopRoot := Root{K: RLoopVar, V: l.rng}

	// outerRoots: roots that denote state living outside one iteration
	outer := func(rs RootSet) []string {
		var out []string
		if _, isElem := rs[loopRoot]; isElem {
			return nil // the iteration element itself (distinct per iteration)
		}
		for r := range rs {
			switch r.K {
			case RFresh:
				if r.V != nil && !inLoop(r.V) {
					out = append(out, "object allocated before the loop at "+p.Pos(r.V.Pos()))
				}
			case RLoopVar:
				if r.V != l.rng {
					// element of an enclosing/inner map loop: state of that loop's iteration
					if !inLoop(r.V) {
						out = append(out, "element of an enclosing loop")
					}
				}
			default:
				out = append(out, r.String())
			}
		}
		sort.Strings(out)
		return out
	}

	// (1) loop-carried values: phis in the header
	for _, in := range l.header.Instrs {
		phi, ok := in.(*ssa.Phi)
		if !ok {
			continue
		}
		// leaves of the values coming over back edges
		var leaves []ssa.Value
		seen := map[ssa.Value]bool{phi: true}
		var expand func(v ssa.Value)
		expand = func(v ssa.Value) {
			if seen[v] {
				return
			}
			seen[v] = true
			if ph, ok := v.(*ssa.Phi); ok && l.blocks[ph.Block()] {
				for _, e := range ph.Edges {
					expand(e)
				}
				return
			}
			leaves = append(leaves, v)
		}
		for i, pred := range l.header.Preds {
			if l.blocks[pred] {
				expand(phi.Edges[i])
			}
		}
		name := phi.Comment
		if name == "" {
			name = phi.Name()
		}
		kind := ""
		allConst, allAppend, allArg, allSum := true, true, true, true
		for _, lf := range leaves {
			if _, isConst := lf.(*ssa.Const); !isConst {
				allConst = false
			}
			if call, ok := lf.(*ssa.Call); ok {
				if b, ok := call.Call.Value.(*ssa.Builtin); ok && b.Name() == "append" && usesValue(call.Call.Args[0], phi, 0, map[ssa.Value]bool{}) {
					allArg = false
					allSum = false
					continue
				}
			}
			allAppend = false
			if bo, ok := lf.(*ssa.BinOp); ok && (bo.Op == token.ADD || bo.Op == token.OR || bo.Op == token.AND) && (bo.X == phi || bo.Y == phi) {
				if b, ok := bo.Type().Underlying().(*types.Basic); ok && b.Info()&types.IsInteger != 0 {
					allArg = false
					continue
				}
			}
			allSum = false
			// argmin candidate: the new value is exactly the iteration key or value
			if u := unwrap(lf); u != l.key && u != l.val {
				allArg = false
			}
		}
		switch {
		case len(leaves) == 0:
			continue
		case allConst:
			kind = "flag"
		case allAppend:
			kind = "collect"
		case allSum:
			kind = "commutative-sum"
		case allArg:
			kind = "argmin"
		}
		switch kind {
		case "flag", "commutative-sum":
			notes = append(notes, fmt.Sprintf("%s: %s", name, kind))
		case "collect":
			effects++
			if why := collectedThenSorted(p, l, phi); why != "" {
				problems = append(problems, fmt.Sprintf("slice %q collects elements in map order and %s", name, why))
			} else {
				notes = append(notes, fmt.Sprintf("%s: collected then sorted before use", name))
			}
		case "argmin":
			// every assignment must be guarded by a comparison that reads the current best value
			guarded := false
			ties := ""
			for b := range l.blocks {
				if len(b.Instrs) == 0 {
					continue
				}
				if ifi, ok := b.Instrs[len(b.Instrs)-1].(*ssa.If); ok {
					if usesValue(ifi.Cond, phi, 0, map[ssa.Value]bool{}) {
						rs := own.roots(fn, ifi.Cond, modeDeriv)
						if _, ok := rs[loopRoot]; ok {
							guarded = true
							if why := condOrdersAll(p, fn, ifi.Cond); why != "" {
								ties = why
							}
						}
					}
				}
			}
			if guarded && ties != "" {
				problems = append(problems, fmt.Sprintf("variable %q is selected by %s: among elements that agree on it the one visited first wins", name, ties))
			} else if guarded {
				notes = append(notes, fmt.Sprintf("%s: selected by comparison with the current best (arg-min)", name))
			} else {
				problems = append(problems, fmt.Sprintf("variable %q is assigned the iteration element without comparing it to the current value: an arbitrary element is chosen", name))
			}
		default:
			problems = append(problems, fmt.Sprintf("loop-carried variable %q is updated in a way that depends on the iteration order", name))
		}
	}

	// (2)-(4) instructions of the loop body
	hasReturn, hasBreak := false, false
	body := map[*ssa.BasicBlock]bool{}
	for b := range l.blocks {
		body[b] = true
	}
	for b := range l.exitOnly {
		body[b] = true
	}
	for b := range body {
		if l.blocks[b] && b != l.header {
			for _, s := range b.Succs {
				if !l.blocks[s] && l.post[s] {
					hasBreak = true
				}
			}
		}
		for _, in := range b.Instrs {
			switch x := in.(type) {
			case *ssa.Return:
				hasReturn = true
				for _, r := range x.Results {
					rs := own.roots(fn, r, modeDeriv)
					if _, ok := rs[loopRoot]; ok {
						problems = append(problems, fmt.Sprintf("returns a value derived from the iteration element at %s: which element is returned depends on map order", p.Pos(x.Pos())))
					}
				}
			case *ssa.MapUpdate:
				mroots := own.roots(fn, x.Map, modeAlias)
				if len(outer(mroots)) == 0 {
					continue // map created inside this iteration, or the element itself
				}
				effects++
				if unwrap(x.Key) == l.key {
					continue // keyed by the iterated map's own key: distinct per iteration, commutes
				}
				if isConstLike(own, fn, x.Value) {
					continue // same value whatever the order
				}
				problems = append(problems, fmt.Sprintf("map write at %s uses a key that is not the iteration key and a value that depends on the element: colliding keys are resolved in map order", p.Pos(x.Pos())))
			case *ssa.Store:
				if al, isAlloc := x.Addr.(*ssa.Alloc); isAlloc {
					if inLoop(al) {
						continue
					}
					if _, isConst := x.Val.(*ssa.Const); isConst {
						continue // flag
					}
					if call, ok := x.Val.(*ssa.Call); ok {
						if bi, ok := call.Call.Value.(*ssa.Builtin); ok && bi.Name() == "append" {
							if ld, ok := call.Call.Args[0].(*ssa.UnOp); ok && ld.X == al {
								effects++
								if why := cellCollectedThenSorted(p, l, al); why != "" {
									problems = append(problems, fmt.Sprintf("slice variable collects elements in map order and %s", why))
								} else {
									notes = append(notes, "collected into a captured variable, then sorted before use")
								}
								continue
							}
						}
					}
					problems = append(problems, fmt.Sprintf("assignment to outer variable at %s depends on iteration order", p.Pos(x.Pos())))
					continue
				}
				o := outer(own.roots(fn, x.Addr, modeAlias))
				if len(o) == 0 {
					continue
				}
				if _, isConst := x.Val.(*ssa.Const); isConst {
					continue
				}
				problems = append(problems, fmt.Sprintf("store at %s writes %s in map order", p.Pos(x.Pos()), strings.Join(o, ", ")))
			case ssa.CallInstruction:
				call := x.Common()
				if bi, ok := call.Value.(*ssa.Builtin); ok {
					if bi.Name() == "delete" {
						if o := outer(own.roots(fn, call.Args[0], modeAlias)); len(o) > 0 && unwrap(call.Args[1]) != l.key {
							problems = append(problems, fmt.Sprintf("delete at %s with a key that is not the iteration key", p.Pos(x.Pos())))
						}
					}
					continue
				}
				for _, g := range p.calleesOf(x) {
					gname := FuncName(g)
					if logPrimitives[gname] {
						continue
					}
					if idx, ok := diagPrimitives[gname]; ok && inPkg(g, p.SPkg) {
						effects++
						rs := own.diagRoots(fn, call.Args[idx])
						if _, ok := rs[loopRoot]; !ok {
							problems = append(problems, fmt.Sprintf("diagnostic at %s is reported at a position that does not depend on the iteration element: several diagnostics at one position appear in map order", p.Pos(x.Pos())))
						}
						continue
					}
					if _, analysed := own.mut[g]; analysed {
						tmp := RootSet{}
						own.mapRoots(fn, call, g, own.mut[g], modeAlias, tmp)
						if o := outer(tmp); len(o) > 0 {
							why := ""
							for r, pos := range own.mutWhy[g] {
								_ = r
								why = " (e.g. " + p.Pos(pos) + ")"
								break
							}
							problems = append(problems, fmt.Sprintf("call of %s at %s mutates %s in map order%s", gname, p.Pos(x.Pos()), strings.Join(o, ", "), why))
						}
						if own.emits[g] {
							effects++
							tmp = RootSet{}
							own.mapRoots(fn, call, g, own.diag[g], modeDeriv, tmp)
							if _, ok := tmp[loopRoot]; !ok {
								problems = append(problems, fmt.Sprintf("call of %s at %s emits diagnostics whose position does not depend on the iteration element", gname, p.Pos(x.Pos())))
							}
						}
						tmp = RootSet{}
						own.mapRoots(fn, call, g, own.out[g], modeAlias, tmp)
						if len(tmp) > 0 {
							problems = append(problems, fmt.Sprintf("call of %s at %s writes output in map order", gname, p.Pos(x.Pos())))
						}
						continue
					}
					// external
					full := externName(call, g)
					if _, ok := ioExtern[full]; ok {
						problems = append(problems, fmt.Sprintf("%s at %s writes output in map order", full, p.Pos(x.Pos())))
						continue
					}
					if idx, ok := mutExtern[full]; ok && idx < len(call.Args) {
						if o := outer(own.roots(fn, call.Args[idx], modeAlias)); len(o) > 0 {
							problems = append(problems, fmt.Sprintf("%s at %s mutates %s in map order", full, p.Pos(x.Pos()), strings.Join(o, ", ")))
						}
						continue
					}
					if hasPrefixAny(full, readOnlyExtern) || strings.HasSuffix(full, ").Error") || strings.HasSuffix(full, ").String") {
						continue
					}
					// unknown external with pointer-like arguments that live outside the iteration
					var recvArgs []ssa.Value
					if call.IsInvoke() {
						recvArgs = append(recvArgs, call.Value)
					}
					recvArgs = append(recvArgs, call.Args...)
					for _, a := range recvArgs {
						if !pointerLike(a.Type()) {
							continue
						}
						if _, isStr := a.Type().Underlying().(*types.Basic); isStr {
							continue
						}
						if o := outer(own.roots(fn, a, modeAlias)); len(o) > 0 {
							problems = append(problems, fmt.Sprintf("%s at %s may mutate %s in map order", full, p.Pos(x.Pos()), strings.Join(o, ", ")))
							break
						}
					}
				}
			}
		}
	}
	if (hasBreak || hasReturn) && effects > 0 {
		problems = append(problems, "the loop has effects and can stop early: the processed subset of the map depends on iteration order")
	}
	if len(problems) == 0 && len(notes) == 0 {
		if hasReturn || hasBreak {
			notes = append(notes, "pure search with constant result (any/all)")
		} else if effects > 0 {
			notes = append(notes, fmt.Sprintf("%d per-element effects, each tied to the element (keyed write or diagnostic at the element's position)", effects))
		} else {
			notes = append(notes, "no order-sensitive effect")
		}
	}
	sort.Strings(problems)
	return
}

// collectedThenSorted: every use of the collected slice after the loop is an order-insensitive
// consumer or is dominated by an in-place sort of it. Returns "" when fine.
func collectedThenSorted(p *Prog, l *mapLoop, phi *ssa.Phi) string {
	type use struct {
		in ssa.Instruction
	}
	var sortersAt []ssa.Instruction
	var others []ssa.Instruction
	seen := map[ssa.Value]bool{}
	var collect func(v ssa.Value)
	collect = func(v ssa.Value) {
		if seen[v] || v.Referrers() == nil {
			return
		}
		seen[v] = true
		for _, ref := range *v.Referrers() {
			if l.blocks[ref.Block()] {
				continue
			}
			switch r := ref.(type) {
			case *ssa.ChangeType:
				collect(r)
			case *ssa.MakeInterface:
				collect(r)
			case *ssa.Convert:
				collect(r)
			case *ssa.Phi:
				collect(r)
			case *ssa.DebugRef:
			case ssa.CallInstruction:
				name := calleeFullName(r.Common())
				if f := staticCallee(r.Common()); f != nil && inPkg(f, p.SPkg) {
					name = FuncName(f)
				}
				switch {
				case sorters[name]:
					sortersAt = append(sortersAt, r)
				case orderInsensitiveConsumers[name], name == "builtin.len", name == "builtin.cap":
				default:
					others = append(others, r)
				}
			case *ssa.Return:
				// a helper that only collects: the obligation moves to every caller, where the result must be sorted
				// before any other use
				idx := -1
				for i, res := range r.Results {
					if res == v {
						idx = i
					}
				}
				if idx < 0 || !returnedThenSorted(p, r.Parent(), idx, 0) {
					others = append(others, ref)
				}
			default:
				others = append(others, ref)
			}
		}
	}
	collect(phi)
	return checkSortedUses(p, phi, sortersAt, others)
}

// returnedThenSorted: at every static call site of fn, result #idx is sorted (or only consumed order-insensitively)
// before any other use.
func returnedThenSorted(p *Prog, fn *ssa.Function, idx int, depth int) bool {
	if depth > 1 {
		return false
	}
	callers := p.callersOf(fn)
	if len(callers) == 0 {
		return false
	}
	for _, e := range callers {
		site, ok := e.Site.(*ssa.Call)
		if !ok || site.Common().IsInvoke() {
			return false
		}
		var res ssa.Value = site
		if fn.Signature.Results().Len() > 1 {
			res = nil
			for _, ref := range *site.Referrers() {
				if ex, ok := ref.(*ssa.Extract); ok && ex.Index == idx {
					res = ex
				}
			}
			if res == nil {
				continue // result unused at this site
			}
		}
		var sortersAt, others []ssa.Instruction
		seen := map[ssa.Value]bool{}
		var collect func(v ssa.Value)
		collect = func(v ssa.Value) {
			if seen[v] || v.Referrers() == nil {
				return
			}
			seen[v] = true
			for _, ref := range *v.Referrers() {
				switch r := ref.(type) {
				case *ssa.ChangeType:
					collect(r)
				case *ssa.MakeInterface:
					collect(r)
				case *ssa.Convert:
					collect(r)
				case *ssa.Phi:
					collect(r)
				case *ssa.DebugRef:
				case ssa.CallInstruction:
					name := calleeFullName(r.Common())
					if f := staticCallee(r.Common()); f != nil && inPkg(f, p.SPkg) {
						name = FuncName(f)
					}
					switch {
					case sorters[name]:
						sortersAt = append(sortersAt, r)
					case orderInsensitiveConsumers[name], name == "builtin.len", name == "builtin.cap":
					default:
						others = append(others, r)
					}
				default:
					others = append(others, ref)
				}
			}
		}
		collect(res)
		if checkSortedUses(p, res, sortersAt, others) != "" {
			return false
		}
	}
	return true
}

// checkSortedUses: every other use is dominated by an in-place sort, or reads the only element of a
// singleton (x[0] under len(x) == 1).
func checkSortedUses(p *Prog, x ssa.Value, sortersAt, others []ssa.Instruction) string {
	// a sort that leaves ties does not remove the map order: position comparisons (C02.LESS), string comparisons and
	// comparisons of the elements themselves order everything; one numeric component (the line alone) does not
	for _, s := range sortersAt {
		if call, ok := s.(ssa.CallInstruction); ok {
			if why := sortOrdersAll(p, call); why != "" {
				return fmt.Sprintf("the sort at %s does not settle the order: %s", p.Pos(s.Pos()), why)
			}
		}
	}
	for _, u := range others {
		if ia, ok := u.(*ssa.IndexAddr); ok {
			if k, ok := constInt(ia.Index); ok && k == 0 && underLenIsOne(ia) {
				continue
			}
		}
		dominated := false
		for _, s := range sortersAt {
			if instrDominates(s.Block(), instrIndex(s), u.Block(), instrIndex(u)) {
				dominated = true
			}
		}
		if !dominated {
			return fmt.Sprintf("is used at %s without being sorted first", p.Pos(u.Pos()))
		}
	}
	return ""
}

// underLenIsOne: the instruction is dominated by the true edge of a test `len(x) == 1` on its slice.
func underLenIsOne(ia *ssa.IndexAddr) bool {
	fn := ia.Parent()
	for _, b := range fn.Blocks {
		if len(b.Instrs) == 0 {
			continue
		}
		ifi, ok := b.Instrs[len(b.Instrs)-1].(*ssa.If)
		if !ok {
			continue
		}
		bo, ok := ifi.Cond.(*ssa.BinOp)
		if !ok || bo.Op != token.EQL {
			continue
		}
		call, ok := bo.X.(*ssa.Call)
		if !ok {
			continue
		}
		if bi, ok := call.Call.Value.(*ssa.Builtin); !ok || bi.Name() != "len" || unwrap(call.Call.Args[0]) != unwrap(ia.X) {
			continue
		}
		if k, ok := constInt(bo.Y); !ok || k != 1 {
			continue
		}
		t := b.Succs[0]
		if len(t.Preds) == 1 && (t == ia.Block() || t.Dominates(ia.Block())) {
			return true
		}
	}
	return false
}

// cellCollectedThenSorted is collectedThenSorted for a slice variable that lives in a memory cell
// (captured by a closure): every load after the loop feeds a sorter / order-insensitive consumer or is
// dominated by one; closures capturing the cell are only comparators handed to a sorter.
func cellCollectedThenSorted(p *Prog, l *mapLoop, cell *ssa.Alloc) string {
	var sortersAt, others []ssa.Instruction
	var loads []*ssa.UnOp
	for _, ref := range *cell.Referrers() {
		if l.blocks[ref.Block()] {
			continue
		}
		switch r := ref.(type) {
		case *ssa.UnOp:
			loads = append(loads, r)
		case *ssa.MakeClosure:
			// the closure must be an argument of a sorter
			okc := false
			for _, r2 := range *r.Referrers() {
				if call, ok := r2.(ssa.CallInstruction); ok && sorters[calleeFullName(call.Common())] {
					okc = true
				}
			}
			if !okc {
				return fmt.Sprintf("is captured by a closure at %s that is not a sort comparator", p.Pos(r.Pos()))
			}
		case *ssa.Store, *ssa.DebugRef:
		default:
			others = append(others, ref)
		}
	}
	for _, ld := range loads {
		if ld.Parent() != cell.Parent() {
			continue
		}
		for _, ref := range *ld.Referrers() {
			switch r := ref.(type) {
			case ssa.CallInstruction:
				name := calleeFullName(r.Common())
				if f := staticCallee(r.Common()); f != nil && inPkg(f, p.SPkg) {
					name = FuncName(f)
				}
				switch {
				case sorters[name]:
					sortersAt = append(sortersAt, r)
				case orderInsensitiveConsumers[name], name == "builtin.len", name == "builtin.cap":
				default:
					others = append(others, r)
				}
			case *ssa.MakeInterface, *ssa.ChangeType:
				for _, r2 := range *r.(ssa.Value).Referrers() {
					if call, ok := r2.(ssa.CallInstruction); ok && sorters[calleeFullName(call.Common())] {
						sortersAt = append(sortersAt, call)
					} else {
						others = append(others, r2)
					}
				}
			default:
				others = append(others, ref)
			}
		}
	}
	return checkSortedUses(p, cell, sortersAt, others)
}
