package main

import (
	"fmt"
	"go/token"
	"go/types"
	"sort"
	"strings"

	"golang.org/x/tools/go/ssa"
)

func init() {
	register(&Rule{ID: "C11.VISIT", Min: 17, Doc: "every child of an expression node is checked on every path (or a diagnostic is emitted): no sub-expression escapes the semantic and untrusted-input checks", Run: runC11Visit})
	register(&Rule{ID: "C11.SITE", Min: 3, Doc: "the untrusted-input checker is enabled exactly for run: scripts and the script input of actions/github-script", Run: runC11Site})
	register(&Rule{ID: "C11.PAIR", Min: 3, Doc: "enter/leave callbacks of the untrusted checker bracket every node; Init before and OnVisitEnd after the walk", Run: runC11Pair})
	register(&Rule{ID: "C11.ORDER", Min: 2, Doc: "the index of an index access is visited before its operand in both traversals", Run: runC11Order})
	register(&Rule{ID: "C11.SAFE", Min: 3, Doc: "the sanitising functions are exactly contains, startsWith, endsWith; their nesting depth is counted up and down by one for exactly these calls", Run: runC11Safe})
	register(&Rule{ID: "C11.RESET", Min: 5, Doc: "the matcher state is reset on every path of end() and by Init(); every chain is ended: at the end of the walk, before the next chain starts, and by every node that does not continue it", Run: runC11Reset})
}

// exprNodeChildren: ExprNode-typed fields of a concrete node type.
func exprNodeChildren(p *Prog, t types.Type) (children []string, isNode bool) {
	iface := p.Named("ExprNode")
	if iface == nil {
		return nil, false
	}
	ptr, ok := t.(*types.Pointer)
	if !ok {
		return nil, false
	}
	n, ok := ptr.Elem().(*types.Named)
	if !ok || n.Obj().Pkg() != p.Main.Types {
		return nil, false
	}
	if !types.Implements(t, iface.Underlying().(*types.Interface)) {
		return nil, false
	}
	st, ok := n.Underlying().(*types.Struct)
	if !ok {
		return nil, false
	}
	for i := 0; i < st.NumFields(); i++ {
		ft := typeStr(st.Field(i).Type())
		if ft == "ExprNode" || ft == "[]ExprNode" {
			children = append(children, st.Field(i).Name())
		}
	}
	return children, true
}

// isVisitorFunc: a function that takes an expression node as its first non-receiver argument and is
// part of a traversal (semantic checker methods, visitExprNode).
func isVisitorFunc(p *Prog, f *ssa.Function) int {
	if f == nil || !inModule(f) || f.Blocks == nil {
		return -1
	}
	if idx, ok := visitorSet(p)[f]; ok {
		return idx
	}
	return -1
}

// visitorSet: the traversal functions - the dispatcher (*ExprSemanticsChecker).check, the functions it
// dispatches to with the type-switched node, checkWithNarrowing (called on children), and visitExprNode.
// Helpers that merely receive a node (checkConfigVariables, checkBuiltinFuncCall, ...) are not visitors.
func visitorSet(p *Prog) map[*ssa.Function]int {
	if m, ok := p.memo("visitorSet").(map[*ssa.Function]int); ok {
		return m
	}
	m := map[*ssa.Function]int{}
	if v := p.Func("visitExprNode"); v != nil {
		m[v] = 0
	}
	check := p.Method("ExprSemanticsChecker", "check")
	if check != nil {
		m[check] = 1
		eachInstr(check, func(_ *ssa.BasicBlock, _ int, in ssa.Instruction) {
			call, ok := in.(ssa.CallInstruction)
			if !ok {
				return
			}
			g := staticCallee(call.Common())
			if g == nil || !inModule(g) || len(call.Common().Args) < 2 {
				return
			}
			if ex, ok := call.Common().Args[1].(*ssa.Extract); ok {
				if ta, ok := ex.Tuple.(*ssa.TypeAssert); ok && ta.X == check.Params[1] {
					m[g] = 1
				}
			}
		})
	}
	// functions of the checker called with a child field of a node and returning the child's type
	for changed := true; changed; {
		changed = false
		for f := range m {
			if f.Blocks == nil {
				continue
			}
			eachInstr(f, func(_ *ssa.BasicBlock, _ int, in ssa.Instruction) {
				call, ok := in.(ssa.CallInstruction)
				if !ok {
					return
				}
				g := staticCallee(call.Common())
				if g == nil || !inModule(g) || g.Signature.Recv() == nil || pointeeName(g.Signature.Recv().Type()) != "ExprSemanticsChecker" || len(call.Common().Args) < 2 {
					return
				}
				if _, known := m[g]; known {
					return
				}
				if typeStr(g.Params[1].Type()) != "ExprNode" {
					return
				}
				fs := map[string]bool{}
				fieldsFeedingDirect(call.Common().Args[1], fs)
				for fld := range fs {
					if strings.HasSuffix(fld, "Node.Left") || strings.HasSuffix(fld, "Node.Right") || strings.HasSuffix(fld, "Node.Operand") || strings.HasSuffix(fld, "Node.Receiver") || strings.HasSuffix(fld, "Node.Index") {
						m[g] = 1
						changed = true
					}
				}
			})
		}
	}
	p.setMemo("visitorSet", m)
	return m
}

func runC11Visit(c *Ctx) {
	p := c.P
	for _, fn := range p.Funcs {
		if isVisitorFunc(p, fn) < 0 {
			continue
		}
		// concrete node values with children defined in this function
		var vals []ssa.Value
		for _, prm := range fn.Params {
			if ch, ok := exprNodeChildren(p, prm.Type()); ok && len(ch) > 0 {
				vals = append(vals, prm)
			}
		}
		eachInstr(fn, func(_ *ssa.BasicBlock, _ int, in ssa.Instruction) {
			switch x := in.(type) {
			case *ssa.TypeAssert:
				if !x.CommaOk {
					if ch, ok := exprNodeChildren(p, x.AssertedType); ok && len(ch) > 0 {
						vals = append(vals, x)
					}
				}
			case *ssa.Extract:
				if ta, ok := x.Tuple.(*ssa.TypeAssert); ok && x.Index == 0 {
					if ch, ok := exprNodeChildren(p, ta.AssertedType); ok && len(ch) > 0 {
						vals = append(vals, x)
					}
				}
			}
		})
		occ := map[string]int{}
		for _, n := range vals {
			children, _ := exprNodeChildren(p, n.Type())
			k := FuncName(fn) + "|children of " + typeStr(n.Type())
			occ[k]++
			construct := fmt.Sprintf("%s#%d", k, occ[k])
			missing := visitObligation(p, fn, n, children, nil)
			if missing == "" {
				c.ok(construct, n.Pos(), "on every path to a return: the node is handed on whole, or each of {"+strings.Join(children, ", ")+"} is checked, or a diagnostic is emitted")
			} else {
				c.bad(construct, n.Pos(), missing+": a sub-expression is neither type-checked nor seen by the untrusted-input and availability checks when it occurs at that position")
			}
		}
		// a dispatcher (type tests on its node parameter) without a case for a node kind that has children: on the paths
		// that take no case the node must be handed on whole (or a diagnostic emitted), otherwise the children of that
		// kind are never visited by this traversal
		idx := isVisitorFunc(p, fn)
		if idx >= len(fn.Params) || typeStr(fn.Params[idx].Type()) != "ExprNode" {
			continue
		}
		prm := fn.Params[idx]
		tested := map[string]bool{}
		taken := map[*ssa.BasicBlock]bool{}
		eachInstr(fn, func(_ *ssa.BasicBlock, _ int, in ssa.Instruction) {
			ta, ok := in.(*ssa.TypeAssert)
			if !ok || !ta.CommaOk || ta.X != prm {
				return
			}
			tested[typeStr(ta.AssertedType)] = true
			for _, ref := range *ta.Referrers() {
				if okv, isEx := ref.(*ssa.Extract); isEx && okv.Index == 1 {
					for _, r2 := range *okv.Referrers() {
						if ifi, isIf := r2.(*ssa.If); isIf {
							taken[ifi.Block().Succs[0]] = true
						}
					}
				}
			}
		})
		if len(tested) == 0 {
			continue
		}
		for _, kind := range nodeKindsWithChildren(p) {
			if tested[typeStr(kind)] {
				continue
			}
			children, _ := exprNodeChildren(p, kind)
			construct := FuncName(fn) + "|no case for " + typeStr(kind)
			if missing := visitObligation(p, fn, prm, children, taken); missing == "" {
				c.ok(construct, fn.Pos(), "on every path that takes no case the node is handed on whole to a traversal function, or a diagnostic is emitted")
			} else {
				c.bad(construct, fn.Pos(), "a "+typeStr(kind)+" takes no case and is not handed on: its children {"+strings.Join(children, ", ")+"} are never visited by this traversal")
			}
		}
	}
}

// nodeKindsWithChildren: the concrete expression node types (pointers) that have sub-expressions, in name order.
func nodeKindsWithChildren(p *Prog) []types.Type {
	var out []types.Type
	sc := p.Main.Types.Scope()
	for _, nm := range sc.Names() {
		tn, ok := sc.Lookup(nm).(*types.TypeName)
		if !ok || tn.IsAlias() {
			continue
		}
		pt := types.NewPointer(tn.Type())
		if ch, ok := exprNodeChildren(p, pt); ok && len(ch) > 0 {
			out = append(out, pt)
		}
	}
	return out
}

// visitObligation runs a forward must-analysis: which children of n have been handed to a visitor. Paths that enter a
// block of `stop` are not considered.
func visitObligation(p *Prog, fn *ssa.Function, n ssa.Value, children []string, stop map[*ssa.BasicBlock]bool) string {
	defBlock := fn.Blocks[0]
	if in, ok := n.(ssa.Instruction); ok {
		defBlock = in.Block()
	}
	// a value bound by a type switch / comma-ok assertion is only meaningful on the success edge
	if ex, ok := n.(*ssa.Extract); ok {
		if ta, ok := ex.Tuple.(*ssa.TypeAssert); ok && ta.CommaOk {
			for _, ref := range *ta.Referrers() {
				okv, isEx := ref.(*ssa.Extract)
				if !isEx || okv.Index != 1 {
					continue
				}
				for _, r2 := range *okv.Referrers() {
					if ifi, isIf := r2.(*ssa.If); isIf {
						t := ifi.Block().Succs[0]
						if len(t.Preds) == 1 {
							defBlock = t
						}
					}
				}
			}
		}
	}
	all := map[string]bool{}
	for _, ch := range children {
		all[ch] = true
	}
	// gen per block
	gen := map[*ssa.BasicBlock]map[string]bool{}
	fieldOf := func(v ssa.Value) string {
		// v is (derived from) a load of n.<field> or an element of it
		for i := 0; i < 6 && v != nil; i++ {
			switch x := v.(type) {
			case *ssa.UnOp:
				switch a := x.X.(type) {
				case *ssa.FieldAddr:
					if a.X == n {
						name, _ := fieldName(a.X.Type(), a.Field)
						return name[strings.LastIndex(name, ".")+1:]
					}
					return ""
				case *ssa.IndexAddr:
					v = a.X
					continue
				}
				return ""
			case *ssa.MakeInterface:
				v = x.X
			case *ssa.ChangeInterface:
				v = x.X
			default:
				return ""
			}
		}
		return ""
	}
	for _, b := range fn.Blocks {
		g := map[string]bool{}
		for _, in := range b.Instrs {
			call, ok := in.(ssa.CallInstruction)
			if !ok {
				continue
			}
			cc := call.Common()
			f := staticCallee(cc)
			if f != nil && inModule(f) {
				if FuncName(f) == "(*ExprSemanticsChecker).errorf" {
					g["*"] = true
					continue
				}
				if idx := isVisitorFunc(p, f); idx >= 0 && idx < len(cc.Args) {
					a := cc.Args[idx]
					if unwrap(a) == n {
						g["*"] = true
						continue
					}
					if fld := fieldOf(a); fld != "" {
						g[fld] = true
					}
				}
			}
			// the callback style traversal: f(n, p, true) is not a child visit
		}
		gen[b] = g
	}
	// a slice child (Args) is visited by a loop that hands every element on: the index runs from 0 to len(child), the
	// visitor call happens in every iteration, and the loop is left only when the index is exhausted. Such a loop
	// establishes the child from its header on (it may run zero times).
	for _, h := range loopHeaders(fn) {
		for _, fld := range fullSliceVisit(p, h, fieldOf) {
			gen[h][fld] = true
		}
	}
	// forward must dataflow along the paths that start at the definition: only blocks reachable from it take part, and
	// at a join only the predecessors that are themselves reachable from it are intersected (a return in the join
	// block after a type switch is reached from the case body and has to find the children handed on there).
	reach := reachableBlocks([]*ssa.BasicBlock{defBlock}, stop)
	in := map[*ssa.BasicBlock]map[string]bool{}
	out := map[*ssa.BasicBlock]map[string]bool{}
	top := func() map[string]bool {
		m := map[string]bool{"*": true}
		for ch := range all {
			m[ch] = true
		}
		return m
	}
	for _, b := range fn.Blocks {
		out[b] = top()
	}
	changed := true
	for iter := 0; changed && iter < 50; iter++ {
		changed = false
		for _, b := range fn.Blocks {
			if !reach[b] {
				continue
			}
			var cur map[string]bool
			if b == defBlock {
				cur = map[string]bool{}
			} else {
				first := true
				for _, pr := range b.Preds {
					if !reach[pr] {
						continue
					}
					if first {
						cur = map[string]bool{}
						for k := range out[pr] {
							cur[k] = true
						}
						first = false
					} else {
						for k := range cur {
							if !out[pr][k] {
								delete(cur, k)
							}
						}
					}
				}
				if cur == nil {
					cur = map[string]bool{}
				}
			}
			in[b] = cur
			no := map[string]bool{}
			for k := range cur {
				no[k] = true
			}
			for k := range gen[b] {
				no[k] = true
			}
			if len(no) != len(out[b]) {
				changed = true
			} else {
				for k := range no {
					if !out[b][k] {
						changed = true
					}
				}
			}
			out[b] = no
		}
	}
	var missing []string
	for _, b := range fn.Blocks {
		ret, ok := b.Instrs[len(b.Instrs)-1].(*ssa.Return)
		if !ok {
			continue
		}
		if !reach[b] {
			continue
		}
		st := out[b]
		if st["*"] {
			continue
		}
		for ch := range all {
			if !st[ch] {
				at := "the return at " + p.Pos(ret.Pos())
				if !ret.Pos().IsValid() {
					at = "the end of the function"
				}
				missing = append(missing, fmt.Sprintf("%s is not checked on a path to %s", ch, at))
			}
		}
	}
	sort.Strings(missing)
	if len(missing) > 0 {
		return missing[0]
	}
	return ""
}

// fullSliceVisit: the loop with header h hands every element of a slice child of the node to a visitor. Returns the
// child's field name (or, for a loop over a slice literal built from children, the fields stored in it). The loop has the shape `i from 0; i < len(child); i+1` (a range loop or a counting loop), the
// visitor receives child[i], its call dominates every back edge, and the only exit is the header's bound test.
func fullSliceVisit(p *Prog, h *ssa.BasicBlock, fieldOf func(ssa.Value) string) []string {
	ifi, ok := h.Instrs[len(h.Instrs)-1].(*ssa.If)
	if !ok {
		return nil
	}
	body := naturalLoop(h)
	if !body[h.Succs[0]] || body[h.Succs[1]] {
		return nil
	}
	bo, ok := ifi.Cond.(*ssa.BinOp)
	if !ok || bo.Op != token.LSS {
		return nil
	}
	lc, ok := bo.Y.(*ssa.Call)
	if !ok || len(lc.Call.Args) != 1 {
		return nil
	}
	if bi, ok := lc.Call.Value.(*ssa.Builtin); !ok || bi.Name() != "len" {
		return nil
	}
	over := lc.Call.Args[0]
	var flds []string
	if fld := fieldOf(over); fld != "" {
		flds = []string{fld}
	} else if sl, ok := over.(*ssa.Slice); ok && sl.Low == nil && sl.High == nil {
		// []ExprNode{n.Left, n.Right}: an array written once per position and used for nothing else
		al, ok := sl.X.(*ssa.Alloc)
		if !ok {
			return nil
		}
		for _, ref := range *al.Referrers() {
			switch r := ref.(type) {
			case *ssa.Slice:
				if r != sl {
					return nil
				}
			case *ssa.IndexAddr:
				for _, r2 := range *r.Referrers() {
					st, ok := r2.(*ssa.Store)
					if !ok || st.Addr != r || !st.Block().Dominates(h) {
						return nil
					}
					if fld := fieldOf(st.Val); fld != "" {
						flds = append(flds, fld)
					}
				}
			default:
				return nil
			}
		}
	}
	if len(flds) == 0 {
		return nil
	}
	// the index: counts every position from 0
	counts := func(iv ssa.Value) bool {
		phiOf := func(ph *ssa.Phi, start int64, next ssa.Value) bool {
			if ph.Block() != h {
				return false
			}
			for i, e := range ph.Edges {
				if body[h.Preds[i]] {
					if e != next {
						return false
					}
				} else if k, ok := constInt(e); !ok || k != start {
					return false
				}
			}
			return true
		}
		plusOne := func(v ssa.Value) *ssa.Phi {
			add, ok := v.(*ssa.BinOp)
			if !ok || add.Op != token.ADD {
				return nil
			}
			if k, ok := constInt(add.Y); !ok || k != 1 {
				return nil
			}
			ph, _ := add.X.(*ssa.Phi)
			return ph
		}
		if ph, ok := iv.(*ssa.Phi); ok {
			// for i := 0; i < len; i++
			for i, e := range ph.Edges {
				if body[h.Preds[i]] {
					return plusOne(e) == ph && phiOf(ph, 0, e)
				}
			}
			return false
		}
		// range: the phi starts at -1 and is incremented before the test
		if ph := plusOne(iv); ph != nil {
			return phiOf(ph, -1, iv)
		}
		return false
	}
	if !counts(bo.X) {
		return nil
	}
	// left only through the bound test
	for b := range body {
		if b == h {
			continue
		}
		for _, s := range b.Succs {
			if !body[s] {
				return nil
			}
		}
		if len(b.Succs) == 0 {
			return nil
		}
	}
	// child[i] handed to a visitor in every iteration
	for b := range body {
		for _, in := range b.Instrs {
			call, ok := in.(ssa.CallInstruction)
			if !ok {
				continue
			}
			f := staticCallee(call.Common())
			idx := isVisitorFunc(p, f)
			if f == nil || idx < 0 || idx >= len(call.Common().Args) {
				continue
			}
			ld, ok := unwrap(call.Common().Args[idx]).(*ssa.UnOp)
			if !ok {
				continue
			}
			ia, ok := ld.X.(*ssa.IndexAddr)
			if !ok || ia.Index != bo.X || !(ia.X == over || len(flds) == 1 && fieldOf(ia.X) == flds[0]) {
				continue
			}
			every := true
			for _, pr := range h.Preds {
				if body[pr] && !(b == pr || b.Dominates(pr)) {
					every = false
				}
			}
			if every {
				return flds
			}
		}
	}
	return nil
}

func runC11Site(c *Ctx) {
	p := c.P
	ctor := p.Func("NewExprSemanticsChecker")
	if ctor == nil {
		c.anchorMissing("NewExprSemanticsChecker")
		return
	}
	// functions that pass the constant true for a parameter named checkUntrusted
	type site struct {
		fn   *ssa.Function
		call ssa.CallInstruction
	}
	var trues []site
	// the flag that enables the checker: the first parameter of NewExprSemanticsChecker and every parameter handed on to it
	var flagRole map[*ssa.Parameter]bool
	if nc := p.Func("NewExprSemanticsChecker"); nc != nil && len(nc.Params) > 0 {
		flagRole = p.roleParams(nc.Params[0])
	} else {
		c.anchorMissing("NewExprSemanticsChecker")
		return
	}
	for _, fn := range p.Funcs {
		eachInstr(fn, func(_ *ssa.BasicBlock, _ int, in ssa.Instruction) {
			call, ok := in.(ssa.CallInstruction)
			if !ok {
				return
			}
			g := staticCallee(call.Common())
			if g == nil || !inModule(g) {
				return
			}
			for i, prm := range g.Params {
				if flagRole[prm] && i < len(call.Common().Args) {
					if k, ok := call.Common().Args[i].(*ssa.Const); ok && k.Value != nil && k.Value.String() == "true" {
						trues = append(trues, site{fn, call})
					}
				}
			}
		})
	}
	if len(trues) == 0 {
		c.bad("package|untrusted checker enabled", 0, "the untrusted-input check is never enabled")
		return
	}
	var script *ssa.Function
	withScript := 0
	for _, s := range trues {
		name := FuncName(s.fn)
		if name != "(*RuleExpression).checkScriptString" {
			c.bad(name+"|enables the untrusted checker", s.call.Pos(), "the untrusted-input check is enabled outside checkScriptString: positions other than run: / github-script script: would be reported")
			continue
		}
		c.ok(name+"|enables the untrusted checker", s.call.Pos(), "only checkScriptString passes checkUntrusted=true")
		if script != nil {
			continue
		}
		script = s.fn
		// callers of checkScriptString
		for _, e := range p.callersOf(s.fn) {
			if e.Site == nil {
				continue
			}
			arg := e.Site.Common().Args[1]
			fs := map[string]bool{}
			fieldsFeedingDirect(arg, fs)
			construct := FuncName(e.Caller.Func) + "|script position"
			switch {
			case fs["ExecRun.Run"]:
				// whether every run: script gets here is decided below ("run: checked as a script")
			case fs["Input.Value"]:
				// guarded by the github-script prefix and the input name "script", and by nothing else that could leave
				// the script of a github-script step unchecked
				withScript++
				hasPrefix, hasName := false, false
				extra := ""
				for ifi, outcome := range controllingConds(e.Site.Block()) {
					switch {
					case outcome && usesCall(ifi.Cond, "strings.HasPrefix", "actions/github-script@"):
						hasPrefix = true
					case outcome && comparesWith(ifi.Cond, "script") && comparesLowerName(ifi.Cond):
						hasName = true
					case structuralCond(ifi):
					default:
						extra = p.Pos(ifi.Pos())
						if !ifi.Pos().IsValid() {
							extra = p.Pos(ifi.Cond.Pos())
						}
					}
				}
				switch {
				case !hasPrefix || !hasName:
					c.bad(construct+" with.script", e.Site.Pos(), "a with: input is checked as a script without the guards `uses` starts with actions/github-script@ and key == script")
				case extra != "":
					c.bad(construct+" with.script", e.Site.Pos(), "the script input of actions/github-script is checked as a script only under a further condition (at "+extra+"): when it does not hold, untrusted inputs in the script are not reported")
				default:
					c.ok(construct+" with.script", e.Site.Pos(), "under uses: actions/github-script@... and input name script, and under no other condition")
				}
			default:
				c.bad(construct, e.Site.Pos(), "checkScriptString is applied to something other than ExecRun.Run or a with: input")
			}
		}
	}
	if script == nil {
		return
	}
	if withScript == 0 {
		c.bad("(*RuleExpression).VisitStep|script position with.script", script.Pos(), "the script input of actions/github-script is never checked as a script")
	}
	// every run: script reaches the script check: where the strings of an *ExecRun are checked, its Run field is handed to
	// checkScriptString on every path (apart from the paths on which the step or the script is nil)
	nRun := 0
	for _, fn := range p.Funcs {
		if !inModule(fn) || fn.Blocks == nil || fn.Signature.Recv() == nil || pointeeName(fn.Signature.Recv().Type()) != "RuleExpression" {
			continue
		}
		var execs []ssa.Value
		eachInstr(fn, func(_ *ssa.BasicBlock, _ int, in ssa.Instruction) {
			switch x := in.(type) {
			case *ssa.TypeAssert:
				if !x.CommaOk && typeStr(x.AssertedType) == "*ExecRun" {
					execs = append(execs, x)
				}
			case *ssa.Extract:
				if ta, ok := x.Tuple.(*ssa.TypeAssert); ok && x.Index == 0 && typeStr(ta.AssertedType) == "*ExecRun" {
					execs = append(execs, x)
				}
			}
		})
		for _, e := range execs {
			nRun++
			construct := fmt.Sprintf("%s|run: checked as a script#%d", FuncName(fn), nRun)
			if miss := runReachesScript(p, fn, e, script, 0); miss == "" {
				c.ok(construct, e.Pos(), "on every path on which the step is a run: step with a script, ExecRun.Run is handed to checkScriptString")
			} else {
				c.bad(construct, e.Pos(), miss+": untrusted inputs in that run: script are not reported")
			}
		}
	}
	if nRun == 0 {
		c.bad("(*RuleExpression).VisitStep|run: checked as a script", script.Pos(), "no function of the expression rule looks at the *ExecRun of a step: run: scripts are never checked for untrusted inputs")
	}
}

// structuralCond: a condition that does not select among scripts: a nil test, the test of a type switch / comma-ok
// assertion, the bound test of a range loop or the "more elements" flag of a map range.
func structuralCond(ifi *ssa.If) bool {
	if _, _, ok := nilTest(ifi); ok {
		return true
	}
	switch x := ifi.Cond.(type) {
	case *ssa.Extract:
		switch x.Tuple.(type) {
		case *ssa.TypeAssert:
			return x.Index == 1
		case *ssa.Next:
			return x.Index == 0
		}
	case *ssa.BinOp:
		return isRangeIndexCond(x)
	}
	return false
}

// runReachesScript: from the point where exec (an *ExecRun) is known, every path to a return hands exec.Run to the script
// check, directly or by handing exec to a function of the rule for which the same holds. Paths on which exec or exec.Run
// is nil are left out. Returns "" or a description of the path that misses the check.
func runReachesScript(p *Prog, fn *ssa.Function, exec ssa.Value, script *ssa.Function, depth int) string {
	defBlock := fn.Blocks[0]
	if in, ok := exec.(ssa.Instruction); ok {
		defBlock = in.Block()
	}
	if ex, ok := exec.(*ssa.Extract); ok {
		if ta, ok := ex.Tuple.(*ssa.TypeAssert); ok && ta.CommaOk {
			for _, ref := range *ta.Referrers() {
				if okv, isEx := ref.(*ssa.Extract); isEx && okv.Index == 1 {
					for _, r2 := range *okv.Referrers() {
						if ifi, isIf := r2.(*ssa.If); isIf && len(ifi.Block().Succs[0].Preds) == 1 {
							defBlock = ifi.Block().Succs[0]
						}
					}
				}
			}
		}
	}
	isRun := func(v ssa.Value) bool {
		f, base := fieldLoad(v)
		return f == "ExecRun.Run" && base == exec
	}
	// blocks in which the script is handed on
	done := map[*ssa.BasicBlock]bool{}
	eachInstr(fn, func(b *ssa.BasicBlock, _ int, in ssa.Instruction) {
		call, ok := in.(*ssa.Call)
		if !ok {
			return
		}
		g := staticCallee(&call.Call)
		if g == nil {
			return
		}
		for i, a := range call.Call.Args {
			if g == script && i == 1 && isRun(a) {
				done[b] = true
			}
			if a == exec && g != script && depth < 2 && inModule(g) && g.Blocks != nil && i < len(g.Params) && runReachesScript(p, g, g.Params[i], script, depth+1) == "" {
				done[b] = true
			}
		}
	})
	// search for a return reached without it
	seen := map[*ssa.BasicBlock]bool{defBlock: true}
	work := []*ssa.BasicBlock{defBlock}
	for len(work) > 0 {
		b := work[len(work)-1]
		work = work[:len(work)-1]
		if done[b] {
			continue
		}
		last := b.Instrs[len(b.Instrs)-1]
		if ret, ok := last.(*ssa.Return); ok {
			at := "the return at " + p.Pos(ret.Pos())
			if !ret.Pos().IsValid() {
				at = "the end of the function"
			}
			return "a path from the *ExecRun to " + at + " does not hand ExecRun.Run to checkScriptString"
		}
		skip := -1
		if v, nilSucc, ok := nilTest(last); ok && (v == exec || isRun(v)) {
			skip = nilSucc
		}
		for i, s := range b.Succs {
			if i != skip && !seen[s] {
				seen[s] = true
				work = append(work, s)
			}
		}
	}
	return ""
}

func usesCall(v ssa.Value, fn, constArg string) bool {
	// a flag computed earlier (`isScript := x != nil && strings.HasPrefix(...)`): true only where the call was true
	if ph, ok := v.(*ssa.Phi); ok {
		some := false
		for _, e := range ph.Edges {
			if k, isConst := e.(*ssa.Const); isConst && k.Value != nil && k.Value.String() == "false" {
				continue
			}
			if !usesCall(e, fn, constArg) {
				return false
			}
			some = true
		}
		return some
	}
	call, ok := v.(*ssa.Call)
	if !ok || calleeFullName(&call.Call) != fn {
		return false
	}
	for _, a := range call.Call.Args {
		if s, ok := constString(a); ok && s == constArg {
			return true
		}
	}
	return false
}

func comparesWith(v ssa.Value, s string) bool {
	bo, ok := v.(*ssa.BinOp)
	if !ok || bo.Op != token.EQL {
		return false
	}
	for _, o := range []ssa.Value{bo.X, bo.Y} {
		if k, ok := constString(o); ok && k == s {
			return true
		}
	}
	return false
}

func runC11Pair(c *Ctx) {
	p := c.P
	check := p.Method("ExprSemanticsChecker", "check")
	Check := p.Method("ExprSemanticsChecker", "Check")
	if check == nil || Check == nil {
		c.anchorMissing("(*ExprSemanticsChecker).check / Check")
		return
	}
	// in check: the enter callback and the deferred leave callback come before anything else, guarded at most by the test
	// that the untrusted checker exists. Each is a direct call of the checker's method or of a forwarder on the same
	// receiver that makes exactly that call.
	reaches := func(cc *ssa.CallCommon, want string) (bool, *ssa.Function) {
		f := staticCallee(cc)
		if f == nil {
			return false, nil
		}
		if FuncName(f) == want {
			return true, nil
		}
		if inModule(f) && f.Blocks != nil && f.Signature.Recv() != nil && pointeeName(f.Signature.Recv().Type()) == "ExprSemanticsChecker" && len(findCalls(f, want)) == 1 {
			return true, f
		}
		return false, nil
	}
	var enter, leave ssa.Instruction
	var fwd []*ssa.Function
	eachInstr(check, func(_ *ssa.BasicBlock, _ int, in ssa.Instruction) {
		switch x := in.(type) {
		case *ssa.Call:
			if ok, f := reaches(&x.Call, "(*UntrustedInputChecker).OnVisitNodeEnter"); ok && enter == nil {
				enter = x
				if f != nil {
					fwd = append(fwd, f)
				}
			}
		case *ssa.Defer:
			if ok, f := reaches(&x.Call, "(*UntrustedInputChecker).OnVisitNodeLeave"); ok && leave == nil {
				leave = x
				if f != nil {
					fwd = append(fwd, f)
				}
			}
		}
	})
	bracket := enter != nil && leave != nil && instrReachableAfter(enter, leave) && !instrReachableAfter(leave, enter)
	if bracket {
		onlyNilGuard := func(in ssa.Instruction) bool {
			for ifi := range controllingConds(in.Block()) {
				v, _, ok := nilTest(ifi)
				if !ok {
					return false
				}
				if f, _ := fieldLoad(v); f != "ExprSemanticsChecker.untrusted" {
					return false
				}
			}
			return true
		}
		if !onlyNilGuard(enter) || !onlyNilGuard(leave) || returnsWithout(check, enter) || returnsWithout(check, leave) {
			bracket = false
		}
		// both are given the node being visited
		for _, in := range []ssa.Instruction{enter, leave} {
			cc := in.(ssa.CallInstruction).Common()
			if len(cc.Args) < 2 || len(check.Params) < 2 || cc.Args[1] != ssa.Value(check.Params[1]) {
				bracket = false
			}
		}
		// nothing else is called before them
		eachInstr(check, func(_ *ssa.BasicBlock, _ int, in ssa.Instruction) {
			if in == enter || in == leave {
				return
			}
			switch in.(type) {
			case *ssa.Call, *ssa.Defer, *ssa.Go:
				if instrReachableAfter(in, enter) || instrReachableAfter(in, leave) {
					bracket = false
				}
			}
		})
	}
	if bracket {
		c.ok("(*ExprSemanticsChecker).check|enter then deferred leave", check.Pos(), "the enter callback and the deferred leave callback come first, on every path")
	} else {
		c.bad("(*ExprSemanticsChecker).check|enter then deferred leave", check.Pos(), "the enter callback / deferred leave callback do not bracket every node visit: the bottom-up matcher misses nodes or sees them in the wrong order")
	}
	c11OnlyCheckDispatches(c, check)
	// forwarders (when the callbacks are not called directly) hand the node to the untrusted checker when it exists
	for _, f := range fwd {
		var cb ssa.CallInstruction
		for _, want := range []string{"(*UntrustedInputChecker).OnVisitNodeEnter", "(*UntrustedInputChecker).OnVisitNodeLeave"} {
			if cs := findCalls(f, want); len(cs) == 1 {
				cb = cs[0]
			}
		}
		construct := FuncName(f) + "|forwards"
		switch {
		case cb == nil:
			c.bad(construct, f.Pos(), "the forwarder does not make exactly one call of the untrusted checker's callback")
		case len(cb.Common().Args) < 2 || len(f.Params) < 2 || cb.Common().Args[1] != ssa.Value(f.Params[1]):
			c.bad(construct, cb.Pos(), "the forwarder does not hand on the node it was given")
		case !isUntrustedField(cb.Common().Args[0], f.Params[0]):
			c.bad(construct, cb.Pos(), "the forwarder does not call the untrusted checker of its own receiver")
		case returnsWithout(f, cb):
			c.bad(construct, cb.Pos(), "the callback is skipped on a path on which the untrusted checker exists: the bottom-up matcher misses nodes (enter and leave calls no longer pair up)")
		default:
			c.ok(construct, cb.Pos(), "every path on which the receiver's untrusted checker is not nil hands the node to its callback")
		}
	}
	// in Check: Init dominates the walk, the walk dominates OnVisitEnd
	inits := findCalls(Check, "(*UntrustedInputChecker).Init")
	walks := findCalls(Check, "(*ExprSemanticsChecker).check")
	ends := findCalls(Check, "(*UntrustedInputChecker).OnVisitEnd")
	errsC := findCalls(Check, "(*UntrustedInputChecker).Errs")
	if len(inits) == 1 && len(walks) == 1 && len(ends) == 1 && len(errsC) == 1 &&
		reachesAfter(inits[0], walks[0]) && reachesAfter(walks[0], ends[0]) && dom(ends[0], errsC[0]) {
		c.ok("(*ExprSemanticsChecker).Check|Init, walk, OnVisitEnd, Errs", Check.Pos(), "Init precedes the walk, OnVisitEnd follows it and precedes the collection of the errors")
	} else {
		c.bad("(*ExprSemanticsChecker).Check|Init, walk, OnVisitEnd, Errs", Check.Pos(), "the untrusted checker is not initialised before / finished after the walk, or its errors are collected before OnVisitEnd: the last chain of an expression is never reported")
	}
}

// isUntrustedField: v is a load of recv.untrusted.
func isUntrustedField(v ssa.Value, recv ssa.Value) bool {
	f, base := fieldLoad(v)
	return f == "ExprSemanticsChecker.untrusted" && base == recv
}

// returnsWithout: some path from the entry of fn to a return does not execute `in`, although the receiver's untrusted
// checker is not nil on it (the nil edges of tests of that field are not followed).
func returnsWithout(fn *ssa.Function, in ssa.Instruction) bool {
	seen := map[*ssa.BasicBlock]bool{fn.Blocks[0]: true}
	work := []*ssa.BasicBlock{fn.Blocks[0]}
	for len(work) > 0 {
		b := work[len(work)-1]
		work = work[:len(work)-1]
		if b == in.Block() {
			continue
		}
		last := b.Instrs[len(b.Instrs)-1]
		if _, ok := last.(*ssa.Return); ok {
			return true
		}
		skip := -1
		if v, nilSucc, ok := nilTest(last); ok && len(fn.Params) > 0 && isUntrustedField(v, fn.Params[0]) {
			skip = nilSucc
		}
		for i, s := range b.Succs {
			if i != skip && !seen[s] {
				seen[s] = true
				work = append(work, s)
			}
		}
	}
	return false
}

// reachesAfter: b comes after a on every path that executes both (a's block dominates b's, or same block and later).
func reachesAfter(a, b ssa.Instruction) bool {
	if a.Block() == b.Block() {
		return instrIndex(a) < instrIndex(b)
	}
	return a.Block().Dominates(b.Block()) || reachableBlocks([]*ssa.BasicBlock{a.Block()}, nil)[b.Block()] && !reachableBlocks([]*ssa.BasicBlock{b.Block()}, nil)[a.Block()]
}

func runC11Order(c *Ctx) {
	p := c.P
	// checkIndexAccess: check(n.Index) dominates check(n.Operand)
	f := p.Method("ExprSemanticsChecker", "checkIndexAccess")
	if f == nil {
		c.anchorMissing("(*ExprSemanticsChecker).checkIndexAccess")
	} else {
		var idxCall, opCall ssa.Instruction
		for _, call := range findCalls(f, "(*ExprSemanticsChecker).check") {
			fs := map[string]bool{}
			fieldsFeedingDirect(call.Common().Args[1], fs)
			if fs["IndexAccessNode.Index"] {
				idxCall = call
			}
			if fs["IndexAccessNode.Operand"] {
				opCall = call
			}
		}
		if idxCall != nil && opCall != nil && dom(idxCall, opCall) {
			c.ok("(*ExprSemanticsChecker).checkIndexAccess|index before operand", f.Pos(), "check(n.Index) dominates check(n.Operand)")
		} else {
			c.bad("(*ExprSemanticsChecker).checkIndexAccess|index before operand", f.Pos(), "the operand is visited before (or without) the index: a chain inside the index clobbers the state of the outer chain")
		}
	}
	v := p.Func("visitExprNode")
	if v == nil {
		c.anchorMissing("visitExprNode")
		return
	}
	var idxCall, opCall ssa.Instruction
	for _, call := range findCalls(v, "visitExprNode") {
		fs := map[string]bool{}
		fieldsFeedingDirect(call.Common().Args[0], fs)
		if fs["IndexAccessNode.Index"] {
			idxCall = call
		}
		if fs["IndexAccessNode.Operand"] {
			opCall = call
		}
	}
	if idxCall != nil && opCall != nil && dom(idxCall, opCall) {
		c.ok("visitExprNode|index before operand", v.Pos(), "the index is visited before the operand")
	} else {
		c.bad("visitExprNode|index before operand", v.Pos(), "the generic traversal visits the operand before (or without) the index")
	}
}

func runC11Safe(c *Ctx) {
	p := c.P
	f := p.Func("isSafeFuncCall")
	if f == nil {
		c.anchorMissing("isSafeFuncCall")
		return
	}
	e := p.lowerEngine()
	got := map[string]bool{}
	lowered := true
	eachInstr(f, func(_ *ssa.BasicBlock, _ int, in ssa.Instruction) {
		bo, ok := in.(*ssa.BinOp)
		if !ok || bo.Op != token.EQL {
			return
		}
		for _, pair := range [][2]ssa.Value{{bo.X, bo.Y}, {bo.Y, bo.X}} {
			if s, ok := constString(pair[0]); ok {
				got[s] = true
				if !e.isLower(pair[1], 0) {
					lowered = false
				}
			}
		}
	})
	want := []string{"contains", "endswith", "startswith"}
	if strings.Join(sortedKeys(got), ",") == strings.Join(want, ",") && lowered {
		c.ok("isSafeFuncCall|sanitising functions", f.Pos(), "exactly contains, startsWith, endsWith, compared in lower case")
	} else {
		c.bad("isSafeFuncCall|sanitising functions", f.Pos(), "the set of functions inside which untrusted inputs are not reported is {"+strings.Join(sortedKeys(got), ", ")+"}, expected {contains, endswith, startswith} compared case-insensitively")
	}
	if e.lowerFields["UntrustedInputMap.Name"] {
		c.ok("UntrustedInputMap.Name|lower-case", 0, "every node of the untrusted-input tree has a lower-case name")
	} else {
		c.bad("UntrustedInputMap.Name|lower-case", 0, "a node of the untrusted-input tree has a name that is not lower-case: the lower-cased property never matches it")
	}
	c11SafeDepth(c)
}

func runC11Reset(c *Ctx) {
	p := c.P
	for _, nm := range []string{"end", "Init"} {
		f := p.Method("UntrustedInputChecker", nm)
		if f == nil {
			c.anchorMissing("(*UntrustedInputChecker)." + nm)
			continue
		}
		resets := findCalls(f, "(*UntrustedInputChecker).reset")
		all := len(resets) > 0
		for _, b := range f.Blocks {
			if _, ok := b.Instrs[len(b.Instrs)-1].(*ssa.Return); ok {
				covered := false
				for _, r := range resets {
					if r.Block() == b || r.Block().Dominates(b) {
						covered = true
					}
				}
				if !covered {
					all = false
				}
			}
		}
		construct := "(*UntrustedInputChecker)." + nm + "|reset on every path"
		if all {
			c.ok(construct, f.Pos(), "reset() dominates every return")
		} else {
			c.bad(construct, f.Pos(), "a path returns without reset(): candidate paths / the object-filter flag of one chain leak into the next chain of the expression")
		}
	}
	c11ChainEnds(c)
}

// comparesLowerName: the non-constant side of the comparison is a lower-cased name: the key of the range over the step's
// inputs (the parser keys that map by the lower-cased input name) or a strings.ToLower result - not the spelling the user
// wrote (Input.Name.Value), for which `Script:` would not be recognised.
func comparesLowerName(v ssa.Value) bool {
	bo, ok := v.(*ssa.BinOp)
	if !ok {
		return false
	}
	for _, o := range []ssa.Value{bo.X, bo.Y} {
		if _, isConst := o.(*ssa.Const); isConst {
			continue
		}
		if rf, idx := rangePart(o); rf == "ExecAction.Inputs" && idx == 1 {
			return true
		}
		if call, ok := o.(*ssa.Call); ok && calleeFullName(&call.Call) == "strings.ToLower" {
			return true
		}
	}
	return false
}
