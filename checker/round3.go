package main

// Rules added after the third round of independently seeded changes.

import (
	"fmt"
	"go/token"
	"go/types"
	"sort"
	"strings"

	"golang.org/x/tools/go/ssa"
)

func init() {
	register(&Rule{ID: "C09.VISITOR", Min: 8, Doc: "every pass gets its Pre, Step and Post callbacks for every job and step; a successful visit never skips the Post callbacks", Run: runC09Visitor})
	register(&Rule{ID: "C07.ARGPOS", Min: 2, Doc: "an argument diagnostic is positioned at the argument whose type was tested", Run: runC07ArgPos})
	register(&Rule{ID: "C06.MERGE", Min: 3, Doc: "merging object types never yields an object less open than either operand", Run: runC06Merge})
	register(&Rule{ID: "C10.AT", Min: 1, Doc: "a remembered project is reused only for a path whose own lookup finds the same root", Run: runC10At})
	register(&Rule{ID: "C10.CACHEKEY", Min: 4, Doc: "per-repository caches are keyed by the root directory as is", Run: runC10CacheKey})
	register(&Rule{ID: "C16.ONCE", Min: 6, Doc: "a format template is executed once per run over the diagnostics of all files", Run: runC16Once})
	register(&Rule{ID: "C17.STATELESS", Min: 7, Doc: "every non-empty filter value is validated, by the validator of its filter kind, whatever was validated before", Run: runC17Stateless})
	register(&Rule{ID: "C18.ORDER", Min: 2, Doc: "search and reconstruction iterate the neighbours of a node in the same (stored) order", Run: runC18Order})
	register(&Rule{ID: "C15.CONFPAT", Min: 1, Doc: "every ignore pattern of the configuration file is compiled on its own", Run: runC15ConfPat})
	register(&Rule{ID: "C11.FILTER", Min: 2, Doc: "the matcher remembers an object filter on every path and the index handler consults it", Run: runC11Filter})
	register(&Rule{ID: "C02.SRC", Min: 2, Doc: "clock, random and process-specific values only feed the debug log", Run: runC02Src})
	register(&Rule{ID: "C01.EXTPANIC", Min: 1, Doc: "the cron parser is only called on text for which it is known not to panic", Run: runC01ExtPanic})
	register(&Rule{ID: "C01.REPEAT", Min: 3, Doc: "the count of strings.Repeat is never negative", Run: runC01Repeat})
}

// ---- C09.VISITOR ----

func runC09Visitor(c *Ctx) {
	p := c.P
	type step struct {
		name   string // invoked interface method or called function
		invoke bool
		over   string // field ranged over
	}
	plan := map[string][]step{
		"Visit":     {{"VisitWorkflowPre", true, "Visitor.passes"}, {"visitJob", false, ""}, {"VisitWorkflowPost", true, "Visitor.passes"}},
		"visitJob":  {{"VisitJobPre", true, "Visitor.passes"}, {"visitStep", false, "Job.Steps"}, {"VisitJobPost", true, "Visitor.passes"}},
		"visitStep": {{"VisitStep", true, "Visitor.passes"}},
	}
	for _, fname := range []string{"Visit", "visitJob", "visitStep"} {
		fn := p.Method("Visitor", fname)
		if fn == nil {
			c.anchorMissing("(*Visitor)." + fname)
			continue
		}
		var calls []ssa.CallInstruction
		okAll := true
		for _, st := range plan[fname] {
			var found ssa.CallInstruction
			eachInstr(fn, func(_ *ssa.BasicBlock, _ int, in ssa.Instruction) {
				call, ok := in.(ssa.CallInstruction)
				if !ok {
					return
				}
				cc := call.Common()
				if st.invoke && cc.IsInvoke() && cc.Method.Name() == st.name {
					found = call
				}
				if !st.invoke {
					if f := staticCallee(cc); f != nil && f.Name() == st.name {
						found = call
					}
				}
			})
			construct := "(*Visitor)." + fname + "|" + st.name
			if found == nil {
				c.bad(construct, fn.Pos(), "the callback is never made")
				okAll = false
				continue
			}
			calls = append(calls, found)
			// inside a range loop over the expected collection, for every element: the loop's only exits are its completion
			// and the return of the callback's error
			var hdr *ssa.BasicBlock
			for _, h := range loopHeaders(fn) {
				if naturalLoop(h)[found.Block()] && (hdr == nil || naturalLoop(hdr)[h]) {
					hdr = h
				}
			}
			if hdr == nil {
				c.bad(construct, found.Pos(), "not called in a loop over all "+st.over)
				okAll = false
				continue
			}
			body := naturalLoop(hdr)
			why := ""
			// what is ranged over
			if st.over != "" {
				okOver := false
				eachInstr(fn, func(b *ssa.BasicBlock, _ int, in ssa.Instruction) {
					if !body[b] && !b.Dominates(hdr) {
						return
					}
					if ld, ok := in.(*ssa.UnOp); ok {
						if f, _ := fieldLoad(ld); f == st.over {
							okOver = true
						}
					}
				})
				if !okOver {
					why = "the loop does not range over " + st.over
				}
			}
			// argument is the visited node (the function's parameter) for pass callbacks
			if st.invoke && found.Common().Args[0] != ssa.Value(fn.Params[1]) {
				why = "the callback is not given the visited node"
			}
			// made in every iteration: the call is on every way round the loop (no `continue` before it)
			for _, pr := range hdr.Preds {
				if body[pr] && pr != found.Block() && !found.Block().Dominates(pr) {
					why = "an iteration can end without the callback (a `continue` or a branch round the call): some elements are not visited, and which ones may depend on what was seen before"
				}
			}
			// exits
			for b := range body {
				for _, s := range b.Succs {
					if body[s] {
						continue
					}
					// leaving the loop: either from the header (completion) or on a non-nil result of the callback
					if b == hdr {
						continue
					}
					okExit := false
					if ifi, ok := b.Instrs[len(b.Instrs)-1].(*ssa.If); ok {
						if v, nilSucc, ok := nilTest(ifi); ok && v == found.(ssa.Value) && b.Succs[1-nilSucc] == s {
							if ret, ok := s.Instrs[len(s.Instrs)-1].(*ssa.Return); ok && len(ret.Results) == 1 && ret.Results[0] == v {
								okExit = true
							}
						}
					}
					if !okExit {
						why = "the loop can be left before every element was visited (other than by returning the callback's error)"
					}
				}
			}
			if why == "" {
				c.ok(construct, found.Pos(), "called for every element of "+st.over+", left early only with the callback's error")
			} else {
				c.bad(construct, found.Pos(), why)
				okAll = false
			}
		}
		if !okAll || len(calls) == 0 {
			continue
		}
		// order, and success returns after the last loop
		for i := 0; i+1 < len(calls); i++ {
			construct := fmt.Sprintf("(*Visitor).%s|%s before %s", fname, plan[fname][i].name, plan[fname][i+1].name)
			if instrReachableAfter(calls[i+1], calls[i]) && !sameLoop(fn, calls[i], calls[i+1]) {
				c.bad(construct, calls[i].Pos(), "the callbacks can run in the opposite order")
			} else {
				c.ok(construct, calls[i].Pos(), "in this order")
			}
		}
		last := calls[len(calls)-1]
		var lastHdr *ssa.BasicBlock
		for _, h := range loopHeaders(fn) {
			if naturalLoop(h)[last.Block()] && (lastHdr == nil || naturalLoop(lastHdr)[h]) {
				lastHdr = h
			}
		}
		okRet := true
		for _, b := range fn.Blocks {
			ret, ok := b.Instrs[len(b.Instrs)-1].(*ssa.Return)
			if !ok || len(ret.Results) != 1 || !isNilConst(ret.Results[0]) {
				continue
			}
			if !lastHdr.Dominates(b) {
				okRet = false
				c.bad("(*Visitor)."+fname+"|success only after "+plan[fname][len(calls)-1].name, ret.Pos(), "the visit returns success on a path that skips the "+plan[fname][len(calls)-1].name+" callbacks: per-job state is not reset and leaks into the next job")
			}
		}
		if okRet {
			c.ok("(*Visitor)."+fname+"|success only after "+plan[fname][len(calls)-1].name, fn.Pos(), "every successful return passes the last callback loop")
		}
	}
}

func sameLoop(fn *ssa.Function, a, b ssa.Instruction) bool {
	for _, h := range loopHeaders(fn) {
		body := naturalLoop(h)
		if body[a.Block()] && body[b.Block()] {
			return true
		}
	}
	return false
}

// ---- C07.ARGPOS ----

// elemIndex: v is element <index> of the slice held in <base> (through re-slicing); returns the base and the index as a
// linear form.
func elemIndex(v ssa.Value) (base ssa.Value, idx linForm, ok bool) {
	ld, isLoad := v.(*ssa.UnOp)
	if !isLoad || ld.Op != token.MUL {
		return nil, nil, false
	}
	ia, isIA := ld.X.(*ssa.IndexAddr)
	if !isIA {
		return nil, nil, false
	}
	idx = linOf(ia.Index, 0)
	base = ia.X
	for {
		sl, isSl := base.(*ssa.Slice)
		if !isSl {
			break
		}
		if sl.Low != nil {
			idx = linAdd(idx, linOf(sl.Low, 0), 1)
		}
		base = sl.X
	}
	return base, idx, true
}

func runC07ArgPos(c *Ctx) {
	p := c.P
	fn := p.Func("checkFuncSignature")
	if fn == nil {
		c.anchorMissing("checkFuncSignature")
		return
	}
	n := 0
	for _, call := range findCalls(fn, "errorfAtExpr") {
		// controlled by !Assignable(x)
		var tested ssa.Value
		for ifi, outcome := range controllingConds(call.Block()) {
			if cc, ok := ifi.Cond.(*ssa.Call); ok && cc.Call.IsInvoke() && cc.Call.Method.Name() == "Assignable" && !outcome {
				tested = cc.Call.Args[0]
			}
		}
		if tested == nil {
			continue
		}
		n++
		construct := fmt.Sprintf("checkFuncSignature|position of argument error#%d", n)
		tb, ti, ok1 := elemIndex(tested)
		nb, ni, ok2 := elemIndex(call.Common().Args[0])
		if !ok1 || !ok2 {
			c.bad(construct, call.Pos(), "the tested type or the reported node is not an element of the argument lists")
			continue
		}
		_, isParam := tb.(*ssa.Parameter)
		nf, _ := fieldLoad(nb)
		switch {
		case !isParam || nf != "FuncCallNode.Args":
			c.bad(construct, call.Pos(), "the error is not positioned at an argument of the call node")
		case !ti.equal(ni):
			c.bad(construct, call.Pos(), "the type of argument "+ti.String()+" is tested but the error is positioned at argument "+ni.String())
		default:
			c.ok(construct, call.Pos(), "tested and reported argument index: "+ti.String())
		}
	}
	if n == 0 {
		c.bad("checkFuncSignature|position of argument error", fn.Pos(), "no argument type error found")
	}
}

// ---- C06.MERGE ----

func runC06Merge(c *Ctx) {
	p := c.P
	fn := p.Method("ObjectType", "Merge")
	if fn == nil {
		c.anchorMissing("(*ObjectType).Merge")
		return
	}
	recv := fn.Params[0]
	n := 0
	for _, b := range fn.Blocks {
		ret, ok := b.Instrs[len(b.Instrs)-1].(*ssa.Return)
		if !ok {
			continue
		}
		mi, ok := ret.Results[0].(*ssa.MakeInterface)
		if !ok {
			continue
		}
		var operand ssa.Value
		name := ""
		switch x := mi.X.(type) {
		case *ssa.Parameter:
			if x == recv {
				operand, name = x, "the receiver"
			}
		case *ssa.Extract:
			if ta, ok := x.Tuple.(*ssa.TypeAssert); ok && ta.X == ssa.Value(fn.Params[1]) {
				operand, name = x, "the argument"
			}
		case *ssa.TypeAssert:
			if x.X == ssa.Value(fn.Params[1]) {
				operand, name = x, "the argument"
			}
		}
		if operand == nil {
			continue
		}
		n++
		construct := fmt.Sprintf("(*ObjectType).Merge|returns %s as is", name)
		okLoose := false
		for ifi, outcome := range controllingConds(b) {
			if call, ok := ifi.Cond.(*ssa.Call); ok && outcome {
				if f := staticCallee(&call.Call); f != nil && FuncName(f) == "(*ObjectType).IsLoose" && call.Call.Args[0] == operand {
					okLoose = true
				}
			}
		}
		if okLoose {
			c.ok(construct, ret.Pos(), "only when it is itself loose (so it is at least as open as the other operand)")
		} else {
			c.bad(construct, ret.Pos(), "an operand is returned as the merge result without it being loose: if the other operand is open the result is less open than it, and references into the open part are reported")
		}
	}
	// the general case: Mapped of the result combines both operands' Mapped
	okMapped := false
	eachInstr(fn, func(_ *ssa.BasicBlock, _ int, in ssa.Instruction) {
		st, ok := in.(*ssa.Store)
		if !ok {
			return
		}
		fa, ok := st.Addr.(*ssa.FieldAddr)
		if !ok || fieldAddrName(fa) != "ObjectType.Mapped" {
			return
		}
		srcs := map[string]bool{}
		seen := map[ssa.Value]bool{}
		var walk func(v ssa.Value, d int)
		walk = func(v ssa.Value, d int) {
			if d > 8 || seen[v] {
				return
			}
			seen[v] = true
			if f, base := fieldLoad(v); f == "ObjectType.Mapped" {
				if base == ssa.Value(recv) {
					srcs["receiver"] = true
				} else {
					srcs["argument"] = true
				}
				return
			}
			switch x := v.(type) {
			case *ssa.Phi:
				for _, e := range x.Edges {
					walk(e, d+1)
				}
			case *ssa.Call:
				if x.Call.IsInvoke() {
					walk(x.Call.Value, d+1)
				}
				for _, a := range x.Call.Args {
					walk(a, d+1)
				}
			}
		}
		walk(st.Val, 0)
		if srcs["receiver"] && srcs["argument"] {
			okMapped = true
		}
	})
	n++
	if okMapped {
		c.ok("(*ObjectType).Merge|openness of the merged object", fn.Pos(), "Mapped of the result is taken from both operands")
	} else {
		c.bad("(*ObjectType).Merge|openness of the merged object", fn.Pos(), "Mapped of the merged object does not take both operands into account")
	}
}

// ---- C01.REPEAT ----

// nonNeg: the integer value is provably >= 0.
func nonNeg(v ssa.Value, depth int, seen map[ssa.Value]bool) bool {
	if depth > 10 {
		return false
	}
	if seen[v] {
		return true // a cycle through phis: the other edges decide
	}
	seen[v] = true
	switch x := v.(type) {
	case *ssa.Const:
		n, ok := constInt(x)
		return ok && n >= 0
	case *ssa.Call:
		if bi, ok := x.Call.Value.(*ssa.Builtin); ok && (bi.Name() == "len" || bi.Name() == "cap") {
			return true
		}
		name := calleeFullName(&x.Call)
		if strings.HasPrefix(name, "github.com/mattn/go-runewidth.") || strings.HasPrefix(name, "unicode/utf8.RuneCount") || name == "strings.Count" {
			return true
		}
		// a function of the repository whose every return statement returns a non-negative value
		if callee := x.Call.StaticCallee(); callee != nil && callee.Pkg != nil && callee.Pkg.Pkg.Path() == modPath && len(callee.Blocks) > 0 && callee.Signature.Results().Len() == 1 {
			all, n := true, 0
			for _, b := range callee.Blocks {
				if ret, ok := b.Instrs[len(b.Instrs)-1].(*ssa.Return); ok && len(ret.Results) == 1 {
					n++
					if !nonNeg(ret.Results[0], depth+1, seen) {
						all = false
					}
				}
			}
			if all && n > 0 {
				return true
			}
		}
	case *ssa.Extract:
		// a result of a function of the repository that is non-negative on every return
		if call, ok := x.Tuple.(*ssa.Call); ok {
			if callee := call.Call.StaticCallee(); callee != nil && callee.Pkg != nil && callee.Pkg.Pkg.Path() == modPath && len(callee.Blocks) > 0 {
				all, n := true, 0
				for _, b := range callee.Blocks {
					if ret, ok := b.Instrs[len(b.Instrs)-1].(*ssa.Return); ok && x.Index < len(ret.Results) {
						n++
						if !nonNeg(ret.Results[x.Index], depth+1, seen) {
							all = false
						}
					}
				}
				if all && n > 0 {
					return true
				}
			}
		}
	case *ssa.UnOp:
		// Offset, Line and Column of a text/scanner position are never negative
		if x.Op == token.MUL {
			if fa, ok := x.X.(*ssa.FieldAddr); ok {
				if f := fieldAddrName(fa); f == "scanner.Position.Offset" || f == "scanner.Position.Line" || f == "scanner.Position.Column" {
					return true
				}
			}
		}
	case *ssa.Field:
		if st, ok := x.X.Type().Underlying().(*types.Struct); ok {
			if nt, ok := x.X.Type().(*types.Named); ok && nt.Obj().Pkg() != nil && nt.Obj().Pkg().Path() == "text/scanner" && nt.Obj().Name() == "Position" {
				switch st.Field(x.Field).Name() {
				case "Offset", "Line", "Column":
					return true
				}
			}
		}
	case *ssa.Phi:
		for _, e := range x.Edges {
			if !nonNeg(e, depth+1, seen) {
				return false
			}
		}
		return true
	case *ssa.BinOp:
		switch x.Op {
		case token.ADD, token.MUL:
			if x.Op == token.ADD {
				// a failed search returns -1: search + k is non-negative for k >= 1
				for _, pr := range [][2]ssa.Value{{x.X, x.Y}, {x.Y, x.X}} {
					if call, ok := pr[0].(*ssa.Call); ok {
						name := calleeFullName(&call.Call)
						if strings.HasPrefix(name, "strings.Index") || strings.HasPrefix(name, "strings.LastIndex") || strings.HasPrefix(name, "bytes.Index") || strings.HasPrefix(name, "bytes.LastIndex") {
							if k, ok := constInt(pr[1]); ok && k >= 1 {
								return true
							}
						}
					}
				}
			}
			return nonNeg(x.X, depth+1, seen) && nonNeg(x.Y, depth+1, seen)
		case token.SUB:
			// x - k where the subtraction is only executed when x > k-1, or x = len(text of known minimal length)
			k, ok := constInt(x.Y)
			if !ok || k < 0 {
				return false
			}
			for ifi, outcome := range controllingConds(x.Block()) {
				bo, ok := ifi.Cond.(*ssa.BinOp)
				if !ok || !(bo.X == x.X || sameContainer(bo.X, x.X)) {
					continue
				}
				if c2, ok := constInt(bo.Y); ok {
					if (bo.Op == token.GTR && outcome && c2 >= k-1) || (bo.Op == token.GEQ && outcome && c2 >= k) {
						return true
					}
					if (bo.Op == token.LEQ && !outcome && c2 >= k-1) || (bo.Op == token.LSS && !outcome && c2 >= k) {
						return true
					}
				}
			}
			if minLen(x.X) >= k {
				return true
			}
		}
	}
	return false
}

// minLen: a lower bound of len(<string>) for strings built by fmt.Sprintf with a constant format.
func minLen(v ssa.Value) int64 {
	call, ok := v.(*ssa.Call)
	if !ok {
		return 0
	}
	bi, ok := call.Call.Value.(*ssa.Builtin)
	if !ok || bi.Name() != "len" {
		return 0
	}
	sp, ok := call.Call.Args[0].(*ssa.Call)
	if !ok || calleeFullName(&sp.Call) != "fmt.Sprintf" {
		return 0
	}
	fs, ok := constString(sp.Call.Args[0])
	if !ok {
		return 0
	}
	var n int64
	for i := 0; i < len(fs); i++ {
		if fs[i] == '%' && i+1 < len(fs) {
			if fs[i+1] == '%' {
				n++
			} else if fs[i+1] == 'd' {
				n++ // at least one digit
			}
			i++
			continue
		}
		n++
	}
	return n
}

func runC01Repeat(c *Ctx) {
	p := c.P
	occ := map[string]int{}
	for _, fn := range p.Funcs {
		eachInstr(fn, func(_ *ssa.BasicBlock, _ int, in ssa.Instruction) {
			call, ok := in.(*ssa.Call)
			if !ok {
				return
			}
			name := calleeFullName(&call.Call)
			if name != "strings.Repeat" && name != "bytes.Repeat" {
				return
			}
			k := FuncName(fn) + "|" + name
			occ[k]++
			construct := fmt.Sprintf("%s#%d", k, occ[k])
			if nonNeg(call.Call.Args[1], 0, map[ssa.Value]bool{}) {
				c.ok(construct, call.Pos(), "the count is a sum of lengths/widths, decremented only when positive")
			} else {
				c.bad(construct, call.Pos(), "the count "+linOf(call.Call.Args[1], 0).String()+" is not provably non-negative: "+name+" panics with a negative count")
			}
		})
	}
}

var _ = sort.Strings
var _ = types.Typ

// ---- C10.AT ----

// Which repository a file belongs to is a function of the file's path and the file system only: a project remembered
// from an earlier lookup may be reused only when it is the project found for this path (same root), never because it
// merely contains the path (a nested repository would then be attributed to the outer one depending on lookup order).
func runC10At(c *Ctx) {
	p := c.P
	fn := p.Method("Projects", "At")
	if fn == nil {
		c.anchorMissing("(*Projects).At")
		return
	}
	n := 0
	for _, b := range fn.Blocks {
		ret, ok := b.Instrs[len(b.Instrs)-1].(*ssa.Return)
		if !ok {
			continue
		}
		// a remembered project: an element of ps.known
		v := ret.Results[0]
		ld, ok := v.(*ssa.UnOp)
		if !ok {
			continue
		}
		ia, ok := ld.X.(*ssa.IndexAddr)
		if !ok {
			continue
		}
		if f, _ := fieldLoad(ia.X); f != "Projects.known" {
			continue
		}
		n++
		construct := "(*Projects).At|reuse of a remembered project"
		okEq := false
		why := "the remembered project is returned without comparing its root with the root found for this path"
		for ifi, outcome := range controllingConds(b) {
			switch cnd := ifi.Cond.(type) {
			case *ssa.BinOp:
				if cnd.Op == token.EQL && outcome {
					// one side: root of the element; other side: result of a call that takes the path
					sides := []ssa.Value{cnd.X, cnd.Y}
					for i, s := range sides {
						o := sides[1-i]
						isRoot := false
						if call, ok := s.(*ssa.Call); ok {
							if f := staticCallee(&call.Call); f != nil && FuncName(f) == "(*Project).RootDir" && call.Call.Args[0] == v {
								isRoot = true
							}
						}
						if f, base := fieldLoad(s); f == "Project.root" && base == v {
							isRoot = true
						}
						if !isRoot {
							continue
						}
						if call, ok := o.(*ssa.Call); ok {
							for _, a := range call.Call.Args {
								if a == ssa.Value(fn.Params[1]) {
									okEq = true
								}
							}
						}
					}
				}
			case *ssa.Call:
				if f := staticCallee(&cnd.Call); f != nil && FuncName(f) == "(*Project).Knows" && outcome {
					why = "a remembered project is returned because it contains the path (Knows): a file of a repository nested in it is attributed to the outer repository when the outer one was looked up first"
				}
			}
		}
		if okEq {
			c.ok(construct, ret.Pos(), "only when its root equals the root found by walking up from this path")
		} else {
			c.bad(construct, ret.Pos(), why)
		}
	}
	if n == 0 {
		c.ok("(*Projects).At|reuse of a remembered project", fn.Pos(), "no remembered project is returned (every lookup walks the file system)")
	}
	// every answer is given after the file system was consulted for this very path
	var lookup ssa.Instruction
	eachInstr(fn, func(_ *ssa.BasicBlock, _ int, in ssa.Instruction) {
		if call, ok := in.(*ssa.Call); ok {
			if f := staticCallee(&call.Call); f != nil && (f.Name() == "findProjectRoot" || f.Name() == "findProject") {
				for _, a := range call.Call.Args {
					if a == ssa.Value(fn.Params[1]) {
						lookup = call
					}
				}
			}
		}
	})
	if lookup == nil {
		c.bad("(*Projects).At|answer after the lookup of this path", fn.Pos(), "the path itself is never looked up")
		return
	}
	okDom := true
	for _, b := range fn.Blocks {
		if ret, ok := b.Instrs[len(b.Instrs)-1].(*ssa.Return); ok {
			if !(lookup.Block() == b || lookup.Block().Dominates(b)) {
				okDom = false
				c.bad("(*Projects).At|answer after the lookup of this path", ret.Pos(), "an answer is given from remembered state before the file system was consulted for this path: the attribution of a file depends on which files were looked up earlier")
			}
		}
	}
	if okDom {
		c.ok("(*Projects).At|answer after the lookup of this path", lookup.Pos(), "every return is dominated by the lookup of this path")
	}
}

// ---- C10.CACHEKEY ----

// Per-repository caches are keyed by the repository root as is: a normalised key (lower-cased, trimmed, base name) makes two
// different repositories share one cache.
func runC10CacheKey(c *Ctx) {
	p := c.P
	n := 0
	for _, fn := range p.Funcs {
		eachInstr(fn, func(_ *ssa.BasicBlock, _ int, in ssa.Instruction) {
			var m, key ssa.Value
			what := ""
			switch x := in.(type) {
			case *ssa.Lookup:
				m, key, what = x.X, x.Index, "lookup"
			case *ssa.MapUpdate:
				m, key, what = x.Map, x.Key, "store"
			default:
				return
			}
			f, _ := fieldLoad(m)
			if f != "LocalActionsCacheFactory.caches" && f != "LocalReusableWorkflowCacheFactory.caches" {
				return
			}
			n++
			construct := fmt.Sprintf("%s|%s in %s", FuncName(fn), what, f)
			okKey := false
			if call, ok := key.(*ssa.Call); ok {
				if cf := staticCallee(&call.Call); cf != nil && FuncName(cf) == "(*Project).RootDir" {
					if _, isParam := call.Call.Args[0].(*ssa.Parameter); isParam {
						okKey = true
					}
				}
			}
			if okKey {
				c.ok(construct, in.Pos(), "keyed by the root directory of the project itself")
			} else {
				c.bad(construct, in.Pos(), "the cache of a repository is keyed by "+symName(key)+", not by its root directory as is: two repositories whose roots differ only in what the key drops share one cache of local actions / reusable workflows")
			}
		})
	}
	if n < 4 {
		c.undecided("cache factories|keys", token.NoPos, fmt.Sprintf("only %d uses of the per-project cache tables found", n))
	}
}

// ---- C16.ONCE ----

// A custom format template describes the whole output (one JSON document, one SARIF log): it is executed once per run with
// the diagnostics of all files, never once per file.
func runC16Once(c *Ctx) {
	p := c.P
	n := 0
	for _, fn := range p.Funcs {
		if fn.Signature.Recv() == nil || typeStr(fn.Signature.Recv().Type()) != "*Linter" {
			continue
		}
		for _, name := range []string{"(*ErrorFormatter).Print", "(*ErrorFormatter).PrintErrors"} {
			for _, call := range findCalls(fn, name) {
				n++
				construct := fmt.Sprintf("%s|%s", FuncName(fn), name)
				if blockInCycle(call.Block()) {
					c.bad(construct, call.Pos(), "the format template is executed inside a loop: with several files the output is several documents (e.g. `[...]` `[...]`) instead of one")
				} else {
					c.ok(construct, call.Pos(), "executed once, outside any loop")
				}
			}
		}
	}
	// in LintFiles what is printed collects the fields of every file
	if lf := p.Method("Linter", "LintFiles"); lf != nil {
		for _, call := range findCalls(lf, "(*ErrorFormatter).Print") {
			arg := call.Common().Args[2]
			n++
			if why := accumulatedOverFiles(p, arg, call.Block(), 0); why == "" {
				c.ok("(*Linter).LintFiles|all files in one document", call.Pos(), "the slice printed is carried round the loop over the per-file records, only ever extended by append with values of the current record, and that loop has no early exit")
			} else {
				c.bad("(*Linter).LintFiles|all files in one document", call.Pos(), why)
			}
		}
	}
	if n < 3 {
		c.undecided("Linter|formatter calls", token.NoPos, fmt.Sprintf("only %d formatter calls found", n))
	}
	// the loops that hand the diagnostics of one file to the renderer visit every one of them
	runC16OnceEvery(c)
}

// accumulatedOverFiles: v (used in block use) is a slice accumulated over ALL per-file records: the phi of a loop header
// whose back-edge values are reached from the phi itself through append steps only (on every path round the loop, inner
// loops included - never re-made inside), every appended value derives from the record the loop is at (an element, at the
// loop's own counter, of a slice of structs that hold a []*Error), and no edge leaves the loop except from its header.
// Returns "" or what is wrong.
func accumulatedOverFiles(p *Prog, v ssa.Value, use *ssa.BasicBlock, depth int) string {
	const notAcc = "what is printed is not a slice accumulated by a loop over the files"
	if depth > 3 {
		return notAcc
	}
	switch x := v.(type) {
	case *ssa.Call:
		// built by a helper: what the helper returns
		g := staticCallee(&x.Call)
		if g == nil || !inModule(g) || g.Blocks == nil || g.Signature.Results().Len() != 1 {
			return notAcc
		}
		for _, b := range g.Blocks {
			if ret, ok := b.Instrs[len(b.Instrs)-1].(*ssa.Return); ok {
				if why := accumulatedOverFiles(p, ret.Results[0], b, depth+1); why != "" {
					return why
				}
			}
		}
		return ""
	case *ssa.Phi:
		isHeader := false
		for _, h := range loopHeaders(x.Parent()) {
			if h == x.Block() {
				isHeader = true
			}
		}
		if !isHeader {
			for _, e := range x.Edges {
				if why := accumulatedOverFiles(p, e, x.Block(), depth+1); why != "" {
					return why
				}
			}
			return ""
		}
		head := x.Block()
		body := naturalLoop(head)
		if body[use] && use != head {
			return "the format template is handed a slice that is still being filled (inside the loop over the files)"
		}
		var appends []*ssa.Call
		state := map[ssa.Value]int{} // 1 in progress / true, 2 false
		var carries func(w ssa.Value) bool
		carries = func(w ssa.Value) bool {
			if w == ssa.Value(x) || state[w] == 1 {
				return true
			}
			if state[w] == 2 {
				return false
			}
			state[w] = 1
			ok := false
			switch y := w.(type) {
			case *ssa.Phi:
				ok = body[y.Block()]
				for _, e := range y.Edges {
					if !carries(e) {
						ok = false
					}
				}
			case *ssa.Call:
				if bi, isB := y.Call.Value.(*ssa.Builtin); isB && bi.Name() == "append" {
					appends = append(appends, y)
					ok = carries(y.Call.Args[0])
				}
			}
			if !ok {
				state[w] = 2
			}
			return ok
		}
		back := 0
		for i, e := range x.Edges {
			if !body[head.Preds[i]] {
				continue
			}
			back++
			if !carries(e) {
				return "the slice handed to the format template is made anew inside the loop over the files (" + symName(e) + " does not extend what the earlier files gave): only the last file reaches the template"
			}
		}
		if back == 0 || len(appends) == 0 {
			return notAcc
		}
		// the loop runs over the per-file records and what is appended comes from the record it is at
		perFile := func(w ssa.Value) bool {
			ia, ok := w.(*ssa.IndexAddr)
			if !ok {
				return false
			}
			ix, ok := ia.Index.(ssa.Instruction)
			if !ok || ix.Block() != head {
				return false
			}
			var elem types.Type
			switch t := ia.X.Type().Underlying().(type) {
			case *types.Slice:
				elem = t.Elem()
			case *types.Pointer:
				if arr, ok := t.Elem().Underlying().(*types.Array); ok {
					elem = arr.Elem()
				}
			}
			if elem == nil {
				return false
			}
			if pt, ok := elem.Underlying().(*types.Pointer); ok {
				elem = pt.Elem()
			}
			st, ok := elem.Underlying().(*types.Struct)
			if !ok {
				return false
			}
			for i := 0; i < st.NumFields(); i++ {
				if typeStr(st.Field(i).Type()) == "[]*Error" {
					return true
				}
			}
			return false
		}
		for _, app := range appends {
			if !body[app.Block()] {
				continue
			}
			if !backReaches(app.Call.Args[1], perFile) {
				return "the loop that fills the slice handed to the format template is not the loop over the per-file records, or what it appends (" + p.Pos(app.Pos()) + ") does not come from the record it is at: not every file reaches the template"
			}
		}
		for b := range body {
			for _, s := range b.Succs {
				if !body[s] && b != head {
					return "the loop over the files that fills the slice handed to the format template is left early: the files after that point do not reach the template"
				}
			}
		}
		return ""
	}
	return notAcc
}

// backReaches: some value that v is computed from (operands, the stores into the locals and argument arrays it reads)
// satisfies hit.
func backReaches(v ssa.Value, hit func(ssa.Value) bool) bool {
	seen := map[ssa.Value]bool{}
	var walk func(w ssa.Value, d int) bool
	walk = func(w ssa.Value, d int) bool {
		if w == nil || seen[w] || d > 30 || len(seen) > 500 {
			return false
		}
		seen[w] = true
		if hit(w) {
			return true
		}
		if al, ok := w.(*ssa.Alloc); ok {
			for _, ref := range *al.Referrers() {
				switch r := ref.(type) {
				case *ssa.Store:
					if r.Addr == ssa.Value(al) && walk(r.Val, d+1) {
						return true
					}
				case *ssa.IndexAddr, *ssa.FieldAddr:
					for _, r2 := range *r.(ssa.Value).Referrers() {
						if st, ok := r2.(*ssa.Store); ok && st.Addr == r.(ssa.Value) && walk(st.Val, d+1) {
							return true
						}
					}
				}
			}
			return false
		}
		in, ok := w.(ssa.Instruction)
		if !ok {
			return false
		}
		for _, op := range in.Operands(nil) {
			if *op != nil && walk(*op, d+1) {
				return true
			}
		}
		return false
	}
	return walk(v, 0)
}

// ---- C17.STATELESS ----

// Whether a filter value is validated, and by which validator, depends on that value and the kind of its filter only.
func runC17Stateless(c *Ctx) {
	p := c.P
	isValidator := func(f *ssa.Function) string {
		if f != nil && inModule(f) && (f.Name() == "ValidateRefGlob" || f.Name() == "ValidatePathGlob") {
			return f.Name()
		}
		return ""
	}
	funcValue := func(v ssa.Value) *ssa.Function {
		switch x := unwrap(v).(type) {
		case *ssa.Function:
			return x
		case *ssa.MakeClosure:
			if f, ok := x.Fn.(*ssa.Function); ok {
				return f
			}
		}
		return nil
	}
	doneG := map[*ssa.Function]bool{}
	nSites := 0
	sitesOf := map[string][]*ssa.Call{} // filter field -> the calls that hand it to a checking function
	for _, caller := range p.Funcs {
		if !strings.HasSuffix(p.unitFile(caller), "/rule_glob.go") {
			continue
		}
		eachInstr(caller, func(_ *ssa.BasicBlock, _ int, in ssa.Instruction) {
			call, ok := in.(*ssa.Call)
			if !ok {
				return
			}
			g := staticCallee(&call.Call)
			if g == nil || !inModule(g) || g.Blocks == nil {
				return
			}
			// a filter of a webhook event handed to g
			field, ai := "", -1
			for i, a := range call.Call.Args {
				if f, _ := fieldLoad(a); strings.HasPrefix(f, "WebhookEvent.") && strings.HasSuffix(typeStr(a.Type()), "WebhookEventFilter") {
					field, ai = f, i
				}
			}
			if ai < 0 {
				return
			}
			nSites++
			sitesOf[field] = append(sitesOf[field], call)
			// the validators g applies: called directly, or through a function parameter that this call site fills
			applied := map[string]bool{}
			var vcalls []ssa.CallInstruction
			eachInstr(g, func(_ *ssa.BasicBlock, _ int, in2 ssa.Instruction) {
				c2, ok := in2.(ssa.CallInstruction)
				if !ok {
					return
				}
				if n := isValidator(staticCallee(c2.Common())); n != "" {
					applied[n] = true
					vcalls = append(vcalls, c2)
					return
				}
				if prm, ok := c2.Common().Value.(*ssa.Parameter); ok && !c2.Common().IsInvoke() {
					for k, q := range g.Params {
						if q == prm && k < len(call.Call.Args) {
							if n := isValidator(funcValue(call.Call.Args[k])); n != "" {
								applied[n] = true
								vcalls = append(vcalls, c2)
							} else {
								applied["a function that is not one of the two validators"] = true
							}
						}
					}
				}
			})
			isRef := strings.Contains(field, "Branches") || strings.Contains(field, "Tags")
			want := "ValidatePathGlob"
			if isRef {
				want = "ValidateRefGlob"
			}
			construct := fmt.Sprintf("%s|%s validated as %s", FuncName(caller), field, strings.TrimPrefix(want, "Validate"))
			if len(applied) == 1 && applied[want] {
				c.ok(construct, call.Pos(), "filter and validator agree")
			} else {
				var got []string
				for n := range applied {
					got = append(got, n)
				}
				sort.Strings(got)
				c.bad(construct, call.Pos(), "a "+field+" filter is validated with "+strings.Join(got, ", ")+" (expected "+want+")")
			}
			// every non-empty value of the filter reaches the validator, whatever was validated before
			if doneG[g] || len(vcalls) == 0 {
				return
			}
			doneG[g] = true
			construct = FuncName(g) + "|every value validated"
			var extras []string
			for _, vc := range vcalls {
				for ifi, outcome := range controllingConds(vc.Block()) {
					cc := classifyCond(ifi, outcome)
					switch {
					case cc.kind == "loop":
					case cc.kind == "nilparam" && !cc.out:
					default:
						// v.Value != ""
						if bo, ok := ifi.Cond.(*ssa.BinOp); ok && (bo.Op == token.NEQ || bo.Op == token.EQL) {
							if f, _ := fieldLoad(bo.X); f == "String.Value" {
								if s, ok := constString(bo.Y); ok && s == "" {
									continue
								}
							}
						}
						extras = append(extras, cc.kind+" "+cc.field+cc.table)
					}
				}
			}
			sort.Strings(extras)
			if len(extras) == 0 {
				c.ok(construct, vcalls[0].Pos(), "for every non-empty value of the filter, unconditionally")
			} else {
				c.bad(construct, vcalls[0].Pos(), "whether a value is validated also depends on: "+strings.Join(extras, "; ")+" - a value skipped because of earlier values is not reported")
			}
		})
	}
	if nSites == 0 {
		c.anchorMissing("a webhook event filter handed to a checking function in rule_glob.go")
	}
	if nSites > 0 {
		c17EveryFilterKind(c, sitesOf)
	}
}

// ---- C18.ORDER ----

// The reconstruction relies on meeting the neighbours in the same order as the search did (the first neighbour that is
// still active is then the tree child, never an ancestor whose back edge the search would have reported first): both
// functions iterate jobNode.resolved of the node itself.
func runC18Order(c *Ctx) {
	p := c.P
	for _, name := range []string{"detectCyclicNode", "collectCycle"} {
		fn := p.Func(name)
		if fn == nil {
			c.anchorMissing(name)
			continue
		}
		construct := name + "|iterates the node's own resolved list"
		recs := findCalls(fn, name)
		if len(recs) == 0 {
			c.bad(construct, fn.Pos(), "no recursive call")
			continue
		}
		ok := true
		why := ""
		for _, rec := range recs {
			// the argument is an element of <param0>.resolved loaded through the range loop
			arg := rec.Common().Args[0]
			base, _, isElem := elemIndex(arg)
			if !isElem {
				ok, why = false, "the visited neighbour is not an element of a slice"
				continue
			}
			f, b := fieldLoad(base)
			if f != "jobNode.resolved" || b != ssa.Value(fn.Params[0]) {
				ok, why = false, "the neighbours are taken from "+symName(base)+" instead of the node's resolved list as stored"
			}
		}
		if ok {
			c.ok(construct, recs[0].Pos(), "range over <node>.resolved in stored order")
		} else {
			c.bad(construct, recs[0].Pos(), why+": search and reconstruction may disagree on the path, and the printed sequence is then not a cycle (or the message loop does not terminate)")
		}
	}
}

// ---- C15.CONFPAT ----

// Every ignore pattern of the configuration file is compiled on its own from the text of its own sequence element.
func runC15ConfPat(c *Ctx) {
	p := c.P
	fn := p.Method("IgnorePatterns", "UnmarshalYAML")
	if fn == nil {
		c.anchorMissing("(*IgnorePatterns).UnmarshalYAML")
		return
	}
	// the value stored through the receiver
	var stored ssa.Value
	eachInstr(fn, func(_ *ssa.BasicBlock, _ int, in ssa.Instruction) {
		if st, ok := in.(*ssa.Store); ok && st.Addr == ssa.Value(fn.Params[0]) {
			stored = st.Val
		}
	})
	if stored == nil {
		c.bad("(*IgnorePatterns).UnmarshalYAML|patterns stored", fn.Pos(), "the pattern list is never stored")
		return
	}
	var compiled []*ssa.Call
	bad := ""
	seen := map[ssa.Value]bool{}
	var walk func(v ssa.Value)
	walk = func(v ssa.Value) {
		if seen[v] {
			return
		}
		seen[v] = true
		switch x := v.(type) {
		case *ssa.Phi:
			for _, e := range x.Edges {
				walk(e)
			}
		case *ssa.ChangeType:
			walk(x.X)
		case *ssa.MakeSlice, *ssa.Const:
		case *ssa.Slice:
			// a composite literal IgnorePatterns{r}
			if al, ok := x.X.(*ssa.Alloc); ok {
				for _, ref := range *al.Referrers() {
					if ia, ok := ref.(*ssa.IndexAddr); ok {
						for _, r2 := range *ia.Referrers() {
							if st, ok := r2.(*ssa.Store); ok {
								walkElem(st.Val, &compiled, &bad)
							}
						}
					}
				}
			}
		case *ssa.Call:
			if b, ok := x.Call.Value.(*ssa.Builtin); ok && b.Name() == "append" {
				walk(x.Call.Args[0])
				elems, ok := variadicArgs(x.Call.Args[1])
				if !ok {
					bad = "a whole slice of regexps is appended"
					return
				}
				for _, e := range elems {
					walkElem(e, &compiled, &bad)
				}
				return
			}
			bad = "the list comes from " + describeCall(x)
		default:
			bad = "the list is built in an unrecognised way"
		}
	}
	walk(stored)
	if bad != "" || len(compiled) == 0 {
		c.bad("(*IgnorePatterns).UnmarshalYAML|one regexp per element", fn.Pos(), "not every stored regexp is regexp.Compile of one element: "+bad)
		return
	}
	for i, call := range compiled {
		construct := fmt.Sprintf("(*IgnorePatterns).UnmarshalYAML|source of regexp#%d", i+1)
		f, base := fieldLoad(call.Call.Args[0])
		isElem := elemOrItsAlias(base, 0)
		if f == "yaml.Node.Value" && isElem && blockInCycle(call.Block()) {
			c.ok(construct, call.Pos(), "compiled from the Value of one element of the sequence, once per element")
		} else {
			c.bad(construct, call.Pos(), "the regexp is compiled from "+symName(call.Call.Args[0])+", not from the text of one sequence element: patterns influence each other (flags, alternation precedence)")
		}
	}
}

func walkElem(e ssa.Value, compiled *[]*ssa.Call, bad *string) {
	ex, ok := e.(*ssa.Extract)
	if !ok {
		*bad = "an element is not the result of regexp.Compile"
		return
	}
	call, ok := ex.Tuple.(*ssa.Call)
	if !ok || calleeFullName(&call.Call) != "regexp.Compile" {
		*bad = "an element is not the result of regexp.Compile"
		return
	}
	*compiled = append(*compiled, call)
}

// ---- C11.FILTER ----

// After `.*` the value is an array whatever the receiver was, so the index that may follow is an index into that array: the
// matcher has to remember the filter on every path through onObjectFilter.
func runC11Filter(c *Ctx) {
	p := c.P
	fn := p.Method("UntrustedInputChecker", "onObjectFilter")
	if fn == nil {
		c.anchorMissing("(*UntrustedInputChecker).onObjectFilter")
		return
	}
	var sets []*ssa.Store
	eachInstr(fn, func(_ *ssa.BasicBlock, _ int, in ssa.Instruction) {
		if st, ok := in.(*ssa.Store); ok {
			if fa, ok := st.Addr.(*ssa.FieldAddr); ok && fieldAddrName(fa) == "UntrustedInputChecker.filteringObject" {
				if k, ok := st.Val.(*ssa.Const); ok && k.Value != nil && k.Value.String() == "true" {
					sets = append(sets, st)
				}
			}
		}
	})
	all := len(sets) > 0
	for _, b := range fn.Blocks {
		if _, ok := b.Instrs[len(b.Instrs)-1].(*ssa.Return); ok {
			cov := false
			for _, s := range sets {
				if s.Block() == b || s.Block().Dominates(b) {
					cov = true
				}
			}
			if !cov {
				all = false
			}
		}
	}
	if all {
		c.ok("(*UntrustedInputChecker).onObjectFilter|filter remembered", fn.Pos(), "filteringObject is set on every path")
	} else {
		c.bad("(*UntrustedInputChecker).onObjectFilter|filter remembered", fn.Pos(), "a path through the `.*` handler does not remember that a filter was applied: an index after it (`commits.*.message[0]`) is matched as a property and the untrusted input is missed")
	}
	// the flag is consumed by the index handler and cleared by reset
	oi := p.Method("UntrustedInputChecker", "onIndexAccess")
	if oi == nil {
		c.anchorMissing("(*UntrustedInputChecker).onIndexAccess")
		return
	}
	reads := false
	eachInstr(oi, func(_ *ssa.BasicBlock, _ int, in ssa.Instruction) {
		if ld, ok := in.(*ssa.UnOp); ok {
			if f, _ := fieldLoad(ld); f == "UntrustedInputChecker.filteringObject" {
				reads = true
			}
		}
	})
	if reads {
		c.ok("(*UntrustedInputChecker).onIndexAccess|filter consulted", oi.Pos(), "the index handler distinguishes an index after a filter")
	} else {
		c.bad("(*UntrustedInputChecker).onIndexAccess|filter consulted", oi.Pos(), "the index handler does not look at the filter flag")
	}
}

// ---- C02.SRC ----

// Values that differ from run to run (clock, random numbers, process ids, host names, pointer formatting) never reach a
// diagnostic or the result output; they may only feed the verbose/debug log.
func runC02Src(c *Ctx) {
	p := c.P
	srcs := map[string]bool{"time.Now": true, "time.Since": true, "os.Getpid": true, "os.Getppid": true, "os.Hostname": true}
	occ := map[string]int{}
	// what a call does with a run-dependent value (or under a run-dependent condition)
	const (
		callLog   = iota // verbose/debug log
		callPure         // computes on the value: follow the result
		callSink         // builds a diagnostic or text of unknown destination
		callOther        // anything else
	)
	classify := func(r *ssa.Call) (int, string) {
		cn := calleeFullName(&r.Call)
		if f := staticCallee(&r.Call); f != nil && inPkgName(f) {
			cn = FuncName(f)
		}
		switch {
		case cn == "(*Linter).log" || cn == "(*Linter).debug" || cn == "(*Visitor).reportElapsedTime" || strings.HasSuffix(cn, ").Debug") || strings.HasSuffix(cn, ").debug"):
			return callLog, cn
		case cn == "time.Since" || cn == "time.Now" || strings.HasPrefix(cn, "(time.Time).") || strings.HasPrefix(cn, "(time.Duration)."):
			return callPure, cn
		case strings.HasPrefix(cn, "fmt.Fprint"):
			// writing to a debug/log writer is fine
			if f, _ := fieldLoad(unwrap(r.Call.Args[0])); strings.HasSuffix(f, ".dbg") || strings.HasSuffix(f, ".logOut") {
				return callLog, cn
			}
			return callSink, cn + " to " + symName(r.Call.Args[0])
		case emitsDiag(r) || cn == "(*RuleBase).Errorf" || cn == "(*RuleBase).Error" || strings.HasPrefix(cn, "fmt.Sprint") || cn == "fmt.Errorf":
			return callSink, cn
		}
		return callOther, cn
	}
	for _, fn := range p.Funcs {
		eachInstr(fn, func(_ *ssa.BasicBlock, _ int, in ssa.Instruction) {
			call, ok := in.(*ssa.Call)
			if !ok {
				return
			}
			name := calleeFullName(&call.Call)
			if !srcs[name] && !strings.HasPrefix(name, "math/rand.") && !strings.HasPrefix(name, "math/rand/v2.") && !strings.HasPrefix(name, "crypto/rand.") {
				return
			}
			k := FuncName(fn) + "|" + name
			occ[k]++
			construct := fmt.Sprintf("%s#%d", k, occ[k])
			// forward slice, data and control: a branch decided by the value may only choose what is logged
			bad := ""
			seen := map[ssa.Value]bool{}
			seenIf := map[*ssa.If]bool{}
			badDepth := 0
			setBad := func(d int, s string) { // the shortest chain from the source names the finding
				if bad == "" || d < badDepth {
					bad, badDepth = s, d
				}
			}
			var walk func(v ssa.Value, d int)
			var underBranch func(ifi *ssa.If, d int)
			walk = func(v ssa.Value, d int) {
				if d > 10 || seen[v] || v.Referrers() == nil {
					return
				}
				seen[v] = true
				for _, ref := range *v.Referrers() {
					switch r := ref.(type) {
					case *ssa.If:
						underBranch(r, d)
					case *ssa.Call:
						switch kind, what := classify(r); kind {
						case callLog:
						case callSink:
							setBad(d, what)
						default:
							walk(r, d+1)
							// into the module function that receives the value: what its parameter decides there
							for _, g := range p.calleesOf(r) {
								if g.Blocks == nil || !inModule(g) {
									continue
								}
								args := r.Call.Args
								if r.Call.IsInvoke() {
									args = append([]ssa.Value{r.Call.Value}, args...)
								}
								for i, a := range args {
									if a == v && i < len(g.Params) {
										walk(g.Params[i], d+1)
									}
								}
							}
						}
					case *ssa.Return:
						// out of the function: the result at every call site
						g := r.Parent()
						for i, res := range r.Results {
							if res != v {
								continue
							}
							for _, e := range p.callersOf(g) {
								site, ok := e.Site.(*ssa.Call)
								if !ok {
									continue
								}
								if len(r.Results) == 1 {
									walk(site, d+1)
									continue
								}
								for _, r2 := range *site.Referrers() {
									if ex, ok := r2.(*ssa.Extract); ok && ex.Index == i {
										walk(ex, d+1)
									}
								}
							}
						}
					case *ssa.Store:
						if al, ok := r.Addr.(*ssa.Alloc); ok {
							walk(al, d+1)
							for _, r2 := range *al.Referrers() {
								if ld, ok := r2.(*ssa.UnOp); ok {
									walk(ld, d+1)
								}
							}
						} else if fa, ok := r.Addr.(*ssa.FieldAddr); ok {
							setBad(d, "field "+fieldAddrName(fa))
						} else if ia, ok := r.Addr.(*ssa.IndexAddr); ok {
							// an element of a variadic argument list
							if al, ok := ia.X.(*ssa.Alloc); ok {
								for _, r2 := range *al.Referrers() {
									if sl, ok := r2.(*ssa.Slice); ok {
										walk(sl, d+1)
									}
								}
							}
						}
					case ssa.Value:
						walk(r, d+1)
					}
				}
			}
			underBranch = func(ifi *ssa.If, d int) {
				if seenIf[ifi] {
					return
				}
				seenIf[ifi] = true
				b := ifi.Block()
				where := "a branch on it (" + p.Pos(ifi.Cond.Pos()) + ") that decides "
				region := map[*ssa.BasicBlock]bool{}
				for _, s := range b.Succs {
					if len(s.Preds) != 1 {
						continue
					}
					for _, x := range b.Parent().Blocks {
						if s.Dominates(x) {
							region[x] = true
						}
					}
				}
				for _, x := range b.Parent().Blocks {
					if !region[x] {
						// what the arms computed differently is selected by the branch
						fromArm := false
						for _, pr := range x.Preds {
							if pr == b || region[pr] {
								fromArm = true
							}
						}
						if fromArm {
							for _, in := range x.Instrs {
								if ph, ok := in.(*ssa.Phi); ok {
									walk(ph, d+1)
								}
							}
						}
						continue
					}
					for _, in := range x.Instrs {
						switch r := in.(type) {
						case *ssa.Call:
							switch kind, what := classify(r); kind {
							case callLog, callPure:
							case callSink:
								if !strings.HasPrefix(what, "fmt.Sprint") && what != "fmt.Errorf" {
									setBad(d, where+"whether "+what+" is called")
								}
							default:
								_, isBuiltin := r.Call.Value.(*ssa.Builtin)
								g := staticCallee(&r.Call)
								computes := false
								for _, pre := range []string{"strings.", "strconv.", "time.", "math.", "unicode.", "unicode/utf8.", "errors.", "bytes.", "path.", "path/filepath."} {
									if strings.HasPrefix(what, pre) {
										computes = true
									}
								}
								if !isBuiltin && (g == nil || inModule(g) || !computes) {
									setBad(d, where+"whether "+what+" is called")
								}
							}
						case *ssa.Store:
							if al, ok := r.Addr.(*ssa.Alloc); ok {
								walk(al, d+1)
								for _, r2 := range *al.Referrers() {
									if ld, ok := r2.(*ssa.UnOp); ok {
										walk(ld, d+1)
									}
								}
								continue
							}
							if ia, ok := r.Addr.(*ssa.IndexAddr); ok {
								if _, ok := ia.X.(*ssa.Alloc); ok {
									continue // a variadic argument list
								}
							}
							what := "a store"
							if fa, ok := r.Addr.(*ssa.FieldAddr); ok {
								what = "a store to field " + fieldAddrName(fa)
							}
							setBad(d, where+"whether "+what+" happens")
						case *ssa.MapUpdate:
							setBad(d, where+"whether a map is updated")
						case *ssa.Send:
							setBad(d, where+"whether a value is sent")
						case *ssa.Go, *ssa.Defer, *ssa.Panic:
							setBad(d, where+"whether "+in.String()+" happens")
						case *ssa.Return:
							if len(r.Results) > 0 {
								setBad(d, where+"what is returned")
							}
						}
					}
				}
			}
			walk(call, 0)
			if bad == "" {
				c.ok(construct, call.Pos(), "only feeds elapsed-time figures of the verbose/debug log; no branch on it decides more than what is logged")
			} else {
				c.bad(construct, call.Pos(), "a value that differs from run to run reaches "+bad+": the output is not a function of the inputs")
			}
		})
	}
}

// ---- C01.EXTPANIC ----

// External parsers that are known to panic on some input must only be called when that input was excluded first.
// robfig/cron v3.0.1 Parser.Parse slices spec[eq+1:i] with i = strings.Index(spec, " ") when the spec starts with "TZ=" or
// "CRON_TZ=": without a space i is -1 and the slice expression panics.
func runC01ExtPanic(c *Ctx) {
	p := c.P
	n := 0
	for _, fn := range p.Funcs {
		eachInstr(fn, func(_ *ssa.BasicBlock, _ int, in ssa.Instruction) {
			call, ok := in.(*ssa.Call)
			if !ok || calleeFullName(&call.Call) != "(github.com/robfig/cron/v3.Parser).Parse" {
				return
			}
			n++
			construct := FuncName(fn) + "|cron.Parser.Parse"
			spec := call.Call.Args[1]
			seen := map[string]bool{}
			sawSpace := false
			eachInstr(fn, func(b2 *ssa.BasicBlock, _ int, in2 ssa.Instruction) {
				c2, ok := in2.(*ssa.Call)
				if !ok || !(c2.Block() == call.Block() || reachableBlocks(c2.Block().Succs, nil)[call.Block()]) || call.Block().Dominates(c2.Block()) && c2.Block() != call.Block() {
					return
				}
				switch calleeFullName(&c2.Call) {
				case "strings.HasPrefix":
					if sameContainer(c2.Call.Args[0], spec) || c2.Call.Args[0] == spec {
						if s, ok := constString(c2.Call.Args[1]); ok {
							seen[s] = true
						}
					}
				case "strings.Contains", "strings.Index", "strings.IndexByte", "strings.ContainsRune":
					if sameContainer(c2.Call.Args[0], spec) || c2.Call.Args[0] == spec {
						sawSpace = true
					}
				}
			})
			// the guard must be able to leave before the call: some return is reachable without passing the call
			guardReturns := false
			for _, b := range fn.Blocks {
				if _, ok := b.Instrs[len(b.Instrs)-1].(*ssa.Return); ok && !call.Block().Dominates(b) && b != call.Block() {
					guardReturns = true
				}
			}
			if seen["TZ="] && seen["CRON_TZ="] && sawSpace && guardReturns {
				c.ok(construct, call.Pos(), "only called after the time-zone prefixes without a following space were excluded")
			} else {
				c.bad(construct, call.Pos(), "cron.Parser.Parse is called with workflow text that may be `TZ=...` / `CRON_TZ=...` without a space: the library panics (slice bounds out of range) and actionlint crashes instead of reporting the schedule")
			}
		})
	}
	if n == 0 {
		c.undecided("cron.Parser.Parse|calls", token.NoPos, "no call of the cron parser found")
	}
}

// elemOrItsAlias: the node is one element of a sequence, or the node that element is an alias of (yaml.Node.Alias), or a
// join of the two.
func elemOrItsAlias(v ssa.Value, depth int) bool {
	if depth > 4 {
		return false
	}
	if _, _, ok := elemIndex(v); ok {
		return true
	}
	if ph, ok := v.(*ssa.Phi); ok {
		for _, e := range ph.Edges {
			if !elemOrItsAlias(e, depth+1) {
				return false
			}
		}
		return len(ph.Edges) > 0
	}
	if f, base := fieldLoad(v); f == "yaml.Node.Alias" {
		return elemOrItsAlias(base, depth+1)
	}
	return false
}
