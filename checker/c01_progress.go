package main

// C01, "never hangs": every loop that is not a range loop and every recursion of the module must match a recognised progress
// argument, or be delegated to the rule that decides it (lexer bisimulation, grammar extraction, glob progress, DFS colours).

import (
	"fmt"
	"go/token"
	"go/types"
	"sort"
	"strings"

	"golang.org/x/tools/go/callgraph"
	"golang.org/x/tools/go/ssa"
)

func init() {
	register(&Rule{ID: "C01.LOOP", Min: 25, Doc: "every non-range loop has a progress argument (counter, strict suffix, consuming read, or a delegating rule)", Run: runC01Loop})
	register(&Rule{ID: "C01.REC", Min: 8, Doc: "every recursion descends into a strict part of its argument, or is delegated to the rule that bounds it", Run: runC01Rec})
}

func loopHeaders(fn *ssa.Function) []*ssa.BasicBlock {
	var out []*ssa.BasicBlock
	for _, b := range fn.Blocks {
		for _, pr := range b.Preds {
			if b.Dominates(pr) {
				out = append(out, b)
				break
			}
		}
	}
	return out
}

func definedIn(v ssa.Value, body map[*ssa.BasicBlock]bool) bool {
	in, ok := v.(ssa.Instruction)
	return ok && in.Block() != nil && body[in.Block()]
}

// isRangeLoop: loops go/ssa generates for `range` over slices, arrays, strings, maps, channels and integers.
func isRangeLoop(h *ssa.BasicBlock) bool {
	return strings.HasPrefix(h.Comment, "rangeindex") || strings.HasPrefix(h.Comment, "rangeiter") || strings.HasPrefix(h.Comment, "rangeint")
}

func runC01Loop(c *Ctx) {
	p := c.P
	occ := map[string]int{}
	for _, fn := range p.Funcs {
		for _, h := range loopHeaders(fn) {
			if isRangeLoop(h) {
				continue
			}
			body := naturalLoop(h)
			k := FuncName(fn) + "|loop"
			occ[k]++
			construct := fmt.Sprintf("%s#%d", k, occ[k])
			pos := token.NoPos
			for _, in := range h.Instrs {
				if in.Pos().IsValid() {
					pos = in.Pos()
					break
				}
			}
			if !pos.IsValid() {
				for b := range body {
					for _, in := range b.Instrs {
						if in.Pos().IsValid() && (!pos.IsValid() || in.Pos() < pos) {
							pos = in.Pos()
						}
					}
				}
			}
			if why := loopProgress(p, fn, h, body); why != "" {
				c.ok(construct, pos, why)
			} else {
				c.bad(construct, pos, "no progress argument recognised for this loop (not a counter with a fixed bound, not a strictly shrinking string/slice, no consuming read with an exit on its failure, not covered by the lexer/parser/glob/DFS rules): it may not terminate")
			}
		}
	}
}

func loopProgress(p *Prog, fn *ssa.Function, h *ssa.BasicBlock, body map[*ssa.BasicBlock]bool) string {
	// delegation by owner
	if fn.Signature.Recv() != nil {
		switch typeStr(fn.Signature.Recv().Type()) {
		case "*ExprLexer":
			return "lexer loop: every iteration consumes a character and the documented automaton leaves every state on EOF (C04.LEX bisimulation)"
		case "*ExprParser":
			if strings.HasPrefix(fn.Name(), "parse") {
				return "parser loop: every cycle of the extracted production consumes a token (C04.GRAMMAR, no cycle without a letter)"
			}
		case "*globValidator":
			return "glob validator loop: consumes a character per iteration and stops at EOF (C17.TERM)"
		}
	}
	// token loops over the lexer: exit on the End token, which the lexer returns at `}}`, at EOF and after every error
	callsNext := false
	for b := range body {
		for _, in := range b.Instrs {
			if call, ok := in.(*ssa.Call); ok {
				if f := staticCallee(&call.Call); f != nil && FuncName(f) == "(*ExprLexer).Next" {
					callsNext = true
				}
			}
		}
	}
	if callsNext {
		for b := range body {
			ifi, ok := b.Instrs[len(b.Instrs)-1].(*ssa.If)
			if !ok {
				continue
			}
			if bo, ok := ifi.Cond.(*ssa.BinOp); ok && (bo.Op == token.EQL || bo.Op == token.NEQ) {
				if f, _ := fieldLoad(bo.X); f == "Token.Kind" {
					if k, ok := bo.Y.(*ssa.Const); ok {
						if tk := p.tokenKinds(); tk != nil {
							if v, ok := constInt(k); ok && int(v) < len(tk.names) && tk.names[v] == "End" {
								exitSucc := 0
								if bo.Op == token.NEQ {
									exitSucc = 1
								}
								if !body[b.Succs[exitSucc]] {
									return "token loop: one lexer token per iteration, exit on the End token (the lexer consumes input per token and returns End at EOF and after an error: C04.LEX)"
								}
							}
						}
					}
				}
			}
		}
	}
	// cycle walk: x = m[x] over the edge map that collectCycle filled, until x is back at the start. The invariant (every
	// value of the map is again a key, the keys form one cycle that contains the start) is what C18.CYCLE and
	// C09.CYCLESTART establish; here only the shape and the provenance of the map are checked, wherever the loop lives.
	for b := range body {
		for _, in := range b.Instrs {
			lk, ok := in.(*ssa.Lookup)
			if !ok || lk.CommaOk {
				continue
			}
			mt, ok := lk.X.Type().Underlying().(*types.Map)
			if !ok || !types.Identical(mt.Key(), mt.Elem()) {
				continue
			}
			if _, isPtr := mt.Key().(*types.Pointer); !isPtr {
				continue
			}
			feeds := false
			for _, hin := range h.Instrs {
				if ph, ok := hin.(*ssa.Phi); ok {
					for _, e := range ph.Edges {
						if e == ssa.Value(lk) {
							feeds = true
						}
					}
				}
			}
			if feeds && edgeMapOfCollectCycle(p, fn, lk.X, 0) {
				return "cycle walk x = m[x] over the edge map filled by collectCycle: its values are keys again and its keys form one cycle through the start (C18.CYCLE, C09.CYCLESTART)"
			}
		}
	}
	// (1) counter
	for _, in := range h.Instrs {
		ph, ok := in.(*ssa.Phi)
		if !ok {
			break
		}
		b, ok := ph.Type().Underlying().(*types.Basic)
		if !ok || b.Info()&types.IsInteger == 0 {
			continue
		}
		inc := true
		nBack := 0
		for i, e := range ph.Edges {
			if !body[h.Preds[i]] {
				continue
			}
			nBack++
			lf := linOf(e, 0)
			d := linAdd(lf, linForm{symName(ph): 1}, -1)
			if len(linWithout(d, "1")) != 0 && !onlyZero(linWithout(d, "1")) || d["1"] <= 0 {
				inc = false
			}
		}
		if !inc || nBack == 0 {
			continue
		}
		// an exit taken when `counter (+k) < bound` fails, bound loop-invariant
		for bb := range body {
			ifi, ok := bb.Instrs[len(bb.Instrs)-1].(*ssa.If)
			if !ok {
				continue
			}
			bo, ok := ifi.Cond.(*ssa.BinOp)
			if !ok || (bo.Op != token.LSS && bo.Op != token.LEQ) {
				continue
			}
			if body[bb.Succs[1]] {
				continue // the false edge stays in the loop: not an exit on reaching the bound
			}
			lx := linOf(bo.X, 0)
			if lx[symName(ph)] <= 0 {
				continue
			}
			if boundInvariant(bo.Y, body) {
				return "counted loop: " + symName(ph) + " only grows and the loop is left when it reaches a bound that does not change in the loop"
			}
		}
	}
	// (2) strictly shrinking string/slice
	for _, in := range h.Instrs {
		ph, ok := in.(*ssa.Phi)
		if !ok {
			break
		}
		switch t := ph.Type().Underlying().(type) {
		case *types.Slice:
		case *types.Basic:
			if t.Info()&types.IsString == 0 {
				continue
			}
		default:
			continue
		}
		all, nBack := true, 0
		for i, e := range ph.Edges {
			if !body[h.Preds[i]] {
				continue
			}
			nBack++
			if !strictSuffixOf(e, ph, fn, body, 0) {
				all = false
			}
		}
		if all && nBack > 0 {
			return "shrinking loop: " + symName(ph) + " is replaced by a strict suffix of itself on every iteration"
		}
	}
	// (2b) directory fixpoint: d = filepath.Dir(d), left when Dir(d) == d
	for _, in := range h.Instrs {
		ph, ok := in.(*ssa.Phi)
		if !ok {
			break
		}
		for i, e := range ph.Edges {
			if !body[h.Preds[i]] {
				continue
			}
			call, ok := e.(*ssa.Call)
			if !ok || calleeFullName(&call.Call) != "path/filepath.Dir" || call.Call.Args[0] != ssa.Value(ph) {
				continue
			}
			for bb := range body {
				ifi, ok := bb.Instrs[len(bb.Instrs)-1].(*ssa.If)
				if !ok {
					continue
				}
				if bo, ok := ifi.Cond.(*ssa.BinOp); ok && bo.Op == token.EQL && !body[bb.Succs[0]] {
					if (bo.X == ssa.Value(call) && bo.Y == ssa.Value(ph)) || (bo.Y == ssa.Value(call) && bo.X == ssa.Value(ph)) {
						return "directory walk: the path is replaced by its parent (never longer) and the loop is left at the fixpoint Dir(d) == d"
					}
				}
			}
		}
	}
	// (3) consuming read with an exit on its failure
	for b := range body {
		for _, in := range b.Instrs {
			call, ok := in.(*ssa.Call)
			if !ok {
				continue
			}
			switch calleeFullName(&call.Call) {
			case "(*bufio.Scanner).Scan":
				// for s.Scan() { ... }
				if ifi, ok := b.Instrs[len(b.Instrs)-1].(*ssa.If); ok && ifi.Cond == ssa.Value(call) && !body[b.Succs[1]] {
					return "scanner loop: bufio.Scanner.Scan() returns false at the end of the finite input"
				}
			case "(*strings.Reader).ReadRune", "(*bytes.Reader).ReadRune", "(*strings.Reader).ReadByte", "(*bufio.Reader).ReadRune":
				// exit when err != nil
				for bb := range body {
					if ifi, ok := bb.Instrs[len(bb.Instrs)-1].(*ssa.If); ok {
						if exitsOnErrOf(ifi, call, body) {
							return "reader loop: one rune is read per iteration from a finite reader and the loop is left when the read fails"
						}
					}
				}
			}
		}
	}
	return ""
}

func onlyZero(l linForm) bool {
	for _, v := range l {
		if v != 0 {
			return false
		}
	}
	return true
}

// exitsOnErrOf: the If leaves the loop when the error result of the call is non-nil (possibly as the first operand of ||).
func exitsOnErrOf(ifi *ssa.If, call *ssa.Call, body map[*ssa.BasicBlock]bool) bool {
	v, nilSucc, ok := nilTest(ifi)
	if !ok {
		return false
	}
	ex, ok := v.(*ssa.Extract)
	if !ok || ex.Tuple != ssa.Value(call) {
		return false
	}
	nonNilSucc := 1 - nilSucc
	// the non-nil successor leaves the loop directly or through a block that only jumps out
	s := ifi.Block().Succs[nonNilSucc]
	for i := 0; i < 3; i++ {
		if !body[s] {
			return true
		}
		if len(s.Succs) != 1 {
			return false
		}
		s = s.Succs[0]
	}
	return false
}

// boundInvariant: the value does not change during the loop: defined outside it, a constant, or len() of such a value
// or of a field of such a value that the loop does not store to.
func boundInvariant(v ssa.Value, body map[*ssa.BasicBlock]bool) bool {
	switch x := v.(type) {
	case *ssa.Const, *ssa.Parameter:
		return true
	case *ssa.Call:
		if bi, ok := x.Call.Value.(*ssa.Builtin); ok && bi.Name() == "len" {
			return boundInvariant(x.Call.Args[0], body)
		}
	case *ssa.UnOp:
		if x.Op == token.MUL {
			if fa, ok := x.X.(*ssa.FieldAddr); ok && boundInvariant(fa.X, body) {
				name := fieldAddrName(fa)
				for b := range body {
					for _, in := range b.Instrs {
						if st, ok := in.(*ssa.Store); ok {
							if fa2, ok := st.Addr.(*ssa.FieldAddr); ok && fieldAddrName(fa2) == name {
								return false
							}
						}
					}
				}
				return true
			}
		}
	case *ssa.BinOp:
		if x.Op == token.SUB || x.Op == token.ADD {
			return boundInvariant(x.X, body) && boundInvariant(x.Y, body)
		}
	}
	return !definedIn(v, body)
}

// strictSuffixOf: v is obtained from ph by slicing off at least one element (directly, or as the result of an in-module
// function all of whose returns are strict suffixes of the corresponding argument).
func strictSuffixOf(v ssa.Value, ph ssa.Value, fn *ssa.Function, body map[*ssa.BasicBlock]bool, depth int) bool {
	if depth > 6 {
		return false
	}
	switch x := v.(type) {
	case *ssa.Slice:
		if x.High != nil {
			return false
		}
		if x.X == ph || suffixOrSame(x.X, ph, depth+1) {
			if x.Low != nil && lowAtLeastOne(x.Low, fn, body) {
				return true
			}
			// a later slicing may provide the strictness
		}
		if x.X != ph && strictSuffixOf(x.X, ph, fn, body, depth+1) {
			return true
		}
	case *ssa.Extract:
		if call, ok := x.Tuple.(*ssa.Call); ok {
			// the part after a non-empty separator that Cut found: at least the separator was removed. "found" has to lead
			// out of the loop when it is false (otherwise the remainder is the empty string and the value read is `before`)
			if n := calleeFullName(&call.Call); (n == "strings.Cut" || n == "bytes.Cut") && x.Index == 1 && suffixOrSame(call.Call.Args[0], ph, depth+1) {
				sepNonEmpty := false
				if sep, ok := constString(call.Call.Args[1]); ok && sep != "" {
					sepNonEmpty = true
				}
				if mi, ok := call.Call.Args[1].(*ssa.Convert); ok {
					if sep, ok := constString(mi.X); ok && sep != "" {
						sepNonEmpty = true
					}
				}
				if sepNonEmpty {
					for _, ref := range *call.Referrers() {
						if fx, ok := ref.(*ssa.Extract); ok && fx.Index == 2 {
							for _, r2 := range *fx.Referrers() {
								if ifi, ok := r2.(*ssa.If); ok && !body[ifi.Block().Succs[1]] {
									return true
								}
							}
						}
					}
				}
			}
			return suffixResult(call, x.Index, ph)
		}
	case *ssa.Call:
		return suffixResult(x, 0, ph)
	}
	return false
}

func suffixOrSame(v, ph ssa.Value, depth int) bool {
	if v == ph {
		return true
	}
	if depth > 6 {
		return false
	}
	if sl, ok := v.(*ssa.Slice); ok && sl.High == nil {
		return suffixOrSame(sl.X, ph, depth+1)
	}
	switch x := v.(type) {
	case *ssa.Phi:
		// a join of suffixes
		for _, e := range x.Edges {
			if e == ssa.Value(x) || !suffixOrSame(e, ph, depth+1) {
				return false
			}
		}
		return len(x.Edges) > 0
	case *ssa.Call:
		// what is left after removing a prefix
		switch calleeFullName(&x.Call) {
		case "bytes.TrimPrefix", "strings.TrimPrefix", "bytes.TrimLeft", "strings.TrimLeft":
			return suffixOrSame(x.Call.Args[0], ph, depth+1)
		}
	case *ssa.Extract:
		// the part after the separator found by Cut
		if call, ok := x.Tuple.(*ssa.Call); ok && x.Index == 1 {
			if n := calleeFullName(&call.Call); n == "bytes.Cut" || n == "strings.Cut" {
				return suffixOrSame(call.Call.Args[0], ph, depth+1)
			}
		}
	}
	return false
}

// lowAtLeastOne: the lower bound is c + (non-negative terms) with c >= 1; results of strings.Index* count as non-negative
// when the loop leaves on their -1.
func lowAtLeastOne(low ssa.Value, fn *ssa.Function, body map[*ssa.BasicBlock]bool) bool {
	return lowAtLeastOneRec(low, fn, body, map[*ssa.Phi]bool{})
}

func lowAtLeastOneRec(low ssa.Value, fn *ssa.Function, body map[*ssa.BasicBlock]bool, seen map[*ssa.Phi]bool) bool {
	// a join of bounds that are each at least one
	if ph, ok := low.(*ssa.Phi); ok && !strings.HasPrefix(ph.Comment, "rangeindex") {
		if seen[ph] {
			return true
		}
		seen[ph] = true
		for _, e := range ph.Edges {
			if !lowAtLeastOneRec(e, fn, body, seen) {
				return false
			}
		}
		return len(ph.Edges) > 0
	}
	lf := linOf(low, 0)
	if lf["1"] < 1 {
		return false
	}
	for k, v := range lf {
		if k == "1" || v == 0 {
			continue
		}
		if v < 0 {
			return false
		}
	}
	// every term of the sum is a constant, a guarded Index-like search, or a value that is never negative
	okTerms := true
	minus := 0
	var walk func(v ssa.Value, d int)
	walk = func(v ssa.Value, d int) {
		if d > 8 {
			okTerms = false
			return
		}
		switch x := v.(type) {
		case *ssa.Const:
			return
		case *ssa.BinOp:
			if x.Op == token.ADD {
				walk(x.X, d+1)
				walk(x.Y, d+1)
				return
			}
		case *ssa.Call:
			name := calleeFullName(&x.Call)
			if strings.HasPrefix(name, "strings.Index") || strings.HasPrefix(name, "bytes.Index") {
				guarded := false
				for _, ref := range *x.Referrers() {
					if bo, ok := ref.(*ssa.BinOp); ok && (bo.Op == token.EQL || bo.Op == token.NEQ || bo.Op == token.LSS || bo.Op == token.GEQ) {
						if k, ok := bo.Y.(*ssa.Const); ok {
							if n, ok := constInt(k); ok && (n == -1 || n == 0) {
								guarded = true
							}
						}
					}
				}
				if !guarded {
					minus++ // a failed search gives -1, never less
				}
				return
			}
		}
		// the position of the loop form `for i := strings.Index(s, x); i >= 0; i = strings.Index(s, x)`: a join of searches
		if ph, ok := v.(*ssa.Phi); ok && len(ph.Edges) > 0 {
			all := true
			for _, e := range ph.Edges {
				call, ok := e.(*ssa.Call)
				if !ok {
					all = false
					break
				}
				if name := calleeFullName(&call.Call); !strings.HasPrefix(name, "strings.Index") && !strings.HasPrefix(name, "bytes.Index") {
					all = false
				}
			}
			if all {
				minus++
				return
			}
		}
		if !nonNeg(v, 0, map[ssa.Value]bool{}) {
			okTerms = false
		}
	}
	walk(low, 0)
	return okTerms && lf["1"]-minus >= 1
}

// suffixResult: result idx of the call is a strict suffix of the argument that is ph, on every return path of the callee.
func suffixResult(call *ssa.Call, idx int, ph ssa.Value) bool {
	f := staticCallee(&call.Call)
	if f == nil || f.Blocks == nil || !inPkgName(f) {
		return false
	}
	ai := -1
	for i, a := range call.Call.Args {
		if a == ph {
			ai = i
		}
	}
	if ai < 0 {
		return false
	}
	prm := f.Params[ai]
	body := map[*ssa.BasicBlock]bool{}
	for _, b := range f.Blocks {
		body[b] = true
	}
	n := 0
	for _, b := range f.Blocks {
		ret, ok := b.Instrs[len(b.Instrs)-1].(*ssa.Return)
		if !ok || idx >= len(ret.Results) {
			continue
		}
		n++
		r := ret.Results[idx]
		// a nil/empty result ends the caller's loop as well when the loop tests len() > 0
		if isNilConst(r) {
			continue
		}
		if !strictSuffixOf(r, prm, f, body, 1) {
			return false
		}
	}
	return n > 0
}

// ---- C01.REC ----

func runC01Rec(c *Ctx) {
	p := c.P
	cg := p.CallGraph()
	inMod := map[*ssa.Function]bool{}
	for _, f := range p.Funcs {
		inMod[f] = true
	}
	// edges within the module
	succ := map[*ssa.Function][]*callgraph.Edge{}
	for _, f := range p.Funcs {
		n := cg.Nodes[f]
		if n == nil {
			continue
		}
		for _, e := range n.Out {
			if inMod[e.Callee.Func] {
				succ[f] = append(succ[f], e)
			}
		}
		// a closure is "called" by its creator for the purpose of recursion (visitor callbacks)
	}
	// Tarjan SCC
	index := 0
	idx := map[*ssa.Function]int{}
	low := map[*ssa.Function]int{}
	onst := map[*ssa.Function]bool{}
	var st []*ssa.Function
	var sccs [][]*ssa.Function
	var strong func(v *ssa.Function)
	strong = func(v *ssa.Function) {
		index++
		idx[v], low[v] = index, index
		st = append(st, v)
		onst[v] = true
		for _, e := range succ[v] {
			w := e.Callee.Func
			if idx[w] == 0 {
				strong(w)
				if low[w] < low[v] {
					low[v] = low[w]
				}
			} else if onst[w] && idx[w] < low[v] {
				low[v] = idx[w]
			}
		}
		if low[v] == idx[v] {
			var comp []*ssa.Function
			for {
				w := st[len(st)-1]
				st = st[:len(st)-1]
				onst[w] = false
				comp = append(comp, w)
				if w == v {
					break
				}
			}
			sccs = append(sccs, comp)
		}
	}
	for _, f := range p.Funcs {
		if idx[f] == 0 {
			strong(f)
		}
	}
	for _, comp := range sccs {
		self := false
		if len(comp) == 1 {
			for _, e := range succ[comp[0]] {
				if e.Callee.Func == comp[0] {
					self = true
				}
			}
			if !self {
				continue
			}
		}
		in := map[*ssa.Function]bool{}
		var names []string
		for _, f := range comp {
			in[f] = true
			names = append(names, FuncName(f))
		}
		sort.Strings(names)
		construct := "recursion {" + shortList(names, 4) + "}"
		pos := comp[0].Pos()
		// delegation
		allParser, allDFS := true, true
		for _, f := range comp {
			if f.Signature.Recv() == nil || typeStr(f.Signature.Recv().Type()) != "*ExprParser" {
				allParser = false
			}
			if f.Name() != "detectCyclicNode" && f.Name() != "collectCycle" {
				allDFS = false
			}
		}
		if allParser {
			c.ok(construct, pos, "recursive descent parser: every recursive cycle consumes a token first (C04.GRAMMAR: no production starts with itself, no cycle without a letter)")
			continue
		}
		if allDFS {
			c.ok(construct, pos, "depth-first search: bounded by the colour discipline / the recorded path (C18.COLOUR, C18.CYCLE)")
			continue
		}
		// descent: classify every edge inside the component
		var unknown []string
		nonStrict := map[*ssa.Function][]*ssa.Function{}
		for _, f := range comp {
			for _, e := range succ[f] {
				if !in[e.Callee.Func] || e.Site == nil {
					continue
				}
				cls := edgeDescent(e)
				switch cls {
				case "strict":
				case "same":
					nonStrict[f] = append(nonStrict[f], e.Callee.Func)
				default:
					unknown = append(unknown, fmt.Sprintf("%s -> %s at %s", FuncName(f), FuncName(e.Callee.Func), p.Pos(e.Site.Pos())))
				}
			}
		}
		sort.Strings(unknown)
		if len(unknown) > 0 {
			c.bad(construct, pos, "a recursive call whose argument is not a part of the caller's argument: "+shortList(unknown, 3))
			continue
		}
		// the non-strict edges must not form a cycle
		color := map[*ssa.Function]int{}
		cyc := false
		var dfs func(f *ssa.Function)
		dfs = func(f *ssa.Function) {
			color[f] = 1
			for _, g := range nonStrict[f] {
				if color[g] == 1 {
					cyc = true
				} else if color[g] == 0 {
					dfs(g)
				}
			}
			color[f] = 2
		}
		for _, f := range comp {
			if color[f] == 0 {
				dfs(f)
			}
		}
		if cyc {
			c.bad(construct, pos, "the functions can call each other in a cycle that passes the same value on without descending into it")
		} else {
			c.ok(construct, pos, fmt.Sprintf("structural descent: every cycle of the %d functions passes through a call whose argument is a field or element of the caller's argument (the data are finite trees built bottom-up by the parser / type constructors)", len(comp)))
		}
	}
}

// edgeDescent: "strict" when some pointer-like argument of the call derives from a parameter of the caller through at
// least one field/element step, "same" when an argument is a parameter (or a type assertion / conversion of it), else "".
func edgeDescent(e *callgraph.Edge) string {
	cc := e.Site.Common()
	caller := e.Caller.Func
	params := map[ssa.Value]bool{}
	for _, pr := range caller.Params {
		params[pr] = true
	}
	for _, fv := range caller.FreeVars {
		params[fv] = true
	}
	var args []ssa.Value
	if cc.IsInvoke() {
		args = append(args, cc.Value)
	}
	args = append(args, cc.Args...)
	best := ""
	for _, a := range args {
		switch a.Type().Underlying().(type) {
		case *types.Pointer, *types.Interface, *types.Slice, *types.Map:
		default:
			continue
		}
		switch derivedFromParam(a, params, 0, map[ssa.Value]bool{}) {
		case 2:
			return "strict"
		case 1:
			best = "same"
		}
	}
	return best
}

// cyclicFields: pointer fields that may lead back to an ancestor of the value they belong to.
var cyclicFields = map[string]bool{"yaml.Node.Alias": true}

// derivedFromParam: 0 = no, 1 = is a parameter (possibly converted), 2 = strictly inside a parameter.
func derivedFromParam(v ssa.Value, params map[ssa.Value]bool, depth int, seen map[ssa.Value]bool) int {
	if depth > 12 || seen[v] {
		return 0
	}
	seen[v] = true
	if params[v] {
		return 1
	}
	step := func(x ssa.Value) int {
		if r := derivedFromParam(x, params, depth+1, seen); r > 0 {
			return 2
		}
		return 0
	}
	same := func(x ssa.Value) int { return derivedFromParam(x, params, depth+1, seen) }
	switch x := v.(type) {
	case *ssa.UnOp:
		if x.Op == token.MUL {
			switch a := x.X.(type) {
			case *ssa.FieldAddr:
				// a field that can point back into the structure is not a descent: yaml.Node.Alias refers to the anchored
				// node, which may be an ancestor (`&a {foo: *a}`), so following it does not terminate on every input
				if cyclicFields[fieldAddrName(a)] {
					return 0
				}
				return step(a.X)
			case *ssa.IndexAddr:
				return step(a.X)
			case *ssa.Alloc:
				// a local cell: the values stored into it
				best := 0
				for _, ref := range *a.Referrers() {
					if st, ok := ref.(*ssa.Store); ok && st.Addr == ssa.Value(a) {
						if r := same(st.Val); r > best {
							best = r
						}
					}
				}
				return best
			}
			return same(x.X)
		}
	case *ssa.Field:
		return step(x.X)
	case *ssa.FieldAddr:
		return step(x.X)
	case *ssa.Index:
		return step(x.X)
	case *ssa.Lookup:
		return step(x.X)
	case *ssa.Extract:
		switch t := x.Tuple.(type) {
		case *ssa.Next:
			if rg, ok := t.Iter.(*ssa.Range); ok {
				return step(rg.X)
			}
		case *ssa.TypeAssert:
			return same(t.X)
		case *ssa.Lookup:
			return step(t.X)
		}
	case *ssa.TypeAssert:
		return same(x.X)
	case *ssa.MakeInterface:
		return same(x.X)
	case *ssa.ChangeInterface:
		return same(x.X)
	case *ssa.ChangeType:
		return same(x.X)
	case *ssa.Slice:
		return same(x.X)
	case *ssa.Phi:
		best := 3
		for _, e := range x.Edges {
			r := derivedFromParam(e, params, depth+1, seen)
			if r < best {
				best = r
			}
		}
		if best == 3 {
			return 0
		}
		return best
	}
	return 0
}

// edgeMapOfCollectCycle: m is a map handed to collectCycle in fn, or a parameter of fn that receives such a map from every
// caller.
func edgeMapOfCollectCycle(p *Prog, fn *ssa.Function, m ssa.Value, depth int) bool {
	if depth > 2 {
		return false
	}
	for _, cc := range findCalls(fn, "collectCycle") {
		for _, a := range cc.Common().Args {
			if a == m {
				return true
			}
		}
	}
	prm, ok := m.(*ssa.Parameter)
	if !ok {
		return false
	}
	idx := -1
	for i, q := range fn.Params {
		if q == prm {
			idx = i
		}
	}
	callers := p.callersOf(fn)
	if idx < 0 || len(callers) == 0 {
		return false
	}
	for _, e := range callers {
		if e.Site == nil || e.Site.Common().IsInvoke() || idx >= len(e.Site.Common().Args) {
			return false
		}
		if !edgeMapOfCollectCycle(p, e.Caller.Func, e.Site.Common().Args[idx], depth+1) {
			return false
		}
	}
	return true
}
