package main

// Rules added after the second round of independently seeded changes (see DESIGN.md, "What the seeded changes showed").

import (
	"fmt"
	"go/token"
	"go/types"
	"sort"
	"strings"

	"golang.org/x/tools/go/ssa"
)

func init() {
	register(&Rule{ID: "C02.CHAN", Min: 0, Doc: "no result is taken from a channel: results are consumed in the order of the inputs, never in completion order", Run: runC02Chan})
	register(&Rule{ID: "C10.PERFILE", Min: 10, Doc: "the loops over the files of one run carry no state from one file to the next except counters and result slices", Run: runC10PerFile})
	register(&Rule{ID: "C06.IFACECMP", Min: 0, Doc: "no diagnostic depends on comparing two expression types for identity", Run: runC06IfaceCmp})
	register(&Rule{ID: "C08.SELFKEY", Min: 0, Doc: "a map is not read with a transformed copy of its own iteration key", Run: runC08SelfKey})
	register(&Rule{ID: "C01.NILELEM", Min: 3, Doc: "a parse result that may be nil is not stored as an element of a sequence or mapping without a nil test", Run: runC01NilElem})
	register(&Rule{ID: "C14.WHOLE", Min: 4, Doc: "the type of a placeholder stands for the whole scalar only when the scalar is exactly one placeholder", Run: runC14Whole})
	register(&Rule{ID: "C11.SCAN", Min: 1, Doc: "the scan over the placeholders of a scalar stops early only on a syntax error", Run: runC11Scan})
	register(&Rule{ID: "C03.REPLACE", Min: 40, Doc: "a node filled key by key is the same object for the whole key loop, and a node created by a key case is attached to the tree before the iteration ends", Run: runC03Replace})
	register(&Rule{ID: "C16.WIDTH", Min: 2, Doc: "the caret line of a snippet is measured in terminal cells throughout", Run: runC16Width})
	register(&Rule{ID: "C03.DEFER", Min: 1, Doc: "a value parsed before the node it belongs to exists is handed over when the node is created (key order independence)", Run: runC03Defer})
}

// ---- C02.CHAN ----

func runC02Chan(c *Ctx) {
	p := c.P
	occ := map[string]int{}
	for _, fn := range p.Funcs {
		eachInstr(fn, func(_ *ssa.BasicBlock, _ int, in ssa.Instruction) {
			var ch ssa.Value
			switch x := in.(type) {
			case *ssa.UnOp:
				if x.Op == token.ARROW {
					ch = x.X
				}
			case *ssa.Select:
				for _, st := range x.States {
					if st.Dir == types.RecvOnly {
						ch = st.Chan
					}
				}
			}
			if ch == nil {
				return
			}
			ct, ok := ch.Type().Underlying().(*types.Chan)
			if !ok {
				return
			}
			// pure signalling channels carry no result
			if st, ok := ct.Elem().Underlying().(*types.Struct); ok && st.NumFields() == 0 {
				return
			}
			k := FuncName(fn) + "|receive from " + typeStr(ch.Type())
			occ[k]++
			c.bad(fmt.Sprintf("%s#%d", k, occ[k]), in.Pos(), "a value is received from a channel: values arrive in the order in which goroutines finish, so what is printed or returned depends on scheduling")
		})
	}
}

// ---- C10.PERFILE ----

func runC10PerFile(c *Ctx) {
	p := c.P
	top := p.Method("Linter", "LintFiles")
	if top == nil {
		c.anchorMissing("(*Linter).LintFiles")
		return
	}
	// LintFiles and the functions it hands the whole list of files to (outside its loops): the per-file loops may have
	// been moved there
	fns := []*ssa.Function{top}
	eachInstr(top, func(b *ssa.BasicBlock, _ int, in ssa.Instruction) {
		call, ok := in.(*ssa.Call)
		if !ok || blockInCycle(b) {
			return
		}
		g := staticCallee(&call.Call)
		if g == nil || !inModule(g) || g.Blocks == nil || g == top {
			return
		}
		for _, a := range call.Call.Args {
			if prm, ok := a.(*ssa.Parameter); ok {
				if _, isSlice := prm.Type().Underlying().(*types.Slice); isSlice {
					for _, f := range fns {
						if f == g {
							return
						}
					}
					fns = append(fns, g)
					return
				}
			}
		}
	})
	n := 0
	for _, fn := range fns {
		n += perFileLoops(c, fn)
	}
	if n < 3 {
		c.undecided("(*Linter).LintFiles|loops", top.Pos(), fmt.Sprintf("only %d loops with state found", n))
	}
}

// perFileLoops decides the loops of one function that runs over the files; returns the number of loops with state.
func perFileLoops(c *Ctx, fn *ssa.Function) int {
	p := c.P
	pre := FuncName(fn) + "|"
	// the loops of the function and the index each one runs over
	type loop struct {
		h    *ssa.BasicBlock
		body map[*ssa.BasicBlock]bool
		idx  map[ssa.Value]bool // the loop's own index (the value compared with the bound in the header)
	}
	var loops []*loop
	for _, h := range loopHeaders(fn) {
		l := &loop{h: h, body: naturalLoop(h), idx: map[ssa.Value]bool{}}
		if ifi, ok := h.Instrs[len(h.Instrs)-1].(*ssa.If); ok {
			if bo, ok := ifi.Cond.(*ssa.BinOp); ok && bo.Op == token.LSS {
				switch x := bo.X.(type) {
				case *ssa.Phi:
					if x.Block() == h {
						l.idx[x] = true
					}
				case *ssa.BinOp:
					if ph, ok := x.X.(*ssa.Phi); ok && x.Op == token.ADD && ph.Block() == h {
						if k, ok := constInt(x.Y); ok && k == 1 {
							l.idx[x] = true
						}
					}
				}
			}
		}
		loops = append(loops, l)
	}
	// encloses: l2 is l or a loop around it
	encloses := func(l2, l *loop) bool { return l2.body[l.h] }
	// ownIndexAt: idx is the own index of a loop that contains block b and (when inner is given) is `inner` or encloses it
	ownIndexAt := func(idx ssa.Value, b *ssa.BasicBlock, inner *loop) bool {
		for _, l2 := range loops {
			if l2.idx[idx] && l2.body[b] && (inner == nil || encloses(l2, inner)) {
				return true
			}
		}
		return false
	}
	isBuiltin := func(v ssa.Instruction, name string) (*ssa.Call, bool) {
		call, ok := v.(*ssa.Call)
		if !ok {
			return nil, false
		}
		bi, ok := call.Call.Value.(*ssa.Builtin)
		return call, ok && bi.Name() == name
	}
	// counterUses: how a loop-carried integer (or a length taken from a loop-carried slice) is used inside the loop. It may
	// be incremented, compared with the bound in a loop header, used as an index and used to size an allocation. Returns ""
	// or what else is done with it.
	var counterUses func(v ssa.Value, l *loop, seen map[ssa.Value]bool) string
	counterUses = func(v ssa.Value, l *loop, seen map[ssa.Value]bool) string {
		if seen[v] || v.Referrers() == nil {
			return ""
		}
		seen[v] = true
		for _, ref := range *v.Referrers() {
			if ref.Block() == nil || !l.body[ref.Block()] {
				continue // after the loop
			}
			switch r := ref.(type) {
			case *ssa.Phi, *ssa.Convert, *ssa.ChangeType:
				if why := counterUses(r.(ssa.Value), l, seen); why != "" {
					return why
				}
			case *ssa.BinOp:
				switch r.Op {
				case token.EQL, token.NEQ, token.LSS, token.LEQ, token.GTR, token.GEQ:
					for _, r2 := range *r.Referrers() {
						if _, isDbg := r2.(*ssa.DebugRef); isDbg {
							continue
						}
						ifi, isIf := r2.(*ssa.If)
						isBound := false
						if isIf {
							for _, l2 := range loops {
								if l2.h == ifi.Block() && l2.idx[r.X] {
									isBound = true
								}
							}
						}
						if !isBound {
							return "a condition at " + p.Pos(r.Pos()) + " depends on it: what is done for a file depends on how many files (or findings) came before it"
						}
					}
				default:
					if why := counterUses(r, l, seen); why != "" {
						return why
					}
				}
			case *ssa.IndexAddr:
				if r.Index != v {
					return "it is used as something other than an index at " + p.Pos(r.Pos())
				}
			case *ssa.Index:
				if r.Index != v {
					return "it is used as something other than an index at " + p.Pos(r.Pos())
				}
			case *ssa.MakeSlice, *ssa.DebugRef:
			default:
				return fmt.Sprintf("it is used by %T at %s", ref, p.Pos(ref.Pos()))
			}
		}
		return ""
	}
	// sliceUses: how a loop-carried slice is used inside its loop. It may be appended to and its current element may be
	// accessed (index = the loop's own index, or the last element right after an append in the same iteration).
	var sliceUses func(v ssa.Value, l *loop, seen map[ssa.Value]bool) string
	sliceUses = func(v ssa.Value, l *loop, seen map[ssa.Value]bool) string {
		if seen[v] || v.Referrers() == nil {
			return ""
		}
		seen[v] = true
		for _, ref := range *v.Referrers() {
			if ref.Block() == nil || !l.body[ref.Block()] {
				continue // read after the loop
			}
			switch r := ref.(type) {
			case *ssa.Phi:
				if why := sliceUses(r, l, seen); why != "" {
					return why
				}
			case *ssa.Slice:
				if r.X != v {
					return "it bounds a slice expression at " + p.Pos(r.Pos())
				}
				if why := sliceUses(r, l, seen); why != "" {
					return why
				}
			case *ssa.IndexAddr:
				if r.X != v {
					continue
				}
				if ownIndexAt(r.Index, r.Block(), l) {
					continue
				}
				// s = append(s, x); &s[len(s)-1]: the element added in this iteration
				if sub, ok := r.Index.(*ssa.BinOp); ok && sub.Op == token.SUB {
					if k, isOne := constInt(sub.Y); isOne && k == 1 {
						if lc, ok := sub.X.(*ssa.Call); ok {
							if _, isLen := isBuiltin(lc, "len"); isLen && lc.Call.Args[0] == v {
								if ap, ok := v.(*ssa.Call); ok && l.body[ap.Block()] {
									if _, isApp := isBuiltin(ap, "append"); isApp {
										continue
									}
								}
							}
						}
					}
				}
				return "an element other than the current one is accessed inside the loop at " + p.Pos(r.Pos()) + ": what is used for a file depends on the files before it"
			case *ssa.Call:
				if _, ok := isBuiltin(r, "append"); ok {
					if r.Call.Args[0] != v {
						return "its elements are appended to another slice inside the loop at " + p.Pos(r.Pos())
					}
					if why := sliceUses(r, l, seen); why != "" {
						return why
					}
					continue
				}
				_, isLen := isBuiltin(r, "len")
				_, isCap := isBuiltin(r, "cap")
				if isLen || isCap {
					if why := counterUses(r, l, map[ssa.Value]bool{}); why != "" {
						return "its length is taken inside the loop and " + why
					}
					continue
				}
				return "it is handed to " + calleeFullName(&r.Call) + " inside the loop at " + p.Pos(r.Pos())
			case *ssa.DebugRef:
			default:
				return fmt.Sprintf("it is used by %T inside the loop at %s", ref, p.Pos(ref.Pos()))
			}
		}
		return ""
	}
	n := 0
	judged := map[*ssa.IndexAddr]bool{}
	for _, l := range loops {
		b := l.h
		hasPhi := false
		for _, in := range b.Instrs {
			ph, ok := in.(*ssa.Phi)
			if !ok {
				break
			}
			hasPhi = true
			construct := fmt.Sprintf("%sloop state %s (block %d)", pre, ph.Comment, b.Index)
			switch t := ph.Type().Underlying().(type) {
			case *types.Basic:
				if t.Info()&types.IsInteger != 0 {
					if why := counterUses(ph, l, map[ssa.Value]bool{}); why != "" {
						c.bad(construct, ph.Pos(), "a counter is carried from one file to the next and "+why)
					} else {
						c.ok(construct, ph.Pos(), "a counter: inside the loop it is only incremented, compared with the loop bound, used as an index and used to size allocations")
					}
					continue
				}
			case *types.Slice:
				seen := map[ssa.Value]bool{}
				why := sliceUses(ph, l, seen)
				for v := range seen {
					for _, ref := range *v.Referrers() {
						if ia, ok := ref.(*ssa.IndexAddr); ok && ia.X == v && l.body[ia.Block()] {
							judged[ia] = true
						}
					}
				}
				if why != "" {
					c.bad(construct, ph.Pos(), "a slice is carried from one file to the next and "+why)
				} else {
					c.ok(construct, ph.Pos(), "a slice of results in input order: inside the loop it is only appended to and its current element accessed; it is read after the loop")
				}
				continue
			}
			c.bad(construct, ph.Pos(), "a value of type "+typeStr(ph.Type())+" is carried from one file to the next: what is used for a file depends on the files before it")
		}
		if hasPhi {
			n++
		}
	}
	// every other element access inside a loop uses the index of a loop it is in: no file looks at the slot of another
	// file (a slice filled by an earlier loop is not loop state of the later ones, but its slots still belong to files)
	occ := map[string]int{}
	eachInstr(fn, func(b *ssa.BasicBlock, _ int, in ssa.Instruction) {
		ia, ok := in.(*ssa.IndexAddr)
		if !ok || judged[ia] || !blockInCycle(b) {
			return
		}
		if _, isSlice := ia.X.Type().Underlying().(*types.Slice); !isSlice {
			return // the array behind a variadic call or a composite literal
		}
		// slices of the function itself (a parameter, a slice built here): what hangs off one element (w.errs) is that
		// file's own data
		name := ""
		root := ia.X
		for {
			if sl, ok := root.(*ssa.Slice); ok {
				root = sl.X
				continue
			}
			break
		}
		switch x := root.(type) {
		case *ssa.Phi:
			name = x.Comment
		case *ssa.Parameter:
			name = x.Name()
		case *ssa.MakeSlice:
			name = "a slice made at " + p.Pos(x.Pos())
		case *ssa.Call:
			if _, isApp := isBuiltin(x, "append"); isApp {
				name = "a slice appended to at " + p.Pos(x.Pos())
			} else if g := staticCallee(&x.Call); g != nil && inModule(g) {
				name = "the result of " + FuncName(g)
			}
		case *ssa.Extract:
			if call, ok := x.Tuple.(*ssa.Call); ok {
				if g := staticCallee(&call.Call); g != nil && inModule(g) {
					name = "the result of " + FuncName(g)
				}
			}
		}
		if name == "" {
			return
		}
		var h *ssa.BasicBlock
		for _, l := range loops {
			if l.body[b] && (h == nil || naturalLoop(h)[l.h]) {
				h = l.h // innermost
			}
		}
		if h == nil {
			return
		}
		k := fmt.Sprintf("%selement of %s accessed in loop (block %d)", pre, name, h.Index)
		occ[k]++
		if occ[k] > 1 {
			k = fmt.Sprintf("%s#%d", k, occ[k])
		}
		if ownIndexAt(ia.Index, b, nil) {
			c.ok(k, ia.Pos(), "indexed by the index of a loop it is in")
		} else {
			c.bad(k, ia.Pos(), "an element is picked by something other than the loop's own index: a file looks at the slot of another file")
		}
	})
	// the closure handed to each goroutine captures per-file values only: no captured variable is written by the loop after
	// the goroutine was started (checked for all MakeClosure in loops)
	eachInstr(fn, func(b *ssa.BasicBlock, _ int, in ssa.Instruction) {
		mc, ok := in.(*ssa.MakeClosure)
		if !ok || !blockInCycle(b) {
			return
		}
		for _, bind := range mc.Bindings {
			al, ok := bind.(*ssa.Alloc)
			if !ok {
				continue
			}
			// a captured cell allocated outside the loop and stored to inside it is shared between the goroutines
			if !blockInCycle(al.Block()) {
				for _, ref := range *al.Referrers() {
					if st, ok := ref.(*ssa.Store); ok && st.Addr == ssa.Value(al) && blockInCycle(st.Block()) {
						c.bad(pre+"captured variable "+al.Comment, st.Pos(), "a variable shared by all per-file goroutines is assigned inside the loop")
					}
				}
			}
		}
	})
	return n
}

// ---- C06.IFACECMP ----

func runC06IfaceCmp(c *Ctx) {
	p := c.P
	occ := map[string]int{}
	for _, fn := range p.Funcs {
		eachInstr(fn, func(b *ssa.BasicBlock, _ int, in ssa.Instruction) {
			if !emitsDiag(in) {
				return
			}
			for ifi := range controllingConds(b) {
				bo, ok := ifi.Cond.(*ssa.BinOp)
				if !ok || (bo.Op != token.EQL && bo.Op != token.NEQ) {
					continue
				}
				if typeStr(bo.X.Type()) != "ExprType" || typeStr(bo.Y.Type()) != "ExprType" {
					continue
				}
				if isNilConst(bo.X) || isNilConst(bo.Y) {
					continue
				}
				k := FuncName(fn) + "|diagnostic after comparing expression types"
				occ[k]++
				c.bad(fmt.Sprintf("%s#%d", k, occ[k]), bo.Pos(), "a diagnostic depends on two ExprType values being (un)equal: `any` is unequal to every specific type, so a value of unknown type is reported")
			}
		})
	}
}

// ---- C08.SELFKEY ----

func runC08SelfKey(c *Ctx) {
	p := c.P
	occ := map[string]int{}
	for _, fn := range p.Funcs {
		eachInstr(fn, func(_ *ssa.BasicBlock, _ int, in ssa.Instruction) {
			lk, ok := in.(*ssa.Lookup)
			if !ok {
				return
			}
			if _, isMap := lk.X.Type().Underlying().(*types.Map); !isMap {
				return
			}
			call, ok := lk.Index.(*ssa.Call)
			if !ok {
				// an element of a slice into which transformed keys were collected
				if ld, isLd := lk.Index.(*ssa.UnOp); isLd {
					if ia, isIA := ld.X.(*ssa.IndexAddr); isIA {
						if tc := transformedElems(ia.X, 0, map[ssa.Value]bool{}); tc != nil {
							ext := false
							switch m := lk.X.(type) {
							case *ssa.TypeAssert:
								ext = isEmptyInterface(m.X.Type())
							case *ssa.Extract:
								if ta, ok := m.Tuple.(*ssa.TypeAssert); ok {
									ext = isEmptyInterface(ta.X.Type())
								}
							}
							if ext {
								k := FuncName(fn) + "|" + calleeFullName(&tc.Call) + " key into decoded data"
								occ[k]++
								c.bad(fmt.Sprintf("%s#%d", k, occ[k]), lk.Pos(), "a map decoded from external data is read with keys that were transformed by "+calleeFullName(&tc.Call)+" when they were collected: an entry whose key is spelled differently is not found and the zero value is used")
							}
						}
					}
				}
				return
			}
			name := calleeFullName(&call.Call)
			if name != "strings.ToLower" && name != "strings.ToUpper" && name != "strings.TrimSpace" {
				return
			}
			// (a) the map comes from decoded external data (a type assertion on an `any` value): its keys are as written there
			ext := false
			switch m := lk.X.(type) {
			case *ssa.TypeAssert:
				ext = isEmptyInterface(m.X.Type())
			case *ssa.Extract:
				if ta, ok := m.Tuple.(*ssa.TypeAssert); ok {
					ext = isEmptyInterface(ta.X.Type())
				}
			}
			if ext {
				k := FuncName(fn) + "|" + name + " key into decoded data"
				occ[k]++
				c.bad(fmt.Sprintf("%s#%d", k, occ[k]), lk.Pos(), "a map decoded from external data is read with "+name+"(key): an entry whose key is spelled differently is not found and the zero value is used")
				return
			}
			// (b) the map being iterated is read with a transformed copy of its own key
			ex, ok := call.Call.Args[0].(*ssa.Extract)
			if !ok || ex.Index != 1 {
				return
			}
			nx, ok := ex.Tuple.(*ssa.Next)
			if !ok {
				return
			}
			rg, ok := nx.Iter.(*ssa.Range)
			if !ok || rg.X != lk.X {
				return
			}
			k := FuncName(fn) + "|" + name + " of the iteration key"
			occ[k]++
			c.bad(fmt.Sprintf("%s#%d", k, occ[k]), lk.Pos(), "the map being iterated is read with "+name+"(key): for a key that is changed by it the entry is not found and the zero value is used")
		})
	}
}

// ---- C01.NILELEM ----

// mayReturnNil: in-module function with a pointer/interface result that has a `return nil` path.
func mayReturnNil(f *ssa.Function) bool {
	if f == nil || f.Blocks == nil || !inPkgName(f) || f.Signature.Results().Len() != 1 {
		return false
	}
	switch f.Signature.Results().At(0).Type().Underlying().(type) {
	case *types.Pointer, *types.Interface:
	default:
		return false
	}
	for _, b := range f.Blocks {
		if ret, ok := b.Instrs[len(b.Instrs)-1].(*ssa.Return); ok && isNilConst(ret.Results[0]) {
			return true
		}
	}
	return false
}

func runC01NilElem(c *Ctx) {
	p := c.P
	occ := map[string]int{}
	for _, fn := range p.Funcs {
		if !strings.HasSuffix(p.unitFile(fn), "/parse.go") {
			continue
		}
		eachInstr(fn, func(_ *ssa.BasicBlock, _ int, in ssa.Instruction) {
			call, ok := in.(*ssa.Call)
			if !ok {
				return
			}
			callee := staticCallee(&call.Call)
			if !mayReturnNil(callee) {
				return
			}
			// uses of the result as an element
			for _, ref := range *call.Referrers() {
				use := ""
				var at ssa.Instruction
				switch r := ref.(type) {
				case *ssa.Store:
					if ia, ok := r.Addr.(*ssa.IndexAddr); ok && r.Val == ssa.Value(call) {
						// element of a slice/array: either the variadic argument of append, or a direct indexed store
						use, at = "element store", r
						if al, ok := ia.X.(*ssa.Alloc); ok {
							// the backing array of a variadic call: find the append
							for _, r2 := range *al.Referrers() {
								if sl, ok := r2.(*ssa.Slice); ok {
									for _, r3 := range *sl.Referrers() {
										if ap, ok := r3.(*ssa.Call); ok {
											if bi, ok := ap.Call.Value.(*ssa.Builtin); ok && bi.Name() == "append" {
												use, at = "append", ap
											}
										}
									}
								}
							}
						}
					}
				case *ssa.MapUpdate:
					if r.Value == ssa.Value(call) {
						use, at = "map element", r
					}
				case *ssa.MakeInterface:
					for _, r2 := range *r.Referrers() {
						if mu, ok := r2.(*ssa.MapUpdate); ok && mu.Value == ssa.Value(r) {
							use, at = "map element", mu
						}
					}
				}
				if use == "" {
					continue
				}
				k := FuncName(fn) + "|" + FuncName(callee) + " result as " + use
				occ[k]++
				construct := fmt.Sprintf("%s#%d", k, occ[k])
				guarded := false
				for ifi, outcome := range controllingConds(at.Block()) {
					if v, nilSucc, ok := nilTest(ifi); ok && v == ssa.Value(call) && (nilSucc == 0) != outcome {
						guarded = true
					}
				}
				if guarded {
					c.ok(construct, at.Pos(), "stored only when non-nil")
				} else {
					c.bad(construct, at.Pos(), FuncName(callee)+" returns nil after reporting a malformed node; the nil is stored as an element, and the rules that walk the elements dereference it or hit an unreachable default")
				}
			}
		})
	}
}

// ---- C14.WHOLE ----

func runC14Whole(c *Ctx) {
	p := c.P
	occ := map[string]int{}
	for _, fn := range p.Funcs {
		if !strings.HasSuffix(p.unitFile(fn), "/rule_expression.go") {
			continue
		}
		eachInstr(fn, func(b *ssa.BasicBlock, _ int, in ssa.Instruction) {
			ld, ok := in.(*ssa.UnOp)
			if !ok || ld.Op != token.MUL {
				return
			}
			fa, ok := ld.X.(*ssa.FieldAddr)
			if !ok || fieldAddrName(fa) != "typedExpr.ty" {
				return
			}
			ia, ok := fa.X.(*ssa.IndexAddr)
			if !ok {
				return
			}
			if k, ok := constInt(ia.Index); !ok || k != 0 {
				return
			}
			key := FuncName(fn) + "|type of the first placeholder used for the scalar"
			occ[key]++
			construct := fmt.Sprintf("%s#%d", key, occ[key])
			whole, one := false, false
			for ifi, outcome := range controllingConds(b) {
				if call, ok := ifi.Cond.(*ssa.Call); ok && outcome {
					if f := staticCallee(&call.Call); f != nil && FuncName(f) == "(*String).IsExpressionAssigned" {
						whole = true
					}
				}
				if bo, ok := ifi.Cond.(*ssa.BinOp); ok && bo.Op == token.EQL && outcome {
					if k, ok := constInt(bo.Y); ok && k == 1 {
						one = true
					}
				}
			}
			if !whole {
				// the same test as a package function on the raw text
				for ifi, outcome := range controllingConds(b) {
					if call, ok := ifi.Cond.(*ssa.Call); ok && outcome {
						if f := staticCallee(&call.Call); f != nil && FuncName(f) == "isExprAssigned" {
							whole = true
						}
					}
				}
			}
			if !whole {
				// the scalar is a parameter that every caller takes from a field the parser only fills for whole-value expressions
				if sl, ok := ia.X.(*ssa.Extract); ok {
					if cc, ok := sl.Tuple.(*ssa.Call); ok && len(cc.Call.Args) > 1 {
						if f, base := fieldLoad(cc.Call.Args[1]); f == "String.Value" {
							if prm, ok := base.(*ssa.Parameter); ok {
								idx := -1
								for i, q := range fn.Params {
									if q == prm {
										idx = i
									}
								}
								all, n := exprFieldCallers(p, fn, idx, 0)
								if all && n > 0 {
									c.ok(construct, ld.Pos(), fmt.Sprintf("the scalar comes from an *Expression field at all %d call sites (filled by the parser only for whole-value expressions)", n))
									return
								}
							}
						}
					}
				}
			}
			switch {
			case whole && one:
				c.ok(construct, ld.Pos(), "only when there is exactly one placeholder and IsExpressionAssigned() holds")
			case whole:
				c.ok(construct, ld.Pos(), "only when IsExpressionAssigned() holds")
			default:
				c.bad(construct, ld.Pos(), "the type of the first placeholder is taken as the type of the whole value without IsExpressionAssigned(): `${{ 3 }}x` is typed as a number")
			}
		})
	}
}

// ---- C03.DEFER ----

func runC03Defer(c *Ctx) {
	p := c.P
	for _, fn := range p.Funcs {
		if !strings.HasSuffix(p.unitFile(fn), "/parse.go") || fn.Parent() != nil {
			continue
		}
		for _, b := range fn.Blocks {
			if !blockInCycle(b) {
				continue
			}
			for _, in := range b.Instrs {
				ph, ok := in.(*ssa.Phi)
				if !ok {
					break
				}
				pt, ok := ph.Type().Underlying().(*types.Pointer)
				if !ok {
					continue
				}
				if nm := namedOf(pt.Elem()); nm == nil || nm.Obj().Pkg() == nil || nm.Obj().Pkg().Path() != modPath {
					continue
				}
				// loop-carried AST value: the values merged by the phi
				vals := map[ssa.Value]bool{ph: true}
				for _, e := range ph.Edges {
					vals[e] = true
				}
				// fields into which it is stored
				fields := map[string]bool{}
				eachInstr(fn, func(_ *ssa.BasicBlock, _ int, in2 ssa.Instruction) {
					if st, ok := in2.(*ssa.Store); ok && vals[st.Val] {
						if fa, ok := st.Addr.(*ssa.FieldAddr); ok {
							fields[fieldAddrName(fa)] = true
						}
					}
				})
				if len(fields) == 0 {
					// a value that a key case parses into a local and that no node ever receives: unless it is handed on
					// in another way (argument, result, element), the key is parsed for nothing
					if call := parsedInto(ph); call != nil && !handedOn(ph) {
						c.bad(fmt.Sprintf("%s|`%s` parsed but never handed to the node", FuncName(fn), ph.Comment), call.Pos(), "the value of the key is parsed into a local variable that is stored into no field of the node built from these keys: the value (and any ${{ }} in it) is lost")
					}
					continue
				}
				// the other key order: when the value is parsed and a node may already exist, it is stored at once
				for _, e := range ph.Edges {
					call, ok := e.(*ssa.Call)
					if !ok {
						continue
					}
					for _, f := range sortedKeys(fields) {
						construct := fmt.Sprintf("%s|%s of a node created before `%s` was parsed", FuncName(fn), f, ph.Comment)
						okNow := false
						eachInstr(fn, func(_ *ssa.BasicBlock, _ int, in3 ssa.Instruction) {
							if st, ok := in3.(*ssa.Store); ok && st.Val == ssa.Value(call) {
								if fa, ok := st.Addr.(*ssa.FieldAddr); ok && fieldAddrName(fa) == f && dom(call, st) {
									okNow = true
								}
							}
						})
						// nodes that are only created after all keys were seen need no immediate store
						createdInLoop := false
						tname := f[:strings.Index(f, ".")]
						eachInstr(fn, func(ab *ssa.BasicBlock, _ int, in3 ssa.Instruction) {
							if al, ok := in3.(*ssa.Alloc); ok && typeStr(al.Type()) == "*"+tname && naturalLoop(b)[ab] {
								createdInLoop = true // inside the loop over the keys itself
							}
						})
						if !createdInLoop {
							continue
						}
						if okNow {
							c.ok(construct, call.Pos(), "stored into the existing node right after parsing")
						} else {
							c.bad(construct, call.Pos(), "the value is only kept in a local variable: when the node was created by an earlier key it never receives it")
						}
					}
				}
				for _, f := range sortedKeys(fields) {
					tname := f[:strings.Index(f, ".")]
					// every allocation of that node type inside the loop gets the field from the carried value
					eachInstr(fn, func(ab *ssa.BasicBlock, _ int, in2 ssa.Instruction) {
						al, ok := in2.(*ssa.Alloc)
						if !ok || typeStr(al.Type()) != "*"+tname || !blockInCycle(ab) {
							return
						}

						construct := fmt.Sprintf("%s|%s of a node created after `%s` was parsed", FuncName(fn), f, ph.Comment)
						// a store to <node>.f of the carried value where node is al or a phi merging al
						nodes := map[ssa.Value]bool{al: true}
						for _, ref := range *al.Referrers() {
							if p2, ok := ref.(*ssa.Phi); ok {
								nodes[p2] = true
							}
						}
						okStore := false
						eachInstr(fn, func(_ *ssa.BasicBlock, _ int, in3 ssa.Instruction) {
							if st, ok := in3.(*ssa.Store); ok && vals[st.Val] {
								if fa, ok := st.Addr.(*ssa.FieldAddr); ok && fieldAddrName(fa) == f && nodes[fa.X] {
									okStore = true
								}
							}
						})
						if okStore {
							c.ok(construct, al.Pos(), "the value parsed earlier is stored into the new node")
						} else {
							c.bad(construct, al.Pos(), "a "+tname+" created after the key was parsed never receives it: the value (and any ${{ }} in it) is lost when the keys are written in that order")
						}
					})
				}
			}
		}
	}
}

var _ = sort.Strings

// phiGroup: the phi and everything it merges, through nested phis of the same variable.
func phiGroup(ph *ssa.Phi) map[ssa.Value]bool {
	group := map[ssa.Value]bool{}
	var add func(v ssa.Value)
	add = func(v ssa.Value) {
		if group[v] {
			return
		}
		group[v] = true
		if p2, ok := v.(*ssa.Phi); ok {
			for _, e := range p2.Edges {
				add(e)
			}
		}
	}
	add(ph)
	return group
}

// parsedInto: one of the values merged by the loop-carried variable is the result of a parse method of the parser.
func parsedInto(ph *ssa.Phi) *ssa.Call {
	var found *ssa.Call
	for v := range phiGroup(ph) {
		if call, ok := v.(*ssa.Call); ok {
			if g := staticCallee(&call.Call); g != nil && g.Signature.Recv() != nil && typeStr(g.Signature.Recv().Type()) == "*parser" {
				if found == nil || call.Pos() < found.Pos() {
					found = call
				}
			}
		}
	}
	return found
}

// handedOn: the variable is used for more than being read: stored, passed, returned, converted or merged into another
// variable.
func handedOn(ph *ssa.Phi) bool {
	group := phiGroup(ph)
	for v := range group {
		if v.Referrers() == nil {
			continue
		}
		for _, ref := range *v.Referrers() {
			switch r := ref.(type) {
			case *ssa.Store:
				if r.Val == v {
					return true
				}
			case *ssa.Phi:
				if !group[r] {
					return true
				}
			case *ssa.MapUpdate:
				if r.Value == v || r.Key == v {
					return true
				}
			case ssa.CallInstruction:
				for _, a := range r.Common().Args {
					if a == v {
						return true
					}
				}
			case *ssa.Return, *ssa.MakeInterface, *ssa.ChangeInterface, *ssa.ChangeType, *ssa.Convert, *ssa.Send, *ssa.MakeClosure:
				return true
			}
		}
	}
	return false
}

// exprFieldCallers: at every call site of fn, is argument idx a load of a field whose name says it holds a whole-value
// expression (directly, or through a wrapper that forwards its own parameter)?
func exprFieldCallers(p *Prog, fn *ssa.Function, idx int, depth int) (bool, int) {
	if depth > 3 || idx < 0 {
		return false, 0
	}
	all, n := true, 0
	for _, e := range p.callersOf(fn) {
		if e.Site == nil || e.Site.Common().IsInvoke() || idx >= len(e.Site.Common().Args) {
			continue
		}
		n++
		arg := e.Site.Common().Args[idx]
		if af, _ := fieldLoad(arg); strings.Contains(af, "Expr") {
			continue
		}
		if prm, ok := arg.(*ssa.Parameter); ok {
			caller := prm.Parent()
			j := -1
			for i, q := range caller.Params {
				if q == prm {
					j = i
				}
			}
			if ok2, m := exprFieldCallers(p, caller, j, depth+1); ok2 && m > 0 {
				continue
			}
		}
		all = false
	}
	return all, n
}

func isEmptyInterface(t types.Type) bool {
	it, ok := t.Underlying().(*types.Interface)
	return ok && it.NumMethods() == 0
}

// naturalLoop: the blocks of the natural loop(s) with header h.
func naturalLoop(h *ssa.BasicBlock) map[*ssa.BasicBlock]bool {
	body := map[*ssa.BasicBlock]bool{h: true}
	var stack []*ssa.BasicBlock
	for _, t := range h.Preds {
		if h.Dominates(t) && !body[t] {
			body[t] = true
			stack = append(stack, t)
		}
	}
	for len(stack) > 0 {
		x := stack[len(stack)-1]
		stack = stack[:len(stack)-1]
		for _, pr := range x.Preds {
			if !body[pr] {
				body[pr] = true
				stack = append(stack, pr)
			}
		}
	}
	return body
}

// ---- C11.SCAN ----

// The scan over the placeholders of one scalar may only stop early when the parser could not delimit the placeholder
// (syntax error): a semantic diagnostic in one placeholder says nothing about the next one.
func runC11Scan(c *Ctx) {
	p := c.P
	fn := p.Method("RuleExpression", "checkExprsIn")
	if fn == nil {
		c.anchorMissing("(*RuleExpression).checkExprsIn")
		return
	}
	sites := parseSites(p, fn)
	if len(sites) != 1 {
		c.bad("(*RuleExpression).checkExprsIn|scan", fn.Pos(), fmt.Sprintf("%d places where the text of a placeholder is parsed", len(sites)))
		return
	}
	site := sites[0]
	call := site.call
	var hdr *ssa.BasicBlock
	for _, b := range fn.Blocks {
		if b.Dominates(call.Block()) && len(naturalLoop(b)) > 1 && naturalLoop(b)[call.Block()] {
			hdr = b // innermost header dominating the call: keep the last (deepest) one
		}
	}
	if hdr == nil {
		c.bad("(*RuleExpression).checkExprsIn|scan", fn.Pos(), "the placeholders are not scanned in a loop")
		return
	}
	// typeWithSemOK: v is the other result of the call whose boolean result is the "no diagnostic" flag
	typeWithSemOK := func(v ssa.Value) bool {
		ex, ok := v.(*ssa.Extract)
		if !ok || ex.Tuple.Referrers() == nil {
			return false
		}
		for _, ref := range *ex.Tuple.Referrers() {
			if sib, ok := ref.(*ssa.Extract); ok && sib != ex && site.isSemOK(sib) {
				return true
			}
		}
		return false
	}
	// Edges on which the end of the placeholder is known to be unknown (the parser could not delimit it), and edges taken
	// because the placeholder got a diagnostic.
	type edge struct {
		b *ssa.BasicBlock
		i int
	}
	parseFailed := map[edge]bool{}
	semFailed := map[edge]bool{}
	for _, b := range fn.Blocks {
		ifi, ok := b.Instrs[len(b.Instrs)-1].(*ssa.If)
		if !ok {
			continue
		}
		if site.isSemOK(ifi.Cond) {
			semFailed[edge{b, 1}] = true
		}
		if v, nilSucc, ok := nilTest(ifi); ok {
			// helper form: the type result is nil when nothing was parsed; inline form: the parse error is not nil, or
			// the type that comes with the "no diagnostic" flag is nil (nothing was typed)
			switch {
			case site.isParseErr(v) && site.helper != nil, site.helper == nil && typeWithSemOK(v):
				parseFailed[edge{b, nilSucc}] = true
			case site.isParseErr(v):
				parseFailed[edge{b, 1 - nilSucc}] = true
			}
		}
		if bo, ok := ifi.Cond.(*ssa.BinOp); ok && (bo.Op == token.EQL || bo.Op == token.NEQ) {
			for _, pair := range [][2]ssa.Value{{bo.X, bo.Y}, {bo.Y, bo.X}} {
				if k, isConst := constInt(pair[1]); isConst && k == 0 && site.isOffset(pair[0]) {
					if bo.Op == token.EQL {
						parseFailed[edge{b, 0}] = true
					} else {
						parseFailed[edge{b, 1}] = true
					}
				}
			}
		}
	}
	// blocks reached from the parse of a placeholder without starting the next round of the loop, not using the edges in skip
	from := func(skip ...map[edge]bool) map[*ssa.BasicBlock]bool {
		seen := map[*ssa.BasicBlock]bool{}
		work := []*ssa.BasicBlock{call.Block()}
		for len(work) > 0 {
			b := work[len(work)-1]
			work = work[:len(work)-1]
		succs:
			for i, s := range b.Succs {
				if s == hdr || seen[s] {
					continue
				}
				for _, m := range skip {
					if m[edge{b, i}] {
						continue succs
					}
				}
				seen[s] = true
				work = append(work, s)
			}
		}
		return seen
	}
	all := from()
	all[call.Block()] = true
	noParseFail := from(parseFailed)
	noParseFail[call.Block()] = true
	neither := from(parseFailed, semFailed)
	neither[call.Block()] = true
	n := 0
	for _, b := range fn.Blocks {
		// returns that can be reached from the call without going through the loop header again are exits taken because
		// of this placeholder (a break shows as the return after the loop being reached this way)
		ret, ok := b.Instrs[len(b.Instrs)-1].(*ssa.Return)
		if !ok || !all[b] {
			continue
		}
		n++
		construct := fmt.Sprintf("(*RuleExpression).checkExprsIn|early exit#%d", n)
		switch {
		case !noParseFail[b]:
			c.ok(construct, ret.Pos(), "every path from the parse of a placeholder to this exit passes a test that says the parser could not delimit the placeholder: the place where the next one starts is unknown")
		case !neither[b]:
			c.bad("(*RuleExpression).checkExprsIn|stops after a placeholder with a diagnostic", ret.Pos(), "the scan of a scalar stops at the first placeholder with any diagnostic: later placeholders of the same scalar are not checked (an untrusted input, a context that is not available or a syntax error in them is not reported)")
		default:
			c.bad(construct, ret.Pos(), "the scan of a scalar can stop after a placeholder that was parsed to its end and got no diagnostic: later placeholders of the same scalar are not checked")
		}
	}
	if n == 0 {
		c.undecided("(*RuleExpression).checkExprsIn|early exit", fn.Pos(), "no exit from the scan found")
	}
}

// ---- C03.REPLACE ----

// A node that receives fields key by key must stay the same object for the whole key loop: replacing it in one case loses
// what the earlier keys stored (key order dependence).
func runC03Replace(c *Ctx) {
	p := c.P
	n := 0
	for _, fn := range p.Funcs {
		if !strings.HasSuffix(p.unitFile(fn), "/parse.go") || fn.Parent() != nil {
			continue
		}
		// nodes under construction: allocations of module struct types whose fields are stored inside a loop
		for _, h := range loopHeaders(fn) {
			body := naturalLoop(h)
			// bases of field stores inside the loop
			bases := map[ssa.Value]bool{}
			for b := range body {
				for _, in := range b.Instrs {
					if st, ok := in.(*ssa.Store); ok {
						if fa, ok := st.Addr.(*ssa.FieldAddr); ok {
							if nm := namedOf(fa.X.Type()); nm != nil && nm.Obj().Pkg() != nil && nm.Obj().Pkg().Path() == modPath {
								bases[fa.X] = true
							}
						}
					}
				}
			}
			for base := range bases {
				construct := fmt.Sprintf("%s|node %s filled in the loop at block %d", FuncName(fn), typeStr(base.Type()), h.Index)
				ph, isPhi := base.(*ssa.Phi)
				if !isPhi || ph.Block() != h {
					// defined outside the loop (one object for all keys) or created per iteration
					if !definedIn(base, body) {
						n++
						c.ok(construct, fn.Pos(), "one object for all keys")
					}
					continue
				}
				n++
				replaced := false
				for i, e := range ph.Edges {
					if body[h.Preds[i]] && e != ssa.Value(ph) {
						replaced = true
					}
				}
				if replaced {
					c.bad(construct, ph.Pos(), "the node that collects the keys is replaced by another object inside the key loop: what earlier keys stored into it is lost, so the result depends on the order of the keys")
				} else {
					c.ok(construct, ph.Pos(), "the same object on every iteration")
				}
			}
		}
	}
	if n == 0 {
		c.undecided("parse.go|nodes filled in loops", token.NoPos, "no node filled key by key found")
	}
	c03Attach(c)
}

// ---- C16.WIDTH ----

// The caret line of a snippet is positioned in terminal cells: the space before `^` and the `~` underline must both be
// measured with the same cell-width functions; a width taken from a byte or rune count puts the caret under the wrong
// character whenever the two units differ.
func runC16Width(c *Ctx) {
	p := c.P
	fn := p.Method("Error", "getIndicator")
	if fn == nil {
		c.anchorMissing("(*Error).getIndicator")
		return
	}
	n := 0
	eachInstr(fn, func(_ *ssa.BasicBlock, _ int, in ssa.Instruction) {
		call, ok := in.(*ssa.Call)
		if !ok || calleeFullName(&call.Call) != "strings.Repeat" {
			return
		}
		n++
		what, _ := constString(call.Call.Args[0])
		construct := fmt.Sprintf("(*Error).getIndicator|width of the %q run", what)
		var bad []string
		cells := false
		seen := map[ssa.Value]bool{}
		var walk func(v ssa.Value, d int)
		walk = func(v ssa.Value, d int) {
			if d > 10 || seen[v] {
				return
			}
			seen[v] = true
			switch x := v.(type) {
			case *ssa.Const:
			case *ssa.BinOp:
				walk(x.X, d+1)
				walk(x.Y, d+1)
			case *ssa.Phi:
				for _, e := range x.Edges {
					walk(e, d+1)
				}
			case *ssa.Convert:
				walk(x.X, d+1)
			case *ssa.Call:
				name := calleeFullName(&x.Call)
				if strings.HasPrefix(name, "github.com/mattn/go-runewidth.") {
					cells = true
					return
				}
				if bi, ok := x.Call.Value.(*ssa.Builtin); ok {
					bad = append(bad, bi.Name()+"()")
					return
				}
				bad = append(bad, name)
			default:
				bad = append(bad, symName(v))
			}
		}
		walk(call.Call.Args[1], 0)
		sort.Strings(bad)
		if cells && len(bad) == 0 {
			c.ok(construct, call.Pos(), "measured in terminal cells (go-runewidth)")
		} else {
			c.bad(construct, call.Pos(), "the width is not measured in terminal cells only (uses "+strings.Join(bad, ", ")+"): after a wide or zero-width character the caret is not under the reported column")
		}
	})
	// padding written character by character: one constant space per character of the line is a width in characters
	for _, name := range []string{"(*strings.Builder).WriteByte", "(*strings.Builder).WriteRune", "(*strings.Builder).WriteString"} {
		for _, call := range findCalls(fn, name) {
			arg := call.Common().Args[1]
			isSpace := false
			if k, ok := constInt(arg); ok && k == ' ' {
				isSpace = true
			}
			if s, ok := constString(arg); ok && s == " " {
				isSpace = true
			}
			if isSpace && blockInCycle(call.Block()) {
				n++
				c.bad("(*Error).getIndicator|width of the \" \" run", call.Pos(), "one space is written per character of the line: after a wide or zero-width character the caret is not under the reported column")
			}
		}
	}
	if n < 2 {
		c.bad("(*Error).getIndicator|indicator", fn.Pos(), "the indicator is not built from a run of spaces and a run of ~")
	}
}

// transformedElems: the slice value holds elements appended as strings.ToLower/ToUpper/TrimSpace(...) results.
func transformedElems(v ssa.Value, depth int, seen map[ssa.Value]bool) *ssa.Call {
	if depth > 8 || seen[v] {
		return nil
	}
	seen[v] = true
	switch x := v.(type) {
	case *ssa.Phi:
		for _, e := range x.Edges {
			if r := transformedElems(e, depth+1, seen); r != nil {
				return r
			}
		}
	case *ssa.Call:
		if bi, ok := x.Call.Value.(*ssa.Builtin); ok && bi.Name() == "append" {
			if r := transformedElems(x.Call.Args[0], depth+1, seen); r != nil {
				return r
			}
			if elems, ok := variadicArgs(x.Call.Args[1]); ok {
				for _, e := range elems {
					if ec, ok := e.(*ssa.Call); ok {
						switch calleeFullName(&ec.Call) {
						case "strings.ToLower", "strings.ToUpper", "strings.TrimSpace":
							return ec
						}
					}
				}
			}
		}
	case *ssa.Slice:
		return transformedElems(x.X, depth+1, seen)
	}
	return nil
}
