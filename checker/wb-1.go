package main

// Helpers added in the white-box round on C01 / C02 / C03.

import (
	"fmt"
	"go/token"
	"go/types"
	"sort"
	"strings"

	"golang.org/x/tools/go/ssa"
)

// fieldPathOf: v is a load of root.f1.f2...fn (each step a load through a FieldAddr, or a Field of a struct value).
// It returns the SSA value the chain starts from and the qualified names of the fields, outermost first.
func fieldPathOf(v ssa.Value) (root ssa.Value, chain []string) {
	switch x := v.(type) {
	case *ssa.UnOp:
		if fa, ok := x.X.(*ssa.FieldAddr); ok && x.Op.String() == "*" {
			r, c := fieldPathOf(fa.X)
			return r, append(c, fieldAddrName(fa))
		}
	case *ssa.Field:
		n, _ := fieldName(x.X.Type(), x.Field)
		r, c := fieldPathOf(x.X)
		return r, append(c, n)
	}
	return v, nil
}

func sameChain(a, b []string) bool {
	if len(a) != len(b) {
		return false
	}
	for i := range a {
		if a[i] != b[i] {
			return false
		}
	}
	return true
}

// samePathLoads: every value of fn that loads the same field path from the same SSA root as v (v included).
func samePathLoads(fn *ssa.Function, v ssa.Value) map[ssa.Value]bool {
	out := map[ssa.Value]bool{v: true}
	root, chain := fieldPathOf(v)
	if len(chain) == 0 {
		return out
	}
	eachInstr(fn, func(_ *ssa.BasicBlock, _ int, in ssa.Instruction) {
		w, ok := in.(ssa.Value)
		if !ok {
			return
		}
		switch in.(type) {
		case *ssa.UnOp, *ssa.Field:
		default:
			return
		}
		if r2, c2 := fieldPathOf(w); r2 == root && sameChain(c2, chain) {
			out[w] = true
		}
	})
	return out
}

// transFieldStores: for every function of the module, the qualified names of the fields it (or anything it calls) stores a
// value other than the constant nil into.
func (p *Prog) transFieldStores() map[*ssa.Function]map[string]bool {
	if m, ok := p.memo("transFieldStores").(map[*ssa.Function]map[string]bool); ok {
		return m
	}
	res := map[*ssa.Function]map[string]bool{}
	callees := map[*ssa.Function][]*ssa.Function{}
	var all []*ssa.Function
	seen := map[*ssa.Function]bool{}
	var add func(fn *ssa.Function)
	add = func(fn *ssa.Function) {
		if fn == nil || seen[fn] || fn.Blocks == nil || !inModule(fn) {
			return
		}
		seen[fn] = true
		all = append(all, fn)
		res[fn] = map[string]bool{}
		eachInstr(fn, func(_ *ssa.BasicBlock, _ int, in ssa.Instruction) {
			switch x := in.(type) {
			case *ssa.Store:
				if fa, ok := x.Addr.(*ssa.FieldAddr); ok && !isNilConst(x.Val) {
					res[fn][fieldAddrName(fa)] = true
				}
			case *ssa.MakeClosure:
				if g, ok := x.Fn.(*ssa.Function); ok {
					callees[fn] = append(callees[fn], g)
				}
			case ssa.CallInstruction:
				callees[fn] = append(callees[fn], p.calleesOf(x)...)
			}
		})
		for _, g := range callees[fn] {
			add(g)
		}
	}
	for _, fn := range p.Funcs {
		add(fn)
	}
	for changed := true; changed; {
		changed = false
		for _, fn := range all {
			for _, g := range callees[fn] {
				for f := range res[g] {
					if !res[fn][f] {
						res[fn][f] = true
						changed = true
					}
				}
			}
		}
	}
	p.setMemo("transFieldStores", res)
	return res
}

// mayStoreFields: the instruction may give one of the fields a new non-nil value: a store into such a field, a call of a
// module function that (transitively) stores into one, or a call outside the module that receives a pointer to a module
// type (a decoder filling it).
func (p *Prog) mayStoreFields(in ssa.Instruction, fields []string) bool {
	want := map[string]bool{}
	for _, f := range fields {
		want[f] = true
	}
	switch x := in.(type) {
	case *ssa.Store:
		if fa, ok := x.Addr.(*ssa.FieldAddr); ok && want[fieldAddrName(fa)] && !isNilConst(x.Val) {
			return true
		}
		// a whole struct value stored over the object
		if _, ok := x.Val.Type().Underlying().(*types.Struct); ok {
			return true
		}
	case ssa.CallInstruction:
		if _, ok := x.Common().Value.(*ssa.Builtin); ok {
			return false
		}
		tfs := p.transFieldStores()
		gs := p.calleesOf(x)
		if len(gs) == 0 {
			return pointsIntoModule(x.Common())
		}
		for _, g := range gs {
			if g.Blocks == nil || !inModule(g) {
				if pointsIntoModule(x.Common()) {
					return true
				}
				continue
			}
			for f := range want {
				if tfs[g][f] {
					return true
				}
			}
		}
	}
	return false
}

func pointsIntoModule(c *ssa.CallCommon) bool {
	args := append([]ssa.Value{}, c.Args...)
	for _, a := range args {
		if mi, ok := a.(*ssa.MakeInterface); ok {
			a = mi.X
		}
		if pt, ok := a.Type().Underlying().(*types.Pointer); ok {
			if n := namedOf(pt.Elem()); n != nil && n.Obj().Pkg() != nil && n.Obj().Pkg().Path() == modPath {
				return true
			}
		}
	}
	return false
}

// ---- access paths (C03.R) ----

// apRoot/apath: a value is reached from a parameter of some function through a chain of fields (slices, maps, pointers and
// interfaces are transparent; fields are named "Type.field").
type apath struct {
	root  *ssa.Parameter
	chain string // fields joined by "/"
}

const apMaxLen = 10

func apJoin(a, b string) string {
	switch {
	case a == "":
		return b
	case b == "":
		return a
	}
	return a + "/" + b
}

type apEngine struct {
	p      *Prog
	ftype  map[string]types.Type // qualified field name -> declared type
	retAP  map[*ssa.Function]map[int]map[apath]bool
	inProg map[*ssa.Function]bool
}

func (p *Prog) newAPEngine() *apEngine {
	e := &apEngine{p: p, ftype: map[string]types.Type{}, retAP: map[*ssa.Function]map[int]map[apath]bool{}, inProg: map[*ssa.Function]bool{}}
	scope := p.Main.Types.Scope()
	for _, n := range scope.Names() {
		tn, ok := scope.Lookup(n).(*types.TypeName)
		if !ok {
			continue
		}
		st, ok := tn.Type().Underlying().(*types.Struct)
		if !ok {
			continue
		}
		for i := 0; i < st.NumFields(); i++ {
			q, _ := fieldName(tn.Type(), i)
			e.ftype[q] = st.Field(i).Type()
		}
	}
	return e
}

// norm cuts a chain behind its first field of scalar kind (what lies inside a scalar is not a position of its own) and
// bounds its length.
func (e *apEngine) norm(chain string) string {
	if chain == "" {
		return ""
	}
	parts := strings.Split(chain, "/")
	for i, f := range parts {
		if t, ok := e.ftype[f]; ok && scalarKinds[typeStr(t)] {
			parts = parts[:i+1]
			break
		}
	}
	if len(parts) > apMaxLen {
		parts = parts[:apMaxLen]
	}
	return strings.Join(parts, "/")
}

// of: the access paths of v, backwards inside its function, through closures to the enclosing function, and through the
// results of module functions.
func (e *apEngine) of(v ssa.Value) map[apath]bool {
	out := map[apath]bool{}
	e.walk(v, "", out, map[apKey]bool{}, 0)
	return out
}

type apKey struct {
	v ssa.Value
	s string
}

func (e *apEngine) walk(v ssa.Value, suffix string, out map[apath]bool, seen map[apKey]bool, depth int) {
	if v == nil || depth > 60 || strings.Count(suffix, "/") > 2*apMaxLen {
		return
	}
	if seen[apKey{v, suffix}] {
		return
	}
	seen[apKey{v, suffix}] = true
	switch x := v.(type) {
	case *ssa.Parameter:
		out[apath{x, e.norm(suffix)}] = true
	case *ssa.FreeVar:
		fn := x.Parent()
		idx := -1
		for i, fv := range fn.FreeVars {
			if fv == x {
				idx = i
			}
		}
		if par := fn.Parent(); par != nil && idx >= 0 {
			eachInstr(par, func(_ *ssa.BasicBlock, _ int, in ssa.Instruction) {
				if mc, ok := in.(*ssa.MakeClosure); ok && mc.Fn == fn && idx < len(mc.Bindings) {
					e.walk(mc.Bindings[idx], suffix, out, seen, depth+1)
				}
			})
		}
	case *ssa.Alloc:
		// the address of a variable: what was stored into it; for an object built in place (&T{f: v}), what was stored into
		// the field the chain continues with
		first, rest := suffix, ""
		if i := strings.Index(suffix, "/"); i >= 0 {
			first, rest = suffix[:i], suffix[i+1:]
		}
		for _, ref := range *x.Referrers() {
			switch r := ref.(type) {
			case *ssa.Store:
				if r.Addr == x {
					e.walk(r.Val, suffix, out, seen, depth+1)
				}
			case *ssa.FieldAddr:
				if first == "" || fieldAddrName(r) != first {
					continue
				}
				for _, r2 := range *r.Referrers() {
					if st, ok := r2.(*ssa.Store); ok && st.Addr == r {
						e.walk(st.Val, rest, out, seen, depth+1)
					}
				}
			}
		}
	case *ssa.UnOp:
		if x.Op != token.MUL {
			e.walk(x.X, suffix, out, seen, depth+1)
			return
		}
		switch a := x.X.(type) {
		case *ssa.FieldAddr:
			e.walk(a.X, apJoin(fieldAddrName(a), suffix), out, seen, depth+1)
		case *ssa.IndexAddr:
			e.walk(a.X, suffix, out, seen, depth+1)
		default:
			e.walk(x.X, suffix, out, seen, depth+1)
		}
	case *ssa.FieldAddr:
		e.walk(x.X, apJoin(fieldAddrName(x), suffix), out, seen, depth+1)
	case *ssa.IndexAddr:
		e.walk(x.X, suffix, out, seen, depth+1)
	case *ssa.Field:
		n, _ := fieldName(x.X.Type(), x.Field)
		e.walk(x.X, apJoin(n, suffix), out, seen, depth+1)
	case *ssa.Index:
		e.walk(x.X, suffix, out, seen, depth+1)
	case *ssa.Lookup:
		e.walk(x.X, suffix, out, seen, depth+1)
	case *ssa.Slice:
		e.walk(x.X, suffix, out, seen, depth+1)
	case *ssa.Phi:
		for _, ed := range x.Edges {
			e.walk(ed, suffix, out, seen, depth+1)
		}
	case *ssa.Extract:
		switch t := x.Tuple.(type) {
		case *ssa.Next:
			if r, ok := t.Iter.(*ssa.Range); ok && x.Index == 2 {
				e.walk(r.X, suffix, out, seen, depth+1)
			}
		case *ssa.TypeAssert:
			if x.Index == 0 {
				e.walk(t.X, suffix, out, seen, depth+1)
			}
		case *ssa.Lookup:
			if x.Index == 0 {
				e.walk(t.X, suffix, out, seen, depth+1)
			}
		case *ssa.Call:
			e.walkCall(t, x.Index, suffix, out, seen, depth)
		}
	case *ssa.TypeAssert:
		e.walk(x.X, suffix, out, seen, depth+1)
	case *ssa.MakeInterface:
		e.walk(x.X, suffix, out, seen, depth+1)
	case *ssa.ChangeInterface:
		e.walk(x.X, suffix, out, seen, depth+1)
	case *ssa.ChangeType:
		e.walk(x.X, suffix, out, seen, depth+1)
	case *ssa.Convert:
		e.walk(x.X, suffix, out, seen, depth+1)
	case *ssa.BinOp:
		if x.Op == token.ADD {
			e.walk(x.X, suffix, out, seen, depth+1)
			e.walk(x.Y, suffix, out, seen, depth+1)
		}
	case *ssa.Call:
		e.walkCall(x, 0, suffix, out, seen, depth)
	}
}

// walkCall: result #idx of a call. A module function contributes what its returns are made of, relative to its parameters;
// a function outside the module (strings.TrimSpace, ...) is taken to derive its result from its arguments.
func (e *apEngine) walkCall(call *ssa.Call, idx int, suffix string, out map[apath]bool, seen map[apKey]bool, depth int) {
	if b, ok := call.Call.Value.(*ssa.Builtin); ok {
		if b.Name() == "append" {
			for _, a := range call.Call.Args {
				e.walk(a, suffix, out, seen, depth+1)
			}
		}
		return
	}
	args := func(j int) ssa.Value {
		cc := &call.Call
		if cc.IsInvoke() {
			if j == 0 {
				return cc.Value
			}
			j--
		}
		if j < len(cc.Args) {
			return cc.Args[j]
		}
		return nil
	}
	gs := e.p.calleesOf(call)
	for _, g := range gs {
		if g.Blocks == nil || !inModule(g) {
			continue
		}
		for ap := range e.results(g)[idx] {
			j := -1
			for i, prm := range g.Params {
				if prm == ap.root {
					j = i
				}
			}
			if j < 0 {
				// rooted in a parameter of an enclosing function: already absolute
				out[apath{ap.root, e.norm(apJoin(ap.chain, suffix))}] = true
				continue
			}
			if a := args(j); a != nil {
				e.walk(a, apJoin(ap.chain, suffix), out, seen, depth+1)
			}
		}
	}
	ext := len(gs) == 0
	for _, g := range gs {
		if g.Blocks == nil || !inModule(g) {
			ext = true
		}
	}
	if ext {
		if call.Call.IsInvoke() {
			e.walk(call.Call.Value, suffix, out, seen, depth+1)
		}
		for _, a := range call.Call.Args {
			e.walk(a, suffix, out, seen, depth+1)
		}
	}
}

// results: per result index, the access paths (relative to g's own parameters) of what g returns.
func (e *apEngine) results(g *ssa.Function) map[int]map[apath]bool {
	if r, ok := e.retAP[g]; ok {
		return r
	}
	if e.inProg[g] {
		return nil
	}
	e.inProg[g] = true
	res := map[int]map[apath]bool{}
	for _, b := range g.Blocks {
		ret, ok := b.Instrs[len(b.Instrs)-1].(*ssa.Return)
		if !ok {
			continue
		}
		for i, r := range ret.Results {
			if res[i] == nil {
				res[i] = map[apath]bool{}
			}
			for ap := range e.of(r) {
				res[i][ap] = true
			}
		}
	}
	delete(e.inProg, g)
	e.retAP[g] = res
	return res
}

// handedToScanner: for every function of the module, the (parameter, chain) pairs it hands - itself or through callees - to
// the source parameter of NewExprLexer.
func (e *apEngine) handedToScanner() map[*ssa.Function]map[apath]bool {
	p := e.p
	found := map[*ssa.Function]map[apath]bool{}
	lexer := p.Func("NewExprLexer")
	if lexer == nil || len(lexer.Params) == 0 {
		return found
	}
	add := func(ap apath) bool {
		fn := ap.root.Parent()
		if found[fn] == nil {
			found[fn] = map[apath]bool{}
		}
		if found[fn][ap] {
			return false
		}
		found[fn][ap] = true
		return true
	}
	add(apath{lexer.Params[0], ""})
	own := p.Own()
	// the call sites of module functions with their arguments
	type site struct {
		g   *ssa.Function
		j   int
		arg ssa.Value
	}
	var sites []site
	for _, fn := range own.funcs {
		eachInstr(fn, func(_ *ssa.BasicBlock, _ int, in ssa.Instruction) {
			call, ok := in.(ssa.CallInstruction)
			if !ok {
				return
			}
			cc := call.Common()
			if _, isB := cc.Value.(*ssa.Builtin); isB {
				return
			}
			for _, g := range p.calleesOf(call) {
				if g.Blocks == nil || !inModule(g) {
					continue
				}
				for j := range g.Params {
					var arg ssa.Value
					k := j
					if cc.IsInvoke() {
						if k == 0 {
							arg = cc.Value
						}
						k--
					}
					if arg == nil && k >= 0 && k < len(cc.Args) {
						arg = cc.Args[k]
					}
					if arg == nil {
						continue
					}
					switch t := arg.Type().Underlying().(type) {
					case *types.Basic:
						if t.Info()&types.IsString == 0 {
							continue
						}
					case *types.Signature:
						continue
					}
					sites = append(sites, site{g, j, arg})
				}
			}
		})
	}
	type doneKey struct {
		i     int
		chain string
	}
	done := map[doneKey]bool{}
	for changed := true; changed; {
		changed = false
		for i, s := range sites {
			for h := range found[s.g] {
				if h.root != s.g.Params[s.j] || done[doneKey{i, h.chain}] {
					continue
				}
				done[doneKey{i, h.chain}] = true
				res := map[apath]bool{}
				e.walk(s.arg, h.chain, res, map[apKey]bool{}, 0)
				for a := range res {
					if add(a) {
						changed = true
					}
				}
			}
		}
	}
	return found
}

// requiredScalarPaths: every chain of fields from the node type to a field of scalar kind. Job and Step are visited on their
// own by the visitor and end a chain; a type already on the chain is not entered again.
func (e *apEngine) requiredScalarPaths(root *types.Named, stopAt map[string]bool) []string {
	p := e.p
	var out []string
	scope := p.Main.Types.Scope()
	implementers := func(it *types.Interface) []*types.Named {
		var res []*types.Named
		for _, n := range scope.Names() {
			tn, ok := scope.Lookup(n).(*types.TypeName)
			if !ok {
				continue
			}
			nt, ok := tn.Type().(*types.Named)
			if !ok {
				continue
			}
			if _, isStruct := nt.Underlying().(*types.Struct); !isStruct {
				continue
			}
			if types.Implements(types.NewPointer(nt), it) || types.Implements(nt, it) {
				res = append(res, nt)
			}
		}
		return res
	}
	onPath := map[*types.Named]bool{}
	var visit func(n *types.Named, chain string)
	var visitType func(t types.Type, chain string)
	visitType = func(t types.Type, chain string) {
		switch u := t.(type) {
		case *types.Pointer:
			visitType(u.Elem(), chain)
		case *types.Slice:
			visitType(u.Elem(), chain)
		case *types.Map:
			visitType(u.Elem(), chain)
		case *types.Named:
			if u.Obj().Pkg() != p.Main.Types {
				return
			}
			if it, ok := u.Underlying().(*types.Interface); ok {
				if it.NumMethods() == 0 {
					return
				}
				for _, impl := range implementers(it) {
					visit(impl, chain)
				}
				return
			}
			visit(u, chain)
		}
	}
	visit = func(n *types.Named, chain string) {
		if onPath[n] || (chain != "" && stopAt[n.Obj().Name()]) {
			return
		}
		st, ok := n.Underlying().(*types.Struct)
		if !ok {
			return
		}
		switch n.Obj().Name() {
		case "String", "Bool", "Int", "Float", "Pos":
			return
		}
		onPath[n] = true
		defer delete(onPath, n)
		for i := 0; i < st.NumFields(); i++ {
			q, _ := fieldName(n, i)
			f := st.Field(i)
			if scalarKinds[typeStr(f.Type())] {
				out = append(out, apJoin(chain, q))
				continue
			}
			visitType(f.Type(), apJoin(chain, q))
		}
	}
	visit(root, "")
	sort.Strings(out)
	return out
}

// ---- C03.MUSTSCAN, second clause: no hand-over to the scanner depends on the text of the scalar handed over ----

// apScalarID strips the fields of the leaf carriers (String.Value, Bool.Expression, ...) from the end of a chain: what is
// left names the scalar itself.
func apScalarID(ap apath) apath {
	parts := strings.Split(ap.chain, "/")
	for len(parts) > 0 {
		last := parts[len(parts)-1]
		cut := false
		for _, pre := range []string{"String.", "Bool.", "Int.", "Float.", "RawYAMLString."} {
			if strings.HasPrefix(last, pre) {
				cut = true
			}
		}
		if !cut {
			break
		}
		parts = parts[:len(parts)-1]
	}
	return apath{ap.root, strings.Join(parts, "/")}
}

func (e *apEngine) scalarIDs(v ssa.Value) map[apath]bool {
	out := map[apath]bool{}
	for ap := range e.of(v) {
		out[apScalarID(ap)] = true
	}
	return out
}

// condReads: the condition is computed from (a field of, a method of, a function of) one of the scalars; a plain nil test
// is not a reading of the text.
func (e *apEngine) condReads(cond ssa.Value, ids map[apath]bool) bool {
	hit := false
	seen := map[ssa.Value]bool{}
	var walk func(v ssa.Value, d int)
	walk = func(v ssa.Value, d int) {
		if v == nil || hit || seen[v] || d > 12 {
			return
		}
		seen[v] = true
		switch x := v.(type) {
		case *ssa.Const:
			return
		case *ssa.BinOp:
			if (x.Op == token.EQL || x.Op == token.NEQ) && (isNilConst(x.X) || isNilConst(x.Y)) {
				return // presence, not text
			}
			walk(x.X, d+1)
			walk(x.Y, d+1)
			return
		case *ssa.Phi:
			for _, ed := range x.Edges {
				walk(ed, d+1)
			}
			return
		case *ssa.Call:
			if b, ok := x.Call.Value.(*ssa.Builtin); ok && (b.Name() == "len" || b.Name() == "cap") {
				if _, isStr := x.Call.Args[0].Type().Underlying().(*types.Basic); !isStr {
					return // how many elements, not what they say
				}
			}
			if x.Call.IsInvoke() {
				walk(x.Call.Value, d+1)
			}
			for _, a := range x.Call.Args {
				walk(a, d+1)
			}
			return
		case *ssa.Extract:
			walk(x.Tuple, d+1)
			return
		}
		// a value read from memory or received: is it (part of) one of the scalars?
		switch typeStr(v.Type()) {
		case "*String", "string", "*Bool", "*Int", "*Float", "bool", "String", "*RawYAMLString":
			for id := range e.scalarIDs(v) {
				if ids[id] {
					hit = true
					return
				}
			}
		}
		switch x := v.(type) {
		case *ssa.UnOp:
			if x.Op != token.MUL {
				walk(x.X, d+1)
			}
		case *ssa.Convert:
			walk(x.X, d+1)
		case *ssa.ChangeType:
			walk(x.X, d+1)
		case *ssa.MakeInterface:
			walk(x.X, d+1)
		case *ssa.Slice:
			walk(x.X, d+1)
		}
	}
	walk(cond, 0)
	return hit
}

// onlyFromEdge: block b can be reached from successor i of the If block a, and not from the other successor, without
// passing a block that dominates a (the next iteration of an enclosing loop does not count).
func onlyFromEdge(a *ssa.BasicBlock, i int, b *ssa.BasicBlock) bool {
	stop := map[*ssa.BasicBlock]bool{}
	for _, x := range a.Parent().Blocks {
		if x.Dominates(a) {
			stop[x] = true
		}
	}
	reach := func(s *ssa.BasicBlock) bool {
		if stop[s] {
			return false
		}
		return s == b || reachableBlocks([]*ssa.BasicBlock{s}, stop)[b]
	}
	return reach(a.Succs[i]) && !reach(a.Succs[1-i])
}

type scanSite struct {
	fn   *ssa.Function
	call ssa.CallInstruction
	arg  ssa.Value
	ids  map[apath]bool
}

// scanSites: the calls in fn that hand (part of) a scalar on towards the expression scanner.
func (e *apEngine) scanSites(fn *ssa.Function, found map[*ssa.Function]map[apath]bool) []scanSite {
	var out []scanSite
	eachInstr(fn, func(_ *ssa.BasicBlock, _ int, in ssa.Instruction) {
		call, ok := in.(ssa.CallInstruction)
		if !ok {
			return
		}
		cc := call.Common()
		for _, g := range e.p.calleesOf(call) {
			for h := range found[g] {
				j := -1
				for i, prm := range g.Params {
					if prm == h.root {
						j = i
					}
				}
				if j < 0 {
					continue
				}
				var arg ssa.Value
				if cc.IsInvoke() {
					if j == 0 {
						arg = cc.Value
					}
					j--
				}
				if arg == nil && j >= 0 && j < len(cc.Args) {
					arg = cc.Args[j]
				}
				if arg == nil {
					continue
				}
				if ids := e.scalarIDs(arg); len(ids) > 0 {
					out = append(out, scanSite{fn, call, arg, ids})
				}
			}
		}
	})
	return out
}

// leafFields: the AST fields a scalar may be, followed up through the callers of the function that receives it.
func (e *apEngine) leafFields(ids map[apath]bool, depth int, seen map[*ssa.Parameter]bool) map[string]bool {
	out := map[string]bool{}
	for id := range ids {
		if id.chain != "" {
			parts := strings.Split(id.chain, "/")
			out[parts[len(parts)-1]] = true
			continue
		}
		if depth > 4 || seen[id.root] {
			continue
		}
		seen[id.root] = true
		fn := id.root.Parent()
		j := -1
		for i, prm := range fn.Params {
			if prm == id.root {
				j = i
			}
		}
		for _, edge := range e.p.callersOf(fn) {
			if edge.Site == nil || j < 0 {
				continue
			}
			cc := edge.Site.Common()
			k := j
			var arg ssa.Value
			if cc.IsInvoke() {
				if k == 0 {
					arg = cc.Value
				}
				k--
			}
			if arg == nil && k >= 0 && k < len(cc.Args) {
				arg = cc.Args[k]
			}
			if arg == nil {
				continue
			}
			for f := range e.leafFields(e.scalarIDs(arg), depth+1, seen) {
				out[f] = true
			}
		}
	}
	return out
}

// predicateOf: the function whose result (possibly negated) is the condition.
func predicateOf(cond ssa.Value) *ssa.Function {
	for {
		u, ok := cond.(*ssa.UnOp)
		if !ok || u.Op != token.NOT {
			break
		}
		cond = u.X
	}
	if call, ok := cond.(*ssa.Call); ok {
		return staticCallee(&call.Call)
	}
	return nil
}

// reportedElsewhere: for every AST field the scalar may be, some function of the module tests the same predicate on that
// field and emits a diagnostic on a path from the outcome opposite to `outcome` - the values that are not scanned here are
// reported there (a step id without a complete placeholder is checked against the identifier syntax by the id rule).
func (e *apEngine) reportedElsewhere(pred *ssa.Function, outcome bool, fields map[string]bool) bool {
	if pred == nil || len(fields) == 0 || !inModule(pred) || len(pred.Params) == 0 {
		return false
	}
	switch typeStr(pred.Params[0].Type()) {
	case "*String", "*Bool", "*Int", "*Float":
		// a predicate of the scalar itself (ContainsExpression, IsExpressionAssigned), not a general string function
	default:
		return false
	}
	covered := map[string]bool{}
	for _, fn := range e.p.Own().funcs {
		for _, b := range fn.Blocks {
			ifi, ok := b.Instrs[len(b.Instrs)-1].(*ssa.If)
			if !ok || predicateOf(ifi.Cond) != pred {
				continue
			}
			neg := false
			for c := ifi.Cond; ; {
				u, ok := c.(*ssa.UnOp)
				if !ok || u.Op != token.NOT {
					break
				}
				neg = !neg
				c = u.X
			}
			// the successor taken when the predicate has the outcome that is NOT scanned at the site
			want := !outcome
			succ := 0
			if want == neg {
				succ = 1
			}
			reports := false
			start := b.Succs[succ]
			for blk := range reachableBlocks([]*ssa.BasicBlock{start}, nil) {
				for _, in := range blk.Instrs {
					if emitsDiag(in) {
						reports = true
					}
				}
			}
			for _, in := range start.Instrs {
				if emitsDiag(in) {
					reports = true
				}
			}
			if !reports {
				continue
			}
			call := ifi.Cond
			for {
				u, ok := call.(*ssa.UnOp)
				if !ok {
					break
				}
				call = u.X
			}
			cl := call.(*ssa.Call)
			var subj ssa.Value
			if len(cl.Call.Args) > 0 {
				subj = cl.Call.Args[0]
			}
			if subj == nil {
				continue
			}
			for f := range e.leafFields(e.scalarIDs(subj), 0, map[*ssa.Parameter]bool{}) {
				covered[f] = true
			}
		}
	}
	for f := range fields {
		if !covered[f] {
			return false
		}
	}
	return true
}

func c03TextGuards(c *Ctx) {
	p := c.P
	var roots []*ssa.Function
	for _, m := range []string{"VisitWorkflowPre", "VisitWorkflowPost", "VisitJobPre", "VisitJobPost", "VisitStep"} {
		if f := p.Method("RuleExpression", m); f != nil {
			roots = append(roots, f)
		}
	}
	if len(roots) != 5 {
		c.anchorMissing("RuleExpression visitor methods")
		return
	}
	eng := p.newAPEngine()
	found := eng.handedToScanner()
	reach := p.reachable(roots...)
	// the scan itself (checkExprsIn and what it calls) searches the text for ${{ and is not a filter in front of the scan
	inner := map[*ssa.Function]bool{}
	if scan := c03ScanFunc(p); scan != nil {
		inner = p.reachable(scan)
	}
	var fns []*ssa.Function
	for fn := range reach {
		if inModule(fn) && fn.Blocks != nil && !inner[fn] {
			fns = append(fns, fn)
		}
	}
	sort.Slice(fns, func(i, j int) bool { return fns[i].Pos() < fns[j].Pos() })
	for _, fn := range fns {
		sites := eng.scanSites(fn, found)
		if len(sites) == 0 {
			continue
		}
		bad := ""
		var badPos token.Pos
		for _, s := range sites {
			sb := s.call.Block()
			for _, a := range fn.Blocks {
				ifi, ok := a.Instrs[len(a.Instrs)-1].(*ssa.If)
				if !ok {
					continue
				}
				edge := -1
				for i := range a.Succs {
					if onlyFromEdge(a, i, sb) {
						edge = i
					}
				}
				if edge < 0 || !eng.condReads(ifi.Cond, s.ids) {
					continue
				}
				// (a) the other outcome hands the same scalar to the scanner as well
				other := false
				for _, s2 := range sites {
					if s2.call == s.call || !onlyFromEdge(a, 1-edge, s2.call.Block()) {
						continue
					}
					for id := range s2.ids {
						if s.ids[id] {
							other = true
						}
					}
				}
				if other {
					continue
				}
				// (b) the values left out here are reported by another check of the same predicate
				outcome := edge == 0
				for cnd := ifi.Cond; ; {
					u, ok := cnd.(*ssa.UnOp)
					if !ok || u.Op != token.NOT {
						break
					}
					outcome = !outcome
					cnd = u.X
				}
				if eng.reportedElsewhere(predicateOf(ifi.Cond), outcome, eng.leafFields(s.ids, 0, map[*ssa.Parameter]bool{})) {
					continue
				}
				if bad == "" {
					bad = "the hand-over at " + p.Pos(s.call.Pos()) + " happens only for one outcome of the condition at " + p.Pos(ifi.Cond.Pos()) + ", which is computed from the text of the scalar itself"
					badPos = s.call.Pos()
				}
			}
		}
		construct := FuncName(fn) + "|hand-over independent of the text"
		if bad == "" {
			c.ok(construct, fn.Pos(), fmt.Sprintf("%d hand-over(s) to the scanner; none is conditional on a test of the scalar's own text (nil tests aside), or the other outcome is scanned or reported as well", len(sites)))
		} else {
			c.bad(construct, badPos, bad+": a value for which the test fails is never scanned (a filter like ContainsExpression needs the closing }}, so `${{ github.ref` goes unreported)")
		}
	}
}

// c03ScanFunc: the placeholder scan of the expression rule: (*RuleExpression).checkExprsIn, or - under another name - the
// method of RuleExpression that searches a text for the constant "${{" in a loop.
func c03ScanFunc(p *Prog) *ssa.Function {
	if f := p.Method("RuleExpression", "checkExprsIn"); f != nil {
		return f
	}
	var res *ssa.Function
	for _, fn := range p.Funcs {
		r := fn.Signature.Recv()
		if r == nil || typeStr(r.Type()) != "*RuleExpression" || fn.Blocks == nil {
			continue
		}
		eachInstr(fn, func(b *ssa.BasicBlock, _ int, in ssa.Instruction) {
			call, ok := in.(*ssa.Call)
			if !ok || calleeFullName(&call.Call) != "strings.Index" || len(call.Call.Args) != 2 || !blockInCycle(b) {
				return
			}
			if s, ok := constString(call.Call.Args[1]); ok && s == "${{" {
				res = fn
			}
		})
	}
	return res
}

// ---- C02.MAP: a sort only removes the map order from a collected slice when its comparison orders all elements ----

// sortOrdersAll decides whether the sorting call imposes an order in which no two different elements tie. "" when it does
// (or when nothing can tie by construction); otherwise the reason.
func sortOrdersAll(p *Prog, call ssa.CallInstruction) string {
	cc := call.Common()
	name := calleeFullName(cc)
	var cmp *ssa.Function
	switch name {
	case "sort.Strings", "sort.Ints", "sort.Float64s", "slices.Sort":
		return "" // the elements are their own keys: equal elements are indistinguishable
	case "sort.Slice", "sort.SliceStable", "slices.SortFunc", "slices.SortStableFunc":
		if len(cc.Args) < 2 {
			return "the comparison is not visible"
		}
		switch f := cc.Args[1].(type) {
		case *ssa.MakeClosure:
			cmp, _ = f.Fn.(*ssa.Function)
		case *ssa.Function:
			cmp = f
		}
	case "sort.Sort", "sort.Stable":
		if mi, ok := cc.Args[0].(*ssa.MakeInterface); ok {
			want := "(" + typeStr(mi.X.Type()) + ").Less"
			for _, f := range p.Funcs {
				if FuncName(f) == want {
					cmp = f
				}
			}
		}
	}
	if cmp == nil || cmp.Blocks == nil {
		return "the comparison is not visible"
	}
	isBefore := p.Method("Pos", "IsBefore")
	// the elements themselves: loads of an element of the sorted slice (by[i], xs[j]) or the parameters of a SortFunc
	isElem := func(v ssa.Value) bool {
		switch x := unwrap(v).(type) {
		case *ssa.Parameter:
			return true
		case *ssa.UnOp:
			if x.Op == token.MUL {
				_, ok := x.X.(*ssa.IndexAddr)
				return ok
			}
		}
		return false
	}
	isString := func(v ssa.Value) bool {
		b, ok := v.Type().Underlying().(*types.Basic)
		return ok && b.Info()&types.IsString != 0
	}
	// every comparison the function makes
	total, partial := 0, ""
	fieldsRead := map[string]bool{}
	eachInstr(cmp, func(_ *ssa.BasicBlock, _ int, in ssa.Instruction) {
		switch x := in.(type) {
		case *ssa.FieldAddr:
			n := fieldAddrName(x)
			fieldsRead[n[strings.LastIndex(n, ".")+1:]] = true
		case *ssa.Call:
			switch {
			case isBefore != nil && staticCallee(&x.Call) == isBefore:
				total++
			case calleeFullName(&x.Call) == "strings.Compare":
				total++
			case calleeFullName(&x.Call) == "cmp.Compare" || strings.HasPrefix(calleeFullName(&x.Call), "cmp.Compare["):
				if isString(x.Call.Args[0]) || isElem(x.Call.Args[0]) {
					total++
				} else {
					partial = "cmp.Compare of one numeric component at " + p.Pos(x.Pos())
				}
			}
		case *ssa.BinOp:
			switch x.Op {
			case token.LSS, token.GTR, token.LEQ, token.GEQ:
			default:
				return
			}
			if _, isConst := x.Y.(*ssa.Const); isConst {
				return // the sign of a three-way comparison, judged at the call
			}
			if _, isConst := x.X.(*ssa.Const); isConst {
				return
			}
			switch {
			case isString(x.X):
				total++
			case isElem(x.X) && isElem(x.Y):
				total++
			default:
				txt := binExprAt(cmp, x.Pos())
				if txt == "" {
					txt = x.Op.String()
				}
				partial = "a comparison of one numeric component (" + txt + ") at " + p.Pos(x.Pos())
			}
		}
	})
	switch {
	case partial != "" && fieldsRead["Line"] && fieldsRead["Col"]:
		return "" // line, then column: written out component by component
	case partial != "" && total == 0:
		return "it is ordered by " + partial + " only: elements that agree on it stay in the order in which the map was visited"
	case total == 0:
		return "the comparison at " + p.Pos(cmp.Pos()) + " is of a form that is not decided here"
	}
	return ""
}

// condOrdersAll: the comparison that selects a minimum while ranging over a map leaves no ties between different elements:
// the position comparator, a string comparison, or line and column together. "" when it does.
func condOrdersAll(p *Prog, fn *ssa.Function, cond ssa.Value) string {
	isBefore := p.Method("Pos", "IsBefore")
	for {
		u, ok := cond.(*ssa.UnOp)
		if !ok || u.Op != token.NOT {
			break
		}
		cond = u.X
	}
	switch x := cond.(type) {
	case *ssa.Call:
		if isBefore != nil && staticCallee(&x.Call) == isBefore {
			return ""
		}
		if n := calleeFullName(&x.Call); n == "strings.Compare" {
			return ""
		}
		return "" // another predicate: not a comparison of one component, left to the rule that owns it
	case *ssa.BinOp:
		switch x.Op {
		case token.LSS, token.GTR, token.LEQ, token.GEQ:
		default:
			return ""
		}
		if b, ok := x.X.Type().Underlying().(*types.Basic); ok && b.Info()&types.IsString != 0 {
			return ""
		}
		if c, ok := x.X.(*ssa.Call); ok && calleeFullName(&c.Call) == "strings.Compare" {
			return ""
		}
		if b, ok := x.X.Type().Underlying().(*types.Basic); ok && b.Info()&types.IsNumeric != 0 {
			// a numeric component read from a field of the element; the element itself (a map of numbers) is its own key
			if _, ch := fieldPathOf(x.X); len(ch) == 0 {
				if _, ch2 := fieldPathOf(x.Y); len(ch2) == 0 {
					return ""
				}
			}
			txt := binExprAt(fn, x.Pos())
			if txt == "" {
				txt = "one numeric component"
			}
			return "a comparison of one numeric component (" + txt + " at " + p.Pos(x.Pos()) + ")"
		}
	}
	return ""
}

// ---- C03.REPLACE, second clause: a node created inside a key loop and filled there is attached before the iteration ends ----

// c03Attach: a node that a key case creates (exec := &ExecAction{}) and stores parsed values into must become part of the
// tree on every path to the end of the iteration: stored into a field, an element or a map, appended, passed on or
// returned. Otherwise what one key stored is dropped when the next key creates its own node (`with:` before `uses:`).
func c03Attach(c *Ctx) {
	p := c.P
	for _, fn := range p.Funcs {
		if !strings.HasSuffix(p.unitFile(fn), "/parse.go") || fn.Parent() != nil {
			continue
		}
		heads := loopHeaders(fn)
		occ := map[string]int{}
		must := p.mustStoreField("parser.errors")
		eachInstr(fn, func(ab *ssa.BasicBlock, ai int, in ssa.Instruction) {
			al, ok := in.(*ssa.Alloc)
			if !ok || !al.Heap {
				return
			}
			pt, ok := al.Type().Underlying().(*types.Pointer)
			if !ok {
				return
			}
			nm := namedOf(pt.Elem())
			if nm == nil || nm.Obj().Pkg() == nil || nm.Obj().Pkg().Path() != modPath {
				return
			}
			if _, isStruct := nm.Underlying().(*types.Struct); !isStruct {
				return
			}
			// the innermost loop that contains the allocation
			var body map[*ssa.BasicBlock]bool
			var head *ssa.BasicBlock
			for _, h := range heads {
				nl := naturalLoop(h)
				if nl[ab] && (body == nil || len(nl) < len(body)) {
					body, head = nl, h
				}
			}
			if body == nil {
				return
			}
			// values that are the node: the allocation and the variables (phis) it is merged into
			node := map[ssa.Value]bool{al: true}
			for changed := true; changed; {
				changed = false
				for v := range node {
					for _, ref := range *v.Referrers() {
						switch r := ref.(type) {
						case *ssa.Phi:
							if !node[r] {
								node[r] = true
								changed = true
							}
						case *ssa.MakeInterface:
							if !node[r] {
								node[r] = true
								changed = true
							}
						case *ssa.ChangeInterface:
							if !node[r] {
								node[r] = true
								changed = true
							}
						}
					}
				}
			}
			isFill := func(x ssa.Instruction) bool {
				st, ok := x.(*ssa.Store)
				if !ok {
					return false
				}
				fa, ok := st.Addr.(*ssa.FieldAddr)
				return ok && node[fa.X] && !isNilConst(st.Val)
			}
			isAttach := func(x ssa.Instruction) bool {
				switch r := x.(type) {
				case *ssa.Store:
					if !node[r.Val] {
						return false
					}
					if a2, ok := r.Addr.(*ssa.Alloc); ok && !a2.Heap {
						return false // a local variable
					}
					return true
				case *ssa.MapUpdate:
					return node[r.Value]
				case *ssa.Return:
					for _, v := range r.Results {
						if node[v] {
							return true
						}
					}
				case *ssa.Send:
					return node[r.X]
				case ssa.CallInstruction:
					for _, a := range r.Common().Args {
						if node[a] {
							return true
						}
					}
					// a path on which the parser reports an error gives the node up on purpose (credentials without a
					// password): the workflow is not clean
					if gs := p.calleesOf(r); len(gs) > 0 {
						all := true
						for _, g := range gs {
							if !must[g] {
								all = false
							}
						}
						if all {
							return true
						}
					}
				}
				return false
			}
			filled := false
			for b := range body {
				for _, x := range b.Instrs {
					if isFill(x) {
						filled = true
					}
				}
			}
			if !filled {
				return
			}
			tname := typeStr(al.Type())
			occ[tname]++
			construct := fmt.Sprintf("%s|node %s created in a loop#%d is attached", FuncName(fn), tname, occ[tname])
			// forward from the allocation: (block, index, something stored yet)
			type st struct {
				b      *ssa.BasicBlock
				stored bool
			}
			seen := map[st]bool{}
			var lost token.Pos
			var walk func(b *ssa.BasicBlock, from int, stored bool)
			walk = func(b *ssa.BasicBlock, from int, stored bool) {
				for i := from; i < len(b.Instrs); i++ {
					x := b.Instrs[i]
					if isAttach(x) {
						return
					}
					if isFill(x) {
						stored = true
						if !lost.IsValid() {
							_ = x
						}
					}
				}
				for _, s := range b.Succs {
					if s == head || !body[s] {
						if stored && !lost.IsValid() {
							lost = b.Instrs[len(b.Instrs)-1].Pos()
							if !lost.IsValid() {
								lost = al.Pos()
							}
						}
						continue
					}
					k := st{s, stored}
					if seen[k] {
						continue
					}
					seen[k] = true
					walk(s, 0, stored)
				}
			}
			walk(ab, ai+1, false)
			if lost.IsValid() {
				c.bad(construct, al.Pos(), "a path from the creation of the node stores a parsed value into it and reaches the next key (or the end of the loop) without the node being stored into the tree, appended, passed on or returned: what this key stored is lost when a later key creates the node again")
			} else {
				c.ok(construct, al.Pos(), "on every path on which a value is stored into the new node, the node becomes part of the tree before the iteration ends")
			}
		})
	}
}

// mustStoreField: the module functions every path of which (entry to return) stores into the field, itself or through a
// callee that always does (the error primitives of the parser for "parser.errors").
func (p *Prog) mustStoreField(field string) map[*ssa.Function]bool {
	key := "mustStoreField:" + field
	if m, ok := p.memo(key).(map[*ssa.Function]bool); ok {
		return m
	}
	must := map[*ssa.Function]bool{}
	tfs := p.transFieldStores()
	var cands []*ssa.Function
	for fn, fs := range tfs {
		if fs[field] {
			cands = append(cands, fn)
		}
	}
	sort.Slice(cands, func(i, j int) bool { return cands[i].Pos() < cands[j].Pos() })
	for changed := true; changed; {
		changed = false
		for _, fn := range cands {
			if must[fn] {
				continue
			}
			hit := map[*ssa.BasicBlock]bool{}
			for _, b := range fn.Blocks {
				for _, in := range b.Instrs {
					switch x := in.(type) {
					case *ssa.Store:
						if fa, ok := x.Addr.(*ssa.FieldAddr); ok && fieldAddrName(fa) == field {
							hit[b] = true
						}
					case ssa.CallInstruction:
						gs := p.calleesOf(x)
						all := len(gs) > 0
						for _, g := range gs {
							if !must[g] {
								all = false
							}
						}
						if all {
							hit[b] = true
						}
					}
				}
			}
			// a return reachable from the entry without a hit?
			escapes := false
			if !hit[fn.Blocks[0]] {
				for b := range reachableBlocks([]*ssa.BasicBlock{fn.Blocks[0]}, hit) {
					if _, ok := b.Instrs[len(b.Instrs)-1].(*ssa.Return); ok {
						escapes = true
					}
				}
				if _, ok := fn.Blocks[0].Instrs[len(fn.Blocks[0].Instrs)-1].(*ssa.Return); ok {
					escapes = true
				}
			}
			if !escapes {
				must[fn] = true
				changed = true
			}
		}
	}
	p.setMemo(key, must)
	return must
}

// ---- C01.NIL, second clause: a field the code believes may be nil is used only where a test says it is not ----

// astStructTypes: the struct types reachable from Workflow (the nodes the parser builds from the input).
func astStructTypes(p *Prog) map[string]bool {
	if m, ok := p.memo("astStructTypes").(map[string]bool); ok {
		return m
	}
	out := map[string]bool{}
	root := p.Named("Workflow")
	scope := p.Main.Types.Scope()
	var visitType func(t types.Type)
	var visit func(n *types.Named)
	visitType = func(t types.Type) {
		switch u := t.(type) {
		case *types.Pointer:
			visitType(u.Elem())
		case *types.Slice:
			visitType(u.Elem())
		case *types.Map:
			visitType(u.Elem())
		case *types.Named:
			if u.Obj().Pkg() != p.Main.Types {
				return
			}
			if it, ok := u.Underlying().(*types.Interface); ok {
				if it.NumMethods() == 0 {
					return
				}
				for _, n := range scope.Names() {
					tn, ok := scope.Lookup(n).(*types.TypeName)
					if !ok {
						continue
					}
					nt, ok := tn.Type().(*types.Named)
					if !ok {
						continue
					}
					if _, isStruct := nt.Underlying().(*types.Struct); !isStruct {
						continue
					}
					if types.Implements(types.NewPointer(nt), it) || types.Implements(nt, it) {
						visit(nt)
					}
				}
				return
			}
			visit(u)
		}
	}
	visit = func(n *types.Named) {
		name := typeStr(n)
		if out[name] {
			return
		}
		st, ok := n.Underlying().(*types.Struct)
		if !ok {
			return
		}
		out[name] = true
		for i := 0; i < st.NumFields(); i++ {
			visitType(st.Field(i).Type())
		}
	}
	if root != nil {
		visit(root)
	}
	p.setMemo("astStructTypes", out)
	return out
}

type nilFieldEngine struct {
	p        *Prog
	believed map[string]bool
}

// guardedAt: at instruction (b, idx) of fn the field path of w (a load of root.f1...fn) is known not to be nil:
// (1) a nil test of a load of the same path dominates the instruction and its nil outcome cannot reach it within the
// iteration; (2) a value that cannot be nil (an allocation, make) was stored into the path by a dominating store; (3) the
// result of a function that returns nil/empty whenever its argument is nil was tested non-empty, with the path as the
// argument; (4) the path starts at a parameter and every call site guards the corresponding path of its argument.
func (e *nilFieldEngine) guardedAt(fn *ssa.Function, w ssa.Value, b *ssa.BasicBlock, idx int, depth int) bool {
	same := samePathLoads(fn, w)
	root, chain := fieldPathOf(w)
	// (1) and (3)
	for _, tb := range fn.Blocks {
		ifi, ok := tb.Instrs[len(tb.Instrs)-1].(*ssa.If)
		if !ok {
			continue
		}
		if !(tb == b || tb.Dominates(b)) || tb == b {
			continue
		}
		stop := map[*ssa.BasicBlock]bool{}
		for _, x := range fn.Blocks {
			if x.Dominates(tb) {
				stop[x] = true
			}
		}
		reach := func(s *ssa.BasicBlock) bool {
			if stop[s] {
				return false
			}
			return s == b || reachableBlocks([]*ssa.BasicBlock{s}, stop)[b]
		}
		if v, ns, ok := nilTest(ifi); ok && same[v] {
			if !reach(tb.Succs[ns]) {
				return true
			}
			continue
		}
		// (3) len(g(path)) == k (k > 0), len(...) > 0, g(path) != nil
		if bad := e.emptyEdge(fn, ifi, same); bad >= 0 && !reach(tb.Succs[bad]) {
			return true
		}
	}
	// (2) a dominating store of a fresh value into the same path
	ok2 := false
	eachInstr(fn, func(sb *ssa.BasicBlock, si int, in ssa.Instruction) {
		st, ok := in.(*ssa.Store)
		if !ok {
			return
		}
		fa, ok := st.Addr.(*ssa.FieldAddr)
		if !ok || len(chain) == 0 || fieldAddrName(fa) != chain[len(chain)-1] {
			return
		}
		r2, c2 := fieldPathOf(fa.X)
		if r2 != root || !sameChain(c2, chain[:len(chain)-1]) {
			return
		}
		switch unwrap(st.Val).(type) {
		case *ssa.Alloc, *ssa.MakeMap, *ssa.MakeSlice, *ssa.MakeChan, *ssa.MakeClosure:
			if instrDominates(sb, si, b, idx) {
				ok2 = true
			}
		}
	})
	if ok2 {
		return true
	}
	// the object was built in this function with the field set: root is an allocation whose field got a fresh value
	// (4) callers
	prm, isParam := root.(*ssa.Parameter)
	if !isParam || depth > 3 {
		return false
	}
	j := -1
	for i, q := range fn.Params {
		if q == prm {
			j = i
		}
	}
	callers := e.p.callersOf(fn)
	if j < 0 || len(callers) == 0 {
		return false
	}
	for _, edge := range callers {
		site := edge.Site
		if site == nil {
			return false
		}
		cc := site.Common()
		k := j
		var arg ssa.Value
		if cc.IsInvoke() {
			if k == 0 {
				arg = cc.Value
			}
			k--
		}
		if arg == nil && k >= 0 && k < len(cc.Args) {
			arg = cc.Args[k]
		}
		if arg == nil {
			return false
		}
		caller := site.Parent()
		// the same chain below the argument, as a load in the caller: find one, or reason on the argument's own path
		ar, ac := fieldPathOf(unwrap(arg))
		want := append(append([]string{}, ac...), chain...)
		var probe ssa.Value
		eachInstr(caller, func(_ *ssa.BasicBlock, _ int, in ssa.Instruction) {
			if v, ok := in.(ssa.Value); ok && probe == nil {
				switch in.(type) {
				case *ssa.UnOp, *ssa.Field:
					if r3, c3 := fieldPathOf(v); r3 == ar && sameChain(c3, want) {
						probe = v
					}
				}
			}
		})
		if probe == nil {
			return false
		}
		if !e.guardedAt(caller, probe, site.Block(), instrIndex(site), depth+1) {
			return false
		}
	}
	return true
}

// emptyEdge: the If tests the result of a module function applied to the path for being non-empty (len(r) == k with k > 0,
// len(r) > 0, len(r) != 0, r != nil), and that function returns nil or an empty value on every path on which its argument
// is nil. It returns the successor taken when the result is empty (the path may be nil there), or -1.
func (e *nilFieldEngine) emptyEdge(fn *ssa.Function, ifi *ssa.If, same map[ssa.Value]bool) int {
	bo, ok := ifi.Cond.(*ssa.BinOp)
	if !ok {
		return -1
	}
	var res ssa.Value
	emptySucc := -1
	if call, ok := bo.X.(*ssa.Call); ok {
		if bi, ok := call.Call.Value.(*ssa.Builtin); ok && bi.Name() == "len" {
			k, isK := constInt(bo.Y)
			if !isK {
				return -1
			}
			res = call.Call.Args[0]
			switch {
			case bo.Op == token.EQL && k > 0:
				emptySucc = 1
			case bo.Op == token.NEQ && k == 0:
				emptySucc = 1
			case bo.Op == token.GTR && k >= 0:
				emptySucc = 1
			case bo.Op == token.GEQ && k > 0:
				emptySucc = 1
			case bo.Op == token.EQL && k == 0:
				emptySucc = 0
			default:
				return -1
			}
		}
	}
	if res == nil {
		if v, ns, ok := nilTest(ifi); ok {
			res, emptySucc = v, ns
		}
	}
	if res == nil {
		return -1
	}
	call, ok := res.(*ssa.Call)
	if !ok {
		return -1
	}
	g := staticCallee(&call.Call)
	if g == nil || g.Blocks == nil || !inModule(g) {
		return -1
	}
	for i, a := range call.Call.Args {
		if !same[a] || i >= len(g.Params) {
			continue
		}
		if nilArgGivesEmpty(g, g.Params[i]) {
			return emptySucc
		}
	}
	return -1
}

// nilArgGivesEmpty: the entry block of g tests the parameter for nil and the nil outcome returns the constant nil as first
// result without doing anything else.
func nilArgGivesEmpty(g *ssa.Function, prm *ssa.Parameter) bool {
	b := g.Blocks[0]
	v, ns, ok := nilTest(b.Instrs[len(b.Instrs)-1])
	if !ok || v != ssa.Value(prm) {
		return false
	}
	s := b.Succs[ns]
	ret, ok := s.Instrs[len(s.Instrs)-1].(*ssa.Return)
	if !ok || len(s.Instrs) != 1 || len(ret.Results) == 0 {
		return false
	}
	return isNilConst(ret.Results[0])
}

func c01NilFields(c *Ctx) {
	p := c.P
	ast := astStructTypes(p)
	e := &nilFieldEngine{p: p, believed: map[string]bool{}}
	for _, fn := range p.Funcs {
		for _, b := range fn.Blocks {
			if len(b.Instrs) == 0 {
				continue
			}
			if v, _, ok := nilTest(b.Instrs[len(b.Instrs)-1]); ok {
				if _, ch := fieldPathOf(v); len(ch) > 0 {
					f := ch[len(ch)-1]
					if i := strings.Index(f, "."); i > 0 && ast[f[:i]] {
						e.believed[f] = true
					}
				}
			}
		}
	}
	for _, fn := range p.Funcs {
		occ := map[string]int{}
		eachInstr(fn, func(b *ssa.BasicBlock, idx int, in ssa.Instruction) {
			var ops []*ssa.Value
			done := map[ssa.Value]bool{}
			for _, op := range in.Operands(ops) {
				w := *op
				if w == nil || done[w] {
					continue
				}
				done[w] = true
				_, ch := fieldPathOf(w)
				if len(ch) == 0 || !e.believed[ch[len(ch)-1]] {
					continue
				}
				why := derefOf(in, w)
				if why == "" {
					why = e.passedToUser(in, w)
				}
				if why == "" {
					continue
				}
				f := ch[len(ch)-1]
				occ[f]++
				construct := fmt.Sprintf("%s|use of %s#%d", FuncName(fn), f, occ[f])
				if e.guardedAt(fn, w, b, idx, 0) {
					c.ok(construct, in.Pos(), "the field is tested for nil elsewhere in the module; here a test of the same field path (in this function or at every call site), a store of a fresh value or a non-empty result derived from it comes first")
				} else {
					c.bad(construct, in.Pos(), why+": the field is nil when its key is absent from the input (the code tests it for nil elsewhere) and nothing on the way to this use says it is not")
				}
			}
		})
	}
}

// needsNonNil: the function uses its parameter (field access, load, method on a nil interface, ...) somewhere that no nil
// test of the parameter protects, itself or by handing it to a function that does.
func (e *nilFieldEngine) needsNonNil(g *ssa.Function, j int, depth int) bool {
	if g.Blocks == nil || j >= len(g.Params) || depth > 2 {
		return false
	}
	prm := g.Params[j]
	switch prm.Type().Underlying().(type) {
	case *types.Pointer, *types.Interface, *types.Map:
	default:
		return false
	}
	key := fmt.Sprintf("needsNonNil:%p:%d", g, j)
	if v, ok := e.p.memo(key).(bool); ok {
		return v
	}
	e.p.setMemo(key, false) // recursion guard
	res := false
	eachInstr(g, func(b *ssa.BasicBlock, idx int, in ssa.Instruction) {
		if res {
			return
		}
		uses := derefOf(in, prm) != ""
		if !uses {
			if call, ok := in.(ssa.CallInstruction); ok {
				cc := call.Common()
				for _, h := range e.p.calleesOf(call) {
					for k, a := range cc.Args {
						kk := k
						if cc.IsInvoke() {
							kk++
						}
						if a == ssa.Value(prm) && inModule(h) && e.needsNonNil(h, kk, depth+1) {
							uses = true
						}
					}
				}
			}
		}
		if !uses {
			return
		}
		// protected by a dominating nil test of the parameter whose nil outcome does not come here
		for _, tb := range g.Blocks {
			v, ns, ok := nilTest(tb.Instrs[len(tb.Instrs)-1])
			if !ok || v != ssa.Value(prm) {
				// or a result derived from the parameter that is nil/empty whenever the parameter is
				ok = false
				if ifi, isIf := tb.Instrs[len(tb.Instrs)-1].(*ssa.If); isIf {
					if es := e.emptyEdge(g, ifi, map[ssa.Value]bool{prm: true}); es >= 0 {
						ns, ok = es, true
					}
				}
			}
			if !ok || tb == b || !tb.Dominates(b) {
				continue
			}
			stop := map[*ssa.BasicBlock]bool{}
			for _, x := range g.Blocks {
				if x.Dominates(tb) {
					stop[x] = true
				}
			}
			s := tb.Succs[ns]
			if stop[s] || !(s == b || reachableBlocks([]*ssa.BasicBlock{s}, stop)[b]) {
				return
			}
		}
		res = true
	})
	e.p.setMemo(key, res)
	return res
}

// passedToUser: the value is an argument of a call of a module function that needs it to be non-nil.
func (e *nilFieldEngine) passedToUser(in ssa.Instruction, w ssa.Value) string {
	call, ok := in.(ssa.CallInstruction)
	if !ok {
		return ""
	}
	cc := call.Common()
	if _, isB := cc.Value.(*ssa.Builtin); isB {
		return ""
	}
	gs := e.p.calleesOf(call)
	for k, a := range cc.Args {
		if a != w {
			continue
		}
		kk := k
		if cc.IsInvoke() {
			kk++
		}
		for _, g := range gs {
			if inModule(g) && e.needsNonNil(g, kk, 0) {
				return "passed to " + FuncName(g) + ", which uses it without a nil test"
			}
		}
	}
	return ""
}

// ---- C01.IDX: a constant offset into a parameter rests on what the callers established ----

// c01IdxCallers: s[k:], s[:k] or s[k] with a constant k on a parameter that the function itself does not test is in bounds
// only if every caller in the package established len(argument) >= k (a length test, a comparison with "", HasPrefix /
// HasSuffix with a constant at least that long). The obligation has its own name: an exception reviewed for the expression
// itself ("the only caller calls under HasPrefix(spec, "docker://")") says nothing about what the caller tests today.
func c01IdxCallers(c *Ctx, fn *ssa.Function, construct string, in ssa.Instruction, x, idx, low, high ssa.Value) {
	prm, ok := x.(*ssa.Parameter)
	if !ok {
		return
	}
	var need int64
	for i, v := range []ssa.Value{idx, low, high} {
		if v == nil {
			continue
		}
		k, isK := constInt(v)
		if !isK {
			return
		}
		if i == 0 {
			k++
		}
		if k > need {
			need = k
		}
	}
	if need <= 0 {
		return
	}
	pi := -1
	for i, q := range fn.Params {
		if q == prm {
			pi = i
		}
	}
	n := 0
	short := ""
	for _, e := range c.P.callersOf(fn) {
		if e.Site == nil || !inPkg(e.Caller.Func, c.P.SPkg) {
			continue
		}
		cc := e.Site.Common()
		if cc.IsInvoke() || pi >= len(cc.Args) {
			return
		}
		n++
		if lb := lenLowerBound(e.Site.Block(), cc.Args[pi]); lb < need {
			short = fmt.Sprintf("%s calls it at %s where the argument is known to have at least %d byte(s) or element(s), %d are needed", FuncName(e.Caller.Func), c.P.Pos(e.Site.Pos()), lb, need)
		}
	}
	if n == 0 {
		return
	}
	con := construct + " - length established by the callers"
	if short == "" {
		c.ok(con, in.Pos(), fmt.Sprintf("every one of the %d call site(s) in the package is dominated by a test that gives the argument at least %d byte(s) or element(s)", n, need))
	} else {
		c.bad(con, in.Pos(), short+": a shorter value panics")
	}
}

// ---- C02.MAP: map order obtained without a range statement ----

// c02MapIterators: maps.Keys / maps.Values / maps.All (and the slice-returning functions of golang.org/x/exp/maps) yield the
// entries of a map in its iteration order without any `range` in the module. Their result may only be sorted
// (slices.Sorted*), or collected (slices.Collect, the x/exp slice) and then sorted before any other use.
func c02MapIterators(c *Ctx) {
	p := c.P
	for _, fn := range p.Funcs {
		occ := map[string]int{}
		eachInstr(fn, func(_ *ssa.BasicBlock, _ int, in ssa.Instruction) {
			call, ok := in.(*ssa.Call)
			if !ok {
				return
			}
			name := calleeFullName(&call.Call)
			if i := strings.Index(name, "["); i >= 0 {
				name = name[:i]
			}
			switch name {
			case "maps.Keys", "maps.Values", "maps.All", "golang.org/x/exp/maps.Keys", "golang.org/x/exp/maps.Values":
			default:
				return
			}
			occ[name]++
			construct := fmt.Sprintf("%s|%s#%d", FuncName(fn), name, occ[name])
			problem := ""
			var follow func(v ssa.Value, isSlice bool, depth int)
			follow = func(v ssa.Value, isSlice bool, depth int) {
				if depth > 6 || v.Referrers() == nil {
					return
				}
				var sortersAt, others []ssa.Instruction
				for _, ref := range *v.Referrers() {
					switch r := ref.(type) {
					case *ssa.DebugRef:
					case *ssa.ChangeType, *ssa.MakeInterface, *ssa.Convert, *ssa.Phi:
						follow(r.(ssa.Value), isSlice, depth+1)
					case ssa.CallInstruction:
						n := calleeFullName(r.Common())
						if i := strings.Index(n, "["); i >= 0 {
							n = n[:i]
						}
						switch {
						case n == "slices.Sorted" || n == "slices.SortedFunc" || n == "slices.SortedStableFunc":
						case n == "slices.Collect" || n == "slices.AppendSeq":
							if rv, ok := r.(ssa.Value); ok {
								follow(rv, true, depth+1)
							}
						case isSlice && sorters[n]:
							sortersAt = append(sortersAt, r)
						case isSlice && (orderInsensitiveConsumers[n] || n == "builtin.len" || n == "builtin.cap"):
						default:
							others = append(others, r)
						}
					default:
						others = append(others, ref)
					}
				}
				if !isSlice && len(others) > 0 {
					problem = fmt.Sprintf("the sequence is consumed at %s in the iteration order of the map", p.Pos(others[0].Pos()))
					return
				}
				if why := checkSortedUses(p, v, sortersAt, others); why != "" && problem == "" {
					problem = "the slice collected from the map " + why
				}
			}
			follow(call, strings.HasPrefix(name, "golang.org/x/exp/"), 0)
			if problem == "" {
				c.ok(construct, call.Pos(), "the entries are sorted before anything else looks at them")
			} else {
				c.bad(construct, call.Pos(), problem+": the order of a map's entries differs from run to run")
			}
		})
	}
}
