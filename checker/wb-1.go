package main

// Helpers added in the white-box round on C01 / C02 / C03.

import (
	"go/types"

	"golang.org/x/tools/go/ssa"
)

// fieldPathOf: v is a load of root.f1.f2...fn (each step a load through a FieldAddr, or a Field of a struct value).
// It returns the SSA value the chain starts from and the qualified names of the fields, outermost first.
func fieldPathOf(v ssa.Value) (root ssa.Value, chain []string) {
	switch x := v.(type) {
	case *ssa.UnOp:
		if fa, ok := x.X.(*ssa.FieldAddr); ok && x.Op.String() == "*" {
			r, c := fieldPathOf(fa.X)
			return r, append(c, fieldAddrName(fa))
		}
	case *ssa.Field:
		n, _ := fieldName(x.X.Type(), x.Field)
		r, c := fieldPathOf(x.X)
		return r, append(c, n)
	}
	return v, nil
}

func sameChain(a, b []string) bool {
	if len(a) != len(b) {
		return false
	}
	for i := range a {
		if a[i] != b[i] {
			return false
		}
	}
	return true
}

// samePathLoads: every value of fn that loads the same field path from the same SSA root as v (v included).
func samePathLoads(fn *ssa.Function, v ssa.Value) map[ssa.Value]bool {
	out := map[ssa.Value]bool{v: true}
	root, chain := fieldPathOf(v)
	if len(chain) == 0 {
		return out
	}
	eachInstr(fn, func(_ *ssa.BasicBlock, _ int, in ssa.Instruction) {
		w, ok := in.(ssa.Value)
		if !ok {
			return
		}
		switch in.(type) {
		case *ssa.UnOp, *ssa.Field:
		default:
			return
		}
		if r2, c2 := fieldPathOf(w); r2 == root && sameChain(c2, chain) {
			out[w] = true
		}
	})
	return out
}

// transFieldStores: for every function of the module, the qualified names of the fields it (or anything it calls) stores a
// value other than the constant nil into.
func (p *Prog) transFieldStores() map[*ssa.Function]map[string]bool {
	if m, ok := p.memo("transFieldStores").(map[*ssa.Function]map[string]bool); ok {
		return m
	}
	res := map[*ssa.Function]map[string]bool{}
	callees := map[*ssa.Function][]*ssa.Function{}
	var all []*ssa.Function
	seen := map[*ssa.Function]bool{}
	var add func(fn *ssa.Function)
	add = func(fn *ssa.Function) {
		if fn == nil || seen[fn] || fn.Blocks == nil || !inModule(fn) {
			return
		}
		seen[fn] = true
		all = append(all, fn)
		res[fn] = map[string]bool{}
		eachInstr(fn, func(_ *ssa.BasicBlock, _ int, in ssa.Instruction) {
			switch x := in.(type) {
			case *ssa.Store:
				if fa, ok := x.Addr.(*ssa.FieldAddr); ok && !isNilConst(x.Val) {
					res[fn][fieldAddrName(fa)] = true
				}
			case *ssa.MakeClosure:
				if g, ok := x.Fn.(*ssa.Function); ok {
					callees[fn] = append(callees[fn], g)
				}
			case ssa.CallInstruction:
				callees[fn] = append(callees[fn], p.calleesOf(x)...)
			}
		})
		for _, g := range callees[fn] {
			add(g)
		}
	}
	for _, fn := range p.Funcs {
		add(fn)
	}
	for changed := true; changed; {
		changed = false
		for _, fn := range all {
			for _, g := range callees[fn] {
				for f := range res[g] {
					if !res[fn][f] {
						res[fn][f] = true
						changed = true
					}
				}
			}
		}
	}
	p.setMemo("transFieldStores", res)
	return res
}

// mayStoreFields: the instruction may give one of the fields a new non-nil value: a store into such a field, a call of a
// module function that (transitively) stores into one, or a call outside the module that receives a pointer to a module
// type (a decoder filling it).
func (p *Prog) mayStoreFields(in ssa.Instruction, fields []string) bool {
	want := map[string]bool{}
	for _, f := range fields {
		want[f] = true
	}
	switch x := in.(type) {
	case *ssa.Store:
		if fa, ok := x.Addr.(*ssa.FieldAddr); ok && want[fieldAddrName(fa)] && !isNilConst(x.Val) {
			return true
		}
		// a whole struct value stored over the object
		if _, ok := x.Val.Type().Underlying().(*types.Struct); ok {
			return true
		}
	case ssa.CallInstruction:
		if _, ok := x.Common().Value.(*ssa.Builtin); ok {
			return false
		}
		tfs := p.transFieldStores()
		gs := p.calleesOf(x)
		if len(gs) == 0 {
			return pointsIntoModule(x.Common())
		}
		for _, g := range gs {
			if g.Blocks == nil || !inModule(g) {
				if pointsIntoModule(x.Common()) {
					return true
				}
				continue
			}
			for f := range want {
				if tfs[g][f] {
					return true
				}
			}
		}
	}
	return false
}

func pointsIntoModule(c *ssa.CallCommon) bool {
	args := append([]ssa.Value{}, c.Args...)
	for _, a := range args {
		if mi, ok := a.(*ssa.MakeInterface); ok {
			a = mi.X
		}
		if pt, ok := a.Type().Underlying().(*types.Pointer); ok {
			if n := namedOf(pt.Elem()); n != nil && n.Obj().Pkg() != nil && n.Obj().Pkg().Path() == modPath {
				return true
			}
		}
	}
	return false
}
