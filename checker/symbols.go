package main

import (
	"encoding/json"
	"fmt"
	"go/types"
	"os"
	"path/filepath"
	"sort"
	"strings"
	"sync"

	"golang.org/x/tools/go/ssa"
)

// Symbol index. The rules name the functions, methods and struct fields of actionlint they are about. An unexported name is
// not a contract: renaming `checkExprsIn` or `RuleExpression.matrixTy` changes no behaviour, and a rule that answers such a
// rename with "anchor not found" raises a false alarm. The index (symbols.json, generated from the tree the rules were
// written against with `verifchk -gen-symbols`) records, for every function of the main package, its receiver, its
// signature (types only) and what it touches (static callees, fields), and for every struct its fields in order. When the
// tree under analysis has a function or field the index does not know, and the index knows one the tree no longer has,
// with the same receiver and signature (function) or the same struct, position and type (field), and - for functions - a
// sufficiently similar set of touched symbols, the new name is treated as an alias of the recorded one. The alias only
// re-identifies the construct; every rule still analyses the code that is there. Nothing is matched when the
// correspondence is not unique, and the rule then reports the missing anchor as before.

type symFunc struct {
	Name    string   `json:"name"`
	Recv    string   `json:"recv,omitempty"`
	Sig     string   `json:"sig"`
	File    string   `json:"file"`
	Touches []string `json:"touches"`
}

type symField struct {
	Name string `json:"name"`
	Type string `json:"type"`
}

type symNamed struct {
	Underlying string     `json:"underlying"`
	Consts     []symField `json:"consts"` // name and value (in Type) of the constants of this type, in declaration order
}

type symIndex struct {
	Funcs   []symFunc             `json:"funcs"`
	Structs map[string][]symField `json:"structs"`
	Named   map[string]symNamed   `json:"named"`
}

var (
	symMu      sync.Mutex
	funcAlias  = map[*ssa.Function]string{} // renamed function -> recorded FuncName
	fieldAlias = map[string]string{}        // "T.newname" -> "T.recordedname"
	typeAlias  = map[string]string{}        // renamed struct type -> recorded name
	recFile    = map[string]string{}        // recorded function name -> base name of the file that held it
	constAlias = map[string]string{}        // renamed constant -> recorded name
	aliasNotes []string
)

func sigString(sig *types.Signature) string {
	part := func(t *types.Tuple) string {
		var s []string
		for i := 0; i < t.Len(); i++ {
			s = append(s, rawTypeStr(t.At(i).Type()))
		}
		return strings.Join(s, ",")
	}
	v := ""
	if sig.Variadic() {
		v = "..."
	}
	return "(" + part(sig.Params()) + v + ")(" + part(sig.Results()) + ")"
}

func rawFuncName(fn *ssa.Function) string {
	if fn.Parent() != nil {
		return rawFuncName(fn.Parent()) + "$" + strings.TrimPrefix(fn.Name(), fn.Parent().Name()+"$")
	}
	if recv := fn.Signature.Recv(); recv != nil {
		return "(" + types.TypeString(recv.Type(), func(*types.Package) string { return "" }) + ")." + fn.Name()
	}
	return fn.Name()
}

func touchesOf(fn *ssa.Function) []string {
	set := map[string]bool{}
	var walk func(f *ssa.Function)
	walk = func(f *ssa.Function) {
		eachInstr(f, func(_ *ssa.BasicBlock, _ int, in ssa.Instruction) {
			switch x := in.(type) {
			case ssa.CallInstruction:
				if g := staticCallee(x.Common()); g != nil {
					if inModule(g) {
						set["call "+rawFuncName(g)] = true
					} else {
						set["call "+calleeFullName(x.Common())] = true
					}
				} else if x.Common().IsInvoke() {
					set["invoke "+x.Common().Method.Name()] = true
				}
			case *ssa.FieldAddr:
				if pt, ok := x.X.Type().Underlying().(*types.Pointer); ok {
					if st, ok := pt.Elem().Underlying().(*types.Struct); ok && x.Field < st.NumFields() {
						set["field "+rawTypeStr(pt.Elem())+"."+st.Field(x.Field).Name()] = true
					}
				}
			}
		})
		for _, a := range f.AnonFuncs {
			walk(a)
		}
	}
	walk(fn)
	out := make([]string, 0, len(set))
	for k := range set {
		out = append(out, k)
	}
	sort.Strings(out)
	return out
}

func (p *Prog) currentSymbols() *symIndex {
	idx := &symIndex{Structs: map[string][]symField{}, Named: map[string]symNamed{}}
	for _, fn := range p.Funcs {
		if fn.Parent() != nil || fn.Synthetic != "" {
			continue
		}
		sf := symFunc{Name: rawFuncName(fn), Sig: sigString(fn.Signature), Touches: touchesOf(fn), File: filepath.Base(p.File(fn.Pos()))}
		if r := fn.Signature.Recv(); r != nil {
			sf.Recv = rawTypeStr(r.Type())
		}
		idx.Funcs = append(idx.Funcs, sf)
	}
	sort.Slice(idx.Funcs, func(i, j int) bool { return idx.Funcs[i].Name < idx.Funcs[j].Name })
	scope := p.Main.Types.Scope()
	for _, name := range scope.Names() {
		tn, ok := scope.Lookup(name).(*types.TypeName)
		if !ok {
			continue
		}
		st, ok := tn.Type().Underlying().(*types.Struct)
		if !ok {
			if _, isIface := tn.Type().Underlying().(*types.Interface); !isIface && !tn.IsAlias() {
				nt := symNamed{Underlying: rawTypeStr(tn.Type().Underlying())}
				type kc struct {
					pos  int
					name string
					val  string
				}
				var ks []kc
				for _, cn := range scope.Names() {
					if k, ok := scope.Lookup(cn).(*types.Const); ok && types.Identical(k.Type(), tn.Type()) {
						ks = append(ks, kc{int(k.Pos()), cn, k.Val().ExactString()})
					}
				}
				sort.Slice(ks, func(i, j int) bool { return ks[i].pos < ks[j].pos })
				for _, k := range ks {
					nt.Consts = append(nt.Consts, symField{k.name, k.val})
				}
				idx.Named[name] = nt
			}
			continue
		}
		var fs []symField
		for i := 0; i < st.NumFields(); i++ {
			fs = append(fs, symField{st.Field(i).Name(), rawTypeStr(st.Field(i).Type())})
		}
		idx.Structs[name] = fs
	}
	return idx
}

func writeSymbols(p *Prog, path string) error {
	b, err := json.MarshalIndent(p.currentSymbols(), "", " ")
	if err != nil {
		return err
	}
	return os.WriteFile(path, append(b, '\n'), 0o644)
}

// applySymbolAliases compares the tree with the recorded index and fills the alias tables.
func (p *Prog) applySymbolAliases(verifDir string) {
	b, err := os.ReadFile(filepath.Join(verifDir, "checker", "symbols.json"))
	if err != nil {
		return // no index: names are taken as they are
	}
	var rec symIndex
	if json.Unmarshal(b, &rec) != nil {
		return
	}
	symMu.Lock()
	defer symMu.Unlock()
	for _, f := range rec.Funcs {
		recFile[f.Name] = f.File
	}
	cur := p.currentSymbols()
	// named non-struct types: same underlying type and the same constant values in the same order
	renameType := func(match, gname string) {
		typeAlias[match] = gname
		aliasNotes = append(aliasNotes, "type "+match+" is taken for the recorded "+gname)
		for sn, fs := range cur.Structs {
			for i := range fs {
				fs[i].Type = replaceIdent(fs[i].Type, match, gname)
			}
			cur.Structs[sn] = fs
		}
		for i := range cur.Funcs {
			cur.Funcs[i].Sig = replaceIdent(cur.Funcs[i].Sig, match, gname)
			cur.Funcs[i].Recv = replaceIdent(cur.Funcs[i].Recv, match, gname)
			cur.Funcs[i].Name = replaceIdent(cur.Funcs[i].Name, match, gname)
			for k := range cur.Funcs[i].Touches {
				cur.Funcs[i].Touches[k] = replaceIdent(cur.Funcs[i].Touches[k], match, gname)
			}
		}
	}
	for gname, g := range rec.Named {
		if _, still := cur.Named[gname]; still {
			continue
		}
		match := ""
		for nname, n := range cur.Named {
			if _, known := rec.Named[nname]; known || n.Underlying != g.Underlying || len(n.Consts) != len(g.Consts) {
				continue
			}
			same := true
			for i := range g.Consts {
				if g.Consts[i].Type != n.Consts[i].Type {
					same = false
				}
			}
			if same {
				if match != "" {
					match = "-"
				} else {
					match = nname
				}
			}
		}
		if match != "" && match != "-" && typeAlias[match] == "" {
			for i := range g.Consts {
				if cur.Named[match].Consts[i].Name != g.Consts[i].Name {
					constAlias[cur.Named[match].Consts[i].Name] = g.Consts[i].Name
				}
			}
			renameType(match, gname)
		}
	}
	// struct types: a recorded struct that is gone and a new struct with the same fields (names and types, modulo the
	// type's own name) are the same type under a new name
	for gname, gfs := range rec.Structs {
		if _, still := cur.Structs[gname]; still {
			continue
		}
		match := ""
		for nname, nfs := range cur.Structs {
			if _, known := rec.Structs[nname]; known || len(nfs) != len(gfs) || len(gfs) == 0 {
				continue
			}
			same := true
			for i := range gfs {
				if gfs[i].Name != nfs[i].Name || replaceIdent(gfs[i].Type, gname, "?T") != replaceIdent(nfs[i].Type, nname, "?T") {
					same = false
				}
			}
			if same {
				if match != "" {
					match = "-" // ambiguous
				} else {
					match = nname
				}
			}
		}
		if match != "" && match != "-" && typeAlias[match] == "" {
			// the index is read with the recorded name from here on
			cur.Structs[gname] = cur.Structs[match]
			delete(cur.Structs, match)
			renameType(match, gname)
		}
	}
	// fields: same struct, same position, same type, recorded name gone and new name unknown
	for sname, rfs := range rec.Structs {
		cfs, ok := cur.Structs[sname]
		if !ok {
			continue
		}
		curNames, recNames := map[string]bool{}, map[string]bool{}
		for _, f := range cfs {
			curNames[f.Name] = true
		}
		for _, f := range rfs {
			recNames[f.Name] = true
		}
		// align the fields that are neither kept nor known, in order, by type
		var goneIdx, newIdx []int
		for i, f := range rfs {
			if !curNames[f.Name] {
				goneIdx = append(goneIdx, i)
			}
		}
		for i, f := range cfs {
			if !recNames[f.Name] {
				newIdx = append(newIdx, i)
			}
		}
		if len(goneIdx) == 0 || len(goneIdx) != len(newIdx) {
			continue
		}
		okAll := true
		for k := range goneIdx {
			if rfs[goneIdx[k]].Type != cfs[newIdx[k]].Type {
				okAll = false
			}
		}
		if !okAll {
			continue
		}
		for k := range goneIdx {
			from, to := sname+"."+cfs[newIdx[k]].Name, sname+"."+rfs[goneIdx[k]].Name
			if fieldAlias[from] == "" {
				fieldAlias[from] = to
				aliasNotes = append(aliasNotes, "field "+from+" is taken for the recorded "+to)
			}
		}
	}
	// functions
	curByName := map[string]bool{}
	for _, f := range cur.Funcs {
		curByName[f.Name] = true
	}
	recByName := map[string]symFunc{}
	for _, f := range rec.Funcs {
		recByName[f.Name] = f
	}
	var gone []symFunc
	for _, f := range rec.Funcs {
		if !curByName[f.Name] {
			gone = append(gone, f)
		}
	}
	var fresh []symFunc
	for _, f := range cur.Funcs {
		if _, known := recByName[f.Name]; !known {
			fresh = append(fresh, f)
		}
	}
	if len(gone) == 0 || len(fresh) == 0 {
		return
	}
	goneNames, freshNames := map[string]bool{}, map[string]bool{}
	for _, f := range gone {
		goneNames[f.Name] = true
	}
	for _, f := range fresh {
		freshNames[f.Name] = true
	}
	// touched symbols, with the names that changed on either side (functions and fields) blanked out
	norm := func(ts []string, renamedFuncs map[string]bool, isCur bool) map[string]bool {
		out := map[string]bool{}
		for _, t := range ts {
			if strings.HasPrefix(t, "call ") && renamedFuncs[strings.TrimPrefix(t, "call ")] {
				continue
			}
			if strings.HasPrefix(t, "field ") {
				n := strings.TrimPrefix(t, "field ")
				if isCur {
					if a, ok := fieldAlias[n]; ok {
						t = "field " + a
					}
				}
			}
			out[t] = true
		}
		return out
	}
	sim := func(a, b map[string]bool) float64 {
		if len(a) == 0 && len(b) == 0 {
			return 1
		}
		inter := 0
		for k := range a {
			if b[k] {
				inter++
			}
		}
		return float64(inter) / float64(len(a)+len(b)-inter)
	}
	// named struct types that disappeared / appeared: a function whose signature mentions one is compared modulo that name
	var typeNames []string
	for n := range rec.Structs {
		if _, ok := cur.Structs[n]; !ok {
			typeNames = append(typeNames, n)
		}
	}
	for n := range cur.Structs {
		if _, ok := rec.Structs[n]; !ok {
			typeNames = append(typeNames, n)
		}
	}
	sort.Slice(typeNames, func(i, j int) bool { return len(typeNames[i]) > len(typeNames[j]) })
	normSig := func(sig string) string {
		for _, n := range typeNames {
			sig = replaceIdent(sig, n, "?T")
		}
		return sig
	}
	normTypes := func(m map[string]bool) map[string]bool {
		if len(typeNames) == 0 {
			return m
		}
		out := map[string]bool{}
		for k := range m {
			out[normSig(k)] = true
		}
		return out
	}
	type cand struct {
		name  string
		score float64
	}
	taken := map[string]bool{}
	matched := map[string]bool{}
	for _, g := range gone {
		gt := norm(g.Touches, goneNames, false)
		var cs []cand
		for _, f := range fresh {
			if f.Recv != g.Recv || normSig(f.Sig) != normSig(g.Sig) || taken[f.Name] {
				continue
			}
			cs = append(cs, cand{f.Name, sim(normTypes(gt), normTypes(norm(f.Touches, freshNames, true)))})
		}
		sort.Slice(cs, func(i, j int) bool { return cs[i].score > cs[j].score })
		if len(cs) == 0 || cs[0].score < 0.6 {
			continue
		}
		if len(cs) > 1 && cs[1].score > cs[0].score-0.2 {
			continue // not unique
		}
		taken[cs[0].name] = true
		matched[g.Name] = true
		for _, fn := range p.Funcs {
			if fn.Parent() == nil && aliasTypesIn(rawFuncName(fn)) == cs[0].name {
				funcAlias[fn] = g.Name
				aliasNotes = append(aliasNotes, fmt.Sprintf("function %s is taken for the recorded %s (same receiver and signature, similarity %.2f)", cs[0].name, g.Name, cs[0].score))
			}
		}
	}
	// second pass: a method turned into a function (or the reverse), or a helper whose parameter list changed: same
	// results, and it touches nearly the same symbols; the receiver and the parameters are not compared
	results := func(sig string) string {
		if i := strings.LastIndex(sig, ")("); i >= 0 {
			return sig[i+1:]
		}
		return sig
	}
	for _, g := range gone {
		if matched[g.Name] {
			continue
		}
		gt := norm(g.Touches, goneNames, false)
		if len(gt) < 2 {
			continue // too little to go by
		}
		var cs []cand
		for _, f := range fresh {
			if taken[f.Name] || results(normSig(f.Sig)) != results(normSig(g.Sig)) {
				continue
			}
			cs = append(cs, cand{f.Name, sim(normTypes(gt), normTypes(norm(f.Touches, freshNames, true)))})
		}
		sort.Slice(cs, func(i, j int) bool { return cs[i].score > cs[j].score })
		if len(cs) == 0 || cs[0].score < 0.75 {
			continue
		}
		if len(cs) > 1 && cs[1].score > cs[0].score-0.2 {
			continue
		}
		taken[cs[0].name] = true
		for _, fn := range p.Funcs {
			if fn.Parent() == nil && aliasTypesIn(rawFuncName(fn)) == cs[0].name {
				funcAlias[fn] = g.Name
				aliasNotes = append(aliasNotes, fmt.Sprintf("function %s is taken for the recorded %s (receiver or parameter list changed; same results, similarity %.2f)", cs[0].name, g.Name, cs[0].score))
			}
		}
	}
}

// currentFieldName: the name a recorded field ("T.f") has in the tree under analysis (its own name unless it was renamed).
func currentFieldName(recorded string) string {
	for from, to := range fieldAlias {
		if to == recorded {
			return from[strings.LastIndex(from, ".")+1:]
		}
	}
	return recorded[strings.LastIndex(recorded, ".")+1:]
}

// replaceIdent replaces whole-identifier occurrences of name in s.
func replaceIdent(s, name, by string) string {
	isId := func(c byte) bool {
		return c == '_' || c >= '0' && c <= '9' || c >= 'a' && c <= 'z' || c >= 'A' && c <= 'Z'
	}
	var b strings.Builder
	for i := 0; i < len(s); {
		if strings.HasPrefix(s[i:], name) && (i == 0 || !isId(s[i-1])) && (i+len(name) == len(s) || !isId(s[i+len(name)])) {
			b.WriteString(by)
			i += len(name)
			continue
		}
		b.WriteByte(s[i])
		i++
	}
	return b.String()
}

// aliasTypesIn rewrites the names of renamed struct types in a printed type or function name to the recorded ones.
func aliasTypesIn(s string) string {
	if len(typeAlias) == 0 {
		return s
	}
	for from, to := range typeAlias {
		if strings.Contains(s, from) {
			s = replaceIdent(s, from, to)
		}
	}
	return s
}

// rawTypeStr prints a type as the tree spells it (no aliasing): the index compares spellings.
func rawTypeStr(t types.Type) string {
	return types.TypeString(t, func(p *types.Package) string {
		if p.Path() == modPath {
			return ""
		}
		return p.Name()
	})
}

// unitFile: the source file a function counts under for the rules that are scoped to one file of the repository: the file
// the index recorded for it (so that moving a function to another file of the package does not take it out of scope), and
// its actual file when the index does not know it (a new helper lives where it was written).
func (p *Prog) unitFile(fn *ssa.Function) string {
	top := fn
	for top.Parent() != nil {
		top = top.Parent()
	}
	if f, ok := recFile[FuncName(top)]; ok && f != "" {
		return "/" + f
	}
	return p.File(fn.Pos())
}

// recordedConstName: the name a package-level constant is known under (its own unless it was renamed with its type).
func recordedConstName(n string) string {
	if a, ok := constAlias[n]; ok {
		return a
	}
	return n
}
