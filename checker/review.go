package main

import (
	"fmt"
	"sort"
	"strconv"
	"strings"

	"golang.org/x/tools/go/ssa"
)

// Side conditions of reviewed exceptions are machine checked on every run. Grammar:
//
//	callers <Func> == <Func>; <Func>; ...     the set of callers (in the analysed packages) of a function
//	writers <Type.field> == <Func>; ...       the set of functions storing to a struct field
//	exists <Func>                             the function still exists
//	mapkey-writers <Type.field> "<key>" == <Func>; ...
//	                                          the set of functions that update the map loaded from the field under that
//	                                          constant key or under a key that is not a constant; every value stored under
//	                                          the constant key has static type *ObjectType, or is the result of
//	                                          (*ObjectType).Merge / DeepCopy on an *ObjectType receiver (or on the value
//	                                          looked up under the same key), Merge with an *ObjectType argument
//
// <Func> is written like FuncName(): "(*T).m", "f", "f$1".
func (c *Ctx) checkSideConditions(e *ReviewedEntry) string {
	for _, sc := range e.SideConditions {
		f := strings.Fields(sc)
		if len(f) == 0 {
			continue
		}
		switch f[0] {
		case "exists":
			name := strings.TrimSpace(strings.TrimPrefix(sc, "exists"))
			if c.P.funcByName(name) == nil {
				return "function " + name + " no longer exists"
			}
		case "callers", "writers":
			parts := strings.SplitN(strings.TrimSpace(strings.TrimPrefix(sc, f[0])), "==", 2)
			if len(parts) != 2 {
				return "malformed side condition: " + sc
			}
			subject := strings.TrimSpace(parts[0])
			var want []string
			for _, w := range strings.Split(parts[1], ";") {
				if w = strings.TrimSpace(w); w != "" {
					want = append(want, w)
				}
			}
			sort.Strings(want)
			var got []string
			if f[0] == "callers" {
				fn := c.P.funcByName(subject)
				if fn == nil {
					return "function " + subject + " no longer exists"
				}
				got = c.P.callerNames(fn)
			} else {
				got = c.P.fieldWriters(subject)
			}
			if strings.Join(got, ";") != strings.Join(want, ";") {
				return fmt.Sprintf("%s of %s are now {%s}, reviewed for {%s}", f[0], subject, strings.Join(got, "; "), strings.Join(want, "; "))
			}
		case "mapkey-writers":
			parts := strings.SplitN(strings.TrimSpace(strings.TrimPrefix(sc, "mapkey-writers")), "==", 2)
			if len(parts) != 2 {
				return "malformed side condition: " + sc
			}
			lhs := strings.TrimSpace(parts[0])
			sp := strings.IndexByte(lhs, ' ')
			if sp < 0 {
				return "malformed side condition: " + sc
			}
			field := lhs[:sp]
			key, err := strconv.Unquote(strings.TrimSpace(lhs[sp:]))
			if err != nil {
				return "malformed side condition: " + sc
			}
			var want []string
			for _, w := range strings.Split(parts[1], ";") {
				if w = strings.TrimSpace(w); w != "" {
					want = append(want, w)
				}
			}
			sort.Strings(want)
			got, bad := c.P.mapKeyWriters(field, key)
			if bad != "" {
				return bad
			}
			if strings.Join(got, ";") != strings.Join(want, ";") {
				return fmt.Sprintf("writers of %s[%q] are now {%s}, reviewed for {%s}", field, key, strings.Join(got, "; "), strings.Join(want, "; "))
			}
		case "argtypes":
			// argtypes <Func> <idx> == T1; T2 : dynamic types passed (via MakeInterface) at an argument position
			parts := strings.SplitN(strings.TrimSpace(strings.TrimPrefix(sc, "argtypes")), "==", 2)
			if len(parts) != 2 {
				return "malformed side condition: " + sc
			}
			lhs := strings.Fields(parts[0])
			if len(lhs) != 2 {
				return "malformed side condition: " + sc
			}
			fn := c.P.funcByName(lhs[0])
			if fn == nil {
				return "function " + lhs[0] + " no longer exists"
			}
			idx := int(lhs[1][0] - '0')
			var want []string
			for _, w := range strings.Split(parts[1], ";") {
				if w = strings.TrimSpace(w); w != "" {
					want = append(want, w)
				}
			}
			sort.Strings(want)
			set := map[string]bool{}
			for _, e := range c.P.callersOf(fn) {
				if e.Site == nil || idx >= len(e.Site.Common().Args) {
					set["?"] = true
					continue
				}
				a := e.Site.Common().Args[idx]
				if mi, ok := a.(*ssa.MakeInterface); ok {
					set[typeStr(mi.X.Type())] = true
				} else {
					set["?"+a.Name()] = true
				}
			}
			got := sortedKeys(set)
			if strings.Join(got, ";") != strings.Join(want, ";") {
				return fmt.Sprintf("argument types of %s are now {%s}, reviewed for {%s}", lhs[0], strings.Join(got, "; "), strings.Join(want, "; "))
			}
		default:
			return "unknown side condition: " + sc
		}
	}
	return ""
}

func (p *Prog) funcByName(name string) *ssa.Function {
	for _, fn := range p.Funcs {
		if FuncName(fn) == name {
			return fn
		}
	}
	return nil
}

// callerNames lists the functions of the analysed module that may call fn.
func (p *Prog) callerNames(fn *ssa.Function) []string {
	set := map[string]bool{}
	var add func(f *ssa.Function, depth int)
	add = func(f *ssa.Function, depth int) {
		for _, e := range p.callersOf(f) {
			caller := e.Caller.Func
			if !(inPkg(caller, p.SPkg) || (p.SCmd != nil && inPkg(caller, p.SCmd))) {
				continue
			}
			top := caller
			for top.Parent() != nil {
				top = top.Parent()
			}
			// a function the symbol index does not know is a helper that was split off after the review: it stands for
			// the functions that call it (a reviewed reason about "the callers" is about where control comes from)
			if _, known := recFile[FuncName(top)]; !known && len(recFile) > 0 && depth < 2 && caller != fn && len(p.callersOf(top)) > 0 {
				add(top, depth+1)
				continue
			}
			set[FuncName(caller)] = true
		}
	}
	add(fn, 0)
	return sortedKeys(set)
}

// fieldWriters lists the functions that store to "Type.field" (through FieldAddr+Store or composite literals are not counted).
func (p *Prog) fieldWriters(field string) []string {
	set := map[string]bool{}
	for _, fn := range p.Funcs {
		eachInstr(fn, func(_ *ssa.BasicBlock, _ int, in ssa.Instruction) {
			st, ok := in.(*ssa.Store)
			if !ok {
				return
			}
			if fa, ok := st.Addr.(*ssa.FieldAddr); ok && fieldAddrName(fa) == field {
				set[FuncName(fn)] = true
			}
		})
	}
	return sortedKeys(set)
}

// mapKeyWriters lists the functions that update the map loaded from "Type.field" under the constant key or under a key
// that is not a constant, and says which store under the constant key puts something there that is not known to be an
// *ObjectType.
func (p *Prog) mapKeyWriters(field, key string) (writers []string, bad string) {
	set := map[string]bool{}
	for _, fn := range p.Funcs {
		eachInstr(fn, func(_ *ssa.BasicBlock, _ int, in ssa.Instruction) {
			mu, ok := in.(*ssa.MapUpdate)
			if !ok {
				return
			}
			if f, _ := fieldLoad(mu.Map); f != field {
				return
			}
			k, isConst := constString(mu.Key)
			if isConst && k != key {
				return
			}
			set[FuncName(fn)] = true
			if isConst && bad == "" && !p.objectTypeValue(mu.Value, field, key, 0) {
				bad = fmt.Sprintf("%s stores a value that is not known to be an *ObjectType (%s) into %s[%q] at %s", FuncName(fn), typeStr(unwrapIface(mu.Value).Type()), field, key, p.Pos(mu.Pos()))
			}
		})
	}
	return sortedKeys(set), bad
}

func unwrapIface(v ssa.Value) ssa.Value {
	if mi, ok := v.(*ssa.MakeInterface); ok {
		return mi.X
	}
	return v
}

// objectTypeValue: v has static type *ObjectType, or is Merge/DeepCopy of such a value (Merge with such an argument).
func (p *Prog) objectTypeValue(v ssa.Value, field, key string, d int) bool {
	if d > 4 {
		return false
	}
	if typeStr(unwrapIface(v).Type()) == "*ObjectType" {
		return true
	}
	switch x := v.(type) {
	case *ssa.Phi:
		for _, e := range x.Edges {
			if !p.objectTypeValue(e, field, key, d+1) {
				return false
			}
		}
		return len(x.Edges) > 0
	case *ssa.Call:
		cc := &x.Call
		name, args := "", cc.Args
		if cc.IsInvoke() {
			// the receiver is what the same key of the same map holds
			lk, ok := cc.Value.(*ssa.Lookup)
			if !ok {
				return false
			}
			if f, _ := fieldLoad(lk.X); f != field {
				return false
			}
			if k, ok := constString(lk.Index); !ok || k != key {
				return false
			}
			name = cc.Method.Name()
		} else {
			g := staticCallee(cc)
			if g == nil || len(args) == 0 {
				return false
			}
			switch FuncName(g) {
			case "(*ObjectType).Merge":
				name = "Merge"
			case "(*ObjectType).DeepCopy":
				name = "DeepCopy"
			default:
				return false
			}
			args = args[1:]
		}
		switch name {
		case "DeepCopy":
			return true
		case "Merge":
			return len(args) == 1 && typeStr(unwrapIface(args[0]).Type()) == "*ObjectType"
		}
	}
	return false
}
