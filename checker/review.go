package main

import (
	"fmt"
	"sort"
	"strings"

	"golang.org/x/tools/go/ssa"
)

// Side conditions of reviewed exceptions are machine checked on every run. Grammar:
//
//	callers <Func> == <Func>; <Func>; ...     the set of callers (in the analysed packages) of a function
//	writers <Type.field> == <Func>; ...       the set of functions storing to a struct field
//	exists <Func>                             the function still exists
//
// <Func> is written like FuncName(): "(*T).m", "f", "f$1".
func (c *Ctx) checkSideConditions(e *ReviewedEntry) string {
	for _, sc := range e.SideConditions {
		f := strings.Fields(sc)
		if len(f) == 0 {
			continue
		}
		switch f[0] {
		case "exists":
			name := strings.TrimSpace(strings.TrimPrefix(sc, "exists"))
			if c.P.funcByName(name) == nil {
				return "function " + name + " no longer exists"
			}
		case "callers", "writers":
			parts := strings.SplitN(strings.TrimSpace(strings.TrimPrefix(sc, f[0])), "==", 2)
			if len(parts) != 2 {
				return "malformed side condition: " + sc
			}
			subject := strings.TrimSpace(parts[0])
			var want []string
			for _, w := range strings.Split(parts[1], ";") {
				if w = strings.TrimSpace(w); w != "" {
					want = append(want, w)
				}
			}
			sort.Strings(want)
			var got []string
			if f[0] == "callers" {
				fn := c.P.funcByName(subject)
				if fn == nil {
					return "function " + subject + " no longer exists"
				}
				got = c.P.callerNames(fn)
			} else {
				got = c.P.fieldWriters(subject)
			}
			if strings.Join(got, ";") != strings.Join(want, ";") {
				return fmt.Sprintf("%s of %s are now {%s}, reviewed for {%s}", f[0], subject, strings.Join(got, "; "), strings.Join(want, "; "))
			}
		case "argtypes":
			// argtypes <Func> <idx> == T1; T2 : dynamic types passed (via MakeInterface) at an argument position
			parts := strings.SplitN(strings.TrimSpace(strings.TrimPrefix(sc, "argtypes")), "==", 2)
			if len(parts) != 2 {
				return "malformed side condition: " + sc
			}
			lhs := strings.Fields(parts[0])
			if len(lhs) != 2 {
				return "malformed side condition: " + sc
			}
			fn := c.P.funcByName(lhs[0])
			if fn == nil {
				return "function " + lhs[0] + " no longer exists"
			}
			idx := int(lhs[1][0] - '0')
			var want []string
			for _, w := range strings.Split(parts[1], ";") {
				if w = strings.TrimSpace(w); w != "" {
					want = append(want, w)
				}
			}
			sort.Strings(want)
			set := map[string]bool{}
			for _, e := range c.P.callersOf(fn) {
				if e.Site == nil || idx >= len(e.Site.Common().Args) {
					set["?"] = true
					continue
				}
				a := e.Site.Common().Args[idx]
				if mi, ok := a.(*ssa.MakeInterface); ok {
					set[typeStr(mi.X.Type())] = true
				} else {
					set["?"+a.Name()] = true
				}
			}
			got := sortedKeys(set)
			if strings.Join(got, ";") != strings.Join(want, ";") {
				return fmt.Sprintf("argument types of %s are now {%s}, reviewed for {%s}", lhs[0], strings.Join(got, "; "), strings.Join(want, "; "))
			}
		default:
			return "unknown side condition: " + sc
		}
	}
	return ""
}

func (p *Prog) funcByName(name string) *ssa.Function {
	for _, fn := range p.Funcs {
		if FuncName(fn) == name {
			return fn
		}
	}
	return nil
}

// callerNames lists the functions of the analysed module that may call fn.
func (p *Prog) callerNames(fn *ssa.Function) []string {
	set := map[string]bool{}
	var add func(f *ssa.Function, depth int)
	add = func(f *ssa.Function, depth int) {
		for _, e := range p.callersOf(f) {
			caller := e.Caller.Func
			if !(inPkg(caller, p.SPkg) || (p.SCmd != nil && inPkg(caller, p.SCmd))) {
				continue
			}
			top := caller
			for top.Parent() != nil {
				top = top.Parent()
			}
			// a function the symbol index does not know is a helper that was split off after the review: it stands for
			// the functions that call it (a reviewed reason about "the callers" is about where control comes from)
			if _, known := recFile[FuncName(top)]; !known && len(recFile) > 0 && depth < 2 && caller != fn && len(p.callersOf(top)) > 0 {
				add(top, depth+1)
				continue
			}
			set[FuncName(caller)] = true
		}
	}
	add(fn, 0)
	return sortedKeys(set)
}

// fieldWriters lists the functions that store to "Type.field" (through FieldAddr+Store or composite literals are not counted).
func (p *Prog) fieldWriters(field string) []string {
	set := map[string]bool{}
	for _, fn := range p.Funcs {
		eachInstr(fn, func(_ *ssa.BasicBlock, _ int, in ssa.Instruction) {
			st, ok := in.(*ssa.Store)
			if !ok {
				return
			}
			if fa, ok := st.Addr.(*ssa.FieldAddr); ok && fieldAddrName(fa) == field {
				set[FuncName(fn)] = true
			}
		})
	}
	return sortedKeys(set)
}
