package main

import (
	"go/token"
	"go/types"
	"strings"

	"golang.org/x/tools/go/ssa"
)

// FLOW: backward provenance of SSA values (DESIGN §3.1). Origins are the places a value can come
// from, found by following value-preserving instructions, static calls (through the callee's returns),
// parameters (through the arguments of all call-graph callers) and struct fields (through all stores
// to the same field anywhere in the package). The analysis is flow-insensitive and bounded by a depth.

type OKind int

const (
	OAlloc  OKind = iota // Alloc, MakeMap, MakeSlice, MakeChan, MakeClosure, composite literal
	OConst               // non-nil constant
	ONil                 // nil constant
	OGlobal              // value loaded from / address of a package-level variable
	OParam               // parameter that was not expanded (no callers known or depth exhausted)
	OField               // load of a struct field that was not expanded
	OElem                // element of a map / slice / array / range iteration; Base is the container
	OExtern              // result of a call without analysable body or a dynamic call
	OUnknown
)

func (k OKind) String() string {
	return [...]string{"alloc", "const", "nil", "global", "param", "field", "elem", "extern", "unknown"}[k]
}

type Origin struct {
	Kind  OKind
	Val   ssa.Value     // the instruction/value that is the origin
	Fn    *ssa.Function // function containing it
	Base  ssa.Value     // for OElem: the container; for OField: the struct base
	Field string        // for OField / stores: "Type.field"
	Name  string        // for OGlobal / OExtern: qualified name
}

type FlowOpts struct {
	Params   bool // follow parameters to the arguments of callers
	Fields   bool // follow field loads to all stores of that field
	Globals  bool // follow loads of globals to stores into them
	Elems    bool // follow element loads into the container's origins (reports container origins as OElem with Base)
	MaxDepth int
	// StopAtCall, when set, is asked for every static callee; returning true keeps the call as an OExtern origin
	StopAtCall func(f *ssa.Function) bool
}

type flowState struct {
	p    *Prog
	o    FlowOpts
	seen map[ssa.Value]bool
	out  []Origin
}

func (p *Prog) Origins(v ssa.Value, o FlowOpts) []Origin {
	if o.MaxDepth == 0 {
		o.MaxDepth = 8
	}
	st := &flowState{p: p, o: o, seen: map[ssa.Value]bool{}}
	st.walk(v, 0)
	return st.out
}

func (st *flowState) add(o Origin) { st.out = append(st.out, o) }

func fnOf(v ssa.Value) *ssa.Function {
	if in, ok := v.(ssa.Instruction); ok {
		return in.Parent()
	}
	if p, ok := v.(*ssa.Parameter); ok {
		return p.Parent()
	}
	if fv, ok := v.(*ssa.FreeVar); ok {
		return fv.Parent()
	}
	return nil
}

func (st *flowState) walk(v ssa.Value, depth int) {
	if v == nil || st.seen[v] {
		return
	}
	st.seen[v] = true
	if depth > st.o.MaxDepth {
		st.add(Origin{Kind: OUnknown, Val: v, Fn: fnOf(v)})
		return
	}
	switch x := v.(type) {
	case *ssa.Const:
		if x.IsNil() {
			st.add(Origin{Kind: ONil, Val: v})
		} else {
			st.add(Origin{Kind: OConst, Val: v})
		}
	case *ssa.Alloc, *ssa.MakeMap, *ssa.MakeSlice, *ssa.MakeChan, *ssa.MakeClosure:
		st.add(Origin{Kind: OAlloc, Val: v, Fn: fnOf(v)})
	case *ssa.Global:
		st.add(Origin{Kind: OGlobal, Val: v, Name: x.Name()})
	case *ssa.Function:
		st.add(Origin{Kind: OConst, Val: v})
	case *ssa.ChangeType:
		st.walk(x.X, depth)
	case *ssa.ChangeInterface:
		st.walk(x.X, depth)
	case *ssa.MakeInterface:
		st.walk(x.X, depth)
	case *ssa.Convert:
		st.walk(x.X, depth)
	case *ssa.TypeAssert:
		st.walk(x.X, depth)
	case *ssa.Slice:
		st.walk(x.X, depth)
	case *ssa.Phi:
		for _, e := range x.Edges {
			st.walk(e, depth)
		}
	case *ssa.Extract:
		switch t := x.Tuple.(type) {
		case *ssa.Call:
			st.call(t, x.Index, depth)
		case *ssa.TypeAssert:
			if x.Index == 0 {
				st.walk(t.X, depth)
			} else {
				st.add(Origin{Kind: OConst, Val: v})
			}
		case *ssa.Lookup:
			if x.Index == 0 {
				st.elem(v, t.X, depth)
			} else {
				st.add(Origin{Kind: OConst, Val: v})
			}
		case *ssa.Next:
			// range over map/string: key or value
			if r, ok := t.Iter.(*ssa.Range); ok {
				st.elem(v, r.X, depth)
			} else {
				st.add(Origin{Kind: OUnknown, Val: v, Fn: fnOf(v)})
			}
		case *ssa.UnOp: // <-chan, comma-ok
			st.add(Origin{Kind: OUnknown, Val: v, Fn: fnOf(v)})
		default:
			st.add(Origin{Kind: OUnknown, Val: v, Fn: fnOf(v)})
		}
	case *ssa.Call:
		st.call(x, 0, depth)
	case *ssa.Lookup:
		st.elem(v, x.X, depth)
	case *ssa.Index:
		st.elem(v, x.X, depth)
	case *ssa.Field:
		// field of a struct value
		fname, _ := fieldName(x.X.Type(), x.Field)
		st.field(v, x.X, fname, depth)
	case *ssa.UnOp:
		if x.Op != token.MUL {
			st.add(Origin{Kind: OConst, Val: v})
			return
		}
		switch a := x.X.(type) {
		case *ssa.FieldAddr:
			st.field(v, a.X, fieldAddrName(a), depth)
		case *ssa.IndexAddr:
			st.elem(v, a.X, depth)
		case *ssa.Global:
			if st.o.Globals {
				any := false
				for _, s := range st.p.globalStores(a) {
					any = true
					st.walk(s.Val, depth+1)
				}
				if !any {
					st.add(Origin{Kind: OGlobal, Val: a, Name: a.Name()})
				}
			} else {
				st.add(Origin{Kind: OGlobal, Val: a, Name: a.Name()})
			}
		case *ssa.Alloc:
			// local variable spilled to memory: its stores
			any := false
			for _, ref := range *a.Referrers() {
				if s, ok := ref.(*ssa.Store); ok && s.Addr == a {
					any = true
					st.walk(s.Val, depth)
				}
			}
			if !any {
				st.add(Origin{Kind: OAlloc, Val: a, Fn: fnOf(a)})
			}
		case *ssa.FreeVar:
			st.freevar(a, depth, true)
		default:
			st.add(Origin{Kind: OUnknown, Val: v, Fn: fnOf(v)})
		}
	case *ssa.Parameter:
		st.param(x, depth)
	case *ssa.FreeVar:
		st.freevar(x, depth, false)
	case *ssa.BinOp:
		if _, isStr := x.Type().Underlying().(*types.Basic); isStr && x.Op == token.ADD {
			st.walk(x.X, depth)
			st.walk(x.Y, depth)
			return
		}
		st.add(Origin{Kind: OConst, Val: v})
	default:
		st.add(Origin{Kind: OUnknown, Val: v, Fn: fnOf(v)})
	}
}

func (st *flowState) elem(v, container ssa.Value, depth int) {
	if st.o.Elems {
		st.add(Origin{Kind: OElem, Val: v, Fn: fnOf(v), Base: container})
		return
	}
	st.add(Origin{Kind: OElem, Val: v, Fn: fnOf(v), Base: container})
}

func (st *flowState) field(v, base ssa.Value, fname string, depth int) {
	if !st.o.Fields {
		st.add(Origin{Kind: OField, Val: v, Fn: fnOf(v), Base: base, Field: fname})
		return
	}
	stores := st.p.fieldStores()[fname]
	if len(stores) == 0 {
		st.add(Origin{Kind: OField, Val: v, Fn: fnOf(v), Base: base, Field: fname})
		return
	}
	for _, s := range stores {
		st.walk(s, depth+1)
	}
}

func (st *flowState) call(call *ssa.Call, idx int, depth int) {
	f := staticCallee(&call.Call)
	if f == nil || f.Blocks == nil || !inModule(f) || (st.o.StopAtCall != nil && st.o.StopAtCall(f)) {
		name := calleeFullName(&call.Call)
		// append: the result derives from its first argument
		if b, ok := call.Call.Value.(*ssa.Builtin); ok && b.Name() == "append" {
			st.walk(call.Call.Args[0], depth)
			return
		}
		st.add(Origin{Kind: OExtern, Val: call, Fn: call.Parent(), Name: name})
		return
	}
	n := 0
	for _, b := range f.Blocks {
		if len(b.Instrs) == 0 {
			continue
		}
		if ret, ok := b.Instrs[len(b.Instrs)-1].(*ssa.Return); ok && idx < len(ret.Results) {
			n++
			st.walk(ret.Results[idx], depth+1)
		}
	}
	if n == 0 {
		st.add(Origin{Kind: OExtern, Val: call, Fn: call.Parent(), Name: funcFullName(f)})
	}
}

func (st *flowState) param(x *ssa.Parameter, depth int) {
	if !st.o.Params {
		st.add(Origin{Kind: OParam, Val: x, Fn: x.Parent()})
		return
	}
	fn := x.Parent()
	idx := -1
	for i, q := range fn.Params {
		if q == x {
			idx = i
		}
	}
	edges := st.p.callersOf(fn)
	n := 0
	for _, e := range edges {
		if e.Site == nil {
			continue
		}
		args := e.Site.Common().Args
		ai := idx
		if e.Site.Common().IsInvoke() {
			// receiver is Common().Value, args shift by one
			if idx == 0 {
				n++
				st.walk(e.Site.Common().Value, depth+1)
				continue
			}
			ai = idx - 1
		}
		if ai >= 0 && ai < len(args) {
			n++
			st.walk(args[ai], depth+1)
		}
	}
	if n == 0 {
		st.add(Origin{Kind: OParam, Val: x, Fn: fn})
	}
}

func (st *flowState) freevar(fv *ssa.FreeVar, depth int, deref bool) {
	fn := fv.Parent()
	idx := -1
	for i, q := range fn.FreeVars {
		if q == fv {
			idx = i
		}
	}
	parent := fn.Parent()
	found := false
	if parent != nil {
		eachInstr(parent, func(_ *ssa.BasicBlock, _ int, in ssa.Instruction) {
			mc, ok := in.(*ssa.MakeClosure)
			if !ok || mc.Fn != fn || idx >= len(mc.Bindings) {
				return
			}
			found = true
			b := mc.Bindings[idx]
			if deref {
				// binding is the address of a captured variable: follow its stores
				if a, ok := b.(*ssa.Alloc); ok {
					for _, ref := range *a.Referrers() {
						if s, ok := ref.(*ssa.Store); ok && s.Addr == a {
							st.walk(s.Val, depth)
						}
					}
					return
				}
			}
			st.walk(b, depth)
		})
	}
	if !found {
		st.add(Origin{Kind: OUnknown, Val: fv, Fn: fn})
	}
}

// fieldStores indexes, for every struct field "Type.field", the values stored into it anywhere in the package.
func (p *Prog) fieldStores() map[string][]ssa.Value {
	if m, ok := p.memo("fieldStores").(map[string][]ssa.Value); ok {
		return m
	}
	m := map[string][]ssa.Value{}
	for _, fn := range p.Funcs {
		eachInstr(fn, func(_ *ssa.BasicBlock, _ int, in ssa.Instruction) {
			if s, ok := in.(*ssa.Store); ok {
				if fa, ok := s.Addr.(*ssa.FieldAddr); ok {
					n := fieldAddrName(fa)
					m[n] = append(m[n], s.Val)
				}
			}
		})
	}
	p.setMemo("fieldStores", m)
	return m
}

func (p *Prog) globalStores(g *ssa.Global) []*ssa.Store {
	key := "globalStores:" + g.String()
	if m, ok := p.memo(key).([]*ssa.Store); ok {
		return m
	}
	var out []*ssa.Store
	scan := func(fn *ssa.Function) {
		eachInstr(fn, func(_ *ssa.BasicBlock, _ int, in ssa.Instruction) {
			if s, ok := in.(*ssa.Store); ok && s.Addr == g {
				out = append(out, s)
			}
		})
	}
	for _, fn := range p.Funcs {
		scan(fn)
	}
	if init := p.SPkg.Func("init"); init != nil {
		scan(init)
	}
	p.setMemo(key, out)
	return out
}

func (p *Prog) memo(k string) interface{} {
	p.memoMu.Lock()
	defer p.memoMu.Unlock()
	return p.memoM[k]
}

func (p *Prog) setMemo(k string, v interface{}) {
	p.memoMu.Lock()
	defer p.memoMu.Unlock()
	if p.memoM == nil {
		p.memoM = map[string]interface{}{}
	}
	p.memoM[k] = v
}

// inModule: the function belongs to the analysed module (bodies of dependencies are never followed).
func inModule(f *ssa.Function) bool {
	g := f
	for g.Parent() != nil {
		g = g.Parent()
	}
	if g.Pkg == nil {
		if o := g.Origin(); o != nil && o.Pkg != nil {
			return strings.HasPrefix(o.Pkg.Pkg.Path(), modPath)
		}
		return false
	}
	return strings.HasPrefix(g.Pkg.Pkg.Path(), modPath)
}
