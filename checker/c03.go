package main

import (
	"fmt"
	"go/ast"
	"go/constant"
	"go/token"
	"go/types"
	"sort"
	"strings"

	"golang.org/x/tools/go/ssa"
)

func init() {
	register(&Rule{ID: "C03.W", Min: 130, Doc: "every scalar field of the workflow AST is written by the parser, and every key case of a section parser keeps or acts on the value of its key", Run: runC03W})
	register(&Rule{ID: "C03.W2", Min: 15, Doc: "no two key cases of one section parser store into the same AST field (copy-paste detector)", Run: runC03W2})
	register(&Rule{ID: "C03.R", Min: 150, Doc: "every scalar field of the workflow AST, at every place of the AST where its node type occurs, is handed to the expression scanner by RuleExpression", Run: runC03R})
}

type astField struct {
	owner *types.Named
	v     *types.Var
	idx   int
	name  string // "Type.field"
}

var scalarKinds = map[string]bool{"*String": true, "[]*String": true, "*Bool": true, "*Int": true, "*Float": true, "RawYAMLValue": true, "[]RawYAMLValue": true}

// astScalarFields: fields of scalar kind of all struct types reachable from Workflow.
func astScalarFields(p *Prog) []astField {
	root := p.Named("Workflow")
	if root == nil {
		return nil
	}
	seen := map[*types.Named]bool{}
	var out []astField
	scope := p.Main.Types.Scope()
	implementers := func(it *types.Interface) []*types.Named {
		var res []*types.Named
		for _, n := range scope.Names() {
			tn, ok := scope.Lookup(n).(*types.TypeName)
			if !ok {
				continue
			}
			nt, ok := tn.Type().(*types.Named)
			if !ok {
				continue
			}
			if _, isStruct := nt.Underlying().(*types.Struct); !isStruct {
				continue
			}
			if types.Implements(types.NewPointer(nt), it) || types.Implements(nt, it) {
				res = append(res, nt)
			}
		}
		return res
	}
	var visitType func(t types.Type)
	var visit func(n *types.Named)
	visitType = func(t types.Type) {
		switch u := t.(type) {
		case *types.Pointer:
			visitType(u.Elem())
		case *types.Slice:
			visitType(u.Elem())
		case *types.Map:
			visitType(u.Elem())
		case *types.Named:
			if u.Obj().Pkg() != p.Main.Types {
				return
			}
			if it, ok := u.Underlying().(*types.Interface); ok {
				if it.NumMethods() == 0 {
					return
				}
				for _, impl := range implementers(it) {
					visit(impl)
				}
				return
			}
			visit(u)
		}
	}
	visit = func(n *types.Named) {
		if seen[n] {
			return
		}
		seen[n] = true
		st, ok := n.Underlying().(*types.Struct)
		if !ok {
			return
		}
		switch n.Obj().Name() {
		case "String", "Bool", "Int", "Float", "Pos":
			return // leaf carriers themselves
		}
		for i := 0; i < st.NumFields(); i++ {
			f := st.Field(i)
			ts := typeStr(f.Type())
			if scalarKinds[ts] {
				out = append(out, astField{n, f, i, n.Obj().Name() + "." + f.Name()})
			}
			visitType(f.Type())
		}
	}
	visit(root)
	sort.Slice(out, func(i, j int) bool { return out[i].name < out[j].name })
	return out
}

func isParserFunc(fn *ssa.Function) bool {
	for fn.Parent() != nil {
		fn = fn.Parent()
	}
	r := fn.Signature.Recv()
	return r != nil && typeStr(r.Type()) == "*parser"
}

func runC03W(c *Ctx) {
	p := c.P
	fields := astScalarFields(p)
	if len(fields) == 0 {
		c.anchorMissing("type Workflow")
		return
	}
	written := map[string]token.Pos{}
	for _, fn := range p.Funcs {
		if !isParserFunc(fn) {
			continue
		}
		eachInstr(fn, func(_ *ssa.BasicBlock, _ int, in ssa.Instruction) {
			st, ok := in.(*ssa.Store)
			if !ok || isNilConst(st.Val) {
				return
			}
			if fa, ok := st.Addr.(*ssa.FieldAddr); ok {
				n := fieldAddrName(fa)
				if _, dup := written[n]; !dup {
					written[n] = st.Pos()
				}
			}
		})
	}
	for _, f := range fields {
		if pos, ok := written[f.name]; ok {
			c.ok("field "+f.name, pos, "assigned by the parser")
		} else {
			c.bad("field "+f.name, f.v.Pos(), "no parser method ever stores a value into this field: whatever the workflow contains at this key is lost and cannot be checked")
		}
	}
	// Per key: a field that is written somewhere says nothing about a single key case (the scalar form of a section may
	// store the field that the mapping form forgot). Every case of a key switch keeps what it parsed - a store into a
	// field or an element, an assignment to a variable of the enclosing function, a return - or acts on the value in
	// another way (reports, validates, delegates). A case that is empty, or only calls parse methods and drops what they
	// return, accepts the key and loses its value.
	c03KeyCases(c)
}

func c03KeyCases(c *Ctx) {
	p := c.P
	info := p.info()
	p.FuncDecls(func(_ *ast.File, d *ast.FuncDecl) {
		if d.Recv == nil || len(d.Recv.List) == 0 || exprStr(d.Recv.List[0].Type) != "*parser" {
			return
		}
		nsw := 0
		ast.Inspect(d.Body, func(n ast.Node) bool {
			sw, ok := n.(*ast.SwitchStmt)
			if !ok || sw.Tag == nil {
				return true
			}
			sel, ok := sw.Tag.(*ast.SelectorExpr)
			if !ok || sel.Sel.Name != currentFieldName("workflowKeyVal.id") {
				return true
			}
			nsw++
			for _, s := range sw.Body.List {
				cc := s.(*ast.CaseClause)
				var labels []string
				for _, e := range cc.List {
					if tv := info.Types[e]; tv.Value != nil && tv.Value.Kind() == constant.String {
						labels = append(labels, constant.StringVal(tv.Value))
					}
				}
				if len(labels) == 0 {
					continue
				}
				construct := fmt.Sprintf("%s|key %q of switch %s#%d", DeclName(info, d), strings.Join(labels, ","), exprStr(sw.Tag), nsw)
				keeps, acts, dropped := "", "", ""
				outer := func(id *ast.Ident) bool {
					obj := info.ObjectOf(id)
					return obj != nil && id.Name != "_" && (obj.Pos() < cc.Pos() || obj.Pos() >= cc.End())
				}
				for _, st := range cc.Body {
					ast.Inspect(st, func(m ast.Node) bool {
						switch x := m.(type) {
						case *ast.FuncLit:
							return false
						case *ast.AssignStmt:
							for _, l := range x.Lhs {
								switch lhs := l.(type) {
								case *ast.SelectorExpr, *ast.IndexExpr, *ast.StarExpr:
									keeps = "stores into " + exprStr(l)
								case *ast.Ident:
									if outer(lhs) {
										keeps = "assigns " + lhs.Name
									}
								}
							}
						case *ast.ReturnStmt:
							if len(x.Results) > 0 {
								keeps = "returns a value"
							}
						case *ast.IncDecStmt:
							acts = "counts"
						case *ast.ExprStmt:
							call, ok := x.X.(*ast.CallExpr)
							if !ok {
								return true
							}
							fn := calleeObj(info, call)
							if fn != nil && strings.HasPrefix(fn.Name(), "parse") && fn.Type().(*types.Signature).Results().Len() > 0 {
								if r := fn.Type().(*types.Signature).Recv(); r != nil && typeStr(r.Type()) == "*parser" {
									dropped = exprStr(call.Fun)
									return true
								}
							}
							acts = "calls " + exprStr(call.Fun)
						}
						return true
					})
				}
				switch {
				case keeps != "":
					c.ok(construct, cc.Pos(), "the case "+keeps)
				case acts != "":
					c.ok(construct, cc.Pos(), "the case "+acts)
				case dropped != "":
					c.bad(construct, cc.Pos(), "the case calls "+dropped+" and drops what it returns: the key is accepted and its value is lost, whatever other key or form stores the same field")
				default:
					c.bad(construct, cc.Pos(), "the case does nothing with the value of the key: the key is accepted and its value is lost")
				}
			}
			return true
		})
	})
}

// C03.W2: in a `switch X.id` of a parser method, two clauses with different constant labels assign the same selector or
// the same local variable.
func runC03W2(c *Ctx) {
	p := c.P
	info := p.info()
	p.FuncDecls(func(_ *ast.File, d *ast.FuncDecl) {
		if d.Recv == nil || len(d.Recv.List) == 0 || exprStr(d.Recv.List[0].Type) != "*parser" {
			return
		}
		nsw := 0
		ast.Inspect(d.Body, func(n ast.Node) bool {
			sw, ok := n.(*ast.SwitchStmt)
			if !ok || sw.Tag == nil {
				return true
			}
			sel, ok := sw.Tag.(*ast.SelectorExpr)
			if !ok || sel.Sel.Name != currentFieldName("workflowKeyVal.id") {
				return true
			}
			nsw++
			construct := fmt.Sprintf("%s|switch %s#%d", DeclName(info, d), exprStr(sw.Tag), nsw)
			assigned := map[string]string{} // selector text -> case label
			dup := ""
			for _, s := range sw.Body.List {
				cc := s.(*ast.CaseClause)
				var labels []string
				for _, e := range cc.List {
					if tv := info.Types[e]; tv.Value != nil && tv.Value.Kind() == constant.String {
						labels = append(labels, constant.StringVal(tv.Value))
					}
				}
				if len(labels) == 0 {
					continue
				}
				label := strings.Join(labels, ",")
				// direct statements of the clause (not nested switches on other ids)
				for _, st := range cc.Body {
					as, ok := st.(*ast.AssignStmt)
					if !ok || len(as.Lhs) != 1 || len(as.Rhs) != 1 {
						continue
					}
					// the target: a field of the node (X.f) or a local variable that keeps the value until the node is built
					var key, what string
					switch lhs := as.Lhs[0].(type) {
					case *ast.SelectorExpr:
						key, what = exprStr(lhs), exprStr(lhs)
					case *ast.Ident:
						obj := info.ObjectOf(lhs)
						if obj == nil || lhs.Name == "_" {
							continue
						}
						key, what = fmt.Sprintf("%s@%d", lhs.Name, obj.Pos()), "the local variable "+lhs.Name
					default:
						continue
					}
					call, ok := as.Rhs[0].(*ast.CallExpr)
					if !ok {
						continue
					}
					fn := calleeObj(info, call)
					if fn == nil || !strings.HasPrefix(fn.Name(), "parse") {
						continue
					}
					if prev, ok := assigned[key]; ok && prev != label {
						dup = fmt.Sprintf("%s is assigned from a parse call in case %q and again in case %q: one of the keys is stored in the wrong field", what, prev, label)
					}
					assigned[key] = label
				}
			}
			switch {
			case dup != "":
				c.bad(construct, sw.Pos(), dup)
			case len(assigned) == 0:
				// no clause assigns the result of a parse call to a field or a local: nothing was inspected, nothing is claimed
			default:
				c.ok(construct, sw.Pos(), fmt.Sprintf("%d distinct fields or locals assigned, each by one key", len(assigned)))
			}
			return true
		})
	})
}

// scannerParams computes, for every function, the parameters from which the source text handed to
// NewExprLexer is computed (directly or through callees).
func scannerParams(p *Prog) map[*ssa.Function]map[int]bool {
	if m, ok := p.memo("scannerParams").(map[*ssa.Function]map[int]bool); ok {
		return m
	}
	own := p.Own()
	scan := map[*ssa.Function]map[int]bool{}
	lexer := p.Func("NewExprLexer")
	if lexer != nil {
		scan[lexer] = map[int]bool{0: true}
	}
	for changed := true; changed; {
		changed = false
		for _, fn := range own.funcs {
			if fn == lexer {
				continue
			}
			eachInstr(fn, func(_ *ssa.BasicBlock, _ int, in ssa.Instruction) {
				call, ok := in.(ssa.CallInstruction)
				if !ok {
					return
				}
				for _, g := range p.calleesOf(call) {
					for j := range scan[g] {
						var arg ssa.Value
						cc := call.Common()
						if cc.IsInvoke() {
							if j == 0 {
								arg = cc.Value
							} else if j-1 < len(cc.Args) {
								arg = cc.Args[j-1]
							}
						} else if j < len(cc.Args) {
							arg = cc.Args[j]
						}
						if arg == nil {
							continue
						}
						for r := range own.roots(fn, arg, modeDeriv) {
							if r.K == RParam {
								if scan[fn] == nil {
									scan[fn] = map[int]bool{}
								}
								if !scan[fn][r.I] {
									scan[fn][r.I] = true
									changed = true
								}
							}
						}
					}
				}
			})
		}
	}
	p.setMemo("scannerParams", scan)
	return scan
}

// fieldsFeeding collects the struct fields read on the intra-procedural backward slice of v.
func fieldsFeeding(v ssa.Value, out map[string]bool, seen map[ssa.Value]bool, depth int) {
	if v == nil || seen[v] || depth > 30 {
		return
	}
	seen[v] = true
	switch x := v.(type) {
	case *ssa.UnOp:
		if x.Op == token.MUL {
			switch a := x.X.(type) {
			case *ssa.FieldAddr:
				out[fieldAddrName(a)] = true
				fieldsFeeding(a.X, out, seen, depth+1)
			case *ssa.IndexAddr:
				fieldsFeeding(a.X, out, seen, depth+1)
			case *ssa.Alloc:
				for _, ref := range *a.Referrers() {
					if s, ok := ref.(*ssa.Store); ok && s.Addr == a {
						fieldsFeeding(s.Val, out, seen, depth+1)
					}
				}
			default:
				fieldsFeeding(x.X, out, seen, depth+1)
			}
			return
		}
		fieldsFeeding(x.X, out, seen, depth+1)
	case *ssa.FieldAddr:
		out[fieldAddrName(x)] = true
		fieldsFeeding(x.X, out, seen, depth+1)
	case *ssa.Field:
		n, _ := fieldName(x.X.Type(), x.Field)
		out[n] = true
		fieldsFeeding(x.X, out, seen, depth+1)
	case *ssa.IndexAddr:
		fieldsFeeding(x.X, out, seen, depth+1)
	case *ssa.Index:
		fieldsFeeding(x.X, out, seen, depth+1)
	case *ssa.Lookup:
		fieldsFeeding(x.X, out, seen, depth+1)
	case *ssa.Slice:
		fieldsFeeding(x.X, out, seen, depth+1)
	case *ssa.Phi:
		for _, e := range x.Edges {
			fieldsFeeding(e, out, seen, depth+1)
		}
	case *ssa.Extract:
		switch t := x.Tuple.(type) {
		case *ssa.Next:
			if r, ok := t.Iter.(*ssa.Range); ok {
				fieldsFeeding(r.X, out, seen, depth+1)
			}
		case *ssa.TypeAssert:
			fieldsFeeding(t.X, out, seen, depth+1)
		case *ssa.Lookup:
			fieldsFeeding(t.X, out, seen, depth+1)
		}
	case *ssa.TypeAssert:
		fieldsFeeding(x.X, out, seen, depth+1)
	case *ssa.MakeInterface:
		fieldsFeeding(x.X, out, seen, depth+1)
	case *ssa.ChangeInterface:
		fieldsFeeding(x.X, out, seen, depth+1)
	case *ssa.ChangeType:
		fieldsFeeding(x.X, out, seen, depth+1)
	case *ssa.Convert:
		fieldsFeeding(x.X, out, seen, depth+1)
	case *ssa.BinOp:
		fieldsFeeding(x.X, out, seen, depth+1)
		fieldsFeeding(x.Y, out, seen, depth+1)
	}
}

// c03Excluded: AST fields that are deliberately not scanned for ${{ }}, one reason each.
var c03Excluded = map[string]string{
	"WebhookEvent.Hook":            "event name (excluded by the property statement)",
	"Permissions.All":              "permissions value (excluded by the property statement)",
	"PermissionScope.Value":        "permissions value (excluded by the property statement)",
	"PermissionScope.Name":         "mapping key (permission scope name)",
	"Job.ID":                       "mapping key (job id)",
	"MatrixAssign.Key":             "mapping key (matrix key)",
	"MatrixRow.Name":               "mapping key (matrix row name)",
	"Input.Name":                   "mapping key (with: input name)",
	"Output.Name":                  "mapping key (job output name)",
	"DispatchInput.Name":           "mapping key (workflow_dispatch input name)",
	"WorkflowCallEventInput.Name":  "mapping key (workflow_call input name)",
	"WorkflowCallEventSecret.Name": "mapping key (workflow_call secret name)",
	"WorkflowCallEventOutput.Name": "mapping key (workflow_call output name)",
	"WorkflowCallInput.Name":       "mapping key (reusable workflow call input name)",
	"WorkflowCallSecret.Name":      "mapping key (reusable workflow call secret name)",
	"Service.Name":                 "mapping key (service id)",
	"WebhookEventFilter.Name":      "mapping key (filter name such as branches)",
}

func runC03R(c *Ctx) {
	p := c.P
	fields := astScalarFields(p)
	scan := scannerParams(p)
	var roots []*ssa.Function
	for _, m := range []string{"VisitWorkflowPre", "VisitWorkflowPost", "VisitJobPre", "VisitJobPost", "VisitStep"} {
		if f := p.Method("RuleExpression", m); f != nil {
			roots = append(roots, f)
		}
	}
	if len(roots) != 5 {
		c.anchorMissing("RuleExpression visitor methods")
		return
	}
	if len(scan) < 5 {
		c.anchorMissing("functions reaching NewExprLexer")
		return
	}
	reach := p.reachable(roots...)
	covered := map[string]token.Pos{}
	for fn := range reach {
		if !inPkg(fn, p.SPkg) || fn.Blocks == nil {
			continue
		}
		eachInstr(fn, func(_ *ssa.BasicBlock, _ int, in ssa.Instruction) {
			call, ok := in.(ssa.CallInstruction)
			if !ok {
				return
			}
			for _, g := range p.calleesOf(call) {
				for j := range scan[g] {
					cc := call.Common()
					var arg ssa.Value
					if cc.IsInvoke() {
						if j == 0 {
							arg = cc.Value
						} else if j-1 < len(cc.Args) {
							arg = cc.Args[j-1]
						}
					} else if j < len(cc.Args) {
						arg = cc.Args[j]
					}
					if arg == nil {
						continue
					}
					fs := map[string]bool{}
					fieldsFeeding(arg, fs, map[ssa.Value]bool{}, 0)
					for f := range fs {
						if _, dup := covered[f]; !dup {
							covered[f] = call.Pos()
						}
					}
				}
			}
		})
	}
	used := map[string]bool{}
	for _, f := range fields {
		construct := "field " + f.name
		if pos, ok := covered[f.name]; ok {
			c.ok(construct, pos, "read and handed to a function whose argument reaches NewExprLexer")
			continue
		}
		if why, ok := c03Excluded[f.name]; ok {
			used[f.name] = true
			o := c.ok(construct, f.v.Pos(), "not scanned by design: "+why)
			o.trivial = true
			continue
		}
		c.bad(construct, f.v.Pos(), "no function reachable from RuleExpression's visitor methods hands this field to the expression scanner: a ${{ }} placeholder at this key is silently skipped")
	}
	c03RPaths(c)
	for f := range c03Excluded {
		if !used[f] {
			if _, ok := covered[f]; ok {
				continue
			}
			found := false
			for _, af := range fields {
				if af.name == f {
					found = true
				}
			}
			if !found {
				c.undecided("excluded field "+f, 0, "the exclusion table names a field that no longer exists")
			}
		}
	}
}

// c03RPaths: a node type that occurs at several places of the AST (Env under the workflow, a job, a step and a container;
// Container under a job and under each service; ...) has its fields read by one helper, and the field-level obligations
// above are discharged by any one call of that helper. Here every chain of fields from Workflow, Job and Step (the nodes
// the visitor hands to RuleExpression) down to a scalar is an obligation of its own: the visitor methods for that node must
// hand exactly that chain - followed through helpers, closures, range loops, type switches and returned values - to the
// source parameter of NewExprLexer.
func c03RPaths(c *Ctx) {
	p := c.P
	eng := p.newAPEngine()
	found := eng.handedToScanner()
	stop := map[string]bool{"Workflow": true, "Job": true, "Step": true}
	for _, nt := range []struct {
		typ     string
		methods []string
	}{
		{"Workflow", []string{"VisitWorkflowPre", "VisitWorkflowPost"}},
		{"Job", []string{"VisitJobPre", "VisitJobPost"}},
		{"Step", []string{"VisitStep"}},
	} {
		root := p.Named(nt.typ)
		if root == nil {
			c.anchorMissing("type " + nt.typ)
			continue
		}
		have := map[string]token.Pos{}
		for _, m := range nt.methods {
			f := p.Method("RuleExpression", m)
			if f == nil || len(f.Params) < 2 {
				continue
			}
			for ap := range found[f] {
				if ap.root == f.Params[1] {
					have[ap.chain] = f.Pos()
				}
			}
		}
		for _, path := range eng.requiredScalarPaths(root, stop) {
			leaf := path
			if i := strings.LastIndex(path, "/"); i >= 0 {
				leaf = path[i+1:]
			}
			if _, ok := c03Excluded[leaf]; ok {
				continue
			}
			if !strings.Contains(path, "/") {
				continue // a field of the node itself: the field-level obligation is the same statement
			}
			construct := "path " + path
			if pos, ok := have[path]; ok {
				c.ok(construct, pos, "the visitor methods of "+nt.typ+" hand this chain of fields to the expression scanner")
			} else {
				c.bad(construct, root.Obj().Pos(), "the visitor methods of "+nt.typ+" never hand this chain of fields to the expression scanner (the last field is scanned at another place of the AST only): a ${{ }} placeholder at this position is silently skipped")
			}
		}
	}
}

// C03.LOOP — a range loop that hands its elements to the expression scanner must visit every element:
// no `break` out of it and no `return` inside it.
func init() {
	register(&Rule{ID: "C03.LOOP", Min: 15, Doc: "loops that hand AST elements to the expression scanner have no early exit", Run: runC03Loop})
}

func runC03Loop(c *Ctx) {
	p := c.P
	info := p.info()
	scan := scannerParams(p)
	var roots []*ssa.Function
	for _, m := range []string{"VisitWorkflowPre", "VisitWorkflowPost", "VisitJobPre", "VisitJobPost", "VisitStep"} {
		if f := p.Method("RuleExpression", m); f != nil {
			roots = append(roots, f)
		}
	}
	reach := p.reachable(roots...)
	p.FuncDecls(func(_ *ast.File, d *ast.FuncDecl) {
		fn := p.declFunc(d)
		if fn == nil || !reach[fn] {
			return
		}
		n := 0
		var labelOf = map[*ast.RangeStmt]string{}
		ast.Inspect(d.Body, func(nd ast.Node) bool {
			if ls, ok := nd.(*ast.LabeledStmt); ok {
				if rs, ok := ls.Stmt.(*ast.RangeStmt); ok {
					labelOf[rs] = ls.Label.Name
				}
			}
			return true
		})
		ast.Inspect(d.Body, func(nd ast.Node) bool {
			rs, ok := nd.(*ast.RangeStmt)
			if !ok {
				return true
			}
			// does the body call a scanner-reaching function?
			scans := false
			ast.Inspect(rs.Body, func(x ast.Node) bool {
				if call, ok := x.(*ast.CallExpr); ok {
					if obj := calleeObj(info, call); obj != nil {
						if g := p.SSA.FuncValue(obj); g != nil && len(scan[g]) > 0 {
							scans = true
						}
					}
				}
				return !scans
			})
			if !scans {
				return true
			}
			n++
			construct := fmt.Sprintf("%s|range %s#%d", DeclName(info, d), exprStr(rs.X), n)
			exit := loopEarlyExit(p, rs, labelOf[rs])
			if exit != "" {
				c.bad(construct, rs.Pos(), "the loop hands its elements to the expression scanner but can stop early ("+exit+"): the remaining elements are never checked")
			} else {
				c.ok(construct, rs.Pos(), "every element is visited")
			}
			return true
		})
	})
}

// loopEarlyExit: the first statement in the body of a range loop that leaves the loop before every element was visited
// (return, break of this loop, goto), or "".
func loopEarlyExit(p *Prog, rs *ast.RangeStmt, label string) string {
	exit := ""
	var walk func(x ast.Node, breakable bool)
	walk = func(x ast.Node, breakable bool) {
		ast.Inspect(x, func(y ast.Node) bool {
			if y == nil || exit != "" {
				return false
			}
			switch s := y.(type) {
			case *ast.FuncLit:
				return false
			case *ast.ReturnStmt:
				exit = "return at " + p.Pos(s.Pos())
				return false
			case *ast.BranchStmt:
				if s.Tok == token.BREAK {
					if s.Label != nil {
						if label != "" && s.Label.Name == label {
							exit = "break at " + p.Pos(s.Pos())
						}
					} else if breakable {
						exit = "break at " + p.Pos(s.Pos())
					}
				}
				if s.Tok == token.GOTO {
					exit = "goto at " + p.Pos(s.Pos())
				}
			case *ast.ForStmt:
				if y != x {
					walk(s.Body, false)
					return false
				}
			case *ast.RangeStmt:
				if y != x {
					walk(s.Body, false)
					return false
				}
			case *ast.SwitchStmt:
				walk(s.Body, false)
				return false
			case *ast.TypeSwitchStmt:
				walk(s.Body, false)
				return false
			case *ast.SelectStmt:
				walk(s.Body, false)
				return false
			}
			return true
		})
	}
	walk(rs.Body, true)
	return exit
}

// rangeLabels: the label of each labelled range statement of a function body.
func rangeLabels(body *ast.BlockStmt) map[*ast.RangeStmt]string {
	out := map[*ast.RangeStmt]string{}
	ast.Inspect(body, func(nd ast.Node) bool {
		if ls, ok := nd.(*ast.LabeledStmt); ok {
			if rs, ok := ls.Stmt.(*ast.RangeStmt); ok {
				out[rs] = ls.Label.Name
			}
		}
		return true
	})
	return out
}
