package main

import (
	"fmt"
	"go/ast"
	"go/token"
	"go/types"
	"sort"
	"strings"

	"golang.org/x/tools/go/ssa"
)

func init() {
	register(&Rule{ID: "C07.CONV", Min: 2, Doc: "placeholder-relative positions are mapped onto the scalar by base + value - 1", Run: runC07Conv})
	register(&Rule{ID: "C07.ACCUM", Min: 4, Doc: "the column base of each placeholder equals the number of bytes sliced off before it", Run: runC07Accum})
	register(&Rule{ID: "C07.QUOTE", Min: 6, Doc: "a column derived from a scalar's position is advanced by one iff the scalar is quoted, once", Run: runC07Quote})
	register(&Rule{ID: "C07.FIELDS", Min: 12, Doc: "line, column and offset are copied field to field of the same meaning", Run: runC07Fields})
	register(&Rule{ID: "C07.ARGS", Min: 8, Doc: "line and column arguments are passed in the order of the callee's parameters", Run: runC07Args})
	register(&Rule{ID: "C07.TOKEN", Min: 20, Doc: "a node is reported at its own token or at the token of its leftmost operand; the token kept in a node is the first token of what was parsed", Run: runC07Token})
	register(&Rule{ID: "C07.ERRTOK", Min: 8, Doc: "a syntax error is positioned at the look-ahead token at which parsing stopped", Run: runC07ErrTok})
	register(&Rule{ID: "C07.LEXPOS", Min: 6, Doc: "a token starts where the previous token or white space ended", Run: runC07LexPos})
	register(&Rule{ID: "C07.ORIGIN", Min: 3, Doc: "every position object is built from a YAML node's line/column or from position arithmetic", Run: runC07Origin})
}

// ---- linear forms over SSA integers ----

type linForm map[string]int

func (l linForm) String() string {
	var ks []string
	for k, v := range l {
		if v == 0 {
			continue
		}
		switch {
		case k == "1":
			ks = append(ks, fmt.Sprintf("%+d", v))
		case v == 1:
			ks = append(ks, "+"+k)
		case v == -1:
			ks = append(ks, "-"+k)
		default:
			ks = append(ks, fmt.Sprintf("%+d*%s", v, k))
		}
	}
	sort.Strings(ks)
	if len(ks) == 0 {
		return "0"
	}
	return strings.Join(ks, " ")
}

func (l linForm) equal(o linForm) bool { return l.String() == o.String() }

func linAdd(a, b linForm, sign int) linForm {
	o := linForm{}
	for k, v := range a {
		o[k] += v
	}
	for k, v := range b {
		o[k] += sign * v
	}
	return o
}

// symName: a stable name for a non-arithmetic value.
func symName(v ssa.Value) string {
	switch x := v.(type) {
	case *ssa.Parameter:
		return x.Name()
	case *ssa.UnOp:
		if f, base := fieldLoad(x); f != "" {
			return f + "(" + symName(base) + ")"
		}
	case *ssa.Field:
		if f, base := fieldLoad(x); f != "" {
			return f + "(" + symName(base) + ")"
		}
	case *ssa.FieldAddr:
		return "&" + fieldAddrName(x) + "(" + symName(x.X) + ")"
	case *ssa.Phi:
		return "phi:" + x.Comment + "@" + fmt.Sprint(x.Block().Index)
	case *ssa.Extract:
		if call, ok := x.Tuple.(*ssa.Call); ok {
			return fmt.Sprintf("%s#%d", describeCall(call), x.Index)
		}
	case *ssa.Call:
		if bi, ok := x.Call.Value.(*ssa.Builtin); ok {
			return bi.Name() + "(" + symName(x.Call.Args[0]) + ")"
		}
		return describeCall(x) + "()#" + x.Name()
	case *ssa.Alloc:
		return "local:" + x.Comment
	}
	return v.Name()
}

// linOf: v as a linear form; phis are symbols unless expandPhi says otherwise.
func linOf(v ssa.Value, depth int) linForm {
	if depth > 12 {
		return linForm{symName(v): 1}
	}
	switch x := v.(type) {
	case *ssa.Const:
		if n, ok := constInt(x); ok {
			return linForm{"1": int(n)}
		}
	case *ssa.BinOp:
		switch x.Op {
		case token.ADD:
			return linAdd(linOf(x.X, depth+1), linOf(x.Y, depth+1), 1)
		case token.SUB:
			return linAdd(linOf(x.X, depth+1), linOf(x.Y, depth+1), -1)
		}
	case *ssa.Convert:
		return linOf(x.X, depth+1)
	case *ssa.ChangeType:
		return linOf(x.X, depth+1)
	}
	return linForm{symName(v): 1}
}

// linOfChars is linOf for column arithmetic: utf8.RuneCountInString(x[:k]), the number of characters of a prefix, is
// read as k. The two are equal for the one-line ASCII scalars C07 is about; the strings whose prefixes were counted are
// appended to bases so that the caller can check that they are the strings the k bytes are then sliced off.
func linOfChars(v ssa.Value, depth int, bases *[]ssa.Value) linForm {
	if depth > 12 {
		return linForm{symName(v): 1}
	}
	switch x := v.(type) {
	case *ssa.BinOp:
		switch x.Op {
		case token.ADD:
			return linAdd(linOfChars(x.X, depth+1, bases), linOfChars(x.Y, depth+1, bases), 1)
		case token.SUB:
			return linAdd(linOfChars(x.X, depth+1, bases), linOfChars(x.Y, depth+1, bases), -1)
		}
	case *ssa.Convert:
		return linOfChars(x.X, depth+1, bases)
	case *ssa.ChangeType:
		return linOfChars(x.X, depth+1, bases)
	case *ssa.Call:
		if calleeFullName(&x.Call) == "unicode/utf8.RuneCountInString" {
			if sl, ok := x.Call.Args[0].(*ssa.Slice); ok && sl.Low == nil && sl.High != nil {
				*bases = append(*bases, sl.X)
				return linOf(sl.High, depth+1)
			}
			// the part before the separator found by strings.Cut: s[:idx]
			if ex, ok := x.Call.Args[0].(*ssa.Extract); ok && ex.Index == 0 {
				if cut, ok := ex.Tuple.(*ssa.Call); ok && calleeFullName(&cut.Call) == "strings.Cut" {
					*bases = append(*bases, cut.Call.Args[0])
					return linForm{cutIndexSym(cut): 1}
				}
			}
		}
	}
	return linOf(v, depth)
}

func linConst(l linForm) int { return l["1"] }
func linWithout(l linForm, keys ...string) linForm {
	o := linForm{}
	for k, v := range l {
		o[k] = v
	}
	for _, k := range keys {
		delete(o, k)
	}
	return o
}

// ---- C07.CONV ----

func runC07Conv(c *Ctx) {
	p := c.P
	// wherever a position is computed from the 1-based line/column of an ExprError: Pos.Line = err.Line - 1 + base line,
	// Pos.Col = err.Column - 1 + base column. The computation is found by what it reads (ExprError.Line / Column, directly or
	// through a parameter every caller fills with it), not by the name of the function that holds it.
	fedBy := func(fn *ssa.Function, sym string, field string) bool {
		if strings.HasPrefix(sym, field+"(") {
			return true
		}
		for i, q := range fn.Params {
			if symName(q) != sym {
				continue
			}
			callers := p.callersOf(fn)
			if len(callers) == 0 {
				return false
			}
			for _, e := range callers {
				if e.Site == nil || e.Site.Common().IsInvoke() || i >= len(e.Site.Common().Args) {
					return false
				}
				if f, _ := fieldLoad(e.Site.Common().Args[i]); f != field {
					return false
				}
			}
			return true
		}
		return false
	}
	found := map[string]bool{}
	for _, fn := range p.Funcs {
		eachInstr(fn, func(_ *ssa.BasicBlock, _ int, in ssa.Instruction) {
			st, ok := in.(*ssa.Store)
			if !ok {
				return
			}
			fa, ok := st.Addr.(*ssa.FieldAddr)
			if !ok {
				return
			}
			f := fieldAddrName(fa)
			src := map[string]string{"Pos.Line": "ExprError.Line", "Pos.Col": "ExprError.Column"}[f]
			if src == "" {
				return
			}
			lf := linOf(st.Val, 0)
			errSym := ""
			for k := range lf {
				if k != "1" && fedBy(fn, k, src) {
					errSym = k
				}
			}
			if errSym == "" {
				return
			}
			found[f] = true
			construct := "position of an expression error|" + f
			rest := linWithout(lf, errSym, "1")
			okForm := lf[errSym] == 1 && lf["1"] == -1 && len(rest) == 1
			for _, co := range rest {
				if co != 1 {
					okForm = false
				}
			}
			if okForm {
				c.ok(construct, st.Pos(), f+" = "+lf.String()+" (both 1-based)")
			} else {
				c.bad(construct, st.Pos(), f+" = "+lf.String()+" instead of "+src+" - 1 + base: every expression diagnostic is shifted")
			}
		})
	}
	for _, f := range []string{"Pos.Line", "Pos.Col"} {
		if !found[f] {
			c.anchorMissing("a computation of " + f + " from the line/column of an ExprError")
		}
	}
}

// ---- C07.ACCUM ----

func runC07Accum(c *Ctx) {
	p := c.P
	fn := p.Method("RuleExpression", "checkExprsIn")
	if fn == nil {
		c.anchorMissing("(*RuleExpression).checkExprsIn")
		return
	}
	sites := parseSites(p, fn)
	if len(sites) != 1 || sites[0].text == nil || sites[0].col == nil {
		c.bad("(*RuleExpression).checkExprsIn|scan of placeholders", fn.Pos(), fmt.Sprintf("%d places where the text of a placeholder is parsed with a known text and column", len(sites)))
		return
	}
	call := sites[0].call
	colArg := sites[0].col
	// the string passed: a chain of slicings of the parameter s; collect the lows sliced off along the loop
	// loop-carried string phi
	strArg := sites[0].text
	slX, cut1, ok := suffixView(strArg) // cut1: bytes cut before this placeholder's text
	if !ok {
		c.bad("(*RuleExpression).checkExprsIn|text handed to the parser", call.Pos(), "the placeholder text is not a suffix slice of the scalar")
		return
	}
	sphi, ok := slX.(*ssa.Phi)
	if !ok {
		c.bad("(*RuleExpression).checkExprsIn|text handed to the parser", call.Pos(), "the placeholder text is not s[k:] of the loop-carried remainder")
		return
	}
	// the column argument
	var counted []ssa.Value
	colForm := linOfChars(colArg, 0, &counted)
	// find the loop-carried offset phi among the symbols of colForm
	var ophi *ssa.Phi
	for _, in := range sphi.Block().Instrs {
		if ph, ok := in.(*ssa.Phi); ok && ph != sphi {
			if _, used := colForm[symName(ph)]; used {
				if b, ok := ph.Type().Underlying().(*types.Basic); ok && b.Info()&types.IsInteger != 0 {
					// the accumulator: carried around the loop as itself plus something (a position found anew on every
					// iteration, as in `for i := strings.Index(..); i >= 0; i = strings.Index(..)`, is not one)
					acc := false
					for _, e := range ph.Edges {
						if e != ssa.Value(ph) && linOfChars(e, 0, &counted)[symName(ph)] == 1 {
							acc = true
						}
					}
					if acc {
						ophi = ph
					}
				}
			}
		}
	}
	if ophi == nil {
		c.bad("(*RuleExpression).checkExprsIn|column of the placeholder", call.Pos(), "the column passed to the parser does not depend on an offset accumulated over the placeholders: "+colForm.String())
		return
	}
	// (1) col argument == base + offset_phi + cut1  (base: no loop-variant part)
	rest := linAdd(colForm, linAdd(linForm{symName(ophi): 1}, cut1, 1), -1)
	loopVariant := false
	for k, v := range rest {
		if v != 0 && strings.Contains(k, "phi:") && strings.HasSuffix(k, fmt.Sprintf("@%d", sphi.Block().Index)) {
			loopVariant = true
		}
	}
	_ = loopVariant
	construct := "(*RuleExpression).checkExprsIn|column of the placeholder"
	// what remains is the base: it may only consist of values fixed before the loop (the column of the scalar, the join of
	// the quoted adjustment, constants) - whatever the variables are called
	inLoop := naturalLoop(sphi.Block())
	loopBlocks := map[string]bool{}
	for b := range inLoop {
		loopBlocks[fmt.Sprintf("@%d", b.Index)] = true
	}
	// the accumulator may also carry the base itself (col += ... instead of col + offset): then its value at loop entry
	// is part of the base
	entryForm := linForm{}
	for i := range ophi.Edges {
		if !inLoop[ophi.Block().Preds[i]] {
			entryForm = linOf(ophi.Edges[i], 0)
		}
	}
	rest = linAdd(rest, entryForm, 1)
	baseOK := true
	baseSyms := 0
	for k, v := range rest {
		if v != 0 && k != "1" {
			baseSyms += v
		}
	}
	if baseSyms != 1 {
		baseOK = false // the scalar's column is counted exactly once
	}
	for k, v := range rest {
		if v == 0 || k == "1" || strings.HasPrefix(k, "Pos.Col(") {
			continue
		}
		if strings.HasPrefix(k, "phi:") {
			if i := strings.LastIndex(k, "@"); i >= 0 && !loopBlocks[k[i:]] {
				continue // a join made before the loop
			}
		}
		baseOK = false
	}
	if baseOK {
		c.ok(construct, call.Pos(), "column = base + (bytes sliced off so far: "+symName(ophi)+" "+cut1.String()+"); base = "+rest.String())
	} else {
		c.bad(construct, call.Pos(), "column = "+colForm.String()+", which is not base + accumulated offset + "+cut1.String())
	}
	// (2) around the loop: offset_next - offset_phi == total bytes sliced off s in the iteration
	for i, e := range sphi.Edges {
		pred := sphi.Block().Preds[i]
		if !reachableBlocks([]*ssa.BasicBlock{sphi.Block()}, nil)[pred] {
			// loop entry: offset starts at 0 and s is the parameter
			of := linOf(ophi.Edges[i], 0)
			if _, isParam := e.(*ssa.Parameter); isParam && of.String() == "0" {
				c.ok("(*RuleExpression).checkExprsIn|start of scan", sphi.Pos(), "offset 0 with the whole scalar")
			} else if isParam && baseOK {
				c.ok("(*RuleExpression).checkExprsIn|start of scan", sphi.Pos(), "the accumulated column starts at the base column with the whole scalar")
			} else {
				c.bad("(*RuleExpression).checkExprsIn|start of scan", sphi.Pos(), "the scan does not start with offset 0 on the whole scalar text: offset="+of.String())
			}
			continue
		}
		// back edge: e is a chain of slicings of sphi
		total := linForm{}
		cur := e
		okChain := true
		for cur != ssa.Value(sphi) {
			x2, low2, ok := suffixView(cur)
			if !ok {
				okChain = false
				break
			}
			total = linAdd(total, low2, 1)
			cur = x2
		}
		adv := linAdd(linOfChars(ophi.Edges[i], 0, &counted), linForm{symName(ophi): 1}, -1)
		// prefixes whose characters were counted belong to the strings of the slicing chain
		chain := map[ssa.Value]bool{sphi: true}
		for cur := e; cur != ssa.Value(sphi); {
			x2, _, ok := suffixView(cur)
			if !ok {
				break
			}
			chain[x2] = true
			cur = x2
		}
		for _, b := range counted {
			if !chain[b] {
				okChain = false
			}
		}
		cb := fmt.Sprintf("(*RuleExpression).checkExprsIn|offset tracks slicing (back edge %d)", i)
		switch {
		case !okChain:
			c.bad(cb, sphi.Pos(), "the remainder is not obtained by slicing off a prefix")
		case adv.equal(total):
			c.ok(cb, sphi.Pos(), "offset advances by "+adv.String()+", exactly the bytes sliced off")
		default:
			c.bad(cb, sphi.Pos(), "offset advances by "+adv.String()+" but "+total.String()+" bytes are sliced off: the columns of later placeholders in the same scalar drift")
		}
	}
	// (3) the position recorded for the placeholder is column - 3 (the `${{`)
	eachInstr(fn, func(_ *ssa.BasicBlock, _ int, in ssa.Instruction) {
		st, ok := in.(*ssa.Store)
		if !ok {
			return
		}
		fa, ok := st.Addr.(*ssa.FieldAddr)
		if !ok || fieldAddrName(fa) != "Pos.Col" {
			return
		}
		d := linAdd(linOfChars(st.Val, 0, &counted), colForm, -1)
		if d.String() == "-3" {
			c.ok("(*RuleExpression).checkExprsIn|position of ${{", st.Pos(), "three characters before the expression text")
		} else {
			c.bad("(*RuleExpression).checkExprsIn|position of ${{", st.Pos(), "recorded at column(expression) "+d.String())
		}
	})
	// (4) the scalar's own line/col and quoted flag reach checkExprsIn together
	for _, caller := range []string{"checkString", "checkScriptString"} {
		cf := p.Method("RuleExpression", caller)
		if cf == nil {
			continue
		}
		for _, cc := range findCalls(cf, "(*RuleExpression).checkExprsIn") {
			a := cc.Common().Args
			f1, b1 := fieldLoad(a[1])
			f2, b2 := fieldLoad(a[2])
			f3, b3 := fieldLoad(a[3])
			cn := "(*RuleExpression)." + caller + "|text, position and quoting of one scalar"
			if f1 == "String.Value" && f2 == "String.Pos" && f3 == "String.Quoted" && b1 == b2 && b2 == b3 {
				c.ok(cn, cc.Pos(), "Value, Pos and Quoted of the same String")
			} else {
				c.bad(cn, cc.Pos(), fmt.Sprintf("arguments are %s, %s, %s", f1, f2, f3))
			}
		}
	}
}

// ---- C07.QUOTE ----

// isQuotedCond: the value is String.Quoted of a scalar, or a bool parameter that receives it from a caller (whatever the
// parameter is called).
func isQuotedCond(v ssa.Value) bool {
	return isQuotedCondDepth(v, 0)
}

func isQuotedCondDepth(v ssa.Value, depth int) bool {
	if depth > 3 {
		return false
	}
	if prm, ok := v.(*ssa.Parameter); ok {
		if b, ok := prm.Type().Underlying().(*types.Basic); !ok || b.Kind() != types.Bool {
			return false
		}
		fn := prm.Parent()
		idx := -1
		for i, q := range fn.Params {
			if q == prm {
				idx = i
			}
		}
		if idxProg == nil || idx < 0 {
			return strings.EqualFold(prm.Name(), "quoted")
		}
		for _, e := range idxProg.callersOf(fn) {
			if e.Site == nil || e.Site.Common().IsInvoke() || idx >= len(e.Site.Common().Args) {
				continue
			}
			if isQuotedCondDepth(e.Site.Common().Args[idx], depth+1) {
				return true
			}
		}
		return false
	}
	f, _ := fieldLoad(v)
	return f == "String.Quoted"
}

func runC07Quote(c *Ctx) {
	p := c.P
	defer c07GlobColumn(c)
	// (a) SSA form: the column handed to the expression machinery
	type site struct {
		fn   string
		sink string
		idx  int
	}
	for _, s := range []site{
		{"checkExprsIn", "(*RuleExpression).checkSemantics", 3},
		{"checkExprsIn", "(*RuleExpression).exprError", 3},                // when the helper that parses is merged into the scan
		{"checkExprsIn", "(*RuleExpression).checkSemanticsOfExprNode", 3}, // likewise
		{"checkIfCondition", "(*RuleExpression).exprError", 3},
		{"checkIfCondition", "(*RuleExpression).checkSemanticsOfExprNode", 3},
		{"checkIfCondition", "(*RuleExpression).checkSemantics", 3},
	} {
		fn := p.Method("RuleExpression", s.fn)
		if fn == nil {
			c.anchorMissing("(*RuleExpression)." + s.fn)
			continue
		}
		for i, call := range findCalls(fn, s.sink) {
			construct := fmt.Sprintf("(*RuleExpression).%s|column base of %s#%d", s.fn, s.sink, i+1)
			v := call.Common().Args[s.idx]
			// descend through additions to the phi selecting between Col and Col+1
			var phi *ssa.Phi
			seenPhi := map[*ssa.Phi]bool{}
			var find func(v ssa.Value, d int)
			find = func(v ssa.Value, d int) {
				if d > 8 || phi != nil {
					return
				}
				switch x := v.(type) {
				case *ssa.Phi:
					if seenPhi[x] {
						return
					}
					seenPhi[x] = true
					forms := map[string]bool{}
					for _, e := range x.Edges {
						forms[linOf(e, 0).String()] = true
					}
					hasCol := false
					for f := range forms {
						if strings.Contains(f, "Pos.Col(") {
							hasCol = true
						}
					}
					if hasCol && len(x.Edges) == 2 {
						phi = x
						return
					}
					// a column carried around the loop over the placeholders: its value at loop entry holds the base
					for _, e := range x.Edges {
						find(e, d+1)
					}
				case *ssa.BinOp:
					find(x.X, d+1)
					find(x.Y, d+1)
				}
			}
			find(v, 0)
			if phi == nil {
				c.bad(construct, call.Pos(), "the column is taken from the scalar's position without the adjustment for an opening quote: "+linOf(v, 0).String())
				continue
			}
			f0, f1 := linOf(phi.Edges[0], 0), linOf(phi.Edges[1], 0)
			d := linAdd(f1, f0, -1).String()
			plusEdge := -1
			switch d {
			case "+1":
				plusEdge = 1
			case "-1":
				plusEdge = 0
			}
			if plusEdge < 0 {
				c.bad(construct, call.Pos(), "the two column bases differ by "+d+" instead of one character")
				continue
			}
			// the +1 edge is taken iff quoted
			okCond := false
			pred := phi.Block().Preds[plusEdge]
			for ifi, outcome := range controllingConds(pred) {
				if isQuotedCond(ifi.Cond) && outcome {
					okCond = true
				}
			}
			inLoop := blockInCycle(phi.Block())
			switch {
			case !okCond:
				c.bad(construct, call.Pos(), "the extra column is not added exactly when the scalar is quoted")
			case inLoop:
				c.bad(construct, call.Pos(), "the quote adjustment is inside the loop over placeholders: it is added once per placeholder")
			default:
				c.ok(construct, call.Pos(), "base = Pos.Col, plus one iff the scalar is quoted, decided once")
			}
		}
	}
	// (b) memory form: globErrors adjusts a copy of the position
	// the function of rule_glob.go that adjusts the column of a position: globErrors itself, or a helper it calls
	var gfn *ssa.Function
	for _, f := range p.Funcs {
		if !strings.HasSuffix(p.unitFile(f), "/rule_glob.go") {
			continue
		}
		eachInstr(f, func(_ *ssa.BasicBlock, _ int, in ssa.Instruction) {
			if st, ok := in.(*ssa.Store); ok {
				if fa, ok := st.Addr.(*ssa.FieldAddr); ok && fieldAddrName(fa) == "Pos.Col" {
					gfn = f
				}
			}
		})
	}
	if gfn == nil {
		c.anchorMissing("a function of rule_glob.go that adjusts Pos.Col")
		return
	}
	// a parameter that receives InvalidGlobPattern.Column from every caller stands for it
	columnParam := func(sym string) bool {
		for i, q := range gfn.Params {
			if symName(q) != sym {
				continue
			}
			callers := p.callersOf(gfn)
			if len(callers) == 0 {
				return false
			}
			for _, e := range callers {
				if e.Site == nil || e.Site.Common().IsInvoke() || i >= len(e.Site.Common().Args) {
					return false
				}
				if f, _ := fieldLoad(e.Site.Common().Args[i]); f != "InvalidGlobPattern.Column" {
					return false
				}
			}
			return true
		}
		return false
	}
	quoteOK, colOK := false, false
	why := "no adjustment for quoted scalars"
	eachInstr(gfn, func(b *ssa.BasicBlock, _ int, in ssa.Instruction) {
		st, ok := in.(*ssa.Store)
		if !ok {
			return
		}
		fa, ok := st.Addr.(*ssa.FieldAddr)
		if !ok || fieldAddrName(fa) != "Pos.Col" {
			return
		}
		lf := linOf(st.Val, 0)
		self := ""
		for k := range lf {
			if strings.HasPrefix(k, "Pos.Col(") {
				self = k
			}
		}
		if self == "" || lf[self] != 1 {
			why = "the column is overwritten instead of advanced: " + lf.String()
			return
		}
		rest := linWithout(lf, self)
		conds := controllingConds(b)
		if rest.String() == "+1" {
			for ifi, outcome := range conds {
				if isQuotedCond(ifi.Cond) && outcome {
					quoteOK = true
				}
			}
			return
		}
		// + err.Column - 1
		if linConst(rest) == -1 && len(rest) == 2 {
			for k := range rest {
				if strings.HasPrefix(k, "InvalidGlobPattern.Column(") || (k != "1" && columnParam(k)) {
					colOK = true
				}
			}
		}
	})
	if quoteOK {
		c.ok("(*RuleGlob).globErrors|quote adjustment", gfn.Pos(), "column + 1 iff quoted")
	} else {
		c.bad("(*RuleGlob).globErrors|quote adjustment", gfn.Pos(), why)
	}
	if colOK {
		c.ok("(*RuleGlob).globErrors|in-pattern column", gfn.Pos(), "column + (1-based column in the pattern) - 1")
	} else {
		c.bad("(*RuleGlob).globErrors|in-pattern column", gfn.Pos(), "the column of the offending character is not added as Column - 1")
	}
	// the copy: the caller's position object is not modified
	copied := false
	eachInstr(gfn, func(_ *ssa.BasicBlock, _ int, in ssa.Instruction) {
		if st, ok := in.(*ssa.Store); ok {
			if al, ok := st.Addr.(*ssa.Alloc); ok && typeStr(al.Type()) == "*Pos" {
				if ld, ok := st.Val.(*ssa.UnOp); ok {
					if prm, isParam := ld.X.(*ssa.Parameter); isParam && typeStr(prm.Type()) == "*Pos" {
						copied = true
					}
					// the position read from the scalar itself (`p := *v.Pos`)
					if f, _ := fieldLoad(ld.X); f == "String.Pos" {
						copied = true
					}
				}
			}
		}
	})
	if copied {
		c.ok("(*RuleGlob).globErrors|position copied", gfn.Pos(), "the adjustment is applied to a copy made per error")
	} else {
		c.bad("(*RuleGlob).globErrors|position copied", gfn.Pos(), "the scalar's own position object is adjusted: later errors of the same scalar accumulate the shifts")
	}
}

// ---- C07.FIELDS ----

func posFieldClass(name string) string {
	n := strings.ToLower(name[strings.LastIndex(name, ".")+1:])
	switch {
	case n == "line":
		return "line"
	case n == "col" || n == "column":
		return "col"
	case n == "offset":
		return "offset"
	}
	return ""
}

func runC07Fields(c *Ctx) {
	p := c.P
	occ := map[string]int{}
	for _, fn := range p.Funcs {
		eachInstr(fn, func(_ *ssa.BasicBlock, _ int, in ssa.Instruction) {
			st, ok := in.(*ssa.Store)
			if !ok {
				return
			}
			fa, ok := st.Addr.(*ssa.FieldAddr)
			if !ok {
				return
			}
			dst := fieldAddrName(fa)
			dc := posFieldClass(dst)
			if dc == "" {
				return
			}
			if b, ok := st.Val.Type().Underlying().(*types.Basic); !ok || b.Info()&types.IsInteger == 0 {
				return
			}
			// source classes among the symbols of the stored value
			lf := linOf(st.Val, 0)
			var srcs []string
			classes := map[string]bool{}
			for k, v := range lf {
				if v == 0 || k == "1" {
					continue
				}
				name := k
				if i := strings.Index(name, "("); i >= 0 {
					name = name[:i]
				}
				cl := posFieldClass(name)
				if cl == "" {
					// parameters / locals named line, col...
					low := strings.ToLower(name)
					switch {
					case strings.Contains(low, "line"):
						cl = "line"
					case strings.Contains(low, "col"):
						cl = "col"
					case strings.Contains(low, "offset"):
						cl = "offset"
					}
				}
				if cl != "" {
					classes[cl] = true
					srcs = append(srcs, name)
				}
			}
			if len(classes) == 0 {
				return
			}
			k := FuncName(fn) + "|" + dst
			occ[k]++
			construct := fmt.Sprintf("%s#%d", k, occ[k])
			sort.Strings(srcs)
			if len(classes) == 1 && classes[dc] {
				c.ok(construct, st.Pos(), dst+" <- "+strings.Join(srcs, ", "))
			} else if dc == "col" && classes["col"] && classes["offset"] && len(classes) == 2 {
				// a column advanced by a byte offset within the same line
				c.ok(construct, st.Pos(), dst+" <- "+strings.Join(srcs, ", "))
			} else {
				c.bad(construct, st.Pos(), dst+" is computed from "+strings.Join(srcs, ", ")+": line/column/offset are mixed up")
			}
		})
	}
}

// ---- C07.ARGS ----

func runC07Args(c *Ctx) {
	p := c.P
	info := p.info()
	occ := map[string]int{}
	classOf := func(name string) string {
		low := strings.ToLower(name)
		switch {
		case strings.Contains(low, "line"):
			return "line"
		case strings.Contains(low, "col"):
			return "col"
		}
		return ""
	}
	for _, file := range p.Main.Syntax {
		if strings.HasSuffix(p.Pos(file.Pos()), "_test.go") {
			continue
		}
		var encl string
		ast.Inspect(file, func(n ast.Node) bool {
			if fd, ok := n.(*ast.FuncDecl); ok {
				encl = DeclName(info, fd)
			}
			call, ok := n.(*ast.CallExpr)
			if !ok {
				return true
			}
			f := calleeObj(info, call)
			if f == nil || f.Pkg() == nil || f.Pkg().Path() != modPath {
				return true
			}
			sig := f.Type().(*types.Signature)
			for i := 0; i < sig.Params().Len() && i < len(call.Args); i++ {
				prm := sig.Params().At(i)
				pc := classOf(prm.Name())
				if pc == "" {
					continue
				}
				if b, ok := prm.Type().Underlying().(*types.Basic); !ok || b.Info()&types.IsInteger == 0 {
					continue
				}
				names := map[string]bool{}
				ast.Inspect(call.Args[i], func(m ast.Node) bool {
					switch x := m.(type) {
					case *ast.SelectorExpr:
						if cl := classOf(x.Sel.Name); cl != "" {
							names[cl] = true
						}
						return false
					case *ast.Ident:
						if cl := classOf(x.Name); cl != "" {
							names[cl] = true
						}
					}
					return true
				})
				if len(names) == 0 {
					continue
				}
				k := encl + "|" + shortFuncName(f) + "(" + prm.Name() + ")"
				occ[k]++
				construct := fmt.Sprintf("%s#%d", k, occ[k])
				if names[pc] && len(names) == 1 {
					c.ok(construct, call.Args[i].Pos(), "argument "+exprStr(call.Args[i])+" for parameter "+prm.Name())
				} else {
					c.bad(construct, call.Args[i].Pos(), "argument "+exprStr(call.Args[i])+" is passed for parameter "+prm.Name()+": line and column are swapped or mixed")
				}
			}
			return true
		})
	}
}

// ---- C07.TOKEN ----

func runC07Token(c *Ctx) {
	p := c.P
	iface := p.Named("ExprNode")
	if iface == nil {
		c.anchorMissing("type ExprNode")
		return
	}
	ownTok := map[string]bool{} // "Type.tok" fields returned by Token()
	defer func() { c07TokenOrigins(c, ownTok) }()
	for _, fn := range p.Funcs {
		if fn.Name() != "Token" || fn.Signature.Recv() == nil || fn.Parent() != nil || fn.Synthetic != "" {
			continue
		}
		recv := namedOf(fn.Signature.Recv().Type())
		if recv == nil {
			continue
		}
		st, ok := recv.Underlying().(*types.Struct)
		if !ok {
			continue
		}
		construct := "(" + recv.Obj().Name() + ").Token|position of the node"
		// first field of interface type ExprNode = leftmost operand
		first := ""
		for i := 0; i < st.NumFields(); i++ {
			if typeStr(st.Field(i).Type()) == "ExprNode" {
				first = st.Field(i).Name()
				break
			}
		}
		var ret ssa.Value
		for _, b := range fn.Blocks {
			if r, ok := b.Instrs[len(b.Instrs)-1].(*ssa.Return); ok {
				ret = r.Results[0]
			}
		}
		if f, _ := fieldLoad(ret); f != "" && strings.HasSuffix(f, ".tok") {
			c.ok(construct, fn.Pos(), "its own first token")
			ownTok[f] = true
			continue
		}
		if call, ok := ret.(*ssa.Call); ok && call.Call.IsInvoke() && call.Call.Method.Name() == "Token" {
			f, _ := fieldLoad(call.Call.Value)
			if first != "" && strings.HasSuffix(f, "."+first) {
				c.ok(construct, fn.Pos(), "the token of its leftmost operand "+first)
				continue
			}
			c.bad(construct, fn.Pos(), "the node is positioned at "+f+" instead of its leftmost operand "+first+": diagnostics point into the middle of the expression")
			continue
		}
		c.bad(construct, fn.Pos(), "Token() is neither the node's own token nor its leftmost operand's")
	}
}

// ---- C07.ERRTOK ----

func runC07ErrTok(c *Ctx) {
	p := c.P
	next := p.Method("ExprParser", "next")
	if next == nil {
		c.anchorMissing("(*ExprParser).next")
		return
	}
	errFns := map[string]bool{"(*ExprParser).error": true, "(*ExprParser).errorf": true, "(*ExprParser).unexpected": true}
	occ := map[string]int{}
	for _, fn := range p.Funcs {
		if fn.Signature.Recv() == nil || typeStr(fn.Signature.Recv().Type()) != "*ExprParser" || errFns[FuncName(fn)] {
			continue
		}
		var nexts, errs, parses []ssa.CallInstruction
		eachInstr(fn, func(_ *ssa.BasicBlock, _ int, in ssa.Instruction) {
			call, ok := in.(ssa.CallInstruction)
			if !ok {
				return
			}
			f := staticCallee(call.Common())
			if f == nil {
				return
			}
			switch {
			case f == next:
				nexts = append(nexts, call)
			case errFns[FuncName(f)]:
				errs = append(errs, call)
			case f.Signature.Recv() != nil && strings.HasPrefix(f.Name(), "parse"):
				parses = append(parses, call)
			}
		})
		// stores to p.cur other than in next()
		if fn != next {
			eachInstr(fn, func(_ *ssa.BasicBlock, _ int, in ssa.Instruction) {
				if st, ok := in.(*ssa.Store); ok {
					if fa, ok := st.Addr.(*ssa.FieldAddr); ok && fieldAddrName(fa) == "ExprParser.cur" && fn.Name() != "Parse" {
						c.bad(FuncName(fn)+"|look-ahead written", st.Pos(), "the look-ahead token is replaced outside next()/Parse")
					}
				}
			})
		}
		for _, e := range errs {
			k := FuncName(fn) + "|error at the offending token"
			occ[k]++
			construct := fmt.Sprintf("%s#%d", k, occ[k])
			// a next() after the last sub-parse (or entry) and before the error moves the position away from the offending token,
			// unless a look-ahead test lies in between (the error is then about the new look-ahead)
			bad := ""
			for _, n := range nexts {
				if !instrReachableAfter(n, e) {
					continue
				}
				// is there a Kind test between n and e on every path? approximate: the error's block is controlled by a
				// condition on a Token.Kind loaded after n
				tested := false
				for ifi := range controllingConds(e.Block()) {
					usesKind := false
					var walk func(v ssa.Value, d int)
					walk = func(v ssa.Value, d int) {
						if d > 4 {
							return
						}
						if f, base := fieldLoad(v); f == "Token.Kind" {
							if bc, ok := base.(ssa.Instruction); ok && (instrReachableAfter(n, bc) || dom(n, bc)) {
								usesKind = true
							}
							return
						}
						if bo, ok := v.(*ssa.BinOp); ok {
							walk(bo.X, d+1)
							walk(bo.Y, d+1)
						}
					}
					walk(ifi.Cond, 0)
					if usesKind && (dom(n, ifi) || instrReachableAfter(n, ifi)) {
						tested = true
					}
				}
				if !tested {
					bad = "next() at " + p.Pos(n.Pos()) + " moves the look-ahead before the error is recorded without a new look-ahead test"
				}
			}
			if fn.Name() == "Parse" {
				// the left-over error: no consumption at all between the root parse and the error
				for _, pc := range parses {
					for _, n := range nexts {
						if instrReachableAfter(pc, n) && instrReachableAfter(n, e) {
							bad = "tokens are consumed through the parser between the end of the expression and the left-over error: it is positioned at the end marker instead of the first left-over token"
						}
					}
				}
			}
			if bad == "" {
				c.ok(construct, e.Pos(), "recorded while the offending token is the look-ahead")
			} else {
				c.bad(construct, e.Pos(), bad)
			}
		}
	}
	// error() positions at p.cur
	ef := p.Method("ExprParser", "error")
	if ef != nil {
		okCur := false
		for _, call := range findCalls(ef, "errorAtToken") {
			if f, _ := fieldLoad(call.Common().Args[0]); f == "ExprParser.cur" {
				okCur = true
			}
		}
		if okCur {
			c.ok("(*ExprParser).error|position", ef.Pos(), "errorAtToken(p.cur)")
		} else {
			c.bad("(*ExprParser).error|position", ef.Pos(), "syntax errors are not positioned at the look-ahead token")
		}
	}
}

// ---- C07.LEXPOS ----

// wholeValueLocal: the local al is only ever written as a whole and its address is not handed out: every use is a store of
// a whole value into it, a load of the whole value, or a load of one of its fields. The whole-value stores are returned. A
// local of which a single field is bumped afterwards (p.Column++) or whose address reaches a call is not of this form.
func wholeValueLocal(al *ssa.Alloc) ([]*ssa.Store, bool) {
	var stores []*ssa.Store
	for _, ref := range *al.Referrers() {
		switch r := ref.(type) {
		case *ssa.DebugRef:
		case *ssa.Store:
			if r.Addr != ssa.Value(al) {
				return nil, false // the address is stored somewhere
			}
			stores = append(stores, r)
		case *ssa.UnOp:
			if r.Op != token.MUL {
				return nil, false
			}
		case *ssa.FieldAddr:
			for _, r2 := range *r.Referrers() {
				if _, dbg := r2.(*ssa.DebugRef); dbg {
					continue
				}
				if ld, ok := r2.(*ssa.UnOp); !ok || ld.Op != token.MUL {
					return nil, false
				}
			}
		default:
			return nil, false
		}
	}
	return stores, true
}

// onWayBetween: some instruction satisfying pred can execute after a and before b, on a path that does not pass a again.
func onWayBetween(a, b ssa.Instruction, pred func(ssa.Instruction) bool) bool {
	type at struct {
		b *ssa.BasicBlock
		i int
	}
	seen := map[*ssa.BasicBlock]bool{}
	work := []at{{a.Block(), instrIndex(a) + 1}}
	for len(work) > 0 {
		w := work[len(work)-1]
		work = work[:len(work)-1]
		stopped := false
		for _, in := range w.b.Instrs[w.i:] {
			if in == b || in == a {
				stopped = true
				break
			}
			if pred(in) {
				// only counts when b is still ahead
				if instrReachableAfter(in, b) {
					return true
				}
			}
		}
		if stopped {
			continue
		}
		for _, s := range w.b.Succs {
			if !seen[s] {
				seen[s] = true
				work = append(work, at{s, 0})
			}
		}
	}
	return false
}

// lexStartUse: how one function uses the field ExprLexer.start.
type lexStartUse struct {
	whole   []*ssa.Store      // lex.start = v
	partial []ssa.Instruction // lex.start.Column++ and the like, or the address of the start (or of one of its fields) handed out
	initial map[string]int64  // fields of the start of a lexer that is being built, set to constants (ExprLexer{start: Position{...}})
	initPos token.Pos
}

func lexStartUses(fn *ssa.Function) lexStartUse {
	var u lexStartUse
	eachInstr(fn, func(_ *ssa.BasicBlock, _ int, in ssa.Instruction) {
		fa, ok := in.(*ssa.FieldAddr)
		if !ok || fieldAddrName(fa) != "ExprLexer.start" {
			return
		}
		for _, ref := range *fa.Referrers() {
			switch r := ref.(type) {
			case *ssa.DebugRef:
			case *ssa.Store:
				if r.Addr == ssa.Value(fa) {
					u.whole = append(u.whole, r)
				} else {
					u.partial = append(u.partial, r)
				}
			case *ssa.UnOp:
				if r.Op != token.MUL {
					u.partial = append(u.partial, r)
				}
			case *ssa.FieldAddr:
				for _, r2 := range *r.Referrers() {
					if _, dbg := r2.(*ssa.DebugRef); dbg {
						continue
					}
					if ld, ok := r2.(*ssa.UnOp); ok && ld.Op == token.MUL {
						continue
					}
					if st, ok := r2.(*ssa.Store); ok && st.Addr == ssa.Value(r) {
						if _, fresh := fa.X.(*ssa.Alloc); fresh {
							if k, isConst := constInt(st.Val); isConst {
								if _, twice := u.initial[fieldAddrName(r)]; !twice {
									if u.initial == nil {
										u.initial = map[string]int64{}
									}
									u.initial[fieldAddrName(r)] = k
									u.initPos = st.Pos()
									continue
								}
							}
						}
					}
					u.partial = append(u.partial, r2)
				}
			default:
				u.partial = append(u.partial, ref)
			}
		}
	})
	return u
}

func runC07LexPos(c *Ctx) {
	p := c.P
	// advances: the instruction may move the scanner (any call that is given the lexer or its scanner, except Pos and Peek)
	advances := func(in ssa.Instruction) bool {
		call, ok := in.(ssa.CallInstruction)
		if !ok {
			return false
		}
		switch calleeFullName(call.Common()) {
		case "(*text/scanner.Scanner).Pos", "(*text/scanner.Scanner).Peek":
			return false
		}
		for _, a := range call.Common().Args {
			if fa, ok := a.(*ssa.FieldAddr); ok && fieldAddrName(fa) == "ExprLexer.scan" {
				return true
			}
			if pr, ok := a.(*ssa.Parameter); ok && strings.HasSuffix(typeStr(pr.Type()), "ExprLexer") {
				return true
			}
		}
		return false
	}
	// scanPosAt: v, stored by at, is the position the scanner has at that moment: the result of Scanner.Pos, directly or
	// through a local that holds nothing else and is not changed field by field, with no scanner movement in between.
	var scanPosAt func(v ssa.Value, at ssa.Instruction, depth int) bool
	scanPosAt = func(v ssa.Value, at ssa.Instruction, depth int) bool {
		if depth > 4 {
			return false
		}
		if ld, ok := v.(*ssa.UnOp); ok && ld.Op == token.MUL {
			al, ok := ld.X.(*ssa.Alloc)
			if !ok {
				return false
			}
			stores, ok := wholeValueLocal(al)
			if !ok || len(stores) == 0 {
				return false
			}
			for _, st := range stores {
				if !scanPosAt(st.Val, at, depth+1) {
					return false
				}
			}
			return true
		}
		call, ok := v.(*ssa.Call)
		if !ok || calleeFullName(&call.Call) != "(*text/scanner.Scanner).Pos" {
			return false
		}
		return !onWayBetween(call, at, advances)
	}
	// writers of lex.start
	writers := map[string]bool{}
	uses := map[*ssa.Function]lexStartUse{}
	firstSet := false
	for _, fn := range p.Funcs {
		u := lexStartUses(fn)
		uses[fn] = u
		construct := FuncName(fn) + "|start of the next token"
		for _, st := range u.whole {
			writers[FuncName(fn)] = true
			if scanPosAt(st.Val, st, 0) {
				c.ok(construct, st.Pos(), "set to the scanner's position")
			} else {
				c.bad(construct, st.Pos(), "the start of the next token is not the scanner's current position")
			}
		}
		for _, st := range u.whole {
			if _, fresh := st.Addr.(*ssa.FieldAddr).X.(*ssa.Alloc); fresh {
				firstSet = true
			}
		}
		if u.initial != nil {
			firstSet = true
			writers[FuncName(fn)] = true
			// the scanner of a new lexer is at offset 0, line 1, column 1 (text/scanner.Scanner.Init)
			if len(u.initial) == 3 && u.initial["scanner.Position.Offset"] == 0 && u.initial["scanner.Position.Line"] == 1 && u.initial["scanner.Position.Column"] == 1 {
				c.ok(FuncName(fn)+"|start of the first token", u.initPos, "offset 0, line 1, column 1: where a fresh scanner is")
			} else {
				c.bad(FuncName(fn)+"|start of the first token", u.initPos, fmt.Sprintf("a new lexer does not start at offset 0, line 1, column 1 (%v)", u.initial))
			}
		}
		for _, in := range u.partial {
			writers[FuncName(fn)] = true
			c.bad(construct, in.Pos(), "one field of the recorded start is changed on its own (or its address is handed out): the start of the next token is no longer a position the scanner was at")
		}
	}
	if !firstSet {
		c.bad("ExprLexer.start|start of the first token", token.NoPos, "no function that builds a lexer sets the start: the first token is at line 0, column 0")
	}
	// skipWhite: after each consumed white space the start is moved
	if sw := p.Method("ExprLexer", "skipWhite"); sw == nil {
		c.anchorMissing("(*ExprLexer).skipWhite")
	} else {
		okAll, n := true, 0
		eachInstr(sw, func(b *ssa.BasicBlock, i int, in ssa.Instruction) {
			call, ok := in.(*ssa.Call)
			if !ok || calleeFullName(&call.Call) != "(*text/scanner.Scanner).Next" {
				return
			}
			n++
			followed := false
			for _, in2 := range b.Instrs[i+1:] {
				if st, ok := in2.(*ssa.Store); ok {
					if fa, ok := st.Addr.(*ssa.FieldAddr); ok && fieldAddrName(fa) == "ExprLexer.start" && scanPosAt(st.Val, st, 0) {
						followed = true
					}
				}
			}
			if !followed {
				okAll = false
			}
		})
		if n > 0 && okAll {
			c.ok("(*ExprLexer).skipWhite|start after white space", sw.Pos(), "every skipped character moves the start")
		} else {
			c.bad("(*ExprLexer).skipWhite|start after white space", sw.Pos(), "white space before a token is counted as part of it: its column is too small")
		}
	}
	// token(): the token's position is the start as recorded when token() is entered; only then start := current position
	if tf := p.Method("ExprLexer", "token"); tf == nil {
		c.anchorMissing("(*ExprLexer).token")
	} else {
		u := uses[tf]
		// recordedStart: the address holds the start of this token: lex.start itself, or a local copy of it, read before
		// anything in this function writes the start
		beforeWrites := func(ld ssa.Instruction) bool {
			for _, w := range u.whole {
				if instrReachableAfter(w, ld) {
					return false
				}
			}
			for _, w := range u.partial {
				if instrReachableAfter(w, ld) {
					return false
				}
			}
			return true
		}
		isStartAddr := func(v ssa.Value) bool {
			fa, ok := v.(*ssa.FieldAddr)
			if !ok || fieldAddrName(fa) != "ExprLexer.start" {
				return false
			}
			_, recv := fa.X.(*ssa.Parameter)
			return recv
		}
		recordedStart := func(addr ssa.Value, ld ssa.Instruction) string {
			if isStartAddr(addr) {
				if !beforeWrites(ld) {
					return "read after the start was moved to the end of the token"
				}
				return ""
			}
			al, ok := addr.(*ssa.Alloc)
			if !ok {
				return "not the recorded start of the token"
			}
			stores, ok := wholeValueLocal(al)
			if !ok || len(stores) == 0 {
				return "taken from a local position that is changed field by field"
			}
			for _, st := range stores {
				cp, ok := st.Val.(*ssa.UnOp)
				if !ok || cp.Op != token.MUL || !isStartAddr(cp.X) {
					return "taken from " + symName(st.Val) + ", which is not the recorded start of the token"
				}
				if !beforeWrites(cp) {
					return "the copy of the start is taken after the start was moved to the end of the token"
				}
			}
			return ""
		}
		want := map[string]string{"Token.Line": "scanner.Position.Line", "Token.Column": "scanner.Position.Column", "Token.Offset": "scanner.Position.Offset"}
		seen := map[string]int{}
		why := ""
		eachInstr(tf, func(_ *ssa.BasicBlock, _ int, in ssa.Instruction) {
			st, ok := in.(*ssa.Store)
			if !ok {
				return
			}
			fa, ok := st.Addr.(*ssa.FieldAddr)
			if !ok {
				return
			}
			tokField := fieldAddrName(fa)
			posField, ok := want[tokField]
			if !ok {
				return
			}
			seen[tokField]++
			ld, ok := st.Val.(*ssa.UnOp)
			if !ok || ld.Op != token.MUL {
				why = tokField + " is " + symName(st.Val) + ", not a field of the recorded start"
				return
			}
			src, ok := ld.X.(*ssa.FieldAddr)
			if !ok || fieldAddrName(src) != posField {
				why = tokField + " is " + symName(st.Val) + ", not " + posField + " of the recorded start"
				return
			}
			if w := recordedStart(src.X, ld); w != "" {
				why = tokField + ": " + w
			}
		})
		for _, f := range sortedKeys(want) {
			if seen[f] != 1 && why == "" {
				why = fmt.Sprintf("%s is set %d times", f, seen[f])
			}
		}
		if why == "" {
			c.ok("(*ExprLexer).token|position of the token", tf.Pos(), "Offset/Line/Column of the start recorded before it is moved")
		} else {
			c.bad("(*ExprLexer).token|position of the token", tf.Pos(), "the token's position is not the recorded start position: "+why)
		}
	}
	ws := sortedKeys(writers)
	allowed := map[string]bool{"(*ExprLexer).token": true, "(*ExprLexer).skipWhite": true, "NewExprLexer": true}
	okW := true
	for _, w := range ws {
		if !allowed[w] {
			okW = false
		}
	}
	if okW {
		c.ok("ExprLexer.start|writers", token.NoPos, strings.Join(ws, ", "))
	} else {
		c.bad("ExprLexer.start|writers", token.NoPos, "also written by "+strings.Join(ws, ", "))
	}
}

// ---- C07.ORIGIN ----

// posLeaves: the values a position component is computed from, through +, - and conversions.
func posLeaves(v ssa.Value, depth int, out *[]ssa.Value) {
	if depth < 12 {
		switch x := v.(type) {
		case *ssa.BinOp:
			if x.Op == token.ADD || x.Op == token.SUB {
				posLeaves(x.X, depth+1, out)
				posLeaves(x.Y, depth+1, out)
				return
			}
		case *ssa.Convert:
			posLeaves(x.X, depth+1, out)
			return
		case *ssa.ChangeType:
			posLeaves(x.X, depth+1, out)
			return
		}
	}
	*out = append(*out, v)
}

// posComponentSource: v is a line (col=false) or column (col=true) of the workflow source: that component of another
// position object or of a YAML node, or an integer parameter (what callers pass for it is the business of C07.ARGS). A
// column inside a pattern or inside an expression (InvalidGlobPattern.Column, Token.Column) is an offset, not a source.
func posComponentSource(v ssa.Value, col bool, self *ssa.Alloc) bool {
	if pr, ok := v.(*ssa.Parameter); ok {
		b, ok := pr.Type().Underlying().(*types.Basic)
		return ok && b.Info()&types.IsInteger != 0
	}
	f, base := fieldLoad(v)
	if f == "" || base == ssa.Value(self) {
		return false
	}
	if col {
		return f == "Pos.Col" || f == "yaml.Node.Column"
	}
	return f == "Pos.Line" || f == "yaml.Node.Line"
}

// wholePosSource: v (stored into self as a whole) is another position: *q for a position pointer q that is not self, the
// Pos result of a call, or a Pos kept in a field.
func wholePosSource(v ssa.Value, self *ssa.Alloc) bool {
	switch x := v.(type) {
	case *ssa.UnOp:
		return x.Op == token.MUL && x.X != ssa.Value(self)
	case *ssa.Call, *ssa.Field, *ssa.Extract, *ssa.Phi, *ssa.Parameter:
		return true
	}
	return false
}

func runC07Origin(c *Ctx) {
	p := c.P
	occ := map[string]int{}
	for _, fn := range p.Funcs {
		eachInstr(fn, func(_ *ssa.BasicBlock, _ int, in ssa.Instruction) {
			al, ok := in.(*ssa.Alloc)
			if !ok || typeStr(al.Type()) != "*Pos" {
				return
			}
			k := FuncName(fn) + "|Pos object"
			occ[k]++
			construct := fmt.Sprintf("%s#%d", k, occ[k])
			// A component is established by a store that takes it from the source (the whole object copied from another
			// position, or the field set from a source line/column without reading the object itself). Every other use
			// of the component - a read, an adjustment such as p.Col++, the object handed to a call - has to come after
			// an establishing store on every path from the creation of the object: else it sees (or adjusts) the zero
			// value the object was created with.
			type compState struct {
				est   map[ssa.Instruction]bool
				uses  []ssa.Instruction
				form  string
				wrote bool
			}
			comps := map[bool]*compState{false: {est: map[ssa.Instruction]bool{}}, true: {est: map[ssa.Instruction]bool{}}}
			copyOf := ""
			for _, ref := range *al.Referrers() {
				switch r := ref.(type) {
				case *ssa.DebugRef:
				case *ssa.Store:
					if r.Addr == ssa.Value(al) {
						for _, cs := range comps {
							cs.wrote = true
							if wholePosSource(r.Val, al) {
								cs.est[r] = true
							} else {
								cs.uses = append(cs.uses, r)
							}
						}
						if wholePosSource(r.Val, al) && copyOf == "" {
							copyOf = symName(r.Val)
							if ld, isLoad := r.Val.(*ssa.UnOp); isLoad {
								copyOf = "*" + symName(ld.X)
							}
						}
						continue
					}
					for _, cs := range comps {
						cs.uses = append(cs.uses, r) // the address is stored somewhere
					}
				case *ssa.FieldAddr:
					name := fieldAddrName(r)
					if name != "Pos.Line" && name != "Pos.Col" {
						continue
					}
					cs := comps[name == "Pos.Col"]
					for _, r2 := range *r.Referrers() {
						if _, dbg := r2.(*ssa.DebugRef); dbg {
							continue
						}
						st, isStore := r2.(*ssa.Store)
						if !isStore || st.Addr != ssa.Value(r) {
							cs.uses = append(cs.uses, r2)
							continue
						}
						cs.wrote = true
						var leaves []ssa.Value
						posLeaves(st.Val, 0, &leaves)
						sourced, clean := false, true
						for _, l := range leaves {
							if _, isConst := l.(*ssa.Const); isConst {
								continue
							}
							if posComponentSource(l, name == "Pos.Col", al) {
								sourced = true
							} else if _, base := fieldLoad(l); base == ssa.Value(al) {
								clean = false // reads the object itself
							}
						}
						if sourced && clean {
							cs.est[st] = true
							if cs.form == "" {
								cs.form = linOf(st.Val, 0).String()
							}
						} else {
							cs.uses = append(cs.uses, st)
						}
					}
				default:
					for _, cs := range comps {
						cs.uses = append(cs.uses, ref)
					}
				}
			}
			// unestablished: a use of the component that can be reached from the creation of the object without passing
			// an establishing store
			unestablished := func(cs *compState) ssa.Instruction {
				isUse := map[ssa.Instruction]bool{}
				for _, u := range cs.uses {
					isUse[u] = true
				}
				type at struct {
					b *ssa.BasicBlock
					i int
				}
				seen := map[*ssa.BasicBlock]bool{}
				work := []at{{al.Block(), instrIndex(al) + 1}}
				for len(work) > 0 {
					w := work[len(work)-1]
					work = work[:len(work)-1]
					stopped := false
					for _, in := range w.b.Instrs[w.i:] {
						if cs.est[in] || in == ssa.Instruction(al) {
							stopped = true
							break
						}
						if isUse[in] {
							return in
						}
					}
					if stopped {
						continue
					}
					for _, s := range w.b.Succs {
						if !seen[s] {
							seen[s] = true
							work = append(work, at{s, 0})
						}
					}
				}
				return nil
			}
			lineU, colU := unestablished(comps[false]), unestablished(comps[true])
			describe := func(u ssa.Instruction) string {
				return fmt.Sprintf("used in line %d on a path where it was not yet taken from a source position", p.Fset.Position(u.Pos()).Line)
			}
			switch {
			case !comps[false].wrote && !comps[true].wrote:
				// zero value used as a variable (filled elsewhere) - look for it being returned/used as is
				c.bad(construct, al.Pos(), "a zero position object is created: diagnostics at it have line 0, column 0")
			case lineU != nil && colU != nil:
				c.bad(construct, al.Pos(), "a position is created of which, on some path, neither line nor column comes from a source position: "+describe(lineU))
			case lineU != nil:
				c.bad(construct, al.Pos(), "a position is created whose line does not come from a source position (it is constant, missing, or computed from the object's own zero value): "+describe(lineU))
			case colU != nil:
				c.bad(construct, al.Pos(), "a position is created whose column does not come from a source position (it is constant, missing, or computed from the object's own zero value): "+describe(colU))
			case len(comps[false].est) == 0 || len(comps[true].est) == 0:
				// never used and never established: nothing reads it, but it is not a position either
				c.bad(construct, al.Pos(), "a position with a constant or missing component is created")
			case copyOf != "":
				c.ok(construct, al.Pos(), "copy of "+copyOf+", adjusted only after the copy")
			default:
				c.ok(construct, al.Pos(), "Line = "+comps[false].form+"; Col = "+comps[true].form)
			}
		})
	}
	// no diagnostic is emitted with a nil position
	for _, fn := range p.Funcs {
		eachInstr(fn, func(_ *ssa.BasicBlock, _ int, in ssa.Instruction) {
			call, ok := in.(ssa.CallInstruction)
			if !ok {
				return
			}
			f := staticCallee(call.Common())
			if f == nil || (FuncName(f) != "(*RuleBase).Errorf" && FuncName(f) != "(*RuleBase).Error") {
				return
			}
			if isNilConst(call.Common().Args[1]) {
				c.bad(FuncName(fn)+"|nil position", call.Pos(), "a diagnostic is emitted with a nil position")
			}
		})
	}
}

// suffixView: v is x[low:] - written as a slice expression, or as the part after the constant separator that strings.Cut
// found in x (x[idx+len(sep):], with idx the position where Cut found it, the same position strings.Index reports).
func suffixView(v ssa.Value) (x ssa.Value, low linForm, ok bool) {
	switch y := v.(type) {
	case *ssa.Slice:
		if y.High != nil {
			return nil, nil, false
		}
		if y.Low == nil {
			return y.X, linForm{}, true
		}
		return y.X, linOf(y.Low, 0), true
	case *ssa.Extract:
		if cut, isCall := y.Tuple.(*ssa.Call); isCall && y.Index == 1 && calleeFullName(&cut.Call) == "strings.Cut" {
			if sep, isConst := constString(cut.Call.Args[1]); isConst && sep != "" {
				return cut.Call.Args[0], linForm{cutIndexSym(cut): 1, "1": len(sep)}, true
			}
		}
	}
	return nil, nil, false
}

func cutIndexSym(cut *ssa.Call) string { return "strings.Index()#" + cut.Name() }
