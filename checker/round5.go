package main

// Rules added after the hunt round (violations looked for on the unmodified tree, see hunt/TRIAGE.md). Each rule is the
// structural necessary condition whose absence was the defect; on the repaired tree it is discharged, on a tree where the
// repair is undone it reports the construct again.

import (
	"fmt"
	"go/token"
	"go/types"
	"sort"
	"strings"

	"golang.org/x/tools/go/ssa"
)

func init() {
	register(&Rule{ID: "C04.BAREIF", Min: 1, Doc: "a text that gets the end marker }} appended before it is parsed is checked to have been consumed completely", Run: runC04BareIf})
	register(&Rule{ID: "C04.BOM", Min: 1, Doc: "the expression lexer rejects the byte order mark that text/scanner skips silently", Run: runC04Bom})
	register(&Rule{ID: "C09.CROSSFLAG", Min: 0, Doc: "no flag accumulated over all jobs gates the diagnostics reported afterwards", Run: runC09CrossFlag})
	register(&Rule{ID: "C08.EQ", Min: 3, Doc: "a lower-cased name is only compared for equality with another lower-case value", Run: runC08Eq})
	register(&Rule{ID: "C14.BOOLSYN", Min: 1, Doc: "the value of a YAML boolean is derived case-insensitively, as the YAML decoder derives it", Run: runC14BoolSyn})
	register(&Rule{ID: "C10.ATOMIC", Min: 2, Doc: "a cache miss is turned into a cache entry by a store that re-checks the key under the same lock", Run: runC10Atomic})
	register(&Rule{ID: "C10.LOGW", Min: 1, Doc: "the log writer shared by the per-file goroutines serialises its writes", Run: runC10LogW})
	register(&Rule{ID: "C11.OPERAND", Min: 1, Doc: "the untrusted-input matcher follows a property chain through every node kind that can yield an object", Run: runC11Operand})
	register(&Rule{ID: "C05.EVORDER", Min: 1, Doc: "the scope of the inputs context does not depend on the order in which events and inputs are written", Run: runC05EvOrder})
	register(&Rule{ID: "C07.ANCHOR", Min: 1, Doc: "the position of a scalar with an anchor or tag is the position of its text", Run: runC07Anchor})
	register(&Rule{ID: "C07.QUOTEARG", Min: 2, Doc: "every scan of a YAML scalar for placeholders is told whether the scalar is quoted", Run: runC07QuoteArg})
	register(&Rule{ID: "C01.DEVREAD", Min: 1, Doc: "a path built from workflow text is only read when it names a regular file", Run: runC01DevRead})
	register(&Rule{ID: "C01.EXTTIME", Min: 1, Doc: "patterns from the configuration file are bounded before they reach a matcher that is exponential in brace groups", Run: runC01ExtTime})
	register(&Rule{ID: "C15.ALIAS", Min: 1, Doc: "an ignore pattern is compiled from a node that was tested to be a scalar", Run: runC15Alias})
	register(&Rule{ID: "C13.BYPOS", Min: 1, Doc: "no entry of a parsed mapping is picked by its position", Run: runC13ByPos})
	register(&Rule{ID: "C12.UNRESOLVED", Min: 1, Doc: "the availability of a special function is also checked when no overload matches its arguments", Run: runC12Unresolved})
	register(&Rule{ID: "C19.CONTAINS", Min: 1, Doc: "the end marker of a placeholder is searched after its start marker", Run: runC19Contains})
	register(&Rule{ID: "C20.PLACEEND", Min: 1, Doc: "the end of a placeholder in a script is found by the expression lexer", Run: runC20PlaceEnd})
	register(&Rule{ID: "C16.LINES", Min: 1, Doc: "the snippet line is found with the line breaks the YAML parser counts", Run: runC16Lines})
	register(&Rule{ID: "C16.COLUNIT", Min: 2, Doc: "the snippet renderer converts the character column to a byte offset before slicing the line", Run: runC16ColUnit})
}

// ---- C04.BAREIF ----

// A bare `if:` condition is parsed as <text> + "}}". The lexer stops at the first }}; if that is not the appended one the
// rest of the condition was never looked at. Necessary condition: after Parse, the lexer's offset is compared with the
// length of the text that was lexed and the shortfall is reported.
func runC04BareIf(c *Ctx) {
	p := c.P
	n := 0
	for _, fn := range p.Funcs {
		eachInstr(fn, func(_ *ssa.BasicBlock, _ int, in ssa.Instruction) {
			bo, ok := in.(*ssa.BinOp)
			if !ok || bo.Op != token.ADD {
				return
			}
			if s, ok := constString(bo.Y); !ok || s != "}}" {
				return
			}
			// the sum is handed to NewExprLexer
			var lexer *ssa.Call
			for _, ref := range *bo.Referrers() {
				if call, ok := ref.(*ssa.Call); ok {
					if f := staticCallee(&call.Call); f != nil && FuncName(f) == "NewExprLexer" {
						lexer = call
					}
				}
			}
			if lexer == nil {
				return
			}
			n++
			construct := FuncName(fn) + "|text + \"}}\" handed to the lexer"
			// Offset() of that lexer compared with len(sum), controlling an error
			okCmp := false
			for _, ref := range *lexer.Referrers() {
				oc, ok := ref.(*ssa.Call)
				if !ok {
					continue
				}
				if f := staticCallee(&oc.Call); f == nil || FuncName(f) != "(*ExprLexer).Offset" {
					continue
				}
				for _, r2 := range *oc.Referrers() {
					cmp, ok := r2.(*ssa.BinOp)
					if !ok {
						continue
					}
					switch cmp.Op {
					case token.LSS, token.NEQ, token.GEQ, token.EQL, token.GTR, token.LEQ:
					default:
						continue
					}
					other := cmp.Y
					if cmp.Y == ssa.Value(oc) {
						other = cmp.X
					}
					if isLenOf(other, bo) {
						okCmp = true
					}
				}
			}
			if okCmp {
				c.ok(construct, bo.Pos(), "the lexer's final offset is compared with the length of the text: a }} inside the text is noticed")
			} else {
				c.bad(construct, bo.Pos(), "the lexer stops at the first }}; nothing checks that it is the appended one, so the rest of a condition containing }} is silently ignored")
			}
		})
	}
	if n == 0 {
		c.anchorMissing("a text + \"}}\" handed to NewExprLexer (bare if: condition)")
	}
}

// ---- C04.BOM ----

// text/scanner skips a U+FEFF at offset 0 without telling: the model of the lexer used by C04.LEX (every character of the
// source is delivered) does not hold for that input, and the first token's text would contain the mark.
func runC04Bom(c *Ctx) {
	p := c.P
	fn := p.Func("NewExprLexer")
	if fn == nil {
		c.anchorMissing("NewExprLexer")
		return
	}
	inits := findCalls(fn, "(*text/scanner.Scanner).Init")
	if len(inits) == 0 {
		c.anchorMissing("(*text/scanner.Scanner).Init in NewExprLexer")
		return
	}
	guard := false
	eachInstr(fn, func(b *ssa.BasicBlock, _ int, in ssa.Instruction) {
		call, ok := in.(*ssa.Call)
		if !ok || calleeFullName(&call.Call) != "strings.HasPrefix" {
			return
		}
		if s, ok := constString(call.Call.Args[1]); !ok || s != "\uFEFF" {
			return
		}
		if _, isParam := call.Call.Args[0].(*ssa.Parameter); !isParam {
			return
		}
		// its true branch records a lexer error
		ifi, ok := b.Instrs[len(b.Instrs)-1].(*ssa.If)
		if !ok || ifi.Cond != ssa.Value(call) {
			return
		}
		for blk := range reachableBlocks([]*ssa.BasicBlock{b.Succs[0]}, map[*ssa.BasicBlock]bool{b.Succs[1]: true}) {
			for _, i2 := range blk.Instrs {
				if c2, ok := i2.(*ssa.Call); ok {
					if f := staticCallee(&c2.Call); f != nil && FuncName(f) == "(*ExprLexer).error" {
						guard = true
					}
				}
			}
		}
	})
	if guard {
		c.ok("NewExprLexer|byte order mark at the start of the source", inits[0].Pos(), "a source starting with U+FEFF is a lexer error")
	} else {
		c.bad("NewExprLexer|byte order mark at the start of the source", inits[0].Pos(), "text/scanner skips a leading U+FEFF silently: `\\uFEFF'abc'` is accepted and the first token's text contains the mark")
	}
}

// ---- C09.CROSSFLAG ----

// A boolean that is carried around a loop over all jobs (or all entries of rule state) and afterwards decides whether
// diagnostics are reported at all makes the diagnostics of one job depend on an unrelated job.
func runC09CrossFlag(c *Ctx) {
	p := c.P
	reporters := map[string]bool{"(*RuleBase).Error": true, "(*RuleBase).Errorf": true}
	var reaches func(from *ssa.BasicBlock, stop *ssa.BasicBlock) bool
	reaches = func(from *ssa.BasicBlock, stop *ssa.BasicBlock) bool {
		for blk := range reachableBlocks([]*ssa.BasicBlock{from}, map[*ssa.BasicBlock]bool{stop: true}) {
			for _, in := range blk.Instrs {
				if call, ok := in.(ssa.CallInstruction); ok {
					if f := staticCallee(call.Common()); f != nil {
						if reporters[FuncName(f)] {
							return true
						}
						// a helper of the module that reports
						if inPkgName(f) && f.Blocks != nil {
							for _, n := range []string{"(*RuleBase).Error", "(*RuleBase).Errorf"} {
								if len(findCalls(f, n)) > 0 {
									return true
								}
							}
						}
					}
				}
			}
		}
		return false
	}
	for _, fn := range p.Funcs {
		if fn.Signature.Recv() == nil || !strings.Contains(typeStr(fn.Signature.Recv().Type()), "Rule") {
			continue
		}
		heads := loopHeaders(fn)
		for _, h := range heads {
			body := naturalLoop(h)
			for _, in := range h.Instrs {
				ph, ok := in.(*ssa.Phi)
				if !ok {
					break
				}
				if !isBoolType(ph.Type()) {
					continue
				}
				// set to a constant inside the loop
				setInLoop := false
				var walk func(v ssa.Value, d int)
				walk = func(v ssa.Value, d int) {
					if d > 4 {
						return
					}
					switch x := v.(type) {
					case *ssa.Const:
						setInLoop = true
					case *ssa.Phi:
						if x != ph {
							for _, e := range x.Edges {
								walk(e, d+1)
							}
						}
					}
				}
				for i, e := range ph.Edges {
					if body[h.Preds[i]] {
						walk(e, 0)
					}
				}
				if !setInLoop {
					continue
				}
				// an If on the flag outside the loop: one side returns without reporting, the other reports
				for _, b := range fn.Blocks {
					if body[b] {
						continue
					}
					ifi, ok := b.Instrs[len(b.Instrs)-1].(*ssa.If)
					if !ok {
						continue
					}
					cond := ifi.Cond
					if u, ok := cond.(*ssa.UnOp); ok && u.Op == token.NOT {
						cond = u.X
					}
					if cond != ssa.Value(ph) {
						continue
					}
					r0, r1 := reaches(b.Succs[0], b.Succs[1]), reaches(b.Succs[1], b.Succs[0])
					if r0 != r1 {
						c.bad(FuncName(fn)+"|diagnostics gated by a flag accumulated over a loop", ph.Pos(), "the flag "+symName(ph)+" is set while looping over all entries and then decides whether the following diagnostics are reported: one job's mistake hides another job's diagnostics")
					}
				}
			}
		}
	}
}

// ---- C08.EQ ----

func runC08Eq(c *Ctx) {
	p := c.P
	e := p.lowerEngine()
	occ := map[string]int{}
	for _, fn := range p.Funcs {
		eachInstr(fn, func(_ *ssa.BasicBlock, _ int, in ssa.Instruction) {
			bo, ok := in.(*ssa.BinOp)
			if !ok || (bo.Op != token.EQL && bo.Op != token.NEQ) {
				return
			}
			if b, ok := bo.X.Type().Underlying().(*types.Basic); !ok || b.Info()&types.IsString == 0 {
				return
			}
			for _, pr := range [][2]ssa.Value{{bo.X, bo.Y}, {bo.Y, bo.X}} {
				low, other := pr[0], pr[1]
				call, ok := low.(*ssa.Call)
				if !ok || calleeFullName(&call.Call) != "strings.ToLower" {
					continue
				}
				k := FuncName(fn) + "|" + symNameShort(low) + " compared"
				occ[k]++
				construct := fmt.Sprintf("%s#%d", k, occ[k])
				lowerOther := e.isLower(other, 0)
				if !lowerOther {
					// an element of a list whose elements are all lower-case
					if ld, ok := other.(*ssa.UnOp); ok && ld.Op == token.MUL {
						if ia, ok := ld.X.(*ssa.IndexAddr); ok && e.sliceLower(ia.X, 0, map[ssa.Value]bool{}) {
							lowerOther = true
						}
					}
				}
				if lowerOther {
					c.ok(construct, bo.Pos(), "compared with a lower-case value")
				} else {
					c.bad(construct, bo.Pos(), "a lower-cased name is compared with "+describeKey(other)+", which keeps the letter case the user wrote: the comparison only succeeds for the lower-case spelling")
				}
				return
			}
		})
	}
}

func symNameShort(v ssa.Value) string {
	if call, ok := v.(*ssa.Call); ok && len(call.Call.Args) > 0 {
		return "ToLower(" + describeKey(call.Call.Args[0]) + ")"
	}
	return symName(v)
}

// ---- C14.BOOLSYN ----

// yaml tags true, True and TRUE as !!bool; the decoder of the metadata path turns all three into true. The AST path has
// to agree, otherwise `required: True` of a reusable workflow is required or not depending on which path filled the cache.
func runC14BoolSyn(c *Ctx) {
	p := c.P
	fn := p.Method("parser", "parseBool")
	if fn == nil {
		c.anchorMissing("(*parser).parseBool")
		return
	}
	n := 0
	eachInstr(fn, func(_ *ssa.BasicBlock, _ int, in ssa.Instruction) {
		st, ok := in.(*ssa.Store)
		if !ok {
			return
		}
		fa, ok := st.Addr.(*ssa.FieldAddr)
		if !ok || fieldAddrName(fa) != "Bool.Value" {
			return
		}
		n++
		construct := fmt.Sprintf("(*parser).parseBool|Bool.Value#%d", n)
		switch v := st.Val.(type) {
		case *ssa.BinOp:
			if f, _ := fieldLoad(v.X); f == "yaml.Node.Value" {
				if _, isConst := v.Y.(*ssa.Const); isConst && v.Op == token.EQL {
					c.bad(construct, st.Pos(), "the value is true only for the exact spelling of the constant: `True` and `TRUE` (YAML booleans, decoded as true by yaml.v3) become false")
					return
				}
			}
			c.ok(construct, st.Pos(), "not an exact-spelling comparison of the scalar text")
		case *ssa.Call:
			name := calleeFullName(&v.Call)
			if name == "strings.EqualFold" || name == "strconv.ParseBool" {
				c.ok(construct, st.Pos(), "derived with "+name)
			} else {
				c.ok(construct, st.Pos(), "derived by "+name)
			}
		default:
			c.ok(construct, st.Pos(), "not derived from the scalar text")
		}
	})
	if n == 0 {
		c.anchorMissing("store to Bool.Value in (*parser).parseBool")
	}
}

// ---- C10.ATOMIC ----

// FindMetadata: look up, on a miss read and parse the file, then store. When the store does not re-check the key under the
// lock, every goroutine that missed stores (and reports) its own result: the defects of a local action are reported 1..N
// times depending on scheduling.
func runC10Atomic(c *Ctx) {
	p := c.P
	for _, typ := range []string{"LocalActionsCache", "LocalReusableWorkflowCache"} {
		fm := p.Method(typ, "FindMetadata")
		if fm == nil {
			c.anchorMissing("(*" + typ + ").FindMetadata")
			continue
		}
		// the methods of the type FindMetadata calls that store into the cache map
		n := 0
		seen := map[*ssa.Function]bool{}
		eachInstr(fm, func(_ *ssa.BasicBlock, _ int, in ssa.Instruction) {
			call, ok := in.(ssa.CallInstruction)
			if !ok {
				return
			}
			f := staticCallee(call.Common())
			if f == nil || !inPkgName(f) || f.Blocks == nil || seen[f] {
				return
			}
			var upd *ssa.MapUpdate
			eachInstr(f, func(_ *ssa.BasicBlock, _ int, i2 ssa.Instruction) {
				if mu, ok := i2.(*ssa.MapUpdate); ok {
					if fld, _ := fieldLoad(mu.Map); fld == typ+".cache" {
						upd = mu
					}
				}
			})
			if upd == nil {
				return
			}
			seen[f] = true
			n++
			construct := "(*" + typ + ").FindMetadata|store after a miss through " + FuncName(f)
			// the store is control-dependent on a comma-ok lookup of the same key in the same map, and both lie in one
			// critical section of the write lock: a write Lock() dominates the lookup and no Unlock/RUnlock can run
			// between that Lock() and the store
			var lookups []*ssa.Lookup
			for ifi, outcome := range controllingConds(upd.Block()) {
				if t, key := lookupCond(ifi.Cond); t == typ+".cache" && !outcome && key == upd.Key {
					if lk, ok := ifi.Cond.(*ssa.Extract).Tuple.(*ssa.Lookup); ok {
						lookups = append(lookups, lk)
					}
				}
			}
			var locks, unlocks []ssa.CallInstruction
			for _, nm := range []string{"(*sync.RWMutex).Lock", "(*sync.Mutex).Lock"} {
				for _, call := range findCalls(f, nm) {
					if _, isCall := call.(*ssa.Call); isCall {
						locks = append(locks, call)
					}
				}
			}
			for _, nm := range []string{"(*sync.RWMutex).Unlock", "(*sync.Mutex).Unlock", "(*sync.RWMutex).RUnlock"} {
				for _, call := range findCalls(f, nm) {
					if _, isCall := call.(*ssa.Call); isCall { // a deferred unlock runs when the function returns
						unlocks = append(unlocks, call)
					}
				}
			}
			// the lock is held from k to the store
			heldFrom := func(k ssa.Instruction) bool {
				if !dom(k, upd) {
					return false
				}
				for _, u := range unlocks {
					if instrReachableAfter(k, u) && instrReachableAfter(u, upd) {
						return false
					}
				}
				return true
			}
			storeLocked, sameSection := false, false
			for _, k := range locks {
				if !heldFrom(k) {
					continue
				}
				storeLocked = true
				for _, lk := range lookups {
					if dom(k, lk) {
						sameSection = true
					}
				}
			}
			switch {
			case sameSection:
				c.ok(construct, upd.Pos(), "the entry is stored only when a look-up of the same key, made after the write lock that is still held at the store, found it absent: exactly one caller sees the miss")
			case !storeLocked:
				c.bad(construct, upd.Pos(), "the cache map is written without the write lock held")
			case len(lookups) == 0:
				c.bad(construct, upd.Pos(), "the store does not depend on a look-up of its key: every goroutine that missed stores its own result and reports the action's defects again (1..N reports depending on scheduling)")
			default:
				c.bad(construct, upd.Pos(), "look-up and store are separate critical sections: the key can be stored by another goroutine between them, so every goroutine that missed stores its own result and reports the action's defects again (1..N reports depending on scheduling)")
			}
		})
		if n == 0 {
			c.anchorMissing("a cache store reachable from (*" + typ + ").FindMetadata")
		}
	}
}

// ---- C10.LOGW ----

func runC10LogW(c *Ctx) {
	p := c.P
	fn := p.Func("NewLinter")
	if fn == nil {
		c.anchorMissing("NewLinter")
		return
	}
	var vals []ssa.Value
	eachInstr(fn, func(_ *ssa.BasicBlock, _ int, in ssa.Instruction) {
		if st, ok := in.(*ssa.Store); ok {
			if fa, ok := st.Addr.(*ssa.FieldAddr); ok && fieldAddrName(fa) == "Linter.logOut" {
				vals = append(vals, st.Val)
			}
		}
	})
	if len(vals) == 0 {
		c.anchorMissing("store to Linter.logOut in NewLinter")
		return
	}
	bad := ""
	seen := map[ssa.Value]bool{}
	var walk func(v ssa.Value)
	walk = func(v ssa.Value) {
		if seen[v] {
			return
		}
		seen[v] = true
		switch x := v.(type) {
		case *ssa.Phi:
			for _, e := range x.Edges {
				walk(e)
			}
		case *ssa.UnOp:
			if g, ok := x.X.(*ssa.Global); ok && g.Pkg.Pkg.Path() == "io" && g.Name() == "Discard" {
				return
			}
			bad = "a writer loaded from " + symName(x.X)
		case *ssa.MakeInterface:
			// the dynamic type's Write locks a mutex
			t := x.X.Type()
			ms := p.SSA.MethodSets.MethodSet(t)
			sel := ms.Lookup(nil, "Write")
			if sel == nil {
				if obj := lookupMethodObj(t, "Write"); obj != nil {
					sel = ms.Lookup(obj.Pkg(), "Write")
				}
			}
			if sel == nil {
				bad = "a writer of type " + typeStr(t) + " (no Write method found)"
				return
			}
			w := p.SSA.MethodValue(sel)
			if w == nil || !inPkgName(w) || (len(findCalls(w, "(*sync.Mutex).Lock")) == 0 && len(findCalls(w, "(*sync.RWMutex).Lock")) == 0) {
				bad = "a writer of type " + typeStr(t) + " whose Write does not take a lock"
			}
		default:
			bad = "the caller's writer as it is (" + symName(v) + ")"
		}
	}
	for _, v := range vals {
		walk(v)
	}
	if bad == "" {
		c.ok("NewLinter|log writer shared by the per-file goroutines", fn.Pos(), "io.Discard or a wrapper whose Write takes a mutex")
	} else {
		c.bad("NewLinter|log writer shared by the per-file goroutines", fn.Pos(), "Linter.logOut is "+bad+": (*Linter).log/debug are called from the goroutines of LintFiles, so a writer that is not safe for concurrent use (bytes.Buffer) races")
	}
}

func lookupMethodObj(t types.Type, name string) *types.Func {
	obj, _, _ := types.LookupFieldOrMethod(t, true, nil, name)
	f, _ := obj.(*types.Func)
	return f
}

// ---- C11.OPERAND ----

// `(github.event.issue || github.event.pull_request).title`: && and || return one of their operands, so the receiver of a
// property access can be a logical operator node whose operands carry the chain. The matcher's leave callback has to
// treat that node kind as a chain carrier; when it falls into the default branch the candidates are dropped.
func runC11Operand(c *Ctx) {
	p := c.P
	fn := p.Method("UntrustedInputChecker", "OnVisitNodeLeave")
	if fn == nil {
		c.anchorMissing("(*UntrustedInputChecker).OnVisitNodeLeave")
		return
	}
	cases := map[string]bool{}
	eachInstr(fn, func(_ *ssa.BasicBlock, _ int, in ssa.Instruction) {
		if ta, ok := in.(*ssa.TypeAssert); ok && ta.CommaOk {
			if _, isParam := ta.X.(*ssa.Parameter); isParam {
				cases[typeStr(ta.AssertedType)] = true
			}
		}
	})
	if len(cases) == 0 {
		c.anchorMissing("type switch of (*UntrustedInputChecker).OnVisitNodeLeave")
		return
	}
	var names []string
	for k := range cases {
		names = append(names, k)
	}
	sort.Strings(names)
	construct := "(*UntrustedInputChecker).OnVisitNodeLeave|receiver given by a logical operator"
	if cases["*LogicalOpNode"] {
		c.ok(construct, fn.Pos(), "handled kinds: "+strings.Join(names, ", "))
	} else {
		c.bad(construct, fn.Pos(), "handled kinds are "+strings.Join(names, ", ")+": leaving a *LogicalOpNode ends the chain, so `(github.event.issue || github.event.pull_request).title` is not reported")
	}
}

// ---- C05.EVORDER ----

// VisitWorkflowPre walks the events of `on:` in source order, checks their expressions and, in the same loop, builds the
// types behind the `inputs` context. A field that is written in the loop and read by the expression checks of the loop
// makes the verdict for `inputs.<name>` depend on the order of the events (and of the inputs).
func runC05EvOrder(c *Ctx) {
	p := c.P
	fn := p.Method("RuleExpression", "VisitWorkflowPre")
	if fn == nil {
		c.anchorMissing("(*RuleExpression).VisitWorkflowPre")
		return
	}
	// the loop over Workflow.On
	var head *ssa.BasicBlock
	for _, h := range loopHeaders(fn) {
		for _, in := range h.Instrs {
			if cmp, ok := in.(*ssa.BinOp); ok && cmp.Op == token.LSS {
				if call, ok := cmp.Y.(*ssa.Call); ok {
					if bi, ok := call.Call.Value.(*ssa.Builtin); ok && bi.Name() == "len" {
						if f, _ := fieldLoad(call.Call.Args[0]); f == "Workflow.On" {
							head = h
						}
					}
				}
			}
		}
	}
	if head == nil {
		c.anchorMissing("loop over Workflow.On in (*RuleExpression).VisitWorkflowPre")
		return
	}
	body := naturalLoop(head)
	written := map[string]token.Pos{}
	var callees []*ssa.Function
	for b := range body {
		for _, in := range b.Instrs {
			if st, ok := in.(*ssa.Store); ok {
				if fa, ok := st.Addr.(*ssa.FieldAddr); ok && strings.HasPrefix(fieldAddrName(fa), "RuleExpression.") {
					written[fieldAddrName(fa)] = st.Pos()
				}
			}
			if call, ok := in.(ssa.CallInstruction); ok {
				if f := staticCallee(call.Common()); f != nil && inPkgName(f) {
					callees = append(callees, f)
				}
			}
		}
	}
	// the contexts the expression checks of the loop may read: only those allowed at the workflow keys passed there
	// (availability table); `inputs` is fed by inputsTy and dispatchInputsTy
	read := map[string]bool{}
	for f := range p.reachable(callees...) {
		eachInstr(f, func(_ *ssa.BasicBlock, _ int, in ssa.Instruction) {
			if ld, ok := in.(*ssa.UnOp); ok && ld.Op == token.MUL {
				if fa, ok := ld.X.(*ssa.FieldAddr); ok && strings.HasPrefix(fieldAddrName(fa), "RuleExpression.") {
					read[fieldAddrName(fa)] = true
				}
			}
		})
	}
	inputsFields := map[string]string{
		"RuleExpression.inputsTy":         "the inputs of workflow_call are added one by one while their defaults are checked: `default: ${{ inputs.b }}` is undefined when b is declared after the input, defined when it is declared before",
		"RuleExpression.dispatchInputsTy": "the inputs of workflow_dispatch are visible to the defaults of workflow_call inputs only when workflow_dispatch is written before workflow_call",
	}
	n := 0
	var keys []string
	for f := range written {
		keys = append(keys, f)
	}
	sort.Strings(keys)
	for _, f := range keys {
		why, isInputs := inputsFields[f]
		if !isInputs || !read[f] {
			continue
		}
		n++
		c.bad("(*RuleExpression).VisitWorkflowPre|"+strings.TrimPrefix(f, "RuleExpression.")+" written while the events are still being checked", written[f], why)
	}
	if n == 0 {
		c.ok("(*RuleExpression).VisitWorkflowPre|inputs scope complete before expressions of on: are checked", head.Instrs[0].Pos(), "no field behind the inputs context is written in the loop that also checks expressions reading it")
	}
}

// ---- C07.ANCHOR ----

// yaml.v3 gives a node with an anchor (&x) or an explicit tag (!!str) the position of that node property, not of the
// scalar text. A parser that takes Line/Column as the position of the text has to look at Anchor/Style somewhere.
func runC07Anchor(c *Ctx) {
	p := c.P
	fn := p.Func("posAt")
	if fn == nil {
		c.anchorMissing("posAt")
		return
	}
	reads := false
	for _, f := range p.Funcs {
		if !strings.HasSuffix(p.unitFile(f), "/parse.go") {
			continue
		}
		eachInstr(f, func(_ *ssa.BasicBlock, _ int, in ssa.Instruction) {
			if fa, ok := in.(*ssa.FieldAddr); ok {
				if n := fieldAddrName(fa); n == "yaml.Node.Anchor" {
					reads = true
				}
			}
		})
	}
	construct := "posAt|position of a scalar that has an anchor or a tag"
	if reads {
		c.ok(construct, fn.Pos(), "the parser looks at the anchor of a node")
	} else {
		c.bad(construct, fn.Pos(), "the parser never looks at yaml.Node.Anchor (or the tagged style): for `run: &x echo ${{ bad }}` Line/Column is the position of `&x`, so every diagnostic inside the scalar is reported len(anchor)+1 columns too far left")
	}
}

// ---- C07.QUOTEARG ----

// sameFieldPath: a and b are the same value, or loads of the same field of the same value (step.Name read twice).
func sameFieldPath(a, b ssa.Value, depth int) bool {
	if a == b {
		return true
	}
	if depth > 4 {
		return false
	}
	fa, ba := fieldLoad(a)
	fb, bb := fieldLoad(b)
	return fa != "" && fa == fb && sameFieldPath(ba, bb, depth+1)
}

func runC07QuoteArg(c *Ctx) {
	p := c.P
	fn := p.Method("RuleExpression", "checkExprsIn")
	if fn == nil {
		c.anchorMissing("(*RuleExpression).checkExprsIn")
		return
	}
	paramIdx := func(f *ssa.Function, v ssa.Value) int {
		for i, pr := range f.Params {
			if ssa.Value(pr) == v {
				return i
			}
		}
		return -1
	}
	// quotedOfScanned: q is the Quoted flag the parser recorded for the very String whose Value is s - directly, or s and
	// q are parameters of the function in and every caller passes such a pair. The verdict is "ok", "violation" or
	// "undecided" with the reason.
	var quotedOfScanned func(in *ssa.Function, s, q ssa.Value, depth int) (string, string)
	quotedOfScanned = func(in *ssa.Function, s, q ssa.Value, depth int) (string, string) {
		sf, sbase := fieldLoad(s)
		if sf == "" {
			sf = symName(s)
		}
		if _, isConst := q.(*ssa.Const); isConst {
			return "violation", "the scan of " + sf + " is told a constant instead of whether the scalar is quoted: for a quoted scalar every column inside it is one too small (" + sf + " has no record of the quoting style)"
		}
		if not, ok := q.(*ssa.UnOp); ok && not.Op == token.NOT {
			return "violation", "the scan of " + sf + " is told the opposite of " + symName(not.X) + ": the column is moved past a quote exactly when there is none"
		}
		if qf, qbase := fieldLoad(q); qf != "" {
			switch {
			case qf == "String.Quoted" && sf == "String.Value" && sameFieldPath(qbase, sbase, 0):
				return "ok", "the Quoted flag of the String whose Value is scanned"
			case qf == "String.Quoted" && sf != "String.Value":
				return "undecided", "the flag is a String's, the text (" + sf + ") is not the Value of a String: not seen to belong together"
			case qf == "String.Quoted":
				return "violation", "the scan of " + sf + " is told the Quoted flag of another String (" + symName(qbase) + "): whether the column is moved past a quote depends on a different scalar"
			}
			return "violation", "the scan of " + sf + " is told " + qf + ", which is not the quoting style the parser recorded for it"
		}
		if qi := paramIdx(in, q); qi >= 0 && depth < 3 {
			// the text: a parameter as well, or the Value of a String parameter
			si, viaString := paramIdx(in, s), false
			if si < 0 && sf == "String.Value" {
				si, viaString = paramIdx(in, sbase), true
			}
			callers := p.callersOf(in)
			if si < 0 || len(callers) == 0 {
				return "undecided", "the flag is the parameter " + symName(q) + " of " + FuncName(in) + ", the text is not: callers cannot be matched"
			}
			for _, e := range callers {
				if e.Site == nil || len(e.Site.Common().Args) <= qi || len(e.Site.Common().Args) <= si || e.Site.Common().IsInvoke() {
					return "undecided", "a caller of " + FuncName(in) + " cannot be followed"
				}
				cs, cq := e.Site.Common().Args[si], e.Site.Common().Args[qi]
				if viaString {
					// the caller hands over the String itself: the flag must be that String's
					qf, qbase := fieldLoad(cq)
					if qf == "String.Quoted" && sameFieldPath(qbase, cs, 0) {
						continue
					}
					if _, isConst := cq.(*ssa.Const); isConst {
						return "violation", "the scan of " + sf + " is told a constant by " + FuncName(e.Caller.Func) + " instead of whether the scalar is quoted"
					}
					return "violation", "the scan of " + sf + " is told " + symName(cq) + " by " + FuncName(e.Caller.Func) + ", not the Quoted flag of the String that is scanned"
				}
				if v, why := quotedOfScanned(e.Caller.Func, cs, cq, depth+1); v != "ok" {
					return v, why + " (passed on by " + FuncName(e.Caller.Func) + ")"
				}
			}
			return "ok", "every caller of " + FuncName(in) + " passes the Quoted flag of the String whose Value is scanned"
		}
		return "undecided", "the scan of " + sf + " is told a value computed by the caller (" + symName(q) + "): not seen to be the Quoted flag of the scanned String"
	}
	occ := map[string]int{}
	for _, e := range p.callersOf(fn) {
		if e.Site == nil {
			continue
		}
		args := e.Site.Common().Args // rule, s, pos, quoted, ...
		if len(args) < 4 {
			continue
		}
		k := FuncName(e.Caller.Func) + "|quoted argument of checkExprsIn"
		occ[k]++
		construct := k
		if occ[k] > 1 {
			construct = fmt.Sprintf("%s#%d", k, occ[k])
		}
		switch v, why := quotedOfScanned(e.Caller.Func, args[1], args[3], 0); v {
		case "ok":
			c.ok(construct, e.Site.Pos(), why)
		case "violation":
			c.bad(construct, e.Site.Pos(), why)
		default:
			c.undecided(construct, e.Site.Pos(), why)
		}
	}
}

// ---- C01.DEVREAD ----

// `uses: ./../../../dev/zero`: the path of a local reusable workflow comes from the workflow text. Reading it with
// os.ReadFile without checking that it is a regular file never returns for a device or a FIFO (or exhausts memory).
func runC01DevRead(c *Ctx) {
	p := c.P
	n := 0
	for _, typ := range []string{"LocalReusableWorkflowCache", "LocalActionsCache"} {
		fm := p.Method(typ, "FindMetadata")
		if fm == nil {
			c.anchorMissing("(*" + typ + ").FindMetadata")
			continue
		}
		spec := fm.Params[1]
		fns := []*ssa.Function{fm}
		eachInstr(fm, func(_ *ssa.BasicBlock, _ int, in ssa.Instruction) {
			if call, ok := in.(ssa.CallInstruction); ok {
				if f := staticCallee(call.Common()); f != nil && inPkgName(f) && f.Blocks != nil {
					fns = append(fns, f)
				}
			}
		})
		for _, f := range fns {
			for _, call := range findCalls(f, "os.ReadFile") {
				path := call.Common().Args[0]
				// Join(<derived from spec>, "constant file name") names a file inside a directory: a device cannot have children
				if jc, ok := path.(*ssa.Call); ok && calleeFullName(&jc.Call) == "path/filepath.Join" {
					if args, ok := variadicArgs(jc.Call.Args[0]); ok && len(args) > 0 {
						last := args[len(args)-1]
						if _, isConst := last.(*ssa.Const); isConst {
							continue
						}
						if _, _, isElem := elemIndex(last); isElem {
							continue // element of a constant list of file names
						}
					}
				}
				if f == fm && !dependsOn(path, spec, 0) {
					continue
				}
				n++
				construct := FuncName(f) + "|read of a path named by the workflow"
				// a Stat of the same path whose Mode().IsRegular() decides whether the read happens
				guarded := false
				for ifi := range controllingConds(call.Block()) {
					if mentionsCall(ifi.Cond, "(io/fs.FileMode).IsRegular", 0) {
						guarded = true
					}
				}
				// or: the branch taken when IsRegular() is false does not reach the read, and a Stat precedes the read
				if !guarded {
					statBefore := false
					for _, st := range findCalls(f, "os.Stat") {
						if st.Block() == call.Block() || st.Block().Dominates(call.Block()) {
							statBefore = true
						}
					}
					for _, blk := range f.Blocks {
						ifi, ok := blk.Instrs[len(blk.Instrs)-1].(*ssa.If)
						if !ok || !mentionsCall(ifi.Cond, "(io/fs.FileMode).IsRegular", 0) {
							continue
						}
						notRegular := blk.Succs[1]
						if u, ok := ifi.Cond.(*ssa.UnOp); ok && u.Op == token.NOT {
							notRegular = blk.Succs[0]
						}
						if statBefore && !reachableBlocks([]*ssa.BasicBlock{notRegular}, nil)[call.Block()] {
							guarded = true
						}
					}
				}
				if guarded {
					c.ok(construct, call.Pos(), "read only when os.Stat says it is a regular file (or when Stat fails, in which case ReadFile fails as well)")
				} else {
					c.bad(construct, call.Pos(), "os.ReadFile on a path built from `uses:` without a regular-file check: `uses: ./../../../dev/zero` exhausts memory, a FIFO blocks forever")
				}
			}
		}
	}
	if n == 0 {
		c.anchorMissing("os.ReadFile on a path derived from the spec in FindMetadata")
	}
}

func dependsOn(v, src ssa.Value, d int) bool {
	if v == src {
		return true
	}
	if d > 8 {
		return false
	}
	switch x := v.(type) {
	case *ssa.Call:
		for _, a := range x.Call.Args {
			if dependsOn(a, src, d+1) {
				return true
			}
		}
	case *ssa.Slice:
		if al, ok := x.X.(*ssa.Alloc); ok {
			for _, ref := range *al.Referrers() {
				if ia, ok := ref.(*ssa.IndexAddr); ok {
					for _, r2 := range *ia.Referrers() {
						if st, ok := r2.(*ssa.Store); ok && dependsOn(st.Val, src, d+1) {
							return true
						}
					}
				}
			}
		}
		return dependsOn(x.X, src, d+1)
	case *ssa.BinOp:
		return dependsOn(x.X, src, d+1) || dependsOn(x.Y, src, d+1)
	case *ssa.Phi:
		for _, e := range x.Edges {
			if dependsOn(e, src, d+1) {
				return true
			}
		}
	}
	return false
}

func mentionsCall(v ssa.Value, name string, d int) bool {
	if d > 6 {
		return false
	}
	switch x := v.(type) {
	case *ssa.Call:
		if calleeFullName(&x.Call) == name {
			return true
		}
	case *ssa.UnOp:
		return mentionsCall(x.X, name, d+1)
	case *ssa.BinOp:
		return mentionsCall(x.X, name, d+1) || mentionsCall(x.Y, name, d+1)
	case *ssa.Phi:
		for _, e := range x.Edges {
			if mentionsCall(e, name, d+1) {
				return true
			}
		}
	}
	return false
}

// ---- C01.EXTTIME ----

// doublestar matches {a,b} alternatives by recursion on alternative + rest: k groups whose alternatives all match cost
// 2^k. ParseConfig validates the syntax of a `paths:` key only; nothing bounds the number of groups.
func runC01ExtTime(c *Ctx) {
	p := c.P
	n := 0
	for _, fn := range p.Funcs {
		eachInstr(fn, func(_ *ssa.BasicBlock, _ int, in ssa.Instruction) {
			call, ok := in.(*ssa.Call)
			if !ok {
				return
			}
			name := calleeFullName(&call.Call)
			if !strings.HasPrefix(name, "github.com/bmatcuk/doublestar/v4.Match") && !strings.HasPrefix(name, "github.com/bmatcuk/doublestar/v4.PathMatch") {
				return
			}
			n++
			construct := FuncName(fn) + "|" + strings.TrimPrefix(name, "github.com/bmatcuk/doublestar/v4.") + " on a pattern of the configuration file"
			exp := "the matcher is exponential in the number of {,} groups and the pattern comes unbounded from the `paths:` keys of the configuration file: 64 groups (222 bytes) never finish"
			pat := call.Call.Args[0]
			if _, isConst := constString(pat); isConst {
				c.ok(construct, call.Pos(), "the pattern is a constant of the program")
				return
			}
			field, _ := keyOfField(pat, 0)
			if field == "" {
				c.bad(construct, call.Pos(), exp+" (the pattern is not a key of a map field ranged over here: its origin is unknown)")
				return
			}
			// (a) on the way to the matcher: a test of the brace groups of this very pattern whose over-bound outcome cannot
			// reach the call
			for _, b := range fn.Blocks {
				ifi, ok := b.Instrs[len(b.Instrs)-1].(*ssa.If)
				if !ok || b == call.Block() || !b.Dominates(call.Block()) {
					continue
				}
				counted, over, ok := braceBound(ifi.Cond, 0)
				if !ok || stripConv(counted) != stripConv(pat) {
					continue
				}
				overSucc := b.Succs[1]
				if over {
					overSucc = b.Succs[0]
				}
				if !reachableBlocks([]*ssa.BasicBlock{overSucc}, map[*ssa.BasicBlock]bool{b: true})[call.Block()] {
					c.ok(construct, call.Pos(), "a pattern with more brace groups than a constant bound is skipped before the matcher is called")
					return
				}
			}
			// (b) when the configuration is read: every function that decodes into the owner of the field bounds all keys
			// and fails otherwise, and nothing else writes the field
			owner := field[:strings.Index(field, ".")]
			readers := p.decodersOf(owner)
			isReader := map[*ssa.Function]bool{}
			why := ""
			if len(readers) == 0 {
				why = "no function that decodes a " + owner + " was found"
			}
			for _, g := range readers {
				isReader[g] = true
				ok, w := boundsKeysOf(g, field)
				if !ok {
					// one step into a validating helper whose failure is handed on
					for _, hc := range g.Blocks {
						for _, hi := range hc.Instrs {
							cl, isCall := hi.(*ssa.Call)
							if !isCall || ok {
								continue
							}
							h := staticCallee(&cl.Call)
							if h == nil || !inModule(h) || h.Blocks == nil {
								continue
							}
							if hok, _ := boundsKeysOf(h, field); !hok || !errorReaches(cl, map[ssa.Value]bool{}) {
								continue
							}
							passed := true
							for _, rb := range g.Blocks {
								if ret, isRet := rb.Instrs[len(rb.Instrs)-1].(*ssa.Return); isRet && !failureReturn(ret) && !hc.Dominates(rb) {
									passed = false
								}
							}
							ok = passed
						}
					}
				}
				if !ok && why == "" {
					why = w
				}
			}
			if why == "" {
				for _, w := range sortedFuncNames(p.mapFieldWriters(field)) {
					if !isReader[p.funcByName(w)] {
						why = field + " is also written by " + w + ", which does not read the configuration file"
						break
					}
				}
			}
			if why == "" {
				c.ok(construct, call.Pos(), "the number of brace groups of every key of "+field+" is compared with a constant when the configuration is read, and reading fails over the bound")
			} else {
				c.bad(construct, call.Pos(), exp+" ("+why+")")
			}
		})
	}
	if n == 0 {
		c.anchorMissing("call of doublestar.Match*")
	}
}

func sortedFuncNames(m map[*ssa.Function]bool) []string {
	set := map[string]bool{}
	for f := range m {
		set[FuncName(f)] = true
	}
	return sortedKeys(set)
}

// ---- C15.ALIAS ----

func runC15Alias(c *Ctx) {
	p := c.P
	fn := p.Method("IgnorePatterns", "UnmarshalYAML")
	if fn == nil {
		c.anchorMissing("(*IgnorePatterns).UnmarshalYAML")
		return
	}
	calls := findCalls(fn, "regexp.Compile")
	if len(calls) == 0 {
		c.anchorMissing("regexp.Compile in (*IgnorePatterns).UnmarshalYAML")
		return
	}
	for i, call := range calls {
		construct := fmt.Sprintf("(*IgnorePatterns).UnmarshalYAML|kind of the node whose text is compiled#%d", i+1)
		f, base := fieldLoad(call.Common().Args[0])
		if f != "yaml.Node.Value" {
			c.ok(construct, call.Pos(), "not the text of a node")
			continue
		}
		// a test Kind ==/!= ScalarNode on the same node controls the compile
		tested := false
		for ifi, outcome := range controllingConds(call.Block()) {
			bo, ok := ifi.Cond.(*ssa.BinOp)
			if !ok {
				continue
			}
			kf, kb := fieldLoad(bo.X)
			k, isC := constInt(bo.Y)
			if kf == "yaml.Node.Kind" && kb == base && isC && k == 8 { // yaml.ScalarNode
				if (bo.Op == token.EQL && outcome) || (bo.Op == token.NEQ && !outcome) {
					tested = true
				}
			}
		}
		if tested {
			c.ok(construct, call.Pos(), "compiled only when the node is a scalar (an alias is resolved or rejected before)")
		} else {
			c.bad(construct, call.Pos(), "Value is compiled whatever the kind of the node: for an alias `- *zq` it is the anchor name, for a mapping or sequence item the empty pattern, which drops every diagnostic")
		}
	}
}

// ---- C13.BYPOS ----

func runC13ByPos(c *Ctx) {
	p := c.P
	n, bad := 0, 0
	for _, fn := range p.Funcs {
		if !strings.HasSuffix(p.unitFile(fn), "/parse.go") {
			continue
		}
		eachInstr(fn, func(_ *ssa.BasicBlock, _ int, in ssa.Instruction) {
			call, ok := in.(*ssa.Call)
			if !ok {
				return
			}
			f := staticCallee(&call.Call)
			if f == nil || (FuncName(f) != "(*parser).parseMapping" && FuncName(f) != "(*parser).parseSectionMapping") {
				return
			}
			if FuncName(fn) == "(*parser).parseSectionMapping" {
				return
			}
			n++
			// entries[k].val with a constant k (or len-k): directly, or through a copy of the entry (a local, a phi, a
			// variable whose address is taken, an argument of a helper)
			slices := map[ssa.Value]bool{call: true}
			for changed := true; changed; {
				changed = false
				for v := range slices {
					for _, ref := range *v.Referrers() {
						switch x := ref.(type) {
						case *ssa.Phi, *ssa.Slice, *ssa.ChangeType:
							if !slices[x.(ssa.Value)] {
								slices[x.(ssa.Value)] = true
								changed = true
							}
						}
					}
				}
			}
			for sl := range slices {
				for _, ref := range *sl.Referrers() {
					ia, ok := ref.(*ssa.IndexAddr)
					if !ok || ia.X != sl || !positionalIndex(ia.Index, slices) {
						continue
					}
					if at := entryValueRead(ia, map[ssa.Value]bool{}, 0); at != nil {
						bad++
						c.bad(FuncName(fn)+"|value of a mapping entry picked by position", ia.Pos(), "the value is taken from entry "+symName(ia.Index)+" of the mapping (read at "+p.Pos(at.Pos())+"): with a foreign key next to it the value of the known key is not parsed (or the wrong one is), so its diagnostics are lost")
					}
				}
			}
		})
	}
	if n == 0 {
		c.anchorMissing("calls of parseMapping in parse.go")
		return
	}
	if bad == 0 {
		c.ok("parse.go|values of mapping entries are reached through the key loop", token.NoPos, fmt.Sprintf("%d parseMapping results: no value picked by a constant index", n))
	}
}

// positionalIndex: a constant, or len(entries) minus a constant.
func positionalIndex(ix ssa.Value, slices map[ssa.Value]bool) bool {
	switch x := ix.(type) {
	case *ssa.Const:
		return true
	case *ssa.BinOp:
		if _, isConst := x.Y.(*ssa.Const); !isConst || (x.Op != token.SUB && x.Op != token.ADD) {
			return false
		}
		if call, ok := x.X.(*ssa.Call); ok {
			if bi, ok := call.Call.Value.(*ssa.Builtin); ok && bi.Name() == "len" && slices[call.Call.Args[0]] {
				return true
			}
		}
	}
	return false
}

// entryValueRead: v is (the address of, or a copy of) one workflowKeyVal entry; the instruction that reads its `val`
// field, following loads, phis, stores into locals and arguments handed to functions of the module.
func entryValueRead(v ssa.Value, seen map[ssa.Value]bool, depth int) ssa.Instruction {
	if seen[v] || v.Referrers() == nil || depth > 6 {
		return nil
	}
	seen[v] = true
	for _, ref := range *v.Referrers() {
		switch x := ref.(type) {
		case *ssa.FieldAddr:
			if x.X == v && fieldAddrName(x) == "workflowKeyVal.val" {
				return x
			}
		case *ssa.Field:
			if x.X == v && strings.HasSuffix(typeStr(x.X.Type()), "workflowKeyVal") {
				if st, ok := x.X.Type().Underlying().(*types.Struct); ok && st.Field(x.Field).Name() == "val" {
					return x
				}
			}
		case *ssa.UnOp:
			if x.Op == token.MUL {
				if at := entryValueRead(x, seen, depth); at != nil {
					return at
				}
			}
		case *ssa.Phi, *ssa.ChangeType:
			if at := entryValueRead(x.(ssa.Value), seen, depth); at != nil {
				return at
			}
		case *ssa.Store:
			if x.Val == v {
				if al, ok := x.Addr.(*ssa.Alloc); ok {
					if at := entryValueRead(al, seen, depth); at != nil {
						return at
					}
				}
			}
		case ssa.CallInstruction:
			g := staticCallee(x.Common())
			if g == nil || !inPkgName(g) || len(g.Params) != len(x.Common().Args) {
				continue
			}
			for i, a := range x.Common().Args {
				if a == v {
					if at := entryValueRead(g.Params[i], seen, depth+1); at != nil {
						return at
					}
				}
			}
		}
	}
	return nil
}

// ---- C12.UNRESOLVED ----

func runC12Unresolved(c *Ctx) {
	p := c.P
	fn := p.Method("ExprSemanticsChecker", "checkFuncCall")
	if fn == nil {
		c.anchorMissing("(*ExprSemanticsChecker).checkFuncCall")
		return
	}
	avail := p.Method("ExprSemanticsChecker", "checkSpecialFunctionAvailability")
	if avail == nil {
		c.anchorMissing("(*ExprSemanticsChecker).checkSpecialFunctionAvailability")
		return
	}
	availStops := mustPassBlocks(fn, avail, 0)
	// every return of checkFuncCall after the callee was found is preceded on its path by a call that reaches the check
	// (directly, or through checkBuiltinFuncCall)
	okAll, n := true, 0
	var badPos token.Pos
	for _, b := range fn.Blocks {
		ret, ok := b.Instrs[len(b.Instrs)-1].(*ssa.Return)
		if !ok {
			continue
		}
		// the "undefined function" return is exempt: it reports the name itself
		undefined := false
		for _, blk := range fn.Blocks {
			if blk != b && !blk.Dominates(b) {
				continue
			}
			for _, in := range blk.Instrs {
				if call, ok := in.(ssa.CallInstruction); ok {
					if f := staticCallee(call.Common()); f != nil && FuncName(f) == "(*ExprSemanticsChecker).errorf" {
						if s, ok := constString(call.Common().Args[2]); ok && strings.HasPrefix(s, "undefined function") {
							undefined = true
						}
					}
				}
			}
		}
		if undefined {
			continue
		}
		n++
		// every path to this return passes a call that checks the availability on every one of its own paths
		covered := availStops[b] || !reachCut(fn.Blocks[0], availStops, nil)[b]
		if !covered {
			okAll = false
			badPos = ret.Pos()
		}
	}
	construct := "(*ExprSemanticsChecker).checkFuncCall|availability checked on every path of a known function"
	switch {
	case n == 0:
		c.anchorMissing("returns of (*ExprSemanticsChecker).checkFuncCall")
	case okAll:
		c.ok(construct, fn.Pos(), fmt.Sprintf("%d return paths: each passes checkSpecialFunctionAvailability, directly or in a callee all of whose paths pass it", n))
	default:
		c.bad(construct, badPos, "a return path of a call to a known function does not pass checkSpecialFunctionAvailability: `hashFiles()` or `always(1)` at a key where the function is not allowed only gets the argument errors")
	}
}

// ---- C19.CONTAINS ----

func runC19Contains(c *Ctx) {
	p := c.P
	fn := p.Func("ContainsExpression")
	if fn == nil {
		c.anchorMissing("ContainsExpression")
		return
	}
	construct := "ContainsExpression|end marker searched after the start marker"
	// the search for "}}" must run on a suffix of the string that starts behind the found "${{"
	okShape := false
	bad := ""
	eachInstr(fn, func(_ *ssa.BasicBlock, _ int, in ssa.Instruction) {
		call, ok := in.(*ssa.Call)
		if !ok {
			return
		}
		name := calleeFullName(&call.Call)
		if name != "strings.Index" && name != "strings.Contains" && name != "strings.LastIndex" {
			return
		}
		if s, ok := constString(call.Call.Args[1]); !ok || s != "}}" {
			return
		}
		if sl, ok := call.Call.Args[0].(*ssa.Slice); ok && sl.Low != nil {
			if strings.Contains(linOf(sl.Low, 0).String(), "strings.Index()") {
				okShape = true
				return
			}
		}
		if name == "strings.LastIndex" {
			okShape = true
			return
		}
		bad = "the first }} of the whole string is compared with the position of ${{"
	})
	switch {
	case okShape && bad == "":
		c.ok(construct, fn.Pos(), "}} is searched in the text behind the first ${{")
	case bad != "":
		c.bad(construct, fn.Pos(), bad+": `'{\"a\":{\"b\":1}}-${{ github.sha }}'` is taken for plain text")
	default:
		c.bad(construct, fn.Pos(), "no search for the end marker found")
	}
}

// ---- C20.PLACEEND ----

func runC20PlaceEnd(c *Ctx) {
	p := c.P
	fn := p.Func("sanitizeExpressionsInScript")
	if fn == nil {
		c.anchorMissing("sanitizeExpressionsInScript")
		return
	}
	construct := "sanitizeExpressionsInScript|end of a placeholder"
	if len(findCalls(fn, "LexExpression")) > 0 {
		c.ok(construct, fn.Pos(), "the placeholder ends where the expression lexer ends it (a }} inside a string literal does not end it)")
	} else {
		c.bad(construct, fn.Pos(), "the placeholder is ended at the first }}: for `${{ '}}' }}` only a part is replaced and the rest is handed to the tool as script text")
	}
}

// ---- C16.LINES ----

func runC16Lines(c *Ctx) {
	p := c.P
	fn := p.Method("Error", "getLine")
	if fn == nil {
		c.anchorMissing("(*Error).getLine")
		return
	}
	construct := "(*Error).getLine|line breaks"
	scans := findCalls(fn, "(*bufio.Scanner).Scan")
	if len(scans) == 0 {
		c.ok(construct, fn.Pos(), "the line is not found with bufio.Scanner")
		return
	}
	splits := findCalls(fn, "(*bufio.Scanner).Split")
	if len(splits) == 0 {
		c.bad(construct, fn.Pos(), "bufio.Scanner's default split only breaks at LF, the YAML parser also counts CR, NEL, LS and PS: after a lone CR every snippet shows a later line than the diagnostic refers to")
		return
	}
	// the split function looks for CR as well
	okSplit := false
	splitArg := splits[0].Common().Args[1]
	if ct, ok := splitArg.(*ssa.ChangeType); ok {
		splitArg = ct.X
	}
	if sf, ok := splitArg.(*ssa.Function); ok && sf.Blocks != nil {
		eachInstr(sf, func(_ *ssa.BasicBlock, _ int, in ssa.Instruction) {
			if call, ok := in.(*ssa.Call); ok {
				for _, a := range call.Call.Args {
					if s, ok := constString(a); ok && strings.Contains(s, "\r") && strings.Contains(s, "\n") {
						okSplit = true
					}
				}
			}
		})
	}
	if okSplit {
		c.ok(construct, fn.Pos(), "a split function that breaks at CR and LF (and the Unicode line breaks)")
	} else {
		c.bad(construct, fn.Pos(), "the split function does not look for CR")
	}
	// the token handed back is the Line-th one: the counter compared with e.Line is 1 for the first token
	if why := lineCounterWhy(fn); why != "" {
		c.bad("(*Error).getLine|the referenced line", fn.Pos(), why)
	} else {
		c.ok("(*Error).getLine|the referenced line", fn.Pos(), "the scanner's token is handed back under counter == e.Line, the counter being 1 for the first token and advanced once per Scan")
	}
}

// ---- C16.COLUNIT ----

// Columns count characters (yaml.Node.Column, text/scanner columns). Slicing the source line needs a byte offset.
func runC16ColUnit(c *Ctx) {
	p := c.P
	fn := p.Method("Error", "getIndicator")
	if fn == nil {
		c.anchorMissing("(*Error).getIndicator")
		return
	}
	n := 0
	eachInstr(fn, func(_ *ssa.BasicBlock, _ int, in ssa.Instruction) {
		sl, ok := in.(*ssa.Slice)
		if !ok {
			return
		}
		if _, isParam := sl.X.(*ssa.Parameter); !isParam {
			return
		}
		for _, bnd := range []ssa.Value{sl.Low, sl.High} {
			if bnd == nil {
				continue
			}
			n++
			construct := fmt.Sprintf("(*Error).getIndicator|bound of the slice of the source line#%d", n)
			lf := linOf(bnd, 0)
			direct := false
			for k := range lf {
				if strings.HasPrefix(k, "Error.Column(") {
					direct = true
				}
			}
			if direct {
				c.bad(construct, sl.Pos(), "the line is sliced at Column-1 bytes, but columns count characters: after non-ASCII text the caret and the underline are misplaced (or a character is cut in two)")
			} else {
				c.ok(construct, sl.Pos(), "sliced at a byte offset computed from the character column: "+lf.String())
			}
		}
	})
	if n == 0 {
		c.anchorMissing("slices of the source line in (*Error).getIndicator")
	}
}

func init() {
	register(&Rule{ID: "C11.USESCASE", Min: 2, Doc: "the action that takes a script is recognised whatever the letter case of its owner and repository", Run: runC11UsesCase})
	register(&Rule{ID: "C05.MATEXPR", Min: 2, Doc: "a matrix given by one expression is typed row by row with the element types and left open", Run: runC05MatExpr})
	register(&Rule{ID: "C06.WIDEN", Min: 2, Doc: "an include value of unknown type widens the types of the matrix properties it may overwrite", Run: runC06Widen})
	register(&Rule{ID: "C14.SPECIALKEYS", Min: 1, Doc: "the with: keys the parser stores outside Inputs are taken into account when required inputs are looked for", Run: runC14SpecialKeys})
	register(&Rule{ID: "C17.COLUNIT", Min: 2, Doc: "every column of a glob error counts characters", Run: runC17ColUnit})
	register(&Rule{ID: "C17.NEGREF", Min: 1, Doc: "the rules for the first character of a ref name are applied behind a leading !", Run: runC17NegRef})
	register(&Rule{ID: "C07.EMPTYDOC", Min: 1, Doc: "the implicit empty document is given the position of the document", Run: runC07EmptyDoc})
	register(&Rule{ID: "C16.COLCHARS", Min: 2, Doc: "the offsets added to the column of a placeholder count characters, the unit of YAML columns and of the renderer", Run: runC16ColChars})
}

func runC11UsesCase(c *Ctx) {
	p := c.P
	e := p.lowerEngine()
	n := 0
	for _, fn := range p.Funcs {
		for _, call := range findCalls(fn, "strings.HasPrefix") {
			s, ok := constString(call.Common().Args[1])
			if !ok || !strings.Contains(s, "actions/github-script@") {
				continue
			}
			n++
			construct := fmt.Sprintf("%s|prefix test for actions/github-script#%d", FuncName(fn), n)
			if e.isLower(call.Common().Args[0], 0) {
				c.ok(construct, call.Pos(), "the spec is lower-cased before it is compared with the lower-case prefix")
			} else {
				c.bad(construct, call.Pos(), "the spec is compared as written: `uses: Actions/GitHub-Script@v7` (owner and repository names are case-insensitive) is not recognised, so its script: input is not checked for untrusted input")
			}
		}
	}
	if n == 0 {
		c.anchorMissing("strings.HasPrefix(..., \"actions/github-script@\")")
	}
}

func runC05MatExpr(c *Ctx) {
	p := c.P
	fn := p.Method("RuleExpression", "checkMatrixExpression")
	if fn == nil {
		c.anchorMissing("(*RuleExpression).checkMatrixExpression")
		return
	}
	// (a) rows: a property is replaced by the element type of its array type
	rows := false
	eachInstr(fn, func(b *ssa.BasicBlock, _ int, in ssa.Instruction) {
		mu, ok := in.(*ssa.MapUpdate)
		if !ok {
			return
		}
		if f, _ := fieldLoad(mu.Map); f != "ObjectType.Props" {
			return
		}
		if f, _ := fieldLoad(mu.Value); f == "ArrayType.Elem" && blockInCycle(b) {
			rows = true
		}
	})
	if rows {
		c.ok("(*RuleExpression).checkMatrixExpression|rows typed by their elements", fn.Pos(), "each array-typed property is replaced by its element type")
	} else {
		c.bad("(*RuleExpression).checkMatrixExpression|rows typed by their elements", fn.Pos(), "the object type of the expression is used as the matrix type as it is: `matrix: ${{ fromJSON('{\"os\":[\"a\",\"b\"]}') }}` types matrix.os as array<string>")
	}
	// (b) every returned object is open
	okAll, n := true, 0
	var badPos token.Pos
	for _, b := range fn.Blocks {
		ret, ok := b.Instrs[len(b.Instrs)-1].(*ssa.Return)
		if !ok || len(ret.Results) != 1 {
			continue
		}
		n++
		v := ret.Results[0]
		if call, ok := v.(*ssa.Call); ok {
			if f := staticCallee(&call.Call); f != nil && FuncName(f) == "NewEmptyObjectType" {
				continue
			}
		}
		loosened := false
		for _, call := range findCalls(fn, "(*ObjectType).Loose") {
			if call.Common().Args[0] == v && (call.Block() == b || call.Block().Dominates(b)) {
				loosened = true
			}
		}
		if !loosened {
			okAll = false
			badPos = ret.Pos()
		}
	}
	switch {
	case n == 0:
		c.anchorMissing("returns of checkMatrixExpression")
	case okAll:
		c.ok("(*RuleExpression).checkMatrixExpression|matrix given by an expression is open", fn.Pos(), "every return hands out NewEmptyObjectType() or an object on which Loose() was called")
	default:
		c.bad("(*RuleExpression).checkMatrixExpression|matrix given by an expression is open", badPos, "a strict object is returned for a matrix whose defining section is an expression: references into it are reported as undefined")
	}
}

func runC06Widen(c *Ctx) {
	p := c.P
	isAnyStore := func(in ssa.Instruction) bool {
		mu, ok := in.(*ssa.MapUpdate)
		if !ok {
			return false
		}
		if f, _ := fieldLoad(mu.Map); f != "ObjectType.Props" {
			return false
		}
		mi, ok := mu.Value.(*ssa.MakeInterface)
		return ok && typeStr(mi.X.Type()) == "AnyType"
	}
	// checkMatrix: the Loose() taken when an include element is not an object
	if fn := p.Method("RuleExpression", "checkMatrix"); fn == nil {
		c.anchorMissing("(*RuleExpression).checkMatrix")
	} else {
		n := 0
		for _, call := range findCalls(fn, "(*ObjectType).Loose") {
			n++
			construct := fmt.Sprintf("(*RuleExpression).checkMatrix|include element of unknown type#%d", n)
			widened := false
			eachInstr(fn, func(b *ssa.BasicBlock, _ int, in ssa.Instruction) {
				if !isAnyStore(in) || !instrReachableAfter(call, in) {
					return
				}
				// a store that is guarded by a boolean variable only counts when that variable is true on every path
				// from the opening of the object to the guard
				for ifi, outcome := range controllingConds(b) {
					if _, isPhi := ifi.Cond.(*ssa.Phi); isPhi && isBoolType(ifi.Cond.Type()) {
						if !outcome || !flagTrueFrom(call.Block(), ifi) {
							return
						}
					}
				}
				widened = true
			})
			if widened {
				c.ok(construct, call.Pos(), "after the object was opened the property types are replaced by any")
			} else {
				c.bad(construct, call.Pos(), "the object is only opened: the precise types recorded for the rows stay, so `include: [${{ fromJSON(x) }}]` makes `matrix.foo.bar` an error although the element may redefine foo")
			}
		}
		if n == 0 {
			c.anchorMissing("Loose() in (*RuleExpression).checkMatrix")
		}
	}
	// checkMatrixExpression: the include property that is not an array of objects
	if fn := p.Method("RuleExpression", "checkMatrixExpression"); fn == nil {
		c.anchorMissing("(*RuleExpression).checkMatrixExpression")
	} else {
		var del ssa.Instruction
		eachInstr(fn, func(_ *ssa.BasicBlock, _ int, in ssa.Instruction) {
			if call, ok := in.(*ssa.Call); ok {
				if bi, ok := call.Call.Value.(*ssa.Builtin); ok && bi.Name() == "delete" {
					if s, ok := constString(call.Call.Args[1]); ok && s == "include" {
						del = call
					}
				}
			}
		})
		if del == nil {
			c.anchorMissing("delete(Props, \"include\") in checkMatrixExpression")
		} else {
			widened := false
			eachInstr(fn, func(_ *ssa.BasicBlock, _ int, in ssa.Instruction) {
				if isAnyStore(in) && instrReachableAfter(del, in) && blockInCycle(in.Block()) {
					widened = true
				}
			})
			construct := "(*RuleExpression).checkMatrixExpression|include of unknown type"
			if widened {
				c.ok(construct, del.Pos(), "when include is not an array of objects every property type is replaced by any")
			} else {
				c.bad(construct, del.Pos(), "an include value that is not an array of objects is dropped and the row types stay precise")
			}
		}
	}
}

func runC14SpecialKeys(c *Ctx) {
	p := c.P
	fn := p.Method("RuleAction", "checkAction")
	if fn == nil {
		c.anchorMissing("(*RuleAction).checkAction")
		return
	}
	// which with: keys does the parser keep outside ExecAction.Inputs?
	ps := p.Method("parser", "parseStep")
	special := map[string]bool{}
	if ps != nil {
		eachInstr(ps, func(_ *ssa.BasicBlock, _ int, in ssa.Instruction) {
			if st, ok := in.(*ssa.Store); ok {
				if fa, ok := st.Addr.(*ssa.FieldAddr); ok {
					if n := fieldAddrName(fa); n == "ExecAction.Args" || n == "ExecAction.Entrypoint" {
						special[n] = true
					}
				}
			}
		})
	}
	if len(special) == 0 {
		c.ok("(*RuleAction).checkAction|with: keys stored outside Inputs", fn.Pos(), "the parser keeps every with: key in Inputs")
		return
	}
	// (a) the loop that looks the required inputs up in exec.Inputs also consults the special fields
	var reqLoop map[*ssa.BasicBlock]bool
	for _, h := range loopHeaders(fn) {
		body := naturalLoop(h)
		rangesMeta, looksUpExec := false, false
		for b := range body {
			for _, in := range b.Instrs {
				if rg, ok := in.(*ssa.Range); ok {
					if f, _ := fieldLoad(rg.X); f == "ActionMetadata.Inputs" {
						rangesMeta = true
					}
				}
				if lk, ok := in.(*ssa.Lookup); ok && lk.CommaOk {
					if f, _ := fieldLoad(lk.X); f == "ExecAction.Inputs" {
						looksUpExec = true
					}
				}
			}
		}
		// the Range instruction itself sits in the preheader: accept a loop whose Next iterates it
		if !rangesMeta {
			for b := range body {
				for _, in := range b.Instrs {
					if nx, ok := in.(*ssa.Next); ok {
						if rg, ok := nx.Iter.(*ssa.Range); ok {
							if f, _ := fieldLoad(rg.X); f == "ActionMetadata.Inputs" {
								rangesMeta = true
							}
						}
					}
				}
			}
		}
		if rangesMeta && looksUpExec {
			reqLoop = body
		}
	}
	if reqLoop == nil {
		c.anchorMissing("loop over ActionMetadata.Inputs that looks the input up in ExecAction.Inputs")
	} else {
		read := map[string]bool{}
		for b := range reqLoop {
			for _, in := range b.Instrs {
				if fa, ok := in.(*ssa.FieldAddr); ok {
					read[fieldAddrName(fa)] = true
				}
			}
		}
		var missing []string
		for f := range special {
			if !read[f] {
				missing = append(missing, f)
			}
		}
		sort.Strings(missing)
		if len(missing) == 0 {
			c.ok("(*RuleAction).checkAction|with: keys stored outside Inputs", fn.Pos(), "Args and Entrypoint are consulted where required inputs are looked for")
		} else {
			c.bad("(*RuleAction).checkAction|with: keys stored outside Inputs", fn.Pos(), "parseStep stores with.args / with.entrypoint in "+strings.Join(missing, ", ")+", which the search for missing required inputs never reads: an action that declares a required input of that name always gets \"missing input\"")
		}
	}
	// (b) the other direction: a special key the action does not declare is reported (for actions that are not Docker
	// container actions, where args and entrypoint are ordinary inputs): a reporting call controlled by a look-up of
	// the constant names in the declared inputs
	reported := false
	for _, h := range loopHeaders(fn) {
		body := naturalLoop(h)
		looksUpMeta, reports, consts := false, false, map[string]bool{}
		for b := range body {
			for _, in := range b.Instrs {
				if lk, ok := in.(*ssa.Lookup); ok && lk.CommaOk {
					if f, _ := fieldLoad(lk.X); f == "ActionMetadata.Inputs" {
						looksUpMeta = true
					}
				}
				if call, ok := in.(ssa.CallInstruction); ok {
					if f := staticCallee(call.Common()); f != nil && FuncName(f) == "(*RuleBase).Errorf" {
						reports = true
					}
				}
			}
		}
		eachInstr(fn, func(_ *ssa.BasicBlock, _ int, in ssa.Instruction) {
			if st, ok := in.(*ssa.Store); ok {
				if s, ok := constString(st.Val); ok && (s == "args" || s == "entrypoint") {
					consts[s] = true
				}
			}
		})
		if looksUpMeta && reports && consts["args"] && consts["entrypoint"] {
			reported = true
		}
	}
	if reported {
		c.ok("(*RuleAction).checkAction|undeclared special keys", fn.Pos(), "args and entrypoint are looked up in the declared inputs and reported when absent")
	} else {
		c.bad("(*RuleAction).checkAction|undeclared special keys", fn.Pos(), "with.args / with.entrypoint are never compared with the declared inputs: for an action that is not a Docker container action an undeclared `args` is not reported")
	}
}

func runC17ColUnit(c *Ctx) {
	p := c.P
	n := 0
	for _, fn := range p.Funcs {
		if !strings.HasSuffix(p.unitFile(fn), "/glob.go") {
			continue
		}
		eachInstr(fn, func(_ *ssa.BasicBlock, _ int, in ssa.Instruction) {
			st, ok := in.(*ssa.Store)
			if !ok {
				return
			}
			fa, ok := st.Addr.(*ssa.FieldAddr)
			if !ok || fieldAddrName(fa) != "InvalidGlobPattern.Column" {
				return
			}
			n++
			construct := fmt.Sprintf("%s|column of a glob error#%d", FuncName(fn), n)
			if call, ok := st.Val.(*ssa.Call); ok {
				if bi, ok := call.Call.Value.(*ssa.Builtin); ok && bi.Name() == "len" {
					if b, ok := call.Call.Args[0].Type().Underlying().(*types.Basic); ok && b.Info()&types.IsString != 0 {
						c.bad(construct, st.Pos(), "the column is the byte length of the pattern, all other columns (scanner positions, YAML columns) count characters: after a multi-byte character the report lies behind the pattern")
						return
					}
				}
			}
			c.ok(construct, st.Pos(), "not a byte length: "+symName(st.Val))
		})
	}
	if n == 0 {
		c.anchorMissing("stores to InvalidGlobPattern.Column in glob.go")
	}
}

func runC17NegRef(c *Ctx) {
	p := c.P
	fn := p.Method("globValidator", "validate")
	if fn == nil {
		c.anchorMissing("(*globValidator).validate")
		return
	}
	// the successor taken when the first character is '!': in validate itself, or in a helper of the validator that it
	// hands the leading character to (the function split in two)
	var bang *ssa.BasicBlock
	for _, f := range p.withHelpers(fn, 1) {
		if f != fn && !(f.Signature.Recv() != nil && pointeeName(f.Signature.Recv().Type()) == pointeeName(fn.Signature.Recv().Type())) {
			continue
		}
		for _, b := range f.Blocks {
			ifi, ok := b.Instrs[len(b.Instrs)-1].(*ssa.If)
			if !ok {
				continue
			}
			if bo, ok := ifi.Cond.(*ssa.BinOp); ok && bo.Op == token.EQL {
				if k, ok := constInt(bo.Y); ok && k == '!' && bang == nil {
					bang = b.Succs[0]
				}
			}
		}
	}
	if bang == nil {
		c.anchorMissing("test for a leading ! in (*globValidator).validate")
		return
	}
	found := false
	for blk := range reachableBlocks([]*ssa.BasicBlock{bang}, nil) {
		for _, in := range blk.Instrs {
			if bo, ok := in.(*ssa.BinOp); ok && bo.Op == token.EQL {
				if k, ok := constInt(bo.Y); ok && k == '/' {
					found = true
				}
			}
		}
	}
	construct := "(*globValidator).validate|first character behind !"
	if found {
		c.ok(construct, fn.Pos(), "the character behind a leading ! is tested for /")
	} else {
		c.bad(construct, fn.Pos(), "after a leading ! nothing tests the next character for /: `!/foo` is accepted as a ref filter although `/foo` is rejected")
	}
}

func runC07EmptyDoc(c *Ctx) {
	p := c.P
	fn := p.Method("parser", "parse")
	if fn == nil {
		c.anchorMissing("(*parser).parse")
		return
	}
	fixed := false
	eachInstr(fn, func(_ *ssa.BasicBlock, _ int, in ssa.Instruction) {
		st, ok := in.(*ssa.Store)
		if !ok {
			return
		}
		fa, ok := st.Addr.(*ssa.FieldAddr)
		if !ok || fieldAddrName(fa) != "yaml.Node.Line" {
			return
		}
		// the node is an element of Content, not the document node (the parameter) itself
		if _, isParam := fa.X.(*ssa.Parameter); isParam {
			return
		}
		fixed = true
	})
	construct := "(*parser).parse|position of the implicit empty document"
	if fixed {
		c.ok(construct, fn.Pos(), "the content node of an empty document is moved to the position of the document")
	} else {
		c.bad(construct, fn.Pos(), "yaml.v3 puts the implicit empty scalar of `---` at the stream end, one line past the last line: \"workflow should not be empty\" is reported at a line that does not exist")
	}
}

func runC16ColChars(c *Ctx) {
	p := c.P
	fn := p.Method("RuleExpression", "checkExprsIn")
	if fn == nil {
		c.anchorMissing("(*RuleExpression).checkExprsIn")
		return
	}
	// the loop-carried integer that is added to the column: each of its increments is a character count
	n := 0
	for _, h := range loopHeaders(fn) {
		body := naturalLoop(h)
		for _, in := range h.Instrs {
			ph, ok := in.(*ssa.Phi)
			if !ok {
				break
			}
			if b, ok := ph.Type().Underlying().(*types.Basic); !ok || b.Info()&types.IsInteger == 0 {
				continue
			}
			for i, e := range ph.Edges {
				if !body[h.Preds[i]] {
					continue
				}
				// e = ph + t1 + t2 ...: collect the added terms
				var terms []ssa.Value
				var walk func(v ssa.Value, d int)
				self := false
				walk = func(v ssa.Value, d int) {
					if v == ssa.Value(ph) {
						self = true
						return
					}
					if d > 6 {
						return
					}
					if bo, ok := v.(*ssa.BinOp); ok && bo.Op == token.ADD {
						walk(bo.X, d+1)
						walk(bo.Y, d+1)
						return
					}
					terms = append(terms, v)
				}
				walk(e, 0)
				if !self {
					// not an accumulator: a value found anew on every iteration (`i = strings.Index(..)` of a for clause)
					continue
				}
				for _, t := range terms {
					n++
					construct := fmt.Sprintf("(*RuleExpression).checkExprsIn|unit of the offset added to the column#%d", n)
					if call, ok := t.(*ssa.Call); ok && strings.HasPrefix(calleeFullName(&call.Call), "unicode/utf8.RuneCount") {
						c.ok(construct, t.Pos(), "a number of characters")
					} else if _, isConst := t.(*ssa.Const); isConst {
						c.ok(construct, t.Pos(), "a constant number of ASCII characters")
					} else {
						c.bad(construct, e.Pos(), "the offset "+symName(t)+" is a number of bytes: with non-ASCII text before a placeholder the reported column exceeds the character column, the caret of the snippet (drawn at the character column) is misplaced and diagnostics of different scalars can tie on one position")
					}
				}
			}
		}
	}
	if n == 0 {
		c.anchorMissing("offset accumulated in (*RuleExpression).checkExprsIn")
	}
}
