package main

import (
	"fmt"
	"go/constant"
	"go/token"
	"go/types"
	"sort"
	"strings"

	"golang.org/x/tools/go/ssa"
)

// Helpers of the white-box round on C13-C16.

// innermostLoopOf: the header of the innermost natural loop that contains b, or nil.
func innermostLoopOf(fn *ssa.Function, b *ssa.BasicBlock) *ssa.BasicBlock {
	var head *ssa.BasicBlock
	for _, h := range loopHeaders(fn) {
		if body := naturalLoop(h); body[b] && (head == nil || naturalLoop(head)[h]) {
			head = h
		}
	}
	return head
}

// loopSideExit: a block of the natural loop of h, other than h itself, that has a successor outside the loop (break, return
// or goto inside the body): the loop can end before its header says that every element was visited. nil if there is none.
func loopSideExit(h *ssa.BasicBlock) *ssa.BasicBlock {
	body := naturalLoop(h)
	var exit *ssa.BasicBlock
	for b := range body {
		if b == h {
			continue
		}
		for _, s := range b.Succs {
			if !body[s] && (exit == nil || b.Index < exit.Index) {
				exit = b
			}
		}
	}
	return exit
}

// exitPos: a position inside block b for messages (the last instruction that has one).
func exitPos(b *ssa.BasicBlock) token.Pos {
	for i := len(b.Instrs) - 1; i >= 0; i-- {
		if p := b.Instrs[i].Pos(); p.IsValid() {
			return p
		}
	}
	for _, s := range b.Succs {
		for _, in := range s.Instrs {
			if p := in.Pos(); p.IsValid() {
				return p
			}
		}
	}
	return b.Parent().Pos()
}

// computedFrom: v is computed from target (through phis, field addresses, loads, conversions, calls' arguments), looking back
// at most depth steps.
func computedFrom(v, target ssa.Value, depth int) bool {
	if v == target {
		return true
	}
	if depth <= 0 {
		return false
	}
	in, ok := v.(ssa.Instruction)
	if !ok {
		return false
	}
	for _, op := range in.Operands(nil) {
		if *op != nil && computedFrom(*op, target, depth-1) {
			return true
		}
	}
	return false
}

// ---- C15.PURE: a diagnostic is dropped iff a pattern matches it ----

// filtState is one abstract state of the walk through a filter function: where we are, whether we are inside an iteration of
// the loop over the input, whether a pattern matched the current element in this iteration (m), whether the element was
// appended to the result (a), which pattern sets are known to be empty (e1: command line, e2: per-path), and the known
// values of boolean flags (env).
type filtState struct {
	b      *ssa.BasicBlock
	inIter bool
	m, a   bool
	e1, e2 bool
	rs     string             // per loop that tries patterns: '0' not reached, '1' entered, '2' exhausted
	env    map[ssa.Value]byte // 'T', 'F', 'M' (the result of a match on the element, not yet branched on), 'N' (its negation)
}

func (s filtState) key() string {
	k := []byte{byte('0' + s.b.Index/100), byte('0' + s.b.Index/10%10), byte('0' + s.b.Index%10), '|'}
	for _, f := range []bool{s.inIter, s.m, s.a, s.e1, s.e2} {
		if f {
			k = append(k, '1')
		} else {
			k = append(k, '0')
		}
	}
	var names []string
	for v, x := range s.env {
		names = append(names, v.Name()+"="+string(x))
	}
	sort.Strings(names)
	return string(k) + "|" + s.rs + "|" + strings.Join(names, ",")
}

type filtWalk struct {
	fn     *ssa.Function
	isElem func(ssa.Value) bool
	head   *ssa.BasicBlock          // header of the loop over the input (nil in a helper)
	body   map[*ssa.BasicBlock]bool // its natural loop
	input  ssa.Value                // the input slice (nil in a helper)
	depth  int
	cache  map[*ssa.Call]bool
	// results
	problems []string
	retsOfM  bool // helper: every return hands back exactly "a pattern matched"
	nRet     int
	nApp     int
	nInput   int // returns of the unfiltered input
	counted  map[ssa.Instruction]bool
}

func (w *filtWalk) once(in ssa.Instruction) bool {
	if w.counted == nil {
		w.counted = map[ssa.Instruction]bool{}
	}
	if w.counted[in] {
		return false
	}
	w.counted[in] = true
	return true
}

func (w *filtWalk) problem(pos token.Pos, msg string) {
	at := w.fn.Prog.Fset.Position(pos)
	s := fmt.Sprintf("%s (line %d)", msg, at.Line)
	for _, p := range w.problems {
		if p == s {
			return
		}
	}
	w.problems = append(w.problems, s)
}

// matchLike: v is the result of IgnorePatterns.Match on the current element, or of a helper of the module that returns
// true exactly when some pattern matched the element it is given.
func (w *filtWalk) matchLike(v ssa.Value) bool {
	call, ok := v.(*ssa.Call)
	if !ok {
		return false
	}
	if r, ok := w.cache[call]; ok {
		return r
	}
	r := w.matchLike0(call)
	if w.cache == nil {
		w.cache = map[*ssa.Call]bool{}
	}
	w.cache[call] = r
	return r
}

func (w *filtWalk) matchLike0(call *ssa.Call) bool {
	g := staticCallee(&call.Call)
	if g == nil {
		return false
	}
	if FuncName(g) == "(IgnorePatterns).Match" {
		return len(call.Call.Args) == 2 && w.isElem(call.Call.Args[1])
	}
	if calleeFullName(&call.Call) == "(*regexp.Regexp).MatchString" && len(call.Call.Args) == 2 {
		f, base := fieldLoad(call.Call.Args[1])
		return f == "Error.Message" && w.isElem(base)
	}
	if !inModule(g) || g.Blocks == nil || w.depth >= 2 || g.Signature.Results().Len() != 1 {
		return false
	}
	if b, ok := g.Signature.Results().At(0).Type().Underlying().(*types.Basic); !ok || b.Kind() != types.Bool {
		return false
	}
	for i, a := range call.Call.Args {
		if w.isElem(a) && i < len(g.Params) {
			par := g.Params[i]
			h := &filtWalk{fn: g, isElem: func(x ssa.Value) bool { return x == ssa.Value(par) }, depth: w.depth + 1, retsOfM: true}
			h.run()
			return h.retsOfM && h.nRet > 0 && len(h.problems) == 0
		}
	}
	return false
}

// emptiness: cond is len(X) == 0 / != 0 / > 0 for X a pattern set; which set (1 command line, 2 per-path) and on which
// outcome it is empty.
func emptiness(cond ssa.Value) (set int, emptyOnTrue bool) {
	bo, ok := cond.(*ssa.BinOp)
	if !ok {
		return 0, false
	}
	call, ok := bo.X.(*ssa.Call)
	if !ok {
		return 0, false
	}
	if bi, ok := call.Call.Value.(*ssa.Builtin); !ok || bi.Name() != "len" {
		return 0, false
	}
	if k, ok := constInt(bo.Y); !ok || k != 0 {
		return 0, false
	}
	switch bo.Op {
	case token.EQL:
		emptyOnTrue = true
	case token.NEQ, token.GTR:
	default:
		return 0, false
	}
	x := call.Call.Args[0]
	if n := namedOf(x.Type()); n != nil && n.Obj().Name() == "IgnorePatterns" {
		return 1, emptyOnTrue
	}
	if sl, ok := x.Type().Underlying().(*types.Slice); ok {
		if n := namedOf(sl.Elem()); n != nil && n.Obj().Name() == "PathConfig" {
			return 2, emptyOnTrue
		}
	}
	return 0, false
}

func (w *filtWalk) valueOf(env map[ssa.Value]byte, v ssa.Value) byte {
	neg := false
	for {
		u, ok := v.(*ssa.UnOp)
		if !ok || u.Op != token.NOT {
			break
		}
		v, neg = u.X, !neg
	}
	var x byte
	if k, ok := v.(*ssa.Const); ok && k.Value != nil && k.Value.Kind() == constant.Bool {
		x = 'F'
		if constant.BoolVal(k.Value) {
			x = 'T'
		}
	} else if e, ok := env[v]; ok {
		x = e
	} else if w.matchLike(v) {
		x = 'M'
	}
	if neg {
		switch x {
		case 'T':
			x = 'F'
		case 'F':
			x = 'T'
		case 'M':
			x = 'N'
		case 'N':
			x = 'M'
		}
	}
	return x
}

func (w *filtWalk) run() {
	seen := map[string]bool{}
	start := filtState{b: w.fn.Blocks[0], env: map[ssa.Value]byte{}}
	work := []filtState{start}
	seen[start.key()] = true
	push := func(s filtState) {
		if k := s.key(); !seen[k] && len(seen) < 20000 {
			seen[k] = true
			work = append(work, s)
		}
	}
	// the loops over a slice that try patterns on the element (other than the loop over the input itself), recognised by
	// their test `index < len(slice)` even when no path leads back to it (go/ssa then fuses the header with its predecessor): a verdict "no pattern matched" (return false, append) is only right
	// when each of them that was entered has also been exhausted
	var tryHeads []*ssa.BasicBlock
	for _, h := range w.fn.Blocks {
		if h == w.head || !endsInIndexBelowLen(h) {
			continue
		}
		tries := false
		for b := range reachableBlocks([]*ssa.BasicBlock{h.Succs[0]}, map[*ssa.BasicBlock]bool{h: true}) {
			if w.head != nil && !w.body[b] {
				continue
			}
			for _, in := range b.Instrs {
				if v, ok := in.(ssa.Value); ok && w.matchLike(v) {
					tries = true
				}
			}
		}
		if tries {
			tryHeads = append(tryHeads, h)
		}
	}
	work[0].rs = strings.Repeat("0", len(tryHeads))
	entered := func(s filtState) bool { return strings.Contains(s.rs, "1") }
	for len(work) > 0 {
		s := work[len(work)-1]
		work = work[:len(work)-1]
		b := s.b
		for k, h := range tryHeads {
			if b == h {
				rs := []byte(s.rs)
				rs[k] = '1'
				s.rs = string(rs)
			}
		}
		for _, in := range b.Instrs {
			switch x := in.(type) {
			case *ssa.Call:
				if bi, ok := x.Call.Value.(*ssa.Builtin); ok && bi.Name() == "append" && w.head != nil && len(x.Call.Args) == 2 {
					if elems, ok := variadicArgs(x.Call.Args[1]); ok {
						for _, e := range elems {
							if e != nil && w.isElem(e) {
								if w.once(x) {
									w.nApp++
								}
								if s.m {
									w.problem(x.Pos(), "a diagnostic is appended to the result on a path on which a pattern matched it")
								} else if entered(s) {
									w.problem(x.Pos(), "a diagnostic is kept although a loop that tries the patterns one after the other was left before all of them were consulted")
								}
								if !s.inIter {
									w.problem(x.Pos(), "an element of the input is appended outside the loop over the input")
								}
								s.a = true
							}
						}
					}
				} else if g := staticCallee(&x.Call); g != nil && FuncName(g) == "(IgnorePatterns).Match" && w.head != nil && w.body[b] && !w.matchLike(x) {
					w.problem(x.Pos(), "a pattern set is matched against something other than the diagnostic of this iteration")
				}
			case *ssa.Return:
				w.nRet++
				if w.head == nil {
					// helper: the result is "a pattern matched"
					if len(x.Results) != 1 {
						w.retsOfM = false
						break
					}
					switch w.valueOf(s.env, x.Results[0]) {
					case 'T':
						if !s.m {
							w.retsOfM = false
						}
					case 'F':
						if s.m {
							w.retsOfM = false
						} else if entered(s) {
							w.problem(x.Pos(), "the answer `no pattern matches` is given although the loop over the patterns was left before all of them were consulted")
						}
					case 'M':
						if s.m {
							w.retsOfM = false
						} else if entered(s) {
							w.problem(x.Pos(), "the verdict of one pattern is returned from inside the loop over the patterns: the remaining patterns are not consulted")
						}
					default:
						w.retsOfM = false
					}
					break
				}
				if s.inIter {
					w.problem(x.Pos(), "the function returns in the middle of the loop over the input")
				}
				if len(x.Results) == 1 && x.Results[0] == w.input {
					if w.once(x) {
						w.nInput++
					}
					if !s.e1 || !s.e2 {
						w.problem(x.Pos(), "the input is returned unfiltered on a path on which only one of the two pattern sets (command line, per-path configuration) is known to be empty")
					}
				}
			}
		}
		last := b.Instrs[len(b.Instrs)-1]
		var outs []int // successor indexes to follow
		var tweak [2]func(*filtState)
		if ifi, ok := last.(*ssa.If); ok {
			outs = []int{0, 1}
			cond, neg := ifi.Cond, false
			for {
				u, ok := cond.(*ssa.UnOp)
				if !ok || u.Op != token.NOT {
					break
				}
				cond, neg = u.X, !neg
			}
			idx := func(truth bool) int { // successor taken when cond (without the negations) has this truth value
				if truth != neg {
					return 0
				}
				return 1
			}
			switch v := w.valueOf(s.env, cond); v {
			case 'T':
				outs = []int{idx(true)}
			case 'F':
				outs = []int{idx(false)}
			case 'M', 'N':
				c0 := cond
				tm, fm := byte('T'), byte('F')
				if v == 'N' {
					tm, fm = 'F', 'T'
				}
				// cond true: for 'M' a pattern matched, for 'N' none did
				tweak[idx(true)] = func(n *filtState) {
					n.env[c0] = 'T'
					if tm == 'T' {
						n.m = true
					}
				}
				tweak[idx(false)] = func(n *filtState) {
					n.env[c0] = 'F'
					if fm == 'T' {
						n.m = true
					}
				}
			default:
				if set, emptyOnTrue := emptiness(cond); set != 0 {
					tweak[idx(emptyOnTrue)] = func(n *filtState) {
						if set == 1 {
							n.e1 = true
						} else {
							n.e2 = true
						}
					}
				}
			}
		} else {
			for i := range b.Succs {
				outs = append(outs, i)
			}
		}
		for _, i := range outs {
			to := b.Succs[i]
			n := filtState{b: to, inIter: s.inIter, m: s.m, a: s.a, e1: s.e1, e2: s.e2, rs: s.rs, env: map[ssa.Value]byte{}}
			for k, v := range s.env {
				n.env[k] = v
			}
			if i < 2 && tweak[i] != nil {
				tweak[i](&n)
			}
			// phis of the target
			pi := -1
			for j, pr := range to.Preds {
				if pr == b {
					pi = j
				}
			}
			vals := map[ssa.Value]byte{}
			for _, in := range to.Instrs {
				ph, ok := in.(*ssa.Phi)
				if !ok {
					break
				}
				if bt, ok := ph.Type().Underlying().(*types.Basic); !ok || bt.Kind() != types.Bool || pi < 0 {
					continue
				}
				vals[ph] = w.valueOf(n.env, ph.Edges[pi])
			}
			for ph, v := range vals {
				if v == 0 {
					delete(n.env, ph)
				} else {
					n.env[ph] = v
				}
			}
			rs := []byte(n.rs)
			for k, h := range tryHeads {
				if b == h && i == 1 {
					rs[k] = '2'
				}
			}
			n.rs = string(rs)
			if w.head != nil {
				switch {
				case to == w.head && w.body[b]:
					// end of an iteration
					if !n.m && !n.a {
						w.problem(exitPos(b), "an iteration can end without appending a diagnostic that no pattern matched")
					}
					n.inIter, n.m, n.a = false, false, false
					n.env = map[ssa.Value]byte{}
					n.rs = strings.Repeat("0", len(tryHeads))
				case b == w.head && w.body[to]:
					n.inIter, n.m, n.a = true, false, false
				case w.body[b] && !w.body[to] && b != w.head:
					w.problem(exitPos(b), "the loop over the input is left from inside its body: the diagnostics behind that point are dropped")
					continue
				}
			}
			push(n)
		}
	}
}

// filterDropsIffMatched analyses fn, a function that filters the slice `input` (a parameter) by appending its elements in a
// loop. It returns the problems found, the number of appends of input elements and the number of returns of the input itself.
func filterDropsIffMatched(fn *ssa.Function, input *ssa.Parameter) (problems []string, nApp, nInput int) {
	// the loop: the innermost loop around an append of an element of the input
	isElem := func(v ssa.Value) bool {
		ld, ok := v.(*ssa.UnOp)
		if !ok || ld.Op != token.MUL {
			return false
		}
		ia, ok := ld.X.(*ssa.IndexAddr)
		return ok && ia.X == ssa.Value(input)
	}
	var head *ssa.BasicBlock
	eachInstr(fn, func(b *ssa.BasicBlock, _ int, in ssa.Instruction) {
		call, ok := in.(*ssa.Call)
		if !ok || head != nil {
			return
		}
		if bi, ok := call.Call.Value.(*ssa.Builtin); !ok || bi.Name() != "append" || len(call.Call.Args) != 2 {
			return
		}
		if elems, ok := variadicArgs(call.Call.Args[1]); ok {
			for _, e := range elems {
				if e != nil && isElem(e) {
					head = innermostLoopOf(fn, b)
				}
			}
		}
	})
	if head == nil {
		return []string{"no loop that appends the elements of the input"}, 0, 0
	}
	body := naturalLoop(head)
	// the element of this iteration: read at an index that is computed inside the loop
	elemOfIter := func(v ssa.Value) bool {
		if !isElem(v) {
			return false
		}
		ix, ok := v.(*ssa.UnOp).X.(*ssa.IndexAddr).Index.(ssa.Instruction)
		return ok && ix.Block() != nil && body[ix.Block()]
	}
	w := &filtWalk{fn: fn, isElem: elemOfIter, head: head, body: body, input: input}
	w.run()
	sort.Strings(w.problems)
	return w.problems, w.nApp, w.nInput
}

// returnsSomePatternMatched analyses g, a function that gets a diagnostic as parameter number elem: "" when every return of
// g hands back true exactly on the paths on which a pattern was matched against that diagnostic's message and came out
// true, and no loop over patterns is given up before a match; else what is wrong.
func returnsSomePatternMatched(g *ssa.Function, elem int) string {
	if g.Blocks == nil || elem >= len(g.Params) {
		return "no body"
	}
	par := g.Params[elem]
	h := &filtWalk{fn: g, isElem: func(x ssa.Value) bool { return x == ssa.Value(par) }, depth: 1, retsOfM: true}
	h.run()
	switch {
	case len(h.problems) > 0:
		sort.Strings(h.problems)
		return strings.Join(h.problems, "; ")
	case h.nRet == 0:
		return "no return"
	case !h.retsOfM:
		return "a return does not hand back whether some pattern matched (true without a match, false after one, or a value that is neither)"
	}
	return ""
}

// endsInIndexBelowLen: the block ends in `if i < len(s)` for a slice s: the head of a loop over the slice (or what is left of
// it when its body never goes round).
func endsInIndexBelowLen(b *ssa.BasicBlock) bool {
	if len(b.Instrs) == 0 || len(b.Succs) != 2 {
		return false
	}
	ifi, ok := b.Instrs[len(b.Instrs)-1].(*ssa.If)
	if !ok {
		return false
	}
	bo, ok := ifi.Cond.(*ssa.BinOp)
	if !ok || bo.Op != token.LSS {
		return false
	}
	call, ok := bo.Y.(*ssa.Call)
	if !ok {
		return false
	}
	if bi, ok := call.Call.Value.(*ssa.Builtin); !ok || bi.Name() != "len" {
		return false
	}
	_, isSlice := call.Call.Args[0].Type().Underlying().(*types.Slice)
	return isSlice
}

// ---- C15.APPLIES: a `paths` entry applies to a file iff its glob matches the path ----

func init() {
	register(&Rule{ID: "C15.APPLIES", Min: 3, Doc: "a `paths` entry of the configuration applies to a file iff its glob matches the path handed in", Run: runC15Applies})
}

func runC15Applies(c *Ctx) {
	p := c.P
	fn := p.Method("Config", "PathConfigs")
	if fn == nil {
		c.anchorMissing("(*Config).PathConfigs")
		return
	}
	if len(fn.Params) != 2 {
		c.undecided("(*Config).PathConfigs|signature", fn.Pos(), "expected a receiver and one path parameter")
		return
	}
	recv, path := fn.Params[0], fn.Params[1]
	// the path as given, at most converted to slashes
	var isPath func(v ssa.Value, d int) bool
	isPath = func(v ssa.Value, d int) bool {
		if d > 4 {
			return false
		}
		switch x := v.(type) {
		case *ssa.Parameter:
			return x == path
		case *ssa.Call:
			return calleeFullName(&x.Call) == "path/filepath.ToSlash" && isPath(x.Call.Args[0], d+1)
		case *ssa.Phi:
			for _, e := range x.Edges {
				if !isPath(e, d+1) {
					return false
				}
			}
			return len(x.Edges) > 0
		}
		return false
	}
	// appends to the result
	var apps []*ssa.Call
	eachInstr(fn, func(_ *ssa.BasicBlock, _ int, in ssa.Instruction) {
		if call, ok := in.(*ssa.Call); ok {
			if bi, ok := call.Call.Value.(*ssa.Builtin); ok && bi.Name() == "append" && typeStr(call.Type()) == "[]PathConfig" {
				apps = append(apps, call)
			}
		}
	})
	iffWhy, exitWhy := "", ""
	var iffPos, exitPos0 token.Pos = fn.Pos(), fn.Pos()
	if len(apps) == 0 {
		iffWhy = "no entry is ever appended to the result"
	}
	for _, app := range apps {
		iffPos = app.Pos()
		elems, ok := variadicArgs(app.Call.Args[1])
		if !ok || len(elems) != 1 {
			iffWhy = "the result is not extended by one entry at a time"
			continue
		}
		field, idx := rangePart(elems[0])
		if field != "Config.Paths" || idx != 2 {
			iffWhy = "what is appended is not the value of the entry of Config.Paths the loop stands at"
			continue
		}
		nx := elems[0].(*ssa.Extract).Tuple.(*ssa.Next)
		if ex := loopSideExit(nx.Block()); ex != nil {
			exitWhy = "the loop over Config.Paths is left from inside its body (break or return at " + p.Pos(exitPos(ex)) + "): the entries behind that point do not apply although their glob may match"
			exitPos0 = exitPos(ex)
		}
		matched := false
		for ifi, outcome := range controllingConds(app.Block()) {
			cond := ifi.Cond
			if ex, ok := cond.(*ssa.Extract); ok {
				if _, isNext := ex.Tuple.(*ssa.Next); isNext {
					continue // the loop condition
				}
				if _, isCall := ex.Tuple.(*ssa.Call); isCall && ex.Index == 0 {
					cond = ex.Tuple
				}
			}
			if v, nilSucc, ok := nilTest(ifi); ok && v == ssa.Value(recv) {
				if (nilSucc == 0) == outcome {
					iffWhy = "an entry is appended on the path on which the configuration is nil"
				}
				continue
			}
			call, ok := cond.(*ssa.Call)
			if !ok || !strings.Contains(calleeFullName(&call.Call), "/doublestar") || !strings.Contains(calleeFullName(&call.Call), "Match") || len(call.Call.Args) != 2 {
				iffWhy = "whether an entry applies additionally depends on a condition that is not the glob match (`" + cond.String() + "` at " + p.Pos(exitPos(ifi.Block())) + ")"
				continue
			}
			kf, kidx := rangePart(call.Call.Args[0])
			switch {
			case !outcome:
				iffWhy = "the entry is appended when its glob does NOT match"
			case kf != "Config.Paths" || kidx != 1 || call.Call.Args[0].(*ssa.Extract).Tuple != ssa.Value(nx):
				iffWhy = "the pattern handed to the glob matcher is not the key of the entry that is appended"
			case !isPath(call.Call.Args[1], 0):
				iffWhy = "the name handed to the glob matcher is not the path parameter (converted to slashes at most)"
			default:
				matched = true
			}
		}
		if !matched && iffWhy == "" {
			iffWhy = "the append of an entry is not control-dependent on the glob match of its key"
		}
	}
	if iffWhy != "" {
		c.bad("(*Config).PathConfigs|entry applies iff its glob matches", iffPos, iffWhy)
	} else {
		c.ok("(*Config).PathConfigs|entry applies iff its glob matches", iffPos, "the value of an entry is appended exactly under doublestar match(<its key>, <the path>)")
	}
	if exitWhy != "" {
		c.bad("(*Config).PathConfigs|every entry consulted", exitPos0, exitWhy)
	} else {
		c.ok("(*Config).PathConfigs|every entry consulted", fn.Pos(), "the loop over Config.Paths is left only at its header")
	}
	// what is returned: the accumulated slice; nil only for a nil configuration
	retWhy := ""
	var fromApps func(v ssa.Value, seen map[ssa.Value]bool) bool
	fromApps = func(v ssa.Value, seen map[ssa.Value]bool) bool {
		if seen[v] {
			return true
		}
		seen[v] = true
		switch x := v.(type) {
		case *ssa.Const:
			return x.IsNil()
		case *ssa.Phi:
			for _, e := range x.Edges {
				if !fromApps(e, seen) {
					return false
				}
			}
			return true
		case *ssa.MakeSlice:
			return true
		case *ssa.Call:
			for _, a := range apps {
				if a == x {
					return fromApps(x.Call.Args[0], seen)
				}
			}
		}
		return false
	}
	for _, b := range fn.Blocks {
		ret, ok := b.Instrs[len(b.Instrs)-1].(*ssa.Return)
		if !ok || len(ret.Results) != 1 {
			continue
		}
		r := ret.Results[0]
		if k, ok := r.(*ssa.Const); ok && k.IsNil() {
			guarded := false
			for ifi, outcome := range controllingConds(b) {
				if v, nilSucc, ok := nilTest(ifi); ok && v == ssa.Value(recv) && (nilSucc == 0) == outcome {
					guarded = true
				}
			}
			if !guarded {
				retWhy = "nil is returned at " + p.Pos(ret.Pos()) + " on a path on which the configuration exists: the collected entries are dropped"
			}
			continue
		}
		if _, isPhi := r.(*ssa.Phi); !isPhi {
			if _, isCall := r.(*ssa.Call); !isCall {
				retWhy = "the value returned at " + p.Pos(ret.Pos()) + " is not the slice the entries were appended to"
				continue
			}
		}
		if !fromApps(r, map[ssa.Value]bool{}) {
			retWhy = "the value returned at " + p.Pos(ret.Pos()) + " is not the slice the entries were appended to"
		}
	}
	if retWhy != "" {
		c.bad("(*Config).PathConfigs|result", fn.Pos(), retWhy)
	} else {
		c.ok("(*Config).PathConfigs|result", fn.Pos(), "every return hands back the slice the matching entries were appended to (nil only for a nil configuration)")
	}
}

// ---- C16.ONCE: every diagnostic of the slice reaches the renderer ----

// everyElementReaches: fn has exactly one loop over its slice parameter that (a) starts at the first element and steps by
// one up to len(slice), (b) is left only at its header and (c) passes, on every way round, an instruction accepted by sink
// for the element the loop stands at. Returns that instruction and the loop header, or why not.
func everyElementReaches(fn *ssa.Function, slice *ssa.Parameter, sink func(in ssa.Instruction, elem ssa.Value) bool) (ssa.Instruction, *ssa.BasicBlock, string) {
	var head *ssa.BasicBlock
	var elems []*ssa.UnOp
	eachInstr(fn, func(b *ssa.BasicBlock, _ int, in ssa.Instruction) {
		ld, ok := in.(*ssa.UnOp)
		if !ok || ld.Op != token.MUL {
			return
		}
		ia, ok := ld.X.(*ssa.IndexAddr)
		if !ok || ia.X != ssa.Value(slice) {
			return
		}
		elems = append(elems, ld)
	})
	if len(elems) == 0 {
		return nil, nil, "no element of the slice is read"
	}
	for _, ld := range elems {
		h := innermostLoopOf(fn, ld.Block())
		if h == nil {
			return nil, nil, "an element of the slice is read outside a loop (a fixed position)"
		}
		if head != nil && h != head {
			return nil, nil, "the elements of the slice are read in more than one loop"
		}
		head = h
	}
	body := naturalLoop(head)
	// the index: the value the header compares with len(slice)
	ifi, ok := head.Instrs[len(head.Instrs)-1].(*ssa.If)
	if !ok {
		return nil, head, "the loop over the slice has no condition at its head"
	}
	cond, ok := ifi.Cond.(*ssa.BinOp)
	if !ok || cond.Op != token.LSS {
		return nil, head, "the loop over the slice does not run while index < len(slice)"
	}
	if call, ok := cond.Y.(*ssa.Call); !ok || len(call.Call.Args) != 1 || call.Call.Args[0] != ssa.Value(slice) {
		return nil, head, "the bound of the loop is not len of the slice itself"
	} else if bi, ok := call.Call.Value.(*ssa.Builtin); !ok || bi.Name() != "len" {
		return nil, head, "the bound of the loop is not len of the slice itself"
	}
	idx := cond.X
	var phi *ssa.Phi
	d := int64(0)
	switch x := idx.(type) {
	case *ssa.Phi:
		phi = x
	case *ssa.BinOp:
		if k, ok := constInt(x.Y); ok && x.Op == token.ADD {
			phi, _ = x.X.(*ssa.Phi)
			d = k
		}
	}
	if phi == nil || phi.Block() != head {
		return nil, head, "the index of the loop is not a counter kept at its head"
	}
	for i, e := range phi.Edges {
		if body[head.Preds[i]] {
			// next value: counter + 1
			next, ok := e.(*ssa.BinOp)
			if e == idx && d == 1 {
				continue
			}
			if !ok || next.Op != token.ADD || next.X != ssa.Value(phi) {
				return nil, head, "the counter of the loop is not advanced by one"
			}
			if k, ok := constInt(next.Y); !ok || k != 1 {
				return nil, head, "the counter of the loop is not advanced by one"
			}
			continue
		}
		k, ok := constInt(e)
		if !ok || k+d != 0 {
			return nil, head, fmt.Sprintf("the loop does not start at the first element (first index %d)", k+d)
		}
	}
	if ex := loopSideExit(head); ex != nil {
		at := fn.Prog.Fset.Position(exitPos(ex))
		return nil, head, fmt.Sprintf("the loop over the slice is left from inside its body (break or return at line %d)", at.Line)
	}
	for _, ld := range elems {
		if ld.X.(*ssa.IndexAddr).Index != idx {
			return nil, head, "an element is read at another position than the one the loop stands at"
		}
	}
	var found ssa.Instruction
	for b := range body {
		every := true
		for _, latch := range head.Preds {
			if body[latch] && !(b == latch || b.Dominates(latch)) {
				every = false
			}
		}
		if !every {
			continue
		}
		for _, in := range b.Instrs {
			for _, ld := range elems {
				if found == nil && sink(in, ld) {
					found = in
				}
			}
		}
	}
	if found == nil {
		return nil, head, "no way round the loop is certain to hand the element on (the hand-over is missing or conditional)"
	}
	return found, head, ""
}

func runC16OnceEvery(c *Ctx) {
	p := c.P
	// default and -oneline mode: printErrors pretty-prints every element
	if fn := p.Method("Linter", "printErrors"); fn == nil {
		c.anchorMissing("(*Linter).printErrors")
	} else {
		construct := "(*Linter).printErrors|every diagnostic printed"
		var slice *ssa.Parameter
		for _, q := range fn.Params {
			if typeStr(q.Type()) == "[]*Error" {
				slice = q
			}
		}
		if slice == nil {
			c.undecided(construct, fn.Pos(), "no []*Error parameter")
		} else {
			in, _, why := everyElementReaches(fn, slice, func(in ssa.Instruction, elem ssa.Value) bool {
				call, ok := in.(*ssa.Call)
				if !ok {
					return false
				}
				g := staticCallee(&call.Call)
				return g != nil && FuncName(g) == "(*Error).PrettyPrint" && len(call.Call.Args) > 0 && call.Call.Args[0] == elem
			})
			if why != "" {
				c.bad(construct, fn.Pos(), why+": the output is not the list of diagnostics the linter returns")
			} else {
				c.ok(construct, in.Pos(), "one loop from the first to the last element, left only at its header, pretty-prints the element on every way round")
			}
		}
	}
	// -format mode: PrintErrors turns every element into a template record and prints the slice of all of them
	if fn := p.Method("ErrorFormatter", "PrintErrors"); fn == nil {
		c.anchorMissing("(*ErrorFormatter).PrintErrors")
	} else {
		construct := "(*ErrorFormatter).PrintErrors|every diagnostic reaches the template"
		var slice *ssa.Parameter
		for _, q := range fn.Params {
			if typeStr(q.Type()) == "[]*Error" {
				slice = q
			}
		}
		if slice == nil {
			c.undecided(construct, fn.Pos(), "no []*Error parameter")
			return
		}
		var app *ssa.Call
		in, head, why := everyElementReaches(fn, slice, func(in ssa.Instruction, elem ssa.Value) bool {
			call, ok := in.(*ssa.Call)
			if !ok {
				return false
			}
			if bi, ok := call.Call.Value.(*ssa.Builtin); !ok || bi.Name() != "append" || len(call.Call.Args) != 2 {
				return false
			}
			vals, ok := variadicArgs(call.Call.Args[1])
			if !ok || len(vals) != 1 {
				return false
			}
			rec, ok := vals[0].(*ssa.Call)
			if !ok {
				return false
			}
			g := staticCallee(&rec.Call)
			if g == nil || FuncName(g) != "(*Error).GetTemplateFields" || rec.Call.Args[0] != elem {
				return false
			}
			app = call
			return true
		})
		if why == "" {
			// what is printed is the slice those appends built
			calls := findCalls(fn, "(*ErrorFormatter).Print")
			if len(calls) != 1 {
				why = fmt.Sprintf("%d calls of Print", len(calls))
			} else {
				arg := calls[0].Common().Args[2]
				ph, ok := arg.(*ssa.Phi)
				if !ok || ph.Block() != head || app.Call.Args[0] != ssa.Value(ph) {
					why = "the slice handed to Print is not the one every record was appended to"
				} else {
					for i, e := range ph.Edges {
						if naturalLoop(head)[head.Preds[i]] && e != ssa.Value(app) {
							why = "the slice of records is not carried round the loop by the append alone"
						}
					}
				}
			}
		}
		if why != "" {
			c.bad(construct, fn.Pos(), why+": the template does not receive one record per diagnostic, in order")
		} else {
			c.ok(construct, in.Pos(), "one loop from the first to the last element, left only at its header, appends the record of the element on every way round; Print gets that slice")
		}
	}
}

// ---- C16.LINES: the snippet is the referenced line ----

// lineCounterWhy: in getLine the text handed back with ok=true is the scanner's current token, under `counter == e.Line`,
// where counter is 1 for the first token and grows by one with every Scan: "" or what is wrong.
func lineCounterWhy(fn *ssa.Function) string {
	found := false
	for _, b := range fn.Blocks {
		ret, ok := b.Instrs[len(b.Instrs)-1].(*ssa.Return)
		if !ok || len(ret.Results) != 2 {
			continue
		}
		if k, ok := ret.Results[1].(*ssa.Const); !ok || k.Value == nil || k.Value.Kind() != constant.Bool || !constant.BoolVal(k.Value) {
			continue
		}
		found = true
		// the counter compared with Error.Line on the way to this return
		var cnt ssa.Value
		for ifi, outcome := range controllingConds(b) {
			bo, ok := ifi.Cond.(*ssa.BinOp)
			if !ok || bo.Op != token.EQL || !outcome {
				continue
			}
			for _, pair := range [][2]ssa.Value{{bo.X, bo.Y}, {bo.Y, bo.X}} {
				if f, _ := fieldLoad(pair[1]); f == "Error.Line" {
					cnt = pair[0]
				}
				// the line number handed in as a parameter that every caller fills from Error.Line
				if prm, ok := pair[1].(*ssa.Parameter); ok && idxProg != nil {
					idx := paramIndexOf(prm.Parent(), prm)
					callers := idxProg.callersOf(prm.Parent())
					all := idx >= 0 && len(callers) > 0
					for _, e := range callers {
						if e.Site == nil || e.Site.Common().IsInvoke() || idx >= len(e.Site.Common().Args) {
							all = false
							continue
						}
						if f, _ := fieldLoad(e.Site.Common().Args[idx]); f != "Error.Line" {
							all = false
						}
					}
					if all {
						cnt = pair[0]
					}
				}
			}
		}
		if cnt == nil {
			return "a line is handed back on a path that is not under `<counter> == e.Line`"
		}
		var phi *ssa.Phi
		d := int64(0)
		switch x := cnt.(type) {
		case *ssa.Phi:
			phi = x
		case *ssa.BinOp:
			if k, ok := constInt(x.Y); ok && x.Op == token.ADD {
				phi, _ = x.X.(*ssa.Phi)
				d = k
			}
		}
		if phi == nil {
			return "what is compared with e.Line is not a counter of the lines read"
		}
		head := phi.Block()
		body := naturalLoop(head)
		if len(body) < 2 {
			return "the line counter is not kept by a loop"
		}
		scansInLoop := 0
		for blk := range body {
			for _, in := range blk.Instrs {
				if call, ok := in.(*ssa.Call); ok && calleeFullName(&call.Call) == "(*bufio.Scanner).Scan" {
					scansInLoop++
					if blk != head {
						return "a line is read elsewhere than at the head of the counting loop"
					}
				}
			}
		}
		if scansInLoop != 1 {
			return fmt.Sprintf("%d calls of Scan in the counting loop", scansInLoop)
		}
		for i, e := range phi.Edges {
			if body[head.Preds[i]] {
				next, ok := e.(*ssa.BinOp)
				if !ok || next.Op != token.ADD || next.X != ssa.Value(phi) {
					return "the line counter does not grow by one with every line read"
				}
				if k, ok := constInt(next.Y); !ok || k != 1 {
					return "the line counter does not grow by one with every line read"
				}
				continue
			}
			k, ok := constInt(e)
			if !ok || k+d != 1 {
				return fmt.Sprintf("the first line read is compared with e.Line as line %d, but lines are numbered from 1: the snippet shows a neighbour of the referenced line", k+d)
			}
		}
		// the text is that of the current token
		fromText := false
		var walk func(v ssa.Value, depth int)
		walk = func(v ssa.Value, depth int) {
			if depth > 4 {
				return
			}
			switch x := v.(type) {
			case *ssa.Phi:
				for _, e := range x.Edges {
					walk(e, depth+1)
				}
			case *ssa.Call:
				if calleeFullName(&x.Call) == "(*bufio.Scanner).Text" {
					fromText = true
					return
				}
				for _, a := range x.Call.Args {
					walk(a, depth+1)
				}
			}
		}
		walk(ret.Results[0], 0)
		if !fromText {
			return "the line handed back is not the scanner's current token"
		}
	}
	if !found {
		return "no return hands a line back"
	}
	return ""
}

// relTargetIsWholePath: the second argument of filepath.Rel is the path parameter itself, at most made absolute, cleaned or
// joined behind a directory - not a part of it (Dir, Base) and not another path.
func relTargetIsWholePath(v ssa.Value, depth int) bool {
	if depth > 6 {
		return false
	}
	switch x := v.(type) {
	case *ssa.Parameter:
		b, ok := x.Type().Underlying().(*types.Basic)
		return ok && b.Kind() == types.String
	case *ssa.Phi:
		for _, e := range x.Edges {
			if !relTargetIsWholePath(e, depth+1) {
				return false
			}
		}
		return len(x.Edges) > 0
	case *ssa.Extract:
		return relTargetIsWholePath(x.Tuple, depth+1)
	case *ssa.Call:
		name := calleeFullName(&x.Call)
		if f := staticCallee(&x.Call); f != nil && inModule(f) {
			name = FuncName(f)
		}
		switch name {
		case "absPath", "path/filepath.Abs", "path/filepath.Clean", "path/filepath.FromSlash", "path/filepath.ToSlash":
			return relTargetIsWholePath(x.Call.Args[0], depth+1)
		case "path/filepath.Join":
			elems, ok := variadicArgs(x.Call.Args[0])
			return ok && len(elems) > 0 && elems[len(elems)-1] != nil && relTargetIsWholePath(elems[len(elems)-1], depth+1)
		}
	}
	return false
}
