package main

import (
	"go/token"

	"golang.org/x/tools/go/ssa"
)

// Helpers of the white-box round on C13-C16.

// innermostLoopOf: the header of the innermost natural loop that contains b, or nil.
func innermostLoopOf(fn *ssa.Function, b *ssa.BasicBlock) *ssa.BasicBlock {
	var head *ssa.BasicBlock
	for _, h := range loopHeaders(fn) {
		if body := naturalLoop(h); body[b] && (head == nil || naturalLoop(head)[h]) {
			head = h
		}
	}
	return head
}

// loopSideExit: a block of the natural loop of h, other than h itself, that has a successor outside the loop (break, return
// or goto inside the body): the loop can end before its header says that every element was visited. nil if there is none.
func loopSideExit(h *ssa.BasicBlock) *ssa.BasicBlock {
	body := naturalLoop(h)
	var exit *ssa.BasicBlock
	for b := range body {
		if b == h {
			continue
		}
		for _, s := range b.Succs {
			if !body[s] && (exit == nil || b.Index < exit.Index) {
				exit = b
			}
		}
	}
	return exit
}

// exitPos: a position inside block b for messages (the last instruction that has one).
func exitPos(b *ssa.BasicBlock) token.Pos {
	for i := len(b.Instrs) - 1; i >= 0; i-- {
		if p := b.Instrs[i].Pos(); p.IsValid() {
			return p
		}
	}
	for _, s := range b.Succs {
		for _, in := range s.Instrs {
			if p := in.Pos(); p.IsValid() {
				return p
			}
		}
	}
	return b.Parent().Pos()
}

// computedFrom: v is computed from target (through phis, field addresses, loads, conversions, calls' arguments), looking back
// at most depth steps.
func computedFrom(v, target ssa.Value, depth int) bool {
	if v == target {
		return true
	}
	if depth <= 0 {
		return false
	}
	in, ok := v.(ssa.Instruction)
	if !ok {
		return false
	}
	for _, op := range in.Operands(nil) {
		if *op != nil && computedFrom(*op, target, depth-1) {
			return true
		}
	}
	return false
}
