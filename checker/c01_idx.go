package main

// C01.IDX: every index and slice operation of the module is in bounds: discharged by a recognised guard pattern, or listed
// in reviewed.json with the reason. The universe is every IndexAddr/Index/Lookup-on-string/Slice instruction of go/ssa (a
// superset of the bounds checks the Go compiler cannot eliminate, 84 today).

import (
	"fmt"
	"go/ast"
	"go/token"
	"go/types"
	"os"
	"regexp"
	"strings"

	"golang.org/x/tools/go/packages"
	"golang.org/x/tools/go/ssa"
)

func init() {
	register(&Rule{ID: "C01.IDX", Min: 150, Doc: "every index and slice expression is in bounds by a dominating guard, a loop bound, a constant size, or a reviewed reason", Run: runC01Idx})
}

// lenOfSame: v is len(x') where x' denotes the same container as x (same SSA value, or the same field/variable path).
func sameContainer(a, b ssa.Value) bool {
	if a == b {
		return true
	}
	sa, sb := symName(a), symName(b)
	if sa != sb {
		return false
	}
	// loads of the same field of the same base, or the same local cell
	switch a.(type) {
	case *ssa.UnOp, *ssa.Field:
		return true
	}
	return false
}

func isLenOf(v ssa.Value, x ssa.Value) bool {
	call, ok := v.(*ssa.Call)
	if !ok {
		return false
	}
	bi, ok := call.Call.Value.(*ssa.Builtin)
	if !ok || bi.Name() != "len" {
		return false
	}
	return sameContainer(call.Call.Args[0], x)
}

// lenLowerBound: the greatest n such that a condition holding at block b implies len(x) >= n.
func lenLowerBound(b *ssa.BasicBlock, x ssa.Value) int64 {
	var best int64
	for ifi, outcome := range controllingConds(b) {
		bo, ok := ifi.Cond.(*ssa.BinOp)
		if ok && (bo.Op == token.EQL || bo.Op == token.NEQ) {
			// x != "" (or x == "" failing): at least one byte
			for i, side := range []ssa.Value{bo.X, bo.Y} {
				other := []ssa.Value{bo.Y, bo.X}[i]
				if s, isC := constString(other); isC && s == "" && sameContainer(side, x) {
					if (bo.Op == token.NEQ) == outcome && best < 1 {
						best = 1
					}
				}
			}
		}
		if !ok {
			// strings.HasPrefix(x, "const") / HasSuffix
			if call, ok := ifi.Cond.(*ssa.Call); ok && outcome {
				name := calleeFullName(&call.Call)
				if (name == "strings.HasPrefix" || name == "strings.HasSuffix") && sameContainer(call.Call.Args[0], x) {
					if s, ok := constString(call.Call.Args[1]); ok && int64(len(s)) > best {
						best = int64(len(s))
					}
				}
			}
			continue
		}
		var k int64
		var op token.Token
		switch {
		case isLenOf(bo.X, x):
			c, ok := constInt(bo.Y)
			if !ok {
				continue
			}
			k, op = c, bo.Op
		case isLenOf(bo.Y, x):
			c, ok := constInt(bo.X)
			if !ok {
				continue
			}
			k = c
			// c OP len  ==  len OP' c
			switch bo.Op {
			case token.LSS:
				op = token.GTR
			case token.LEQ:
				op = token.GEQ
			case token.GTR:
				op = token.LSS
			case token.GEQ:
				op = token.LEQ
			default:
				op = bo.Op
			}
		default:
			continue
		}
		if !outcome {
			switch op {
			case token.LSS:
				op = token.GEQ
			case token.LEQ:
				op = token.GTR
			case token.GTR:
				op = token.LEQ
			case token.GEQ:
				op = token.LSS
			case token.EQL:
				op = token.NEQ
			case token.NEQ:
				op = token.EQL
			}
		}
		var n int64
		switch op {
		case token.GTR:
			n = k + 1
		case token.GEQ, token.EQL:
			n = k
		case token.NEQ:
			if k == 0 {
				n = 1
			}
		}
		if n > best {
			best = n
		}
	}
	return best
}

// idxBelowLen: a condition holding at b implies i (+d) < len(x), for d in 0..1; returns the largest such d, or -1.
func idxBelowLen(b *ssa.BasicBlock, i ssa.Value, x ssa.Value) int {
	best := -1
	li := linOf(i, 0)
	for ifi, outcome := range controllingConds(b) {
		bo, ok := ifi.Cond.(*ssa.BinOp)
		if !ok {
			continue
		}
		var lhs ssa.Value
		strict := false
		switch {
		case (bo.Op == token.LSS && outcome || bo.Op == token.GEQ && !outcome) && isLenOf(bo.Y, x):
			lhs, strict = bo.X, true
		case (bo.Op == token.LEQ && outcome || bo.Op == token.GTR && !outcome) && isLenOf(bo.Y, x):
			lhs = bo.X
		case (bo.Op == token.GTR && outcome || bo.Op == token.LEQ && !outcome) && isLenOf(bo.X, x):
			lhs, strict = bo.Y, true
		case (bo.Op == token.GEQ && outcome || bo.Op == token.LSS && !outcome) && isLenOf(bo.X, x):
			lhs = bo.Y
		default:
			continue
		}
		// lhs (<|<=) len(x); index = lhs + d'  => need d' <= -1 (non strict) or d' <= 0 (strict)
		d := linAdd(li, linOf(lhs, 0), -1)
		if !onlyZero(linWithout(d, "1")) {
			continue
		}
		slack := -d["1"]
		if !strict {
			slack--
		}
		if slack >= 0 && slack > best {
			best = slack
		}
		if slack >= 0 && best < 0 {
			best = 0
		}
	}
	return best
}

func isSortCallback(fn *ssa.Function) bool {
	if fn.Parent() != nil {
		// closure handed to sort.Slice / sort.SliceStable / slices.SortFunc
		par := fn.Parent()
		used := false
		eachInstr(par, func(_ *ssa.BasicBlock, _ int, in ssa.Instruction) {
			if call, ok := in.(*ssa.Call); ok {
				name := calleeFullName(&call.Call)
				if strings.HasPrefix(name, "sort.Slice") || strings.HasPrefix(name, "sort.SliceStable") {
					for _, a := range call.Call.Args {
						if mc, ok := a.(*ssa.MakeClosure); ok && mc.Fn == fn {
							used = true
						}
						if f, ok := a.(*ssa.Function); ok && f == fn {
							used = true
						}
					}
				}
			}
		})
		return used
	}
	if fn.Signature.Recv() != nil && (fn.Name() == "Less" || fn.Name() == "Swap") {
		return true
	}
	return false
}

func runC01Idx(c *Ctx) {
	p := c.P
	idxProg = p
	occ := map[string]int{}
	// source text of every index and slice expression, keyed by the position of its '[': the construct is named by that
	// text, so that adding or removing another index expression in the same function does not rename it
	srcText := map[token.Pos]string{}
	oldText := map[token.Pos]string{}
	for _, pkg := range []*packages.Package{p.Main, p.Cmd} {
		if pkg == nil {
			continue
		}
		for _, f := range pkg.Syntax {
			ast.Inspect(f, func(n ast.Node) bool {
				switch e := n.(type) {
				case *ast.IndexExpr:
					srcText[e.Lbrack] = canonExpr(pkg, e)
					oldText[e.Lbrack] = types.ExprString(e)
				case *ast.SliceExpr:
					srcText[e.Lbrack] = canonExpr(pkg, e)
					oldText[e.Lbrack] = types.ExprString(e)
				}
				return true
			})
		}
	}
	dumpKeys := os.Getenv("VERIFCHK_IDXKEYS") != ""
	oldOcc := map[string]int{}
	for _, fn := range p.Funcs {
		sortCB := isSortCallback(fn)
		eachInstr(fn, func(b *ssa.BasicBlock, _ int, in ssa.Instruction) {
			var x, idx, low, high ssa.Value
			kind := ""
			switch v := in.(type) {
			case *ssa.IndexAddr:
				x, idx, kind = v.X, v.Index, "index"
			case *ssa.Index:
				x, idx, kind = v.X, v.Index, "index"
			case *ssa.Lookup:
				if _, isMap := v.X.Type().Underlying().(*types.Map); isMap {
					return
				}
				x, idx, kind = v.X, v.Index, "index"
			case *ssa.Slice:
				x, low, high, kind = v.X, v.Low, v.High, "slice"
				if v.Max != nil {
					kind = "slice3"
				}
			default:
				return
			}
			k := FuncName(fn) + "|" + kind + " of " + typeStr(x.Type())
			hasText := false
			if _, ok := srcText[in.Pos()]; ok && in.Pos().IsValid() {
				// named by where the operands come from (callee results, fields, parameters by type, constants), not by what
				// the local variables are called: the name survives renaming and the removal of a sibling expression
				base := canonVal(x, 0)
				// when the index is a result of a call that also got the container as an argument, the container is named
				// as that argument: how it was obtained before (a slice of a slice, the second half of a Cut) is immaterial
				for _, op := range []ssa.Value{idx, low, high} {
					if op == nil {
						continue
					}
					var call *ssa.Call
					switch y := op.(type) {
					case *ssa.Call:
						call = y
					case *ssa.Extract:
						call, _ = y.Tuple.(*ssa.Call)
					}
					if call != nil {
						for j, a := range call.Call.Args {
							if a == x {
								base = fmt.Sprintf("arg%d", j)
							}
						}
					}
				}
				d := base + "["
				if kind == "index" {
					d += canonVal(idx, 0)
				} else {
					if low != nil {
						d += canonVal(low, 0)
					}
					d += ":"
					if high != nil {
						d += canonVal(high, 0)
					}
				}
				k += " " + d + "]"
				hasText = true
			}
			occ[k]++
			construct := k
			if occ[k] > 1 || !hasText {
				construct = fmt.Sprintf("%s#%d", k, occ[k])
			}
			if dumpKeys && hasText {
				ok := FuncName(fn) + "|" + kind + " of " + typeStr(x.Type()) + " " + oldText[in.Pos()]
				oldOcc[ok]++
				if oldOcc[ok] > 1 {
					ok = fmt.Sprintf("%s#%d", ok, oldOcc[ok])
				}
				fmt.Printf("IDXKEY\t%s\t%s\n", ok, construct)
			}
			why := ""
			if kind == "index" {
				why = indexSafe(fn, b, x, idx, sortCB)
			} else {
				why = sliceSafe(fn, b, x, low, high)
			}
			if why != "" {
				c.ok(construct, in.Pos(), why)
			} else {
				d := ""
				if idx != nil {
					d = "[" + linOf(idx, 0).String() + "]"
				} else {
					lo, hi := "", ""
					if low != nil {
						lo = linOf(low, 0).String()
					}
					if high != nil {
						hi = linOf(high, 0).String()
					}
					d = "[" + lo + ":" + hi + "]"
				}
				c.bad(construct, in.Pos(), symName(x)+d+" is not provably in bounds (no dominating length test, loop bound or constant size): an out-of-range value panics")
				c01IdxCallers(c, fn, construct, in, x, idx, low, high)
			}
		})
	}
}

// fixedLen: the number of elements when it is a compile-time fact (arrays, pointers to arrays, slices of a fresh array).
func fixedLen(x ssa.Value) (int64, bool) {
	t := x.Type().Underlying()
	if pt, ok := t.(*types.Pointer); ok {
		t = pt.Elem().Underlying()
	}
	if at, ok := t.(*types.Array); ok {
		return at.Len(), true
	}
	if sl, ok := x.(*ssa.Slice); ok && sl.Low == nil && sl.High == nil {
		return fixedLen(sl.X)
	}
	if ms, ok := x.(*ssa.MakeSlice); ok {
		if n, ok := constInt(ms.Len); ok {
			return n, true
		}
	}
	return 0, false
}

func indexSafe(fn *ssa.Function, b *ssa.BasicBlock, x, idx ssa.Value, sortCB bool) string {
	if sortCB {
		if _, isParam := idx.(*ssa.Parameter); isParam {
			return "index supplied by the sort package (0 <= i < Len())"
		}
	}
	if k, ok := constInt(idx); ok {
		if n, ok := fixedLen(x); ok && k >= 0 && k < n {
			return fmt.Sprintf("constant index %d into %d elements", k, n)
		}
		if lb := lenLowerBound(b, x); lb > k {
			return fmt.Sprintf("constant index %d, length tested to be at least %d", k, lb)
		}
		if n := submatchGroups(x); n >= 0 && k >= 0 && int(k) <= n {
			return fmt.Sprintf("submatch %d of a constant pattern with %d groups", k, n)
		}
		return ""
	}
	// range loop index over the same container
	if bo, ok := idx.(*ssa.BinOp); ok && bo.Op == token.ADD {
		if ph, ok := bo.X.(*ssa.Phi); ok && strings.HasPrefix(ph.Comment, "rangeindex") {
			// the loop condition t < len(x) with the same x
			for _, ref := range *bo.Referrers() {
				if cmp, ok := ref.(*ssa.BinOp); ok && cmp.Op == token.LSS && cmp.X == ssa.Value(bo) {
					if isLenOf(cmp.Y, x) || lenValueOf(cmp.Y, x) {
						return "index of the range loop over the same value"
					}
				}
			}
		}
	}
	if d := idxBelowLen(b, idx, x); d >= 0 && nonNeg(idx, 0, map[ssa.Value]bool{}) {
		return "index tested to be below the length"
	}
	// the position a search found in the same value (tested against -1): the needle is not empty, so it is below the length
	if call, ok := idx.(*ssa.Call); ok {
		if w := indexSearchBound(idx, x, b); w != "" && searchNeedleNonEmpty(call) {
			return w
		}
	}
	// i - k for the index i of the range loop over the same container, under i != 0 / i > 0 / i >= k
	{
		li := linOf(idx, 0)
		for sym, co := range li {
			if co != 1 || !strings.HasPrefix(sym, "phi:rangeindex") {
				continue
			}
			rest := linWithout(li, sym)
			// the SSA index value is phi+1, so `i - 1` reads phi + 0
			if !onlyZero(linWithout(rest, "1")) || rest["1"] > 0 || rest["1"] < -3 {
				continue
			}
			k := int64(1 - rest["1"]) // index == i - k + 1 ... with i = phi+1: idx = i - (1 - rest)
			k = int64(-rest["1"]) + 1
			_ = k
			// find the loop's own index value (phi+1) and its bound
			for ifi, outcome := range controllingConds(b) {
				bo, ok := ifi.Cond.(*ssa.BinOp)
				if !ok {
					continue
				}
				iv := linOf(bo.X, 0)
				if iv[sym] != 1 || !onlyZero(linWithout(linWithout(iv, sym), "1")) || iv["1"] != 1 {
					continue
				}
				c0, isC := constInt(bo.Y)
				if !isC {
					continue
				}
				need := int64(1-rest["1"]) - 1 // i >= need
				ge := int64(-1)
				switch {
				case bo.Op == token.EQL && !outcome && c0 == 0, bo.Op == token.NEQ && outcome && c0 == 0:
					ge = 1
				case bo.Op == token.GTR && outcome:
					ge = c0 + 1
				case bo.Op == token.GEQ && outcome:
					ge = c0
				case bo.Op == token.LSS && !outcome:
					ge = c0
				case bo.Op == token.LEQ && !outcome:
					ge = c0 + 1
				}
				if ge >= need && need >= 0 {
					// and the loop ranges over the same container
					for _, ref := range *bo.X.Referrers() {
						if cmp, ok := ref.(*ssa.BinOp); ok && cmp.Op == token.LSS && cmp.X == bo.X && isLenOf(cmp.Y, x) {
							return "an earlier element of the range loop over the same value, index tested to be large enough"
						}
					}
				}
			}
		}
	}
	// the index of a range loop over another container whose length was tested to be equal
	if bo, ok := idx.(*ssa.BinOp); ok && bo.Op == token.ADD {
		if ph, ok := bo.X.(*ssa.Phi); ok && strings.HasPrefix(ph.Comment, "rangeindex") {
			for _, ref := range *bo.Referrers() {
				cmp, ok := ref.(*ssa.BinOp)
				if !ok || cmp.Op != token.LSS || cmp.X != ssa.Value(bo) {
					continue
				}
				lc, ok := cmp.Y.(*ssa.Call)
				if !ok {
					continue
				}
				if bi, ok := lc.Call.Value.(*ssa.Builtin); !ok || bi.Name() != "len" {
					continue
				}
				y := lc.Call.Args[0]
				for ifi, outcome := range controllingConds(b) {
					eq, ok := ifi.Cond.(*ssa.BinOp)
					if !ok || !((eq.Op == token.EQL && outcome) || (eq.Op == token.NEQ && !outcome)) {
						continue
					}
					if (isLenOf(eq.X, x) && isLenOf(eq.Y, y)) || (isLenOf(eq.X, y) && isLenOf(eq.Y, x)) {
						return "index of the range loop over a value of the same length (lengths tested to be equal)"
					}
				}
			}
		}
	}
	// the index is below the length of another value whose length was tested to be equal (any loop form)
	for ifi, outcome := range controllingConds(b) {
		eq, ok := ifi.Cond.(*ssa.BinOp)
		if !ok || !((eq.Op == token.EQL && outcome) || (eq.Op == token.NEQ && !outcome)) {
			continue
		}
		for _, pr := range [][2]ssa.Value{{eq.X, eq.Y}, {eq.Y, eq.X}} {
			if !isLenOf(pr[0], x) {
				continue
			}
			lc, ok := pr[1].(*ssa.Call)
			if !ok {
				continue
			}
			if bi, ok := lc.Call.Value.(*ssa.Builtin); !ok || bi.Name() != "len" {
				continue
			}
			y := lc.Call.Args[0]
			if d := idxBelowLen(b, idx, y); d >= 0 && nonNeg(idx, 0, map[ssa.Value]bool{}) {
				return "index tested to be below the length of a value of the same length (lengths tested to be equal)"
			}
		}
	}
	// len(x)-c, itself tested to be >= 0
	if call := lenCallIn(idx); call != nil && sameContainer(call.Call.Args[0], x) {
		lf := linOf(idx, 0)
		rest := linWithout(lf, symName(call))
		if lf[symName(call)] == 1 && onlyZero(linWithout(rest, "1")) && rest["1"] < 0 {
			for ifi, outcome := range controllingConds(b) {
				if bo, ok := ifi.Cond.(*ssa.BinOp); ok && bo.X == idx {
					if k, ok := constInt(bo.Y); ok && ((bo.Op == token.GEQ && outcome && k >= 0) || (bo.Op == token.LSS && !outcome && k >= 0)) {
						return "len minus a constant, tested to be non-negative"
					}
				}
			}
			if lenLowerBound(b, x) >= int64(-rest["1"]) {
				return "len minus a constant not above the tested length"
			}
		}
	}
	// m[k] of a regexp submatch: the constant pattern has at least k groups
	if k, ok := constInt(idx); ok && k >= 0 {
		if n := submatchGroups(x); n >= 0 && int(k) <= n {
			return fmt.Sprintf("submatch %d of a constant pattern with %d groups", k, n)
		}
	}
	// i+1 of a loop stepping by two over the children of a YAML mapping node
	if f, base := fieldLoad(x); f == "yaml.Node.Content" {
		li := linOf(idx, 0)
		if li["1"] == 1 {
			// (i + 1) where i < len(Content) holds and the node is a mapping (even number of children: go-yaml invariant)
			for sym := range li {
				if sym == "1" {
					continue
				}
				_ = sym
			}
			if d := idxBelowLenForm(b, linAdd(li, linForm{"1": 1}, -1), x); d {
				if mappingNode(b, base) {
					return "value child i+1 of a YAML mapping node (go-yaml: a mapping node has an even number of children), i < len tested"
				}
			}
		}
	}
	return ""
}

// lenValueOf: v is the hoisted `len(x)` of a range loop (go/ssa computes it once before the loop).
func lenValueOf(v ssa.Value, x ssa.Value) bool {
	return isLenOf(v, x)
}

func idxBelowLenForm(b *ssa.BasicBlock, li linForm, x ssa.Value) bool {
	for ifi, outcome := range controllingConds(b) {
		bo, ok := ifi.Cond.(*ssa.BinOp)
		if !ok {
			continue
		}
		if (bo.Op == token.LSS && outcome || bo.Op == token.GEQ && !outcome) && isLenOf(bo.Y, x) {
			if linOf(bo.X, 0).equal(li) {
				return true
			}
		}
	}
	return false
}

// mappingNode: a condition holding at b (or the function's own dispatch) says the node is a mapping node.
func mappingNode(b *ssa.BasicBlock, node ssa.Value) bool {
	fn := b.Parent()
	// Kind == MappingNode (4) established by a dominating test, or an early return on Kind != MappingNode
	found := false
	for ifi, outcome := range controllingConds(b) {
		bo, ok := ifi.Cond.(*ssa.BinOp)
		if !ok {
			continue
		}
		if f, base := fieldLoad(bo.X); f == "yaml.Node.Kind" && sameContainer(base, node) {
			if k, ok := constInt(bo.Y); ok && k == 4 {
				if (bo.Op == token.EQL && outcome) || (bo.Op == token.NEQ && !outcome) {
					found = true
				}
			}
		}
	}
	if found {
		return true
	}
	// checked by a helper that reports and returns false otherwise: p.checkNotEmpty / isMapping ... accept a dominating
	// call of an in-module function named *Mapping* with the node as argument whose false result leaves the function
	for ifi, outcome := range controllingConds(b) {
		if call, ok := ifi.Cond.(*ssa.Call); ok && outcome {
			if f := staticCallee(&call.Call); f != nil && strings.Contains(strings.ToLower(f.Name()), "mapping") {
				for _, a := range call.Call.Args {
					if sameContainer(a, node) {
						return true
					}
				}
			}
		}
	}
	_ = fn
	return false
}

func sliceSafe(fn *ssa.Function, b *ssa.BasicBlock, x, low, high ssa.Value) string {
	if low == nil && high == nil {
		return "whole value"
	}
	n, fixed := fixedLen(x)
	okLow, okHigh := low == nil, high == nil
	lowWhy, highWhy := "", ""
	seenPhi := map[*ssa.Phi]bool{}
	var chk func(v ssa.Value, isHigh bool) (bool, string)
	chk = func(v ssa.Value, isHigh bool) (bool, string) {
		// the result of a helper of the module that always returns an offset into its own argument: every return is the byte
		// index of a range loop over that parameter, its length, or 0
		if call, ok := v.(*ssa.Call); ok {
			if g := staticCallee(&call.Call); g != nil && inModule(g) && g.Blocks != nil {
				if k := offsetIntoParam(g); k >= 0 && k < len(call.Call.Args) && sameContainer(call.Call.Args[k], x) {
					return true, "result of " + FuncName(g) + ", which only returns offsets into this argument"
				}
			}
		}
		// the byte index of a range loop over the same string
		if ex, ok := v.(*ssa.Extract); ok && ex.Index == 1 {
			if nx, ok := ex.Tuple.(*ssa.Next); ok && nx.IsString {
				if rg, ok := nx.Iter.(*ssa.Range); ok && sameContainer(rg.X, x) {
					return true, "byte index of the range loop over the same string"
				}
			}
		}
		// a join of values that are each within bounds
		if ph, ok := v.(*ssa.Phi); ok && !seenPhi[ph] && !strings.HasPrefix(ph.Comment, "rangeindex") {
			seenPhi[ph] = true
			whys := []string{}
			all := true
			for _, e := range ph.Edges {
				if e == ssa.Value(ph) {
					continue
				}
				ok, w := chk(e, isHigh)
				if !ok {
					all = false
					break
				}
				whys = append(whys, w)
			}
			if all && len(whys) > 0 {
				return true, "join of: " + strings.Join(whys, " | ")
			}
			// otherwise the joined value itself may be tested against the length (a loop counter: `i+1 < len(x)`)
		}
		if k, ok := constInt(v); ok {
			if k == 0 {
				return true, "0"
			}
			if fixed && k <= n {
				return true, "constant within the fixed size"
			}
			if lb := lenLowerBound(b, x); lb >= k {
				return true, fmt.Sprintf("constant %d, length tested to be at least %d", k, lb)
			}
			return false, ""
		}
		if isLenOf(v, x) {
			return true, "len of the same value"
		}
		// len(x) - c with length tested >= c
		lf := linOf(v, 0)
		for sym, co := range lf {
			if strings.HasPrefix(sym, "len(") && co == 1 {
				if call := lenCallIn(v); call != nil && sameContainer(call.Call.Args[0], x) {
					rest := linWithout(lf, sym)
					if onlyZero(linWithout(rest, "1")) && rest["1"] <= 0 && lenLowerBound(b, x) >= int64(-rest["1"]) {
						return true, "len minus a constant not above the tested length"
					}
				}
			}
		}
		// result of an Index search in the same string (+ at most the length of the constant that was searched)
		if w := indexSearchBound(v, x, b); w != "" {
			return true, w
		}
		// the offset of an expression lexer that reads the same string
		if lexerOffsetOf(v, x, 0) {
			return true, "offset of the expression lexer built from the same string (text/scanner position of a reader over it: between 0 and its length)"
		}
		// len(y) after HasPrefix(x, y) for a non-constant y
		if call, ok := v.(*ssa.Call); ok {
			if bi, ok := call.Call.Value.(*ssa.Builtin); ok && bi.Name() == "len" {
				for ifi, outcome := range controllingConds(b) {
					if hp, ok := ifi.Cond.(*ssa.Call); ok && outcome && calleeFullName(&hp.Call) == "strings.HasPrefix" {
						if sameContainer(hp.Call.Args[0], x) && sameContainer(hp.Call.Args[1], call.Call.Args[0]) {
							return true, "length of a prefix that was tested with HasPrefix"
						}
					}
				}
			}
		}
		// len(prefix) after HasPrefix(x, prefix)
		if call, ok := v.(*ssa.Call); ok {
			if bi, ok := call.Call.Value.(*ssa.Builtin); ok && bi.Name() == "len" {
				if s, ok := constString(call.Call.Args[0]); ok && lenLowerBound(b, x) >= int64(len(s)) {
					return true, "length of a prefix that was tested"
				}
			}
		}
		// tested against the length
		if d := idxBelowLen(b, v, x); d >= 0 && nonNeg(v, 0, map[ssa.Value]bool{}) {
			return true, "tested to be below the length"
		}
		if leLen(b, v, x) && nonNeg(v, 0, map[ssa.Value]bool{}) {
			return true, "tested not to exceed the length"
		}
		// the container is a parameter and every caller tests the same bound (written in terms of the same receiver fields)
		// before the call
		if prm, ok := x.(*ssa.Parameter); ok && nonNeg(v, 0, map[ssa.Value]bool{}) {
			if callersGuard(fn, prm, v) {
				return true, "every caller tests the bound against the length of the argument before the call"
			}
		}
		return false, ""
	}
	if low != nil {
		okLow, lowWhy = chk(low, false)
	}
	if high != nil {
		okHigh, highWhy = chk(high, true)
	}
	// low <= high: both constants, or low from the same search as high... accept when both sides are individually within
	// [0, len] and (low is 0/absent, or high is absent/len)
	if okLow && okHigh {
		if low != nil && high != nil {
			lk, lok := constInt(low)
			hk, hok := constInt(high)
			switch {
			case lok && hok && lk <= hk:
			case lok && lk == 0:
			case isLenOf(high, x):
			default:
				d := linAdd(linOf(high, 0), linOf(low, 0), -1)
				if !(onlyZero(linWithout(d, "1")) && d["1"] >= 0) {
					if !lowBeforeHigh(low, high) {
						return ""
					}
				}
			}
		}
		return strings.TrimSpace("low: " + lowWhy + "; high: " + highWhy)
	}
	return ""
}

func lenCallIn(v ssa.Value) *ssa.Call {
	switch x := v.(type) {
	case *ssa.Call:
		if bi, ok := x.Call.Value.(*ssa.Builtin); ok && bi.Name() == "len" {
			return x
		}
	case *ssa.BinOp:
		if c := lenCallIn(x.X); c != nil {
			return c
		}
		return lenCallIn(x.Y)
	}
	return nil
}

// leLen: a condition at b implies v <= len(x).
func leLen(b *ssa.BasicBlock, v, x ssa.Value) bool {
	lv := linOf(v, 0)
	for ifi, outcome := range controllingConds(b) {
		bo, ok := ifi.Cond.(*ssa.BinOp)
		if !ok {
			continue
		}
		// len(x) < E  is false  =>  E <= len(x)
		if isLenOf(bo.X, x) && ((bo.Op == token.LSS && !outcome) || (bo.Op == token.GEQ && outcome)) {
			d := linAdd(lv, linOf(bo.Y, 0), -1)
			if onlyZero(linWithout(d, "1")) && d["1"] <= 0 {
				return true
			}
		}
		if isLenOf(bo.Y, x) && ((bo.Op == token.GTR && !outcome) || (bo.Op == token.LEQ && outcome)) {
			d := linAdd(lv, linOf(bo.X, 0), -1)
			if onlyZero(linWithout(d, "1")) && d["1"] <= 0 {
				return true
			}
		}
		// E < len(x) holds  =>  E + 1 <= len(x)
		if isLenOf(bo.Y, x) && ((bo.Op == token.LSS && outcome) || (bo.Op == token.GEQ && !outcome)) {
			d := linAdd(lv, linOf(bo.X, 0), -1)
			if onlyZero(linWithout(d, "1")) && d["1"] <= 1 {
				return true
			}
		}
		if isLenOf(bo.X, x) && ((bo.Op == token.GTR && outcome) || (bo.Op == token.LEQ && !outcome)) {
			d := linAdd(lv, linOf(bo.Y, 0), -1)
			if onlyZero(linWithout(d, "1")) && d["1"] <= 1 {
				return true
			}
		}
	}
	return false
}

// indexSearchBound: v = strings.Index*(x', sub) + c where x' is x or a suffix x[k:] of it, the search result was tested
// against -1, and 0 <= c <= len(sub) for a constant sub (c <= 1 for byte/rune searches).
func indexSearchBound(v ssa.Value, x ssa.Value, b *ssa.BasicBlock) string {
	lf := linOf(v, 0)
	var search *ssa.Call
	var searchPhi *ssa.Phi
	var find func(v ssa.Value, d int)
	find = func(v ssa.Value, d int) {
		if d > 6 {
			return
		}
		switch t := v.(type) {
		case *ssa.Call:
			name := calleeFullName(&t.Call)
			if strings.HasPrefix(name, "strings.Index") || strings.HasPrefix(name, "strings.LastIndex") || strings.HasPrefix(name, "bytes.Index") {
				search = t
			}
		case *ssa.Phi:
			if searchPhi == nil {
				searchPhi = t
			}
		case *ssa.BinOp:
			find(t.X, d+1)
			find(t.Y, d+1)
		}
	}
	find(v, 0)
	if search == nil && searchPhi != nil {
		return parallelSearchBound(lf, searchPhi, x, b)
	}
	if search == nil {
		return ""
	}
	// only the search result, non-negative offsets of enclosing suffix starts, and a constant
	if lf["1"] < 0 {
		return ""
	}
	subLen := int64(1)
	if len(search.Call.Args) > 1 {
		if s, ok := constString(search.Call.Args[1]); ok {
			subLen = int64(len(s))
		}
	}
	hay := search.Call.Args[0]
	// hay is x, or x[s:] with the same s added in v
	extra := linForm{}
	if sl, ok := hay.(*ssa.Slice); ok && sl.High == nil && sameContainer(sl.X, x) && sl.Low != nil {
		extra = linOf(sl.Low, 0)
		hay = sl.X
	}
	if !sameContainer(hay, x) {
		return ""
	}
	rest := linAdd(lf, linAdd(linForm{symName(search): 1}, extra, 1), -1)
	if !onlyZero(linWithout(rest, "1")) || rest["1"] < 0 || int64(rest["1"]) > subLen {
		return ""
	}
	// guarded: the search result compared with -1 / 0 somewhere that dominates; no test is needed when exactly 1 is added,
	// since a failed search returns -1
	guarded := rest["1"] == 1 // a failed search gives -1, so -1+1 = 0 is within bounds; with more added it need not be
	for ifi := range controllingConds(b) {
		if bo, ok := ifi.Cond.(*ssa.BinOp); ok && (bo.X == ssa.Value(search) || bo.Y == ssa.Value(search)) {
			guarded = true
		}
	}
	if !guarded {
		return ""
	}
	return "position found by " + calleeFullName(&search.Call) + " in the same string (tested against -1), plus at most the length of what was searched"
}

// parallelSearchBound: the loop form `for i := strings.Index(s, sub); i >= 0; i = strings.Index(s, sub) { ... s = s[k:] }`:
// the position and the string are joined by phis of the same block, and on every edge the position is the result of a
// search in the string of that edge.
func parallelSearchBound(lf linForm, ip *ssa.Phi, x ssa.Value, b *ssa.BasicBlock) string {
	xp, ok := x.(*ssa.Phi)
	if !ok || xp.Block() != ip.Block() || len(xp.Edges) != len(ip.Edges) {
		return ""
	}
	subLen := int64(-1)
	for i, e := range ip.Edges {
		call, ok := e.(*ssa.Call)
		if !ok {
			return ""
		}
		name := calleeFullName(&call.Call)
		if !(strings.HasPrefix(name, "strings.Index") || strings.HasPrefix(name, "strings.LastIndex") || strings.HasPrefix(name, "bytes.Index")) {
			return ""
		}
		// the string searched is the one this edge hands to the string phi (the phi itself on a back edge that leaves
		// the string alone)
		if call.Call.Args[0] != xp.Edges[i] {
			return ""
		}
		n := int64(1)
		if len(call.Call.Args) > 1 {
			if s, ok := constString(call.Call.Args[1]); ok {
				n = int64(len(s))
			}
		}
		if subLen >= 0 && n != subLen {
			return ""
		}
		subLen = n
	}
	rest := linAdd(lf, linForm{symName(ip): 1}, -1)
	if !onlyZero(linWithout(rest, "1")) || rest["1"] < 0 || int64(rest["1"]) > subLen {
		return ""
	}
	guarded := rest["1"] == 1 // a failed search gives -1, so -1+1 = 0 is within bounds; with more added it need not be
	for ifi := range controllingConds(b) {
		if bo, ok := ifi.Cond.(*ssa.BinOp); ok && (bo.X == ssa.Value(ip) || bo.Y == ssa.Value(ip)) {
			guarded = true
		}
	}
	if !guarded {
		return ""
	}
	return "position found by a search in the same string on every edge of the loop (tested against -1), plus at most the length of what was searched"
}

func lowBeforeHigh(low, high ssa.Value) bool {
	// high = low + (non-negative): e.g. s[i:i+n]
	d := linAdd(linOf(high, 0), linOf(low, 0), -1)
	for k, v := range d {
		if k == "1" {
			if v < 0 {
				return false
			}
			continue
		}
		if v < 0 {
			return false
		}
	}
	return true
}

// submatchGroups: x is one match of (*regexp.Regexp).FindAllStringSubmatch / FindStringSubmatch of a package-level regexp
// compiled from a constant pattern; returns the number of capture groups, or -1.
func submatchGroups(x ssa.Value) int {
	var call *ssa.Call
	switch v := x.(type) {
	case *ssa.UnOp:
		// element of the [][]string of FindAllStringSubmatch
		if ia, ok := v.X.(*ssa.IndexAddr); ok {
			call, _ = ia.X.(*ssa.Call)
		}
	case *ssa.Call:
		call = v
	}
	if call == nil {
		return -1
	}
	name := calleeFullName(&call.Call)
	if name != "(*regexp.Regexp).FindAllStringSubmatch" && name != "(*regexp.Regexp).FindStringSubmatch" {
		return -1
	}
	ld, ok := call.Call.Args[0].(*ssa.UnOp)
	if !ok {
		return -1
	}
	g, ok := ld.X.(*ssa.Global)
	if !ok {
		return -1
	}
	// the initialiser: MustCompile(const) stored in the package init
	pat := ""
	if init := g.Pkg.Func("init"); init != nil {
		eachInstr(init, func(_ *ssa.BasicBlock, _ int, in ssa.Instruction) {
			if st, ok := in.(*ssa.Store); ok && st.Addr == ssa.Value(g) {
				if mc, ok := st.Val.(*ssa.Call); ok && strings.HasPrefix(calleeFullName(&mc.Call), "regexp.MustCompile") {
					pat, _ = constString(mc.Call.Args[0])
				}
			}
		})
	}
	if pat == "" {
		return -1
	}
	re, err := regexpSyntaxParse(pat)
	if err != nil {
		return -1
	}
	return re
}

func regexpSyntaxParse(pat string) (int, error) {
	re, err := regexp.Compile(pat)
	if err != nil {
		return 0, err
	}
	return re.NumSubexp(), nil
}

var idxProg *Prog

// callersGuard: at every call site of fn, a condition holding there implies bound <= len(<argument for prm>), where the
// bound is recognised by its linear form over receiver fields (caller and callee name the receiver alike).
func callersGuard(fn *ssa.Function, prm *ssa.Parameter, bound ssa.Value) bool {
	if idxProg == nil {
		return false
	}
	pi := -1
	for i, q := range fn.Params {
		if q == prm {
			pi = i
		}
	}
	want := linOf(bound, 0).String()
	n := 0
	for _, e := range idxProg.callersOf(fn) {
		if e.Site == nil || e.Site.Common().IsInvoke() {
			return false
		}
		n++
		arg := e.Site.Common().Args[pi]
		ok := false
		for ifi, outcome := range controllingConds(e.Site.Block()) {
			bo, isB := ifi.Cond.(*ssa.BinOp)
			if !isB {
				continue
			}
			// len(arg) < E is false  =>  E <= len(arg)
			if isLenOf(bo.X, arg) && ((bo.Op == token.LSS && !outcome) || (bo.Op == token.GEQ && outcome)) && linOf(bo.Y, 0).String() == want {
				ok = true
			}
		}
		if !ok {
			return false
		}
	}
	return n > 0
}

// searchNeedleNonEmpty: the search is for a byte, a rune, or a non-empty constant string / set of characters.
func searchNeedleNonEmpty(call *ssa.Call) bool {
	name := calleeFullName(&call.Call)
	if strings.HasSuffix(name, "IndexByte") || strings.HasSuffix(name, "IndexRune") {
		return true
	}
	if len(call.Call.Args) > 1 {
		if s, ok := constString(call.Call.Args[1]); ok && len(s) > 0 {
			return true
		}
	}
	return false
}

// canonExpr prints an index or slice expression with every local variable and parameter replaced by its type: the name of
// the construct then survives the renaming of locals, while fields, functions, constants and literals keep it specific.
func canonExpr(pkg *packages.Package, e ast.Expr) string {
	if pkg.TypesInfo == nil {
		return types.ExprString(e)
	}
	repl := map[*ast.Ident]string{}
	ast.Inspect(e, func(n ast.Node) bool {
		if se, ok := n.(*ast.SelectorExpr); ok {
			// only the operand of a selector can be a local; the selected name is a field or method
			ast.Inspect(se.X, func(m ast.Node) bool {
				if id, ok := m.(*ast.Ident); ok {
					if t := localVarType(pkg, id); t != "" {
						repl[id] = t
					}
				}
				return true
			})
			return false
		}
		if id, ok := n.(*ast.Ident); ok {
			if t := localVarType(pkg, id); t != "" {
				repl[id] = t
			}
		}
		return true
	})
	if len(repl) == 0 {
		return types.ExprString(e)
	}
	// print with the replacements: rename the identifiers on a shallow copy of the printed text by position
	type edit struct {
		from, to int
		text     string
	}
	src := types.ExprString(e)
	// ExprString normalises spacing, so positions cannot be used; re-print through a copy of the tree instead
	saved := map[*ast.Ident]string{}
	for id, t := range repl {
		saved[id] = id.Name
		id.Name = "<" + t + ">"
	}
	out := types.ExprString(e)
	for id, n := range saved {
		id.Name = n
	}
	_ = src
	return out
}

func localVarType(pkg *packages.Package, id *ast.Ident) string {
	obj := pkg.TypesInfo.Uses[id]
	if obj == nil {
		obj = pkg.TypesInfo.Defs[id]
	}
	v, ok := obj.(*types.Var)
	if !ok || v.IsField() || v.Pkg() == nil || v.Parent() == nil || v.Parent() == v.Pkg().Scope() || v.Parent() == types.Universe {
		return ""
	}
	return typeStr(v.Type())
}

// canonVal describes a value by its provenance.
func canonVal(v ssa.Value, depth int) string {
	if v == nil {
		return ""
	}
	if depth > 4 {
		return "<" + typeStr(v.Type()) + ">"
	}
	switch x := v.(type) {
	case *ssa.Const:
		if x.Value == nil {
			return "nil"
		}
		return x.Value.ExactString()
	case *ssa.Parameter:
		return "param<" + typeStr(x.Type()) + ">"
	case *ssa.FreeVar:
		return "captured<" + typeStr(x.Type()) + ">"
	case *ssa.Convert:
		return canonVal(x.X, depth+1)
	case *ssa.ChangeType:
		return canonVal(x.X, depth+1)
	case *ssa.BinOp:
		return canonVal(x.X, depth+1) + " " + x.Op.String() + " " + canonVal(x.Y, depth+1)
	case *ssa.Phi:
		return "phi<" + typeStr(x.Type()) + ">"
	case *ssa.Slice:
		return canonVal(x.X, depth+1) + "[..]"
	case *ssa.Extract:
		if call, ok := x.Tuple.(*ssa.Call); ok {
			return canonCallee(call) + "#" + fmt.Sprint(x.Index)
		}
		return "part<" + typeStr(x.Type()) + ">"
	case *ssa.Call:
		if bi, ok := x.Call.Value.(*ssa.Builtin); ok && len(x.Call.Args) > 0 {
			return bi.Name() + "(" + canonVal(x.Call.Args[0], depth+1) + ")"
		}
		return canonCallee(x) + "()"
	case *ssa.UnOp:
		if x.Op == token.MUL {
			if fa, ok := x.X.(*ssa.FieldAddr); ok {
				return fieldAddrName(fa)
			}
			if _, ok := x.X.(*ssa.IndexAddr); ok {
				return "elem<" + typeStr(x.Type()) + ">"
			}
			if al, ok := x.X.(*ssa.Alloc); ok {
				return "local<" + typeStr(al.Type().(*types.Pointer).Elem()) + ">"
			}
		}
		return x.Op.String() + canonVal(x.X, depth+1)
	case *ssa.Field:
		n, _ := fieldName(x.X.Type(), x.Field)
		if nm := namedOf(x.X.Type()); nm != nil {
			return nm.Obj().Name() + "." + n
		}
		return "." + n
	case *ssa.Lookup:
		return "elem<" + typeStr(x.Type()) + ">"
	}
	return "<" + typeStr(v.Type()) + ">"
}

func canonCallee(call *ssa.Call) string {
	if f := staticCallee(&call.Call); f != nil {
		if inModule(f) {
			return FuncName(f)
		}
		return calleeFullName(&call.Call)
	}
	if call.Call.IsInvoke() {
		return "." + call.Call.Method.Name()
	}
	return "call<" + typeStr(call.Type()) + ">"
}

// offsetIntoParam: the index of the string/slice parameter such that every value the function returns is between 0 and
// the length of that parameter (byte index of a range loop over it, its length, the constant 0); -1 if there is none.
func offsetIntoParam(g *ssa.Function) int {
	if g.Signature.Results().Len() != 1 {
		return -1
	}
	for k, prm := range g.Params {
		switch prm.Type().Underlying().(type) {
		case *types.Basic, *types.Slice:
		default:
			continue
		}
		if b, ok := prm.Type().Underlying().(*types.Basic); ok && b.Info()&types.IsString == 0 {
			continue
		}
		all, n := true, 0
		var within func(v ssa.Value, seen map[ssa.Value]bool) bool
		within = func(v ssa.Value, seen map[ssa.Value]bool) bool {
			if seen[v] {
				return true
			}
			seen[v] = true
			switch x := v.(type) {
			case *ssa.Const:
				c, ok := constInt(x)
				return ok && c == 0
			case *ssa.Call:
				return isLenOf(x, prm)
			case *ssa.Extract:
				if nx, ok := x.Tuple.(*ssa.Next); ok && nx.IsString && x.Index == 1 {
					if rg, ok := nx.Iter.(*ssa.Range); ok && rg.X == ssa.Value(prm) {
						return true
					}
				}
			case *ssa.Phi:
				for _, e := range x.Edges {
					if !within(e, seen) {
						return false
					}
				}
				return true
			}
			return false
		}
		for _, b := range g.Blocks {
			if ret, ok := b.Instrs[len(b.Instrs)-1].(*ssa.Return); ok {
				n++
				if !within(ret.Results[0], map[ssa.Value]bool{}) {
					all = false
				}
			}
		}
		if all && n > 0 {
			return k
		}
	}
	return -1
}

// lexerOffsetOf: v is (*ExprLexer).Offset() of a lexer that NewExprLexer built from x, directly or as a result of an
// in-module function all of whose returns are such an offset for the parameter that receives x. The fact relied on is
// that text/scanner's Pos().Offset of a scanner initialised with strings.NewReader(s) lies in [0, len(s)]; that
// NewExprLexer initialises the scanner that way and Offset returns that position is checked on the code.
func lexerOffsetOf(v ssa.Value, x ssa.Value, depth int) bool {
	if depth > 3 || idxProg == nil {
		return false
	}
	newLexer := idxProg.Func("NewExprLexer")
	offset := idxProg.Method("ExprLexer", "Offset")
	if newLexer == nil || offset == nil || !lexerReadsItsArgument(newLexer, offset) {
		return false
	}
	res := 0
	if ex, ok := v.(*ssa.Extract); ok {
		res = ex.Index
		v = ex.Tuple
	}
	call, ok := v.(*ssa.Call)
	if !ok {
		return false
	}
	f := staticCallee(&call.Call)
	if f == nil {
		return false
	}
	if f == offset {
		if len(call.Call.Args) == 0 {
			return false
		}
		mk, ok := call.Call.Args[0].(*ssa.Call)
		if !ok || staticCallee(&mk.Call) != newLexer || len(mk.Call.Args) == 0 {
			return false
		}
		return sameContainer(mk.Call.Args[0], x)
	}
	if f.Blocks == nil || !inPkgName(f) {
		return false
	}
	// a helper: which parameter receives x
	for i, a := range call.Call.Args {
		if !sameContainer(a, x) || i >= len(f.Params) {
			continue
		}
		all, n := true, 0
		for _, b := range f.Blocks {
			ret, ok := b.Instrs[len(b.Instrs)-1].(*ssa.Return)
			if !ok {
				continue
			}
			n++
			if res >= len(ret.Results) || !lexerOffsetOf(ret.Results[res], f.Params[i], depth+1) {
				all = false
			}
		}
		if all && n > 0 {
			return true
		}
	}
	return false
}

// lexerReadsItsArgument: NewExprLexer hands strings.NewReader(<its parameter>) to the scanner's Init, and Offset returns
// the Offset field of the scanner's Pos().
func lexerReadsItsArgument(newLexer, offset *ssa.Function) bool {
	reads := false
	eachInstr(newLexer, func(_ *ssa.BasicBlock, _ int, in ssa.Instruction) {
		call, ok := in.(*ssa.Call)
		if !ok || calleeFullName(&call.Call) != "(*text/scanner.Scanner).Init" || len(call.Call.Args) < 2 {
			return
		}
		src := call.Call.Args[1]
		if mi, ok := src.(*ssa.MakeInterface); ok {
			src = mi.X
		}
		if rd, ok := src.(*ssa.Call); ok && calleeFullName(&rd.Call) == "strings.NewReader" && len(newLexer.Params) > 0 && rd.Call.Args[0] == ssa.Value(newLexer.Params[0]) {
			reads = true
		}
	})
	if !reads {
		return false
	}
	returnsPos := false
	for _, b := range offset.Blocks {
		ret, ok := b.Instrs[len(b.Instrs)-1].(*ssa.Return)
		if !ok || len(ret.Results) != 1 {
			continue
		}
		f, base := fieldLoad(ret.Results[0])
		if f == "" {
			if fl, ok := ret.Results[0].(*ssa.Field); ok {
				base = fl.X
				f = "Position.Offset"
				if fl.Field != 1 {
					f = ""
				}
			}
		}
		if !strings.HasSuffix(f, "Position.Offset") {
			return false
		}
		if pc, ok := base.(*ssa.Call); ok && calleeFullName(&pc.Call) == "(*text/scanner.Scanner).Pos" {
			returnsPos = true
		} else {
			return false
		}
	}
	return returnsPos
}
