package main

import (
	"fmt"
	"go/token"
	"sort"
	"strings"

	"golang.org/x/tools/go/ssa"
)

func init() {
	register(&Rule{ID: "C05.STEP", Min: 2, Doc: "a step id enters the steps scope only after every expression of that step was checked", Run: runC05Step})
	register(&Rule{ID: "C05.JOB", Min: 6, Doc: "the per-job scopes are set before the sections that may use them and reset after the last one, on every path", Run: runC05Job})
	register(&Rule{ID: "C05.NEEDS", Min: 4, Doc: "the needs scope is built from the direct needs entries of the job only", Run: runC05Needs})
	register(&Rule{ID: "C05.STRICT", Min: 8, Doc: "scope objects are strict unless their defining section contains an expression", Run: runC05Strict})
	register(&Rule{ID: "C05.UPD", Min: 14, Doc: "each scope field is handed to the semantic checker under its own context name", Run: runC05Upd})
	register(&Rule{ID: "C05.SELF", Min: 1, Doc: "a reusable-workflow input enters the inputs scope only after its own default was checked", Run: runC05Self})
}

var scopeFields = []string{"matrixTy", "stepsTy", "needsTy", "secretsTy", "inputsTy", "dispatchInputsTy", "jobsTy"}

// exprCheckers: functions of the module from which the semantic check of an expression is reachable.
func (p *Prog) exprCheckers() map[*ssa.Function]bool {
	return p.memoFuncSet("exprCheckers", func() map[*ssa.Function]bool {
		target := p.Method("RuleExpression", "checkSemanticsOfExprNode")
		out := map[*ssa.Function]bool{}
		if target == nil {
			return out
		}
		cg := p.CallGraph()
		var visit func(f *ssa.Function)
		visit = func(f *ssa.Function) {
			if out[f] {
				return
			}
			out[f] = true
			if n := cg.Nodes[f]; n != nil {
				for _, e := range n.In {
					if e.Caller.Func != nil && inPkgName(e.Caller.Func) {
						visit(e.Caller.Func)
					}
				}
			}
		}
		visit(target)
		return out
	})
}

var funcSetMemo = map[string]map[*ssa.Function]bool{}

func (p *Prog) memoFuncSet(key string, f func() map[*ssa.Function]bool) map[*ssa.Function]bool {
	k := fmt.Sprintf("%p:%s", p, key)
	if v, ok := funcSetMemo[k]; ok {
		return v
	}
	v := f()
	funcSetMemo[k] = v
	return v
}

// checkingCalls: call sites in fn that may check an expression.
func (p *Prog) checkingCalls(fn *ssa.Function) []ssa.CallInstruction {
	set := p.exprCheckers()
	var out []ssa.CallInstruction
	eachInstr(fn, func(_ *ssa.BasicBlock, _ int, in ssa.Instruction) {
		call, ok := in.(ssa.CallInstruction)
		if !ok {
			return
		}
		for _, callee := range p.calleesOf(call) {
			if set[callee] {
				out = append(out, call)
				return
			}
		}
	})
	return out
}

func describeCall(call ssa.CallInstruction) string {
	n := calleeFullName(call.Common())
	if f := staticCallee(call.Common()); f != nil && inPkgName(f) {
		n = FuncName(f)
	}
	// first argument that is a field load
	for _, a := range call.Common().Args {
		if f, _ := fieldLoad(a); f != "" {
			return n + "(" + f + ")"
		}
	}
	return n
}

// instrReachableAfter: b can execute after a (same block later, or a's block reaches b's block).
func instrReachableAfter(a, b ssa.Instruction) bool {
	if a.Block() == b.Block() {
		if instrIndex(a) < instrIndex(b) {
			return true
		}
		return blockInCycle(a.Block())
	}
	return reachableBlocks(a.Block().Succs, nil)[b.Block()]
}

// scopeStores: stores to rule.<field> in fn.
func scopeStores(fn *ssa.Function, field string) []*ssa.Store {
	var out []*ssa.Store
	eachInstr(fn, func(_ *ssa.BasicBlock, _ int, in ssa.Instruction) {
		if st, ok := in.(*ssa.Store); ok {
			if fa, ok := st.Addr.(*ssa.FieldAddr); ok && fieldAddrName(fa) == "RuleExpression."+field {
				out = append(out, st)
			}
		}
	})
	return out
}

// ---- C05.STEP ----

func runC05Step(c *Ctx) {
	p := c.P
	fn := p.Method("RuleExpression", "VisitStep")
	if fn == nil {
		c.anchorMissing("(*RuleExpression).VisitStep")
		return
	}
	// the registration: MapUpdate on stepsTy.Props, in VisitStep itself or in a helper on the same receiver that VisitStep
	// calls (an extracted "define the step id" method)
	type reg struct {
		mu     *ssa.MapUpdate
		anchor ssa.Instruction // the instruction of VisitStep at which the registration happens
		call   *ssa.Call       // the call of the helper (nil when registered in VisitStep itself)
	}
	var regs []reg
	var collect func(f *ssa.Function, anchor ssa.Instruction, call *ssa.Call, depth int)
	collect = func(f *ssa.Function, anchor ssa.Instruction, call *ssa.Call, depth int) {
		eachInstr(f, func(_ *ssa.BasicBlock, _ int, in ssa.Instruction) {
			switch x := in.(type) {
			case *ssa.MapUpdate:
				fl, base := fieldLoad(x.Map)
				if fl != "ObjectType.Props" {
					return
				}
				if bf, _ := fieldLoad(base); bf == "RuleExpression.stepsTy" {
					a := anchor
					if a == nil {
						a = x
					}
					regs = append(regs, reg{x, a, call})
				}
			case *ssa.Call:
				g := staticCallee(&x.Call)
				if depth >= 2 || g == nil || g == f || !inModule(g) || g.Blocks == nil || len(x.Call.Args) == 0 || len(f.Params) == 0 || x.Call.Args[0] != ssa.Value(f.Params[0]) {
					return
				}
				a := anchor
				if a == nil {
					a = x
				}
				cl := call
				if cl == nil {
					cl = x
				}
				collect(g, a, cl, depth+1)
			}
		})
	}
	collect(fn, nil, nil, 0)
	if len(regs) == 0 {
		c.bad("(*RuleExpression).VisitStep|step id registration", fn.Pos(), "the step id is never added to the steps scope")
		return
	}
	checks := p.checkingCalls(fn)
	if len(checks) < 8 {
		c.undecided("(*RuleExpression).VisitStep|checking calls", fn.Pos(), fmt.Sprintf("only %d expression-checking calls found", len(checks)))
		return
	}
	var late []string
	for _, r := range regs {
		for _, ch := range checks {
			if ch == r.anchor {
				continue
			}
			if instrReachableAfter(r.anchor, ch) {
				late = append(late, fmt.Sprintf("%s at %s", describeCall(ch), p.Pos(ch.Pos())))
			}
		}
		if r.call != nil {
			// inside the helper nothing of the step is checked after the registration either
			for _, ch := range p.checkingCalls(r.mu.Parent()) {
				if instrReachableAfter(r.mu, ch) {
					late = append(late, fmt.Sprintf("%s at %s", describeCall(ch), p.Pos(ch.Pos())))
				}
			}
		}
	}
	sort.Strings(late)
	if len(late) == 0 {
		c.ok("(*RuleExpression).VisitStep|own id not in scope", regs[0].mu.Pos(), fmt.Sprintf("none of the %d expression-checking calls can run after the id was registered", len(checks)))
	} else {
		c.bad("(*RuleExpression).VisitStep|own id not in scope", regs[0].mu.Pos(), "expressions of the step are checked after its own id was added to the steps scope, so a reference to the step itself is accepted: "+strings.Join(late, "; "))
	}
	// the id is registered whenever the step has one: apart from the `ID == nil` edge no path of VisitStep (and none of the
	// helper that registers) returns without passing the registration
	{
		var skipped []string
		anchors := map[ssa.Instruction]bool{}
		for _, r := range regs {
			anchors[r.anchor] = true
		}
		if pos, found := returnsAvoiding(fn, anchors, stepIDValues(fn, nil)); found {
			skipped = append(skipped, p.Pos(pos))
		}
		for _, r := range regs {
			if r.call == nil {
				continue
			}
			h := r.mu.Parent()
			if h == staticCallee(&r.call.Call) {
				if pos, found := returnsAvoiding(h, map[ssa.Instruction]bool{r.mu: true}, stepIDValues(h, r.call)); found {
					skipped = append(skipped, p.Pos(pos))
				}
			}
		}
		sort.Strings(skipped)
		construct := "(*RuleExpression).VisitStep|registered whenever the step has an id"
		if len(skipped) == 0 {
			c.ok(construct, regs[0].mu.Pos(), "only the `ID == nil` edge leads to a return without the registration")
		} else {
			c.bad(construct, regs[0].mu.Pos(), "a step with an id can leave VisitStep without entering the steps scope, so later references to it are reported as undefined: return at "+strings.Join(skipped, ", "))
		}
	}
	// nobody else adds entries to the steps scope (ids of later steps or of another job would resolve)
	{
		isReg := map[*ssa.MapUpdate]bool{}
		for _, r := range regs {
			isReg[r.mu] = true
		}
		var others []string
		for _, f := range p.Funcs {
			if !inModule(f) {
				continue
			}
			fresh := map[ssa.Value]bool{}
			for _, st := range scopeStores(f, "stepsTy") {
				if !isNilConst(st.Val) {
					fresh[st.Val] = true
				}
			}
			eachInstr(f, func(_ *ssa.BasicBlock, _ int, in ssa.Instruction) {
				mu, ok := in.(*ssa.MapUpdate)
				if !ok || isReg[mu] {
					return
				}
				fl, base := fieldLoad(mu.Map)
				if fl != "ObjectType.Props" {
					return
				}
				if bf, _ := fieldLoad(base); bf == "RuleExpression.stepsTy" || fresh[base] {
					others = append(others, FuncName(f)+" at "+p.Pos(mu.Pos()))
				}
			})
		}
		sort.Strings(others)
		construct := "RuleExpression.stepsTy|entries added by the registration only"
		if len(others) == 0 {
			c.ok(construct, regs[0].mu.Pos(), "no other store into the Props of the steps scope")
		} else {
			c.bad(construct, regs[0].mu.Pos(), "the steps scope also receives entries outside the registration of the step just checked (a step then sees ids that are not those of earlier steps): "+strings.Join(others, "; "))
		}
	}
	// the key under which it is registered is the lower-cased id of this step
	okKey := false
	if call, ok := regs[0].mu.Key.(*ssa.Call); ok && calleeFullName(&call.Call) == "strings.ToLower" {
		if f, base := fieldLoad(call.Call.Args[0]); f == "String.Value" {
			// through the helper's parameter to the argument VisitStep passes
			if prm, isParam := base.(*ssa.Parameter); isParam && regs[0].call != nil {
				for i, q := range prm.Parent().Params {
					if q == prm && i < len(regs[0].call.Call.Args) {
						base = regs[0].call.Call.Args[i]
					}
				}
			}
			if bf, _ := fieldLoad(base); bf == "Step.ID" {
				okKey = true
			}
		}
	}
	if okKey {
		c.ok("(*RuleExpression).VisitStep|registered under lower(ID)", regs[0].mu.Pos(), "key is strings.ToLower(n.ID.Value)")
	} else {
		c.bad("(*RuleExpression).VisitStep|registered under lower(ID)", regs[0].mu.Pos(), "the step is not registered under its lower-cased id")
	}
}

// ---- C05.JOB ----

func runC05Job(c *Ctx) {
	p := c.P
	pre := p.Method("RuleExpression", "VisitJobPre")
	post := p.Method("RuleExpression", "VisitJobPost")
	if pre == nil || post == nil {
		c.anchorMissing("(*RuleExpression).VisitJobPre/VisitJobPost")
		return
	}
	// Pre: needsTy is stored before every expression-checking call; matrixTy before every one except the call computing it
	checks := p.checkingCalls(pre)
	if len(checks) < 10 {
		c.undecided("(*RuleExpression).VisitJobPre|checking calls", pre.Pos(), fmt.Sprintf("only %d expression-checking calls found", len(checks)))
	}
	for _, field := range []string{"needsTy", "matrixTy"} {
		sts := scopeWrites(p, pre, field)
		construct := "(*RuleExpression).VisitJobPre|" + field + " set before use"
		if len(sts) == 0 {
			c.bad(construct, pre.Pos(), field+" is not set")
			continue
		}
		var early []string
		for _, ch := range checks {
			// the call that computes the stored value is exempt
			exempt := false
			for _, st := range sts {
				if v, ok := ch.(ssa.Value); ok && st.Val == v {
					exempt = true
				}
			}
			if exempt {
				continue
			}
			for _, st := range sts {
				if instrReachableAfter(ch, st.Instruction) {
					early = append(early, describeCall(ch)+" at "+p.Pos(ch.Pos()))
				}
			}
		}
		sort.Strings(early)
		if len(early) == 0 {
			c.ok(construct, sts[0].Pos(), "no expression of the job is checked before the scope is set")
		} else {
			c.bad(construct, sts[0].Pos(), "expressions are checked before "+field+" is set, so references into it are resolved against the wrong scope: "+strings.Join(early, "; "))
		}
	}
	// needsTy unconditionally on every path
	domAll := func(fn *ssa.Function, sts []scopeW, pred func(scopeW) bool) bool {
		for _, b := range fn.Blocks {
			if _, ok := b.Instrs[len(b.Instrs)-1].(*ssa.Return); !ok {
				continue
			}
			covered := false
			for _, st := range sts {
				if pred(st) && (st.Block() == b || st.Block().Dominates(b)) {
					covered = true
				}
			}
			if !covered {
				return false
			}
		}
		return true
	}
	isFresh := func(st scopeW) bool {
		call, ok := st.Val.(*ssa.Call)
		if !ok {
			return false
		}
		f := staticCallee(&call.Call)
		return f != nil && FuncName(f) == "NewEmptyStrictObjectType"
	}
	if domAll(pre, scopeWrites(p, pre, "stepsTy"), isFresh) {
		c.ok("(*RuleExpression).VisitJobPre|stepsTy fresh per job", pre.Pos(), "every path stores a new empty strict object")
	} else {
		c.bad("(*RuleExpression).VisitJobPre|stepsTy fresh per job", pre.Pos(), "a path leaves the previous job's steps in scope (or none): step ids of another job resolve")
	}
	// the steps scope must be set after all the job-level checks (job-level sections cannot see steps)
	{
		var late []string
		for _, st := range scopeWrites(p, pre, "stepsTy") {
			for _, ch := range checks {
				if instrReachableAfter(st.Instruction, ch) {
					late = append(late, describeCall(ch))
				}
			}
		}
		if len(late) == 0 {
			c.ok("(*RuleExpression).VisitJobPre|stepsTy after job-level checks", pre.Pos(), "no job-level section is checked with the steps scope set")
		} else {
			c.bad("(*RuleExpression).VisitJobPre|stepsTy after job-level checks", pre.Pos(), "job-level sections are checked with an (empty) strict steps scope: "+strings.Join(late, "; "))
		}
	}
	if domAll(pre, scopeWrites(p, pre, "needsTy"), func(st scopeW) bool {
		call, ok := st.Val.(*ssa.Call)
		if !ok {
			return false
		}
		f := staticCallee(&call.Call)
		return f != nil && FuncName(f) == "(*RuleExpression).calcNeedsType" && len(call.Call.Args) == 2 && call.Call.Args[1] == ssa.Value(pre.Params[1])
	}) {
		c.ok("(*RuleExpression).VisitJobPre|needsTy of this job", pre.Pos(), "every path stores calcNeedsType(<this job>)")
	} else {
		c.bad("(*RuleExpression).VisitJobPre|needsTy of this job", pre.Pos(), "needsTy is not computed from this job on every path")
	}
	// Post: all three reset to nil on every path, after every check
	pchecks := p.checkingCalls(post)
	for _, field := range []string{"matrixTy", "stepsTy", "needsTy"} {
		sts := scopeWrites(p, post, field)
		construct := "(*RuleExpression).VisitJobPost|" + field + " reset"
		isNil := func(st scopeW) bool { return isNilConst(st.Val) }
		if !domAll(post, sts, isNil) {
			c.bad(construct, post.Pos(), "a path leaves "+field+" of this job in scope for what is checked next")
			continue
		}
		var late []string
		for _, st := range sts {
			for _, ch := range pchecks {
				if instrReachableAfter(st.Instruction, ch) {
					late = append(late, describeCall(ch))
				}
			}
		}
		if len(late) == 0 {
			c.ok(construct, sts[0].Pos(), fmt.Sprintf("reset on every path, after the %d checks of outputs/environment", len(pchecks)))
		} else {
			c.bad(construct, sts[0].Pos(), "the scope is reset before sections that may refer to it are checked: "+strings.Join(late, "; "))
		}
	}
	if len(pchecks) < 3 {
		c.bad("(*RuleExpression).VisitJobPost|outputs and environment checked", post.Pos(), fmt.Sprintf("only %d expression checks in VisitJobPost", len(pchecks)))
	} else {
		c.ok("(*RuleExpression).VisitJobPost|outputs and environment checked", post.Pos(), "job outputs and environment are checked while all steps are in scope")
	}
	// nobody else writes the per-job scope fields
	for _, field := range []string{"matrixTy", "stepsTy", "needsTy"} {
		var others []string
		for _, fn := range p.Funcs {
			if fn == pre || fn == post || fn.Name() == "NewRuleExpression" || helperOnlyOf(p, fn, pre, post) {
				continue
			}
			if len(scopeStores(fn, field)) > 0 {
				others = append(others, FuncName(fn))
			}
		}
		sort.Strings(others)
		if len(others) == 0 {
			c.ok("RuleExpression."+field+"|writers", pre.Pos(), "only VisitJobPre/VisitJobPost assign it")
		} else {
			c.bad("RuleExpression."+field+"|writers", pre.Pos(), "also assigned by "+strings.Join(others, ", "))
		}
	}
}

// ---- C05.NEEDS ----

func runC05Needs(c *Ctx) {
	p := c.P
	fn := p.Method("RuleExpression", "populateDependantNeedsTypes")
	calc := p.Method("RuleExpression", "calcNeedsType")
	if fn == nil && calc != nil {
		fn = calc // the helper was merged into its only caller: the same obligations are read off calcNeedsType
	}
	if fn == nil || calc == nil {
		c.anchorMissing("(*RuleExpression).populateDependantNeedsTypes / calcNeedsType")
		return
	}
	// the object that is filled: the `out` parameter of the helper, or - merged - the object calcNeedsType returns
	filled := map[ssa.Value]bool{}
	if fn != calc && len(fn.Params) > 1 {
		filled[fn.Params[1]] = true
	}
	for _, b := range fn.Blocks {
		if ret, ok := b.Instrs[len(b.Instrs)-1].(*ssa.Return); ok && fn == calc && len(ret.Results) == 1 {
			filled[ret.Results[0]] = true
		}
	}
	// (1) not recursive
	rec := false
	for f := range p.reachable(fn) {
		if f == fn {
			continue
		}
		for _, e := range p.callersOf(fn) {
			if e.Caller.Func == f {
				rec = true
			}
		}
	}
	for _, e := range p.callersOf(fn) {
		if e.Caller.Func == fn {
			rec = true
		}
	}
	if rec {
		c.bad("(*RuleExpression).populateDependantNeedsTypes|direct only", fn.Pos(), "the function can reach itself: needs are resolved transitively")
	} else {
		c.ok("(*RuleExpression).populateDependantNeedsTypes|direct only", fn.Pos(), "not recursive")
	}
	// (2) Job.Needs is only read from the job parameter
	okNeeds, n := true, 0
	needFns := []*ssa.Function{fn}
	if calc != fn {
		needFns = append(needFns, calc)
	}
	for _, f := range needFns {
		eachInstr(f, func(_ *ssa.BasicBlock, _ int, in ssa.Instruction) {
			fa, ok := in.(*ssa.FieldAddr)
			if !ok || fieldAddrName(fa) != "Job.Needs" {
				return
			}
			n++
			if _, isParam := fa.X.(*ssa.Parameter); !isParam {
				okNeeds = false
			}
		})
	}
	switch {
	case n == 0:
		c.bad("(*RuleExpression).populateDependantNeedsTypes|needs of the job itself", fn.Pos(), "Job.Needs is never read")
	case okNeeds:
		c.ok("(*RuleExpression).populateDependantNeedsTypes|needs of the job itself", fn.Pos(), "Job.Needs is read from the job parameter only")
	default:
		c.bad("(*RuleExpression).populateDependantNeedsTypes|needs of the job itself", fn.Pos(), "Job.Needs of a looked-up job is read: indirect dependencies enter the scope")
	}
	// calcNeedsType hands the same job twice
	for _, call := range findCalls(calc, "(*RuleExpression).populateDependantNeedsTypes") {
		a := call.Common().Args
		// every *Job argument of the call is the job calcNeedsType was given (one parameter for it, or two)
		jobs, same := 0, true
		for _, x := range a {
			if typeStr(x.Type()) == "*Job" {
				jobs++
				if len(calc.Params) < 2 || x != ssa.Value(calc.Params[1]) {
					same = false
				}
			}
		}
		if jobs > 0 && same {
			c.ok("(*RuleExpression).calcNeedsType|job", call.Pos(), "populated from the job itself")
		} else {
			c.bad("(*RuleExpression).calcNeedsType|job", call.Pos(), "the needs scope is not populated from the job being checked")
		}
	}
	// (3) the entry: key is the lower-cased needs id, the job is looked up under the same key, value is a strict object
	eachInstr(fn, func(_ *ssa.BasicBlock, _ int, in ssa.Instruction) {
		mu, ok := in.(*ssa.MapUpdate)
		if !ok {
			return
		}
		f, base := fieldLoad(mu.Map)
		if f != "ObjectType.Props" || !filled[base] {
			return
		}
		construct := "(*RuleExpression).populateDependantNeedsTypes|entry"
		okKey := false
		if call, ok := mu.Key.(*ssa.Call); ok && calleeFullName(&call.Call) == "strings.ToLower" {
			okKey = true
		}
		// the job lookup that controls this block uses the same key
		sameLookup := false
		for ifi, outcome := range controllingConds(mu.Block()) {
			if t, k := lookupCond(ifi.Cond); t == "Workflow.Jobs" && outcome && k == mu.Key {
				sameLookup = true
			}
		}
		strict := false
		if call, ok := mu.Value.(*ssa.MakeInterface); ok {
			if cc, ok := call.X.(*ssa.Call); ok {
				if f := staticCallee(&cc.Call); f != nil && FuncName(f) == "NewStrictObjectType" {
					strict = true
				}
			}
		}
		// every entry of Job.Needs is looked at: the loop that makes the entries is left only at its header
		allSeen := false
		if h, body := innermostLoop(mu.Block()); h != nil {
			allSeen = true
			for x := range body {
				for _, s := range x.Succs {
					if x != h && !body[s] {
						allSeen = false
					}
				}
			}
		}
		if okKey && sameLookup && strict && !allSeen {
			c.bad(construct, mu.Pos(), "the loop over the needs entries can be left before the last entry (return/break in its body): a directly needed job listed behind the entry that ends the loop is missing from the needs scope")
		} else if okKey && sameLookup && strict {
			c.ok(construct, mu.Pos(), "needs.<lower id> is a strict object, present iff the job exists under the same key")
		} else {
			c.bad(construct, mu.Pos(), fmt.Sprintf("lower-cased key=%v, job looked up under the same key=%v, strict=%v", okKey, sameLookup, strict))
		}
	})
	// (4) outputs of a normal job: strict, filled from j.Outputs
	okOut := false
	eachInstr(fn, func(_ *ssa.BasicBlock, _ int, in ssa.Instruction) {
		mu, ok := in.(*ssa.MapUpdate)
		if !ok {
			return
		}
		if rf, idx := rangePart(mu.Key); rf == "Job.Outputs" && idx == 1 {
			if f, base := fieldLoad(mu.Map); f == "ObjectType.Props" {
				if call, ok := base.(*ssa.Call); ok {
					if cf := staticCallee(&call.Call); cf != nil && FuncName(cf) == "NewEmptyStrictObjectType" {
						okOut = true
					}
				}
			}
		}
	})
	// ... and what each entry carries as its member "outputs" is that object, filled from the job the entry stands for (the
	// one looked up under the entry's key), or the outputs type of that job's workflow call
	whyOut := ""
	eachInstr(fn, func(_ *ssa.BasicBlock, _ int, in ssa.Instruction) {
		if mu, ok := in.(*ssa.MapUpdate); ok {
			if f, base := fieldLoad(mu.Map); f == "ObjectType.Props" && filled[base] {
				if w := needsEntryOutputs(fn, mu); w != "" {
					whyOut = w
				}
			}
		}
	})
	if okOut && whyOut != "" {
		c.bad("(*RuleExpression).populateDependantNeedsTypes|outputs", fn.Pos(), "needs.<job_id>.outputs does not hold the declared outputs of the needed job: "+whyOut)
	} else if okOut {
		c.ok("(*RuleExpression).populateDependantNeedsTypes|outputs", fn.Pos(), "strict object filled from the needed job's declared outputs")
	} else {
		c.bad("(*RuleExpression).populateDependantNeedsTypes|outputs", fn.Pos(), "outputs of a needed job are not a strict object of its declared outputs")
	}
}

// ---- C05.STRICT ----

func runC05Strict(c *Ctx) {
	p := c.P
	// (a) constructors of the objects stored in the scope fields
	for _, field := range scopeFields {
		if field == "matrixTy" {
			continue // decided below on the returns of checkMatrix
		}
		for _, fn := range p.Funcs {
			for _, st := range scopeStores(fn, field) {
				if isNilConst(st.Val) {
					continue
				}
				construct := FuncName(fn) + "|" + field + " origin"
				ctors := scopeCtors(p, st.Val, 0, map[ssa.Value]bool{})
				sort.Strings(ctors)
				bad := ""
				for _, k := range ctors {
					switch k {
					case "NewEmptyStrictObjectType", "NewStrictObjectType":
					case "NewEmptyObjectType", "(*RuleExpression).checkMatrixExpression":
						if field != "matrixTy" {
							bad = k
						}
					default:
						bad = k
					}
				}
				if bad == "" && len(ctors) > 0 {
					c.ok(construct, st.Pos(), "built by "+strings.Join(ctors, ", "))
				} else if len(ctors) == 0 {
					c.undecided(construct, st.Pos(), "origin of the scope object not found")
				} else {
					c.bad(construct, st.Pos(), "the scope object may come from "+bad+", which is not a strict constructor: undefined names are no longer reported")
				}
			}
		}
	}
	// (a') matrix: an open object is returned only below an `Expression != nil` test; the base object is strict
	if cm := p.Method("RuleExpression", "checkMatrix"); cm == nil {
		c.anchorMissing("(*RuleExpression).checkMatrix")
	} else {
		n := 0
		for _, b := range cm.Blocks {
			ret, ok := b.Instrs[len(b.Instrs)-1].(*ssa.Return)
			if !ok {
				continue
			}
			call, ok := ret.Results[0].(*ssa.Call)
			if !ok {
				continue
			}
			f := staticCallee(&call.Call)
			if f == nil || (FuncName(f) != "NewEmptyObjectType" && FuncName(f) != "(*RuleExpression).checkMatrixExpression" && FuncName(f) != "NewMapObjectType") {
				continue
			}
			n++
			construct := fmt.Sprintf("(*RuleExpression).checkMatrix|open result#%d", n)
			guard := ""
			for ifi, outcome := range controllingConds(b) {
				if v, nilSucc, ok := nilTest(ifi); ok {
					if fl, _ := fieldLoad(v); strings.HasSuffix(fl, ".Expression") && (nilSucc == 0) != outcome {
						guard = fl + " != nil"
					}
				}
			}
			if guard != "" {
				c.ok(construct, ret.Pos(), "open matrix only because "+guard)
			} else {
				c.bad(construct, ret.Pos(), "an open matrix object is returned although neither the matrix nor its include section is an expression: undefined matrix keys are not reported")
			}
		}
		base := false
		eachInstr(cm, func(_ *ssa.BasicBlock, _ int, in ssa.Instruction) {
			if mu, ok := in.(*ssa.MapUpdate); ok {
				if rf, idx := rangePart(mu.Key); rf == "Matrix.Rows" && idx == 1 {
					if fl, base0 := fieldLoad(mu.Map); fl == "ObjectType.Props" {
						for _, k := range scopeCtors(p, base0, 0, map[ssa.Value]bool{}) {
							if k == "NewEmptyStrictObjectType" {
								base = true
							}
						}
					}
				}
			}
		})
		if base {
			c.ok("(*RuleExpression).checkMatrix|rows in a strict object", cm.Pos(), "row keys are entered under the map key into a strict object")
		} else {
			c.bad("(*RuleExpression).checkMatrix|rows in a strict object", cm.Pos(), "the row keys are not collected into a strict object")
		}
	}
	// (a'') exactly the row keys plus the include keys: every row and every literal include assignment enters its key
	if cm := p.Method("RuleExpression", "checkMatrix"); cm != nil {
		for _, t := range []struct{ field, what string }{{"Matrix.Rows", "row"}, {"MatrixCombination.Assigns", "include assignment"}} {
			construct := "(*RuleExpression).checkMatrix|every " + t.what + " enters its key"
			if pos, why := keyEnteredForEveryElement(cm, t.field); why == "" {
				c.ok(construct, pos, "stored on every iteration of the loop over "+t.field)
			} else {
				c.bad(construct, pos, "a matrix key given by a "+t.what+" may be missing from the matrix scope ("+why+"): a reference to it is reported as undefined")
			}
		}
	}
	// (b) every Loose() in the rule is guarded by an expression test
	occ := map[string]int{}
	for _, fn := range p.Funcs {
		if !strings.HasSuffix(p.unitFile(fn), "/rule_expression.go") {
			continue
		}
		for _, call := range findCalls(fn, "(*ObjectType).Loose") {
			k := FuncName(fn) + "|Loose()"
			occ[k]++
			construct := fmt.Sprintf("%s#%d", k, occ[k])
			reason := exprGuardAt(call.Block())
			if reason == "" {
				// the whole function is only entered for a section given by an expression: every call site is guarded
				all, n := true, 0
				for _, e := range p.callersOf(fn) {
					if e.Site == nil {
						continue
					}
					n++
					if g := exprGuardAt(e.Site.Block()); g == "" {
						all = false
					} else {
						reason = "every caller: " + g
					}
				}
				if !all || n == 0 {
					reason = ""
				}
			}
			if reason != "" {
				c.ok(construct, call.Pos(), "the scope is opened because "+reason)
			} else {
				c.bad(construct, call.Pos(), "a scope object is opened although no expression was found in its defining section")
			}
		}
	}
}

// scopeCtors: names of the functions whose call results may be the value (through phis, in-module returns and field round trips).
func scopeCtors(p *Prog, v ssa.Value, depth int, seen map[ssa.Value]bool) []string {
	if depth > 6 || seen[v] {
		return nil
	}
	seen[v] = true
	switch x := v.(type) {
	case *ssa.Phi:
		var out []string
		for _, e := range x.Edges {
			out = append(out, scopeCtors(p, e, depth+1, seen)...)
		}
		return out
	case *ssa.Const:
		return nil
	case *ssa.Call:
		f := staticCallee(&x.Call)
		if f == nil {
			return []string{"dynamic call"}
		}
		n := FuncName(f)
		switch n {
		case "NewEmptyStrictObjectType", "NewStrictObjectType", "NewEmptyObjectType", "NewMapObjectType", "(*RuleExpression).checkMatrixExpression":
			return []string{n}
		}
		if !inPkgName(f) || f.Blocks == nil {
			return []string{n}
		}
		var out []string
		for _, b := range f.Blocks {
			if ret, ok := b.Instrs[len(b.Instrs)-1].(*ssa.Return); ok && len(ret.Results) > 0 {
				out = append(out, scopeCtors(p, ret.Results[0], depth+1, seen)...)
			}
		}
		return out
	case *ssa.Extract:
		if ta, ok := x.Tuple.(*ssa.TypeAssert); ok {
			return scopeCtors(p, ta.X, depth+1, seen)
		}
	case *ssa.TypeAssert:
		return scopeCtors(p, x.X, depth+1, seen)
	case *ssa.MakeInterface:
		return scopeCtors(p, x.X, depth+1, seen)
	case *ssa.ChangeInterface:
		return scopeCtors(p, x.X, depth+1, seen)
	case *ssa.UnOp:
		if x.Op == token.MUL {
			if al, ok := x.X.(*ssa.Alloc); ok {
				var out []string
				for _, ref := range *al.Referrers() {
					if st, ok := ref.(*ssa.Store); ok && st.Addr == al {
						out = append(out, scopeCtors(p, st.Val, depth+1, seen)...)
					}
				}
				return out
			}
		}
	}
	return []string{"unknown " + v.String()}
}

// ---- C05.UPD ----

func runC05Upd(c *Ctx) {
	p := c.P
	fn := p.Method("RuleExpression", "checkSemanticsOfExprNode")
	if fn == nil {
		c.anchorMissing("(*RuleExpression).checkSemanticsOfExprNode")
		return
	}
	pairs := map[string]string{"matrixTy": "UpdateMatrix", "stepsTy": "UpdateSteps", "needsTy": "UpdateNeeds", "secretsTy": "UpdateSecrets",
		"inputsTy": "UpdateInputs", "dispatchInputsTy": "UpdateDispatchInputs", "jobsTy": "UpdateJobs"}
	ctxName := map[string]string{"UpdateMatrix": "matrix", "UpdateSteps": "steps", "UpdateNeeds": "needs", "UpdateSecrets": "secrets",
		"UpdateInputs": "inputs", "UpdateJobs": "jobs"}
	var checkCall ssa.CallInstruction
	for _, call := range findCalls(fn, "(*ExprSemanticsChecker).Check") {
		checkCall = call
	}
	if checkCall == nil {
		c.anchorMissing("call of (*ExprSemanticsChecker).Check in checkSemanticsOfExprNode")
		return
	}
	for _, field := range scopeFields {
		m := pairs[field]
		construct := "(*RuleExpression).checkSemanticsOfExprNode|" + field + " -> " + m
		// the calls in the function itself, and those in a helper on the same receiver that it calls (the construction of
		// the checker split off into its own method): the helper's call site is then what has to precede Check
		type updCall struct {
			call   ssa.CallInstruction
			anchor ssa.Instruction
		}
		var calls []updCall
		for _, call := range findCalls(fn, "(*ExprSemanticsChecker)."+m) {
			calls = append(calls, updCall{call, call})
		}
		eachInstr(fn, func(_ *ssa.BasicBlock, _ int, in ssa.Instruction) {
			hc, isCall := in.(*ssa.Call)
			if !isCall {
				return
			}
			h := staticCallee(&hc.Call)
			if h == nil || !inModule(h) || h.Blocks == nil || len(hc.Call.Args) == 0 || hc.Call.Args[0] != ssa.Value(fn.Params[0]) {
				return
			}
			for _, call := range findCalls(h, "(*ExprSemanticsChecker)."+m) {
				calls = append(calls, updCall{call, hc})
			}
		})
		ok := false
		why := "the method is never called"
		for _, uc := range calls {
			call := uc.call
			arg := call.Common().Args[1]
			f, _ := fieldLoad(arg)
			if f != "RuleExpression."+field {
				why = "called with " + f
				continue
			}
			// guarded by field != nil only, and before Check
			guarded := false
			extra := false
			for ifi, outcome := range controllingConds(call.Block()) {
				if v, nilSucc, isNil := nilTest(ifi); isNil {
					if gf, _ := fieldLoad(v); gf == "RuleExpression."+field && (nilSucc == 0) != outcome {
						guarded = true
						continue
					}
				}
				extra = true
			}
			if !guarded || extra {
				why = "not guarded by exactly `" + field + " != nil`"
				continue
			}
			anchorCall, _ := uc.anchor.(ssa.CallInstruction)
			if anchorCall == nil || (!dom(anchorCall, checkCall) && !reachableBlocks(uc.anchor.Block().Succs, nil)[checkCall.Block()]) {
				why = "called after the expression was checked"
				continue
			}
			if instrReachableAfter(checkCall, uc.anchor) {
				why = "called after the expression was checked"
				continue
			}
			ok = true
		}
		if ok {
			c.ok(construct, fn.Pos(), "handed over when set, before the check")
		} else {
			c.bad(construct, fn.Pos(), why)
		}
	}
	// each Update method writes its own context name
	for m, name := range ctxName {
		uf := p.Method("ExprSemanticsChecker", m)
		construct := "(*ExprSemanticsChecker)." + m + "|writes vars[" + name + "]"
		if uf == nil {
			c.anchorMissing("(*ExprSemanticsChecker)." + m)
			continue
		}
		var keys []string
		eachInstr(uf, func(_ *ssa.BasicBlock, _ int, in ssa.Instruction) {
			if mu, ok := in.(*ssa.MapUpdate); ok {
				if f, _ := fieldLoad(mu.Map); f == "ExprSemanticsChecker.vars" {
					if s, ok := constString(mu.Key); ok {
						keys = append(keys, s)
					} else {
						keys = append(keys, "?")
					}
				}
			}
		})
		sort.Strings(keys)
		allOwn := len(keys) > 0
		for _, k := range keys {
			if k != name {
				allOwn = false
			}
		}
		if allOwn {
			c.ok(construct, uf.Pos(), "only that entry is replaced")
		} else {
			c.bad(construct, uf.Pos(), "writes "+strings.Join(keys, ", "))
		}
	}
	// UpdateDispatchInputs goes through UpdateInputs
	if ud := p.Method("ExprSemanticsChecker", "UpdateDispatchInputs"); ud != nil {
		if len(findCalls(ud, "(*ExprSemanticsChecker).UpdateInputs")) == 1 {
			c.ok("(*ExprSemanticsChecker).UpdateDispatchInputs|inputs", ud.Pos(), "delegates to UpdateInputs")
		} else {
			c.bad("(*ExprSemanticsChecker).UpdateDispatchInputs|inputs", ud.Pos(), "workflow_dispatch inputs do not reach the inputs context")
		}
	}
}

// ---- C05.SELF ----

func runC05Self(c *Ctx) {
	p := c.P
	fn := p.Method("RuleExpression", "VisitWorkflowPre")
	if fn == nil {
		c.anchorMissing("(*RuleExpression).VisitWorkflowPre")
		return
	}
	// the MapUpdate into the object stored in inputsTy, keyed by WorkflowCallEventInput.ID
	found := false
	eachInstr(fn, func(_ *ssa.BasicBlock, _ int, in ssa.Instruction) {
		mu, ok := in.(*ssa.MapUpdate)
		if !ok {
			return
		}
		kf, kbase := fieldLoad(mu.Key)
		if kf != "WorkflowCallEventInput.ID" {
			return
		}
		found = true
		// the check of the same input's default dominates the registration
		okDom := false
		for _, ch := range p.checkingCalls(fn) {
			for _, a := range ch.Common().Args {
				if f, base := fieldLoad(a); f == "WorkflowCallEventInput.Default" && base == kbase && dom(ch, mu) {
					okDom = true
				}
			}
		}
		construct := "(*RuleExpression).VisitWorkflowPre|input registered after its default was checked"
		if okDom {
			c.ok(construct, mu.Pos(), "checkString(i.Default) dominates ity.Props[i.ID] = ty")
		} else {
			c.bad(construct, mu.Pos(), "the input is in scope while its own default is checked: a self reference is accepted")
		}
	})
	if !found {
		c.bad("(*RuleExpression).VisitWorkflowPre|input registered after its default was checked", fn.Pos(), "registration of workflow_call inputs not found")
	}
}

// exprGuardAt: a condition controlling the block says that the defining section is (or contains) an expression.
func exprGuardAt(b *ssa.BasicBlock) string {
	reason := ""
	for ifi, outcome := range controllingConds(b) {
		switch cnd := ifi.Cond.(type) {
		case *ssa.Call:
			if f := staticCallee(&cnd.Call); f != nil && outcome {
				switch f.Name() {
				case "ContainsExpression", "IsExpressionAssigned":
					reason = f.Name() + "()"
				}
			}
		case *ssa.Extract:
			if _, ok := cnd.Tuple.(*ssa.TypeAssert); ok && !outcome {
				reason = "the type of an expression is not an object"
			}
		default:
			if v, nilSucc, ok := nilTest(ifi); ok {
				if f, _ := fieldLoad(v); strings.HasSuffix(f, ".Expression") && (nilSucc == 0) != outcome {
					reason = f + " != nil"
				}
			}
		}
	}
	return reason
}

// scopeW: a write of a per-job scope field as seen from the function under analysis - the store itself, or the call of a
// helper on the same receiver that stores the field on every one of its paths (an extracted reset/setup helper).
type scopeW struct {
	ssa.Instruction
	Val ssa.Value
}

func scopeWrites(p *Prog, fn *ssa.Function, field string) []scopeW {
	return scopeWritesDepth(p, fn, field, 0)
}

func scopeWritesDepth(p *Prog, fn *ssa.Function, field string, depth int) []scopeW {
	var out []scopeW
	for _, st := range scopeStores(fn, field) {
		out = append(out, scopeW{st, st.Val})
	}
	if depth > 2 || len(fn.Params) == 0 {
		return out
	}
	eachInstr(fn, func(_ *ssa.BasicBlock, _ int, in ssa.Instruction) {
		call, ok := in.(*ssa.Call)
		if !ok {
			return
		}
		g := staticCallee(&call.Call)
		if g == nil || g == fn || !inModule(g) || g.Blocks == nil || len(call.Call.Args) == 0 || call.Call.Args[0] != ssa.Value(fn.Params[0]) {
			return
		}
		ws := scopeWritesDepth(p, g, field, depth+1)
		if len(ws) == 0 {
			return
		}
		// the helper writes on every path to its returns, and every write stores the same kind of value
		for _, b := range g.Blocks {
			if _, isRet := b.Instrs[len(b.Instrs)-1].(*ssa.Return); !isRet {
				continue
			}
			covered := false
			for _, w := range ws {
				if w.Block() == b || w.Block().Dominates(b) {
					covered = true
				}
			}
			if !covered {
				out = append(out, scopeW{call, nil}) // may-write: counts for the ordering checks, covers nothing
				return
			}
		}
		val := ws[0].Val
		for _, w := range ws[1:] {
			if isNilConst(w.Val) != isNilConst(val) {
				val = nil
			}
		}
		out = append(out, scopeW{call, val})
	})
	return out
}

// helperOnlyOf: fn is a method that is only ever called, on their own receiver, from the given functions (or from other
// such helpers).
func helperOnlyOf(p *Prog, fn *ssa.Function, owners ...*ssa.Function) bool {
	return helperOnlyOfDepth(p, fn, owners, 0)
}

func helperOnlyOfDepth(p *Prog, fn *ssa.Function, owners []*ssa.Function, depth int) bool {
	if depth > 2 {
		return false
	}
	callers := p.callersOf(fn)
	if len(callers) == 0 {
		return false
	}
	for _, e := range callers {
		caller := e.Caller.Func
		isOwner := false
		for _, o := range owners {
			if caller == o {
				isOwner = true
			}
		}
		if !isOwner && !helperOnlyOfDepth(p, caller, owners, depth+1) {
			return false
		}
		if e.Site == nil || e.Site.Common().IsInvoke() || len(e.Site.Common().Args) == 0 || len(caller.Params) == 0 || e.Site.Common().Args[0] != ssa.Value(caller.Params[0]) {
			return false
		}
	}
	return true
}
