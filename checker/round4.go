package main

// Rules added after the fourth round of independently seeded changes.

import (
	"encoding/json"
	"fmt"
	"go/token"
	"go/types"
	"os"
	"path/filepath"
	"regexp"
	"sort"
	"strings"

	"golang.org/x/tools/go/ssa"
)

func init() {
	register(&Rule{ID: "C02.FRESHCACHE", Min: 4, Doc: "the metadata caches handed to a check are created for this call, never kept in the Linter", Run: runC02FreshCache})
	register(&Rule{ID: "C07.TEXTPOS", Min: 2, Doc: "a scalar node keeps the text exactly as written together with the position of that text", Run: runC07TextPos})
	register(&Rule{ID: "C17.WHOLE", Min: 1, Doc: "the glob scanner reads the whole pattern as given, once", Run: runC17Whole})
}

// ---- C02.FRESHCACHE ----

// The caches of local actions and reusable workflows report a broken callee to the first asker only; they must not outlive one
// call of Lint/LintFile/LintFiles, otherwise the second run of the same Linter gives different diagnostics.
func runC02FreshCache(c *Ctx) {
	p := c.P
	n := 0
	for _, fn := range p.Funcs {
		for _, call := range findCalls(fn, "(*Linter).check") {
			args := call.Common().Args
			for i, what := range map[int]string{5: "local actions cache", 6: "reusable workflow cache"} {
				if i >= len(args) {
					continue
				}
				n++
				construct := fmt.Sprintf("%s|%s", FuncName(fn), what)
				v := resolveCapture(args[i])
				origin := ""
				okFresh := false
				var walk func(v ssa.Value, d int)
				walk = func(v ssa.Value, d int) {
					if d > 6 {
						return
					}
					switch x := v.(type) {
					case *ssa.Call:
						if f := staticCallee(&x.Call); f != nil {
							origin = FuncName(f)
							switch f.Name() {
							case "NewLocalActionsCache", "NewLocalReusableWorkflowCache":
								okFresh = true
							case "GetCache":
								// of a factory created in this function (or its parent for goroutine closures)
								fv := resolveCapture(x.Call.Args[0])
								if fc, ok := fv.(*ssa.Call); ok {
									if ff := staticCallee(&fc.Call); ff != nil && strings.HasSuffix(ff.Name(), "CacheFactory") {
										okFresh = true
										origin = FuncName(f) + " of a factory created in this call"
									}
								} else {
									origin = FuncName(f) + " of " + symName(fv)
								}
							}
						}
					case *ssa.Phi:
						for _, e := range x.Edges {
							walk(e, d+1)
						}
					case *ssa.UnOp:
						if f, _ := fieldLoad(x); f != "" {
							origin = "field " + f
						} else {
							walk(resolveCapture(x), d+1)
						}
					}
				}
				walk(v, 0)
				if okFresh {
					c.ok(construct, call.Pos(), "created for this call ("+origin+")")
				} else {
					c.bad(construct, call.Pos(), "the cache comes from "+origin+" and outlives the call: a broken local action or reusable workflow is reported by the first run only, so repeating the run on the same Linter gives different diagnostics")
				}
			}
		}
	}
	if n == 0 {
		c.undecided("(*Linter).check|callers", token.NoPos, "no call of (*Linter).check found")
	}
	// the Linter itself holds no cache or factory
	if lt := p.Named("Linter"); lt != nil {
		var bad []string
		if st, ok := lt.Underlying().(*types.Struct); ok {
			for i := 0; i < st.NumFields(); i++ {
				if strings.Contains(typeStr(st.Field(i).Type()), "Cache") {
					bad = append(bad, st.Field(i).Name()+" "+typeStr(st.Field(i).Type()))
				}
			}
		}
		if len(bad) == 0 {
			c.ok("Linter|no cache fields", token.NoPos, "the Linter type has no field of a cache or cache factory type")
		} else {
			c.bad("Linter|no cache fields", token.NoPos, "the Linter keeps "+strings.Join(bad, ", "))
		}
	}
}

// ---- C07.TEXTPOS ----

// posObjectWrites: the instructions that write the position object v points to, or let its address go somewhere it can be
// written from: a store of a whole Pos through v, a store to one of its fields, the address of a field used for anything
// but a load, and the same inside the functions of the package v is handed to (two levels).
func posObjectWrites(v ssa.Value, depth int) []ssa.Instruction {
	var out []ssa.Instruction
	refs := v.Referrers()
	if refs == nil {
		return nil
	}
	for _, ref := range *refs {
		switch r := ref.(type) {
		case *ssa.Store:
			if r.Addr == v {
				out = append(out, r)
			}
		case *ssa.FieldAddr:
			if r.X != v {
				continue
			}
			for _, r2 := range *r.Referrers() {
				if _, dbg := r2.(*ssa.DebugRef); dbg {
					continue
				}
				if ld, ok := r2.(*ssa.UnOp); ok && ld.Op == token.MUL {
					continue
				}
				out = append(out, r2)
			}
		case ssa.CallInstruction:
			f := staticCallee(r.Common())
			if f == nil || !inPkgName(f) || f.Blocks == nil || depth >= 2 {
				continue
			}
			args := r.Common().Args
			for i, a := range args {
				if a == v && i < len(f.Params) {
					if len(posObjectWrites(f.Params[i], depth+1)) > 0 {
						out = append(out, r)
					}
				}
			}
		}
	}
	return out
}

func runC07TextPos(c *Ctx) {
	p := c.P
	occ := map[string]int{}
	for _, fn := range p.Funcs {
		if !strings.HasSuffix(p.unitFile(fn), "/parse.go") {
			continue
		}
		eachInstr(fn, func(_ *ssa.BasicBlock, _ int, in ssa.Instruction) {
			al, ok := in.(*ssa.Alloc)
			if !ok || typeStr(al.Type()) != "*String" {
				return
			}
			var val, pos ssa.Value
			var posReads []ssa.Value // s.Pos read back from the node under construction
			for _, ref := range *al.Referrers() {
				if fa, ok := ref.(*ssa.FieldAddr); ok {
					for _, r2 := range *fa.Referrers() {
						if st, ok := r2.(*ssa.Store); ok && st.Addr == ssa.Value(fa) {
							switch fieldAddrName(fa) {
							case "String.Value":
								val = st.Val
							case "String.Pos":
								pos = st.Val
							}
						}
						if ld, ok := r2.(*ssa.UnOp); ok && ld.Op == token.MUL && fieldAddrName(fa) == "String.Pos" {
							posReads = append(posReads, ld)
						}
					}
				}
			}
			k := FuncName(fn) + "|String node"
			occ[k]++
			construct := fmt.Sprintf("%s#%d", k, occ[k])
			// the position: posAt of a node, the object not written between posAt and the end of this function
			var posNode ssa.Value
			if call, ok := pos.(*ssa.Call); ok {
				if f := staticCallee(&call.Call); f != nil && f.Name() == "posAt" && len(call.Call.Args) == 1 {
					posNode = call.Call.Args[0]
				}
			}
			var writes []ssa.Instruction
			if posNode != nil {
				writes = posObjectWrites(pos, 0)
				for _, rd := range posReads {
					writes = append(writes, posObjectWrites(rd, 0)...)
				}
			}
			changed := func() string {
				return fmt.Sprintf("the position object returned by posAt is changed in line %d before or after it is stored in the node: the node's position is no longer where its text begins", p.Fset.Position(writes[0].Pos()).Line)
			}
			if s, isConst := constString(val); isConst && s == "" {
				// the stand-in for a scalar that was rejected: no text, but diagnostics about the entry are still put at
				// its position, which therefore has to be that of a node this function was given
				_, isParam := posNode.(*ssa.Parameter)
				switch {
				case !isParam:
					c.bad(construct, al.Pos(), "the stand-in for a rejected scalar is not positioned at the node that was handed in")
				case len(writes) > 0:
					c.bad(construct, al.Pos(), changed())
				default:
					c.ok(construct, al.Pos(), "the empty string (stand-in for a rejected scalar) at posAt of the node handed in")
				}
				return
			}
			vf, vbase := fieldLoad(val)
			switch {
			case vf != "yaml.Node.Value":
				c.bad(construct, al.Pos(), "the text stored in the node is "+symName(val)+", not the scalar's text as written: offsets inside it no longer correspond to columns of the source, so diagnostics in it are shifted")
			case posNode == nil || posNode != vbase:
				c.bad(construct, al.Pos(), "the position is not that of the node whose text is stored")
			case len(writes) > 0:
				c.bad(construct, al.Pos(), changed())
			default:
				c.ok(construct, al.Pos(), "Value is the node's text as written and Pos is posAt of the same node, unchanged")
			}
		})
	}
}

// ---- C17.WHOLE ----

func runC17Whole(c *Ctx) {
	p := c.P
	n := 0
	for _, fn := range p.Funcs {
		if !strings.HasSuffix(p.unitFile(fn), "/glob.go") {
			continue
		}
		eachInstr(fn, func(b *ssa.BasicBlock, _ int, in ssa.Instruction) {
			call, ok := in.(*ssa.Call)
			if !ok || calleeFullName(&call.Call) != "(*text/scanner.Scanner).Init" {
				return
			}
			n++
			construct := fmt.Sprintf("%s|scanner input#%d", FuncName(fn), n)
			src := call.Call.Args[1]
			okSrc := false
			what := symName(src)
			if mi, ok := src.(*ssa.MakeInterface); ok {
				if rd, ok := mi.X.(*ssa.Call); ok && calleeFullName(&rd.Call) == "strings.NewReader" {
					rdArg := resolveCapture(rd.Call.Args[0])
					// the pattern with its first character replaced by another single character (so that the scanner
					// does not drop a byte order mark): same length in characters, same columns
					if ph, ok := rdArg.(*ssa.Phi); ok {
						var prm ssa.Value
						same := true
						for _, e := range ph.Edges {
							e = resolveCapture(e)
							if _, isP := e.(*ssa.Parameter); isP {
								if prm != nil && prm != e {
									same = false
								}
								prm = e
								continue
							}
							okEdge := false
							if bo, ok := e.(*ssa.BinOp); ok && bo.Op == token.ADD {
								if cs, ok := constString(bo.X); ok && len([]rune(cs)) == 1 {
									if sl, ok := bo.Y.(*ssa.Slice); ok && sl.High == nil {
										if _, isP := resolveCapture(sl.X).(*ssa.Parameter); isP {
											if prm != nil && prm != resolveCapture(sl.X) {
												same = false
											}
											prm = resolveCapture(sl.X)
											okEdge = true
										}
									}
								}
							}
							if !okEdge {
								same = false
							}
						}
						if same && prm != nil {
							rdArg = prm
						}
					}
					what = symName(rdArg)
					if prm, ok := rdArg.(*ssa.Parameter); ok {
						// the parameter is the pattern handed to the validator: every caller passes its own parameter on
						okSrc = true
						for _, e := range p.callersOf(fn) {
							if e.Site == nil {
								continue
							}
							idx := -1
							for i, q := range fn.Params {
								if q == prm {
									idx = i
								}
							}
							if _, isParam := e.Site.Common().Args[idx].(*ssa.Parameter); !isParam {
								okSrc = false
								what = "a derived value at " + p.Pos(e.Site.Pos())
							}
						}
					}
				}
			}
			if okSrc && !blockInCycle(b) {
				c.ok(construct, call.Pos(), "the scanner reads the pattern parameter itself, initialised once")
			} else {
				c.bad(construct, call.Pos(), "the scanner is initialised from "+what+" rather than the whole pattern: the columns it reports are relative to a part of the pattern")
			}
		})
	}
	if n == 0 {
		c.undecided("glob.go|scanner initialisation", token.NoPos, "no scanner initialisation found")
	}
}

// ---- C07.TEXTPOS (writers) and C15.RETALL ----

func init() {
	register(&Rule{ID: "C07.TEXTFROZEN", Min: 1, Doc: "the text of a scalar node is never rewritten after the node was built", Run: runC07TextFrozen})
	register(&Rule{ID: "C15.RETALL", Min: 3, Doc: "every successful return of the Lint* entry points hands back all diagnostics that were printed", Run: runC15RetAll})
}

func runC07TextFrozen(c *Ctx) {
	p := c.P
	n, rewritten := 0, 0
	for _, fn := range p.Funcs {
		eachInstr(fn, func(_ *ssa.BasicBlock, _ int, in ssa.Instruction) {
			st, ok := in.(*ssa.Store)
			if !ok {
				return
			}
			fa, ok := st.Addr.(*ssa.FieldAddr)
			if !ok {
				return
			}
			name := fieldAddrName(fa)
			if name != "String.Value" && name != "String.Pos" && name != "String.Quoted" {
				return
			}
			n++
			if _, isAlloc := fa.X.(*ssa.Alloc); isAlloc {
				return // initialisation of a node being built
			}
			rewritten++
			c.bad(FuncName(fn)+"|"+name+" rewritten", st.Pos(), name+" of an existing scalar node is overwritten: text, quoting and position of a node no longer describe the same piece of source, so positions computed from offsets in the text are wrong")
		})
		// the position object a node points to: s.Pos.Col++ moves the node as much as s.Pos = q does
		eachInstr(fn, func(_ *ssa.BasicBlock, _ int, in ssa.Instruction) {
			ld, ok := in.(*ssa.UnOp)
			if !ok || ld.Op != token.MUL {
				return
			}
			if f, _ := fieldLoad(ld); f != "String.Pos" {
				return
			}
			for _, w := range posObjectWrites(ld, 0) {
				rewritten++
				c.bad(FuncName(fn)+"|position object of String.Pos rewritten", w.Pos(), "the position object an existing scalar node points to is written: text, quoting and position of a node no longer describe the same piece of source, so positions computed from offsets in the text are wrong")
			}
		})
	}
	if n > 0 && rewritten == 0 {
		c.ok("String|fields only set at construction", token.NoPos, fmt.Sprintf("%d stores, all into nodes under construction; no write through the Pos of a node", n))
	}
}

func runC15RetAll(c *Ctx) {
	p := c.P
	for _, name := range []string{"LintFiles", "LintFile", "Lint"} {
		fn := p.Method("Linter", name)
		// the field of the per-file record that receives the diagnostics returned by check (in LintFiles' goroutines),
		// whatever the record type and the field are called
		errsField := "workspace.errs"
		if fn != nil {
			for _, f := range append([]*ssa.Function{fn}, fn.AnonFuncs...) {
				eachInstr(f, func(_ *ssa.BasicBlock, _ int, in ssa.Instruction) {
					st, ok := in.(*ssa.Store)
					if !ok {
						return
					}
					fa, ok := st.Addr.(*ssa.FieldAddr)
					if !ok {
						return
					}
					if ex, ok := st.Val.(*ssa.Extract); ok && ex.Index == 0 {
						if call, ok := ex.Tuple.(*ssa.Call); ok {
							if g := staticCallee(&call.Call); g != nil && FuncName(g) == "(*Linter).check" {
								errsField = fieldAddrName(fa)
							}
						}
					}
				})
			}
		}
		if fn == nil {
			c.anchorMissing("(*Linter)." + name)
			continue
		}
		nret := 0
		for _, b := range fn.Blocks {
			ret, ok := b.Instrs[len(b.Instrs)-1].(*ssa.Return)
			if !ok || len(ret.Results) != 2 {
				continue
			}
			if isNilConst(ret.Results[0]) {
				continue // failure return
			}
			// returns of another entry point's results (LintFiles -> LintFile for one file) are that function's business
			if ex, ok := ret.Results[0].(*ssa.Extract); ok {
				if call, ok := ex.Tuple.(*ssa.Call); ok {
					if f := staticCallee(&call.Call); f != nil && (f.Name() == "LintFile" || f.Name() == "Lint") {
						continue
					}
				}
			}
			// no file at all: nothing to return
			noFiles := false
			for ifi, outcome := range controllingConds(b) {
				if bo, ok := ifi.Cond.(*ssa.BinOp); ok && bo.Op == token.EQL && outcome {
					if k, ok := constInt(bo.Y); ok && k == 0 {
						if lc, ok := bo.X.(*ssa.Call); ok {
							if bi, ok := lc.Call.Value.(*ssa.Builtin); ok && bi.Name() == "len" {
								if _, isParam := lc.Call.Args[0].(*ssa.Parameter); isParam {
									noFiles = true
								}
							}
						}
					}
				}
			}
			if noFiles {
				continue
			}
			nret++
			construct := fmt.Sprintf("(*Linter).%s|returned diagnostics#%d", name, nret)
			okAll := false
			why := "the returned slice does not contain the diagnostics of the files"
			seen := map[ssa.Value]bool{}
			var walk func(v ssa.Value, d int)
			walk = func(v ssa.Value, d int) {
				if d > 8 || seen[v] {
					return
				}
				seen[v] = true
				switch x := v.(type) {
				case *ssa.Phi:
					for _, e := range x.Edges {
						walk(e, d+1)
					}
				case *ssa.Extract:
					if call, ok := x.Tuple.(*ssa.Call); ok {
						if f := staticCallee(&call.Call); f != nil && f.Name() == "check" {
							okAll = true // the diagnostics of the single file as returned by check
						}
					}
				case *ssa.Call:
					if bi, ok := x.Call.Value.(*ssa.Builtin); ok && bi.Name() == "append" {
						if f, _ := fieldLoad(x.Call.Args[1]); f == errsField && blockInCycle(x.Block()) {
							okAll = true
						}
						walk(x.Call.Args[0], d+1)
					}
				}
			}
			walk(ret.Results[0], 0)
			if name == "LintFiles" && okAll {
				// every path to this return passes one of the loops that collect the diagnostics
				stop := map[*ssa.BasicBlock]bool{}
				for v := range seen {
					if call, ok := v.(*ssa.Call); ok {
						if bi, ok := call.Call.Value.(*ssa.Builtin); ok && bi.Name() == "append" {
							if f, _ := fieldLoad(call.Call.Args[1]); f == errsField {
								for _, h := range loopHeaders(fn) {
									if naturalLoop(h)[call.Block()] {
										stop[h] = true
									}
								}
							}
						}
					}
				}
				if reachableBlocks([]*ssa.BasicBlock{fn.Blocks[0]}, stop)[b] || stop[b] {
					okAll = false
					why = "a path reaches this return without executing any loop that collects the diagnostics of the files"
				}
			}
			if okAll {
				c.ok(construct, ret.Pos(), "all diagnostics that were printed are returned (the exit status is derived from them)")
			} else {
				c.bad(construct, ret.Pos(), why+": the diagnostics are printed but the caller sees none, so the exit status is 0")
			}
		}
		if nret == 0 {
			c.bad("(*Linter)."+name+"|returned diagnostics", fn.Pos(), "no successful return found")
		}
	}
}

// ---- C16.MATCHER ----

func init() {
	register(&Rule{ID: "C16.MATCHER", Min: 4, Doc: "the header line PrettyPrint writes (plain, coloured, and following another coloured header) is parsed back by the shipped problem matcher", Run: runC16Matcher})
}

// The header of a diagnostic is a fixed sequence of writes in the entry block of (*Error).PrettyPrint. It is replayed
// symbolically: field loads become recognisable placeholders, a write through a *color.Color is bracketed by a colour
// sequence and the reset sequence (fatih/color sets the colour, formats the whole text including a trailing newline, then
// resets: trusted model of the library), a write through fmt is plain. The shipped matcher must parse every resulting line
// shape back to the placeholders.
func attrsOfIsCtor(name string) bool {
	return name == "github.com/fatih/color.New" || name == "github.com/fatih/color.RGB" || name == "github.com/fatih/color.BgRGB"
}

func runC16Matcher(c *Ctx) {
	p := c.P
	fn := p.Method("Error", "PrettyPrint")
	if fn == nil {
		c.anchorMissing("(*Error).PrettyPrint")
		return
	}
	raw, err := os.ReadFile(filepath.Join(p.Dir, ".github", "actionlint-matcher.json"))
	if err != nil {
		c.anchorMissing(".github/actionlint-matcher.json")
		return
	}
	var mj struct {
		ProblemMatcher []struct {
			Pattern []struct {
				Regexp                            string
				File, Line, Column, Message, Code int
			}
		}
	}
	if err := json.Unmarshal(raw, &mj); err != nil || len(mj.ProblemMatcher) == 0 || len(mj.ProblemMatcher[0].Pattern) == 0 {
		c.undecided(".github/actionlint-matcher.json|pattern", token.NoPos, "the matcher file cannot be read as a problem matcher")
		return
	}
	pat := mj.ProblemMatcher[0].Pattern[0]
	re, err := regexp.Compile(pat.Regexp)
	if err != nil {
		c.undecided(".github/actionlint-matcher.json|pattern", token.NoPos, "the pattern is not a regular expression Go can evaluate: "+err.Error())
		return
	}
	place := map[string]string{"Error.Filepath": "dir/some file.yaml", "Error.Line": "12", "Error.Column": "345", "Error.Message": "some \"message\" [with] brackets: and colons", "Error.Kind": "some-kind"}
	type write struct {
		coloured bool
		text     string
	}
	var writes []write
	okModel := true
	why := ""
	argText := func(v ssa.Value) (string, bool) {
		v = unwrap(v)
		if mi, ok := v.(*ssa.MakeInterface); ok {
			v = mi.X
		}
		if s, ok := constString(v); ok {
			return s, true
		}
		if f, _ := fieldLoad(v); f != "" {
			if t, ok := place[f]; ok {
				return t, true
			}
		}
		return "", false
	}
	// the header may be written by PrettyPrint itself or by a method of the diagnostic that PrettyPrint calls first
	model := fn
	for _, in := range fn.Blocks[0].Instrs {
		call, ok := in.(*ssa.Call)
		if !ok {
			continue
		}
		if g := staticCallee(&call.Call); g != nil && inModule(g) && g.Blocks != nil && len(call.Call.Args) > 0 && call.Call.Args[0] == ssa.Value(fn.Params[0]) {
			model = g
		}
		break // only the first call of the function decides
	}
	for _, in := range model.Blocks[0].Instrs {
		call, ok := in.(*ssa.Call)
		if !ok {
			continue
		}
		name := calleeFullName(&call.Call)
		var args []ssa.Value
		coloured := false
		format := false
		nl := false
		switch name {
		case "(*github.com/fatih/color.Color).Fprint":
			coloured = true
			args = call.Call.Args[2:]
		case "(*github.com/fatih/color.Color).Fprintf":
			coloured, format = true, true
			args = call.Call.Args[2:]
		case "(*github.com/fatih/color.Color).Fprintln":
			coloured, nl = true, true
			args = call.Call.Args[2:]
		case "fmt.Fprint":
			args = call.Call.Args[1:]
		case "fmt.Fprintf":
			format = true
			args = call.Call.Args[1:]
		case "fmt.Fprintln":
			nl = true
			args = call.Call.Args[1:]
		default:
			continue
		}
		text := ""
		if format {
			fs, ok := constString(args[0])
			if !ok {
				okModel, why = false, "non-constant format in the header"
				break
			}
			va, _ := variadicArgs(args[1])
			i := 0
			for j := 0; j < len(fs); j++ {
				if fs[j] == '%' && j+1 < len(fs) {
					j++
					if fs[j] == '%' {
						text += "%"
						continue
					}
					if i < len(va) {
						t, ok := argText(va[i])
						if !ok {
							okModel, why = false, "an argument of the header that is not a field of the diagnostic"
						}
						text += t
						i++
					}
					continue
				}
				text += string(fs[j])
			}
		} else {
			va, ok := variadicArgs(args[0])
			if !ok {
				okModel, why = false, "arguments of a header write not recognised"
				break
			}
			for _, a := range va {
				t, ok := argText(a)
				if !ok {
					okModel, why = false, "an argument of the header that is not a field of the diagnostic"
				}
				text += t
			}
		}
		if nl {
			text += "\n"
		}
		writes = append(writes, write{coloured, text})
		if strings.Contains(text, "\n") {
			break
		}
	}
	if !okModel || len(writes) < 5 {
		c.undecided("(*Error).PrettyPrint|header writes", fn.Pos(), "the header is not a fixed sequence of writes of the diagnostic's fields: "+why)
		return
	}
	render := func(colour bool) string {
		var sb strings.Builder
		for _, w := range writes {
			if colour && w.coloured {
				sb.WriteString("\x1b[33m")
			}
			sb.WriteString(w.text)
			if colour && w.coloured {
				sb.WriteString("\x1b[0m")
			}
		}
		return sb.String()
	}
	check := func(construct, line string) {
		m := re.FindStringSubmatch(line)
		grp := func(i int) string {
			if m == nil || i <= 0 || i >= len(m) {
				return ""
			}
			return m[i]
		}
		switch {
		case m == nil:
			c.bad(construct, fn.Pos(), fmt.Sprintf("the shipped problem matcher does not match the header line %q", line))
		case grp(pat.File) != place["Error.Filepath"] || grp(pat.Line) != place["Error.Line"] || grp(pat.Column) != place["Error.Column"] || grp(pat.Message) != place["Error.Message"] || grp(pat.Code) != place["Error.Kind"]:
			c.bad(construct, fn.Pos(), fmt.Sprintf("the problem matcher parses the header line %q back to file=%q line=%q col=%q message=%q kind=%q", line, grp(pat.File), grp(pat.Line), grp(pat.Column), grp(pat.Message), grp(pat.Code)))
		default:
			c.ok(construct, fn.Pos(), "file, line, column, message and kind are parsed back")
		}
	}
	plain := render(false)
	col := render(true)
	firstLine := func(s string) (string, string) {
		i := strings.IndexByte(s, '\n')
		if i < 0 {
			return s, ""
		}
		return s[:i], s[i+1:]
	}
	pl, _ := firstLine(plain)
	cl, rest := firstLine(col)
	check("(*Error).PrettyPrint|header without colours", pl)
	check("(*Error).PrettyPrint|coloured header", cl)
	// in -oneline mode the next header follows immediately: what the previous write left after its line break comes first
	nl2, _ := firstLine(rest + col)
	check("(*Error).PrettyPrint|coloured header after another header", nl2)
	// every colour used has a single attribute (the matcher's escape pattern is ESC [ digits m): the attributes given to the
	// constructor plus those added later (Add, AddRGB, AddBgRGB), on the constructed value or on the variable that holds it
	const colPkg = "github.com/fatih/color."
	const colRecv = "(*github.com/fatih/color.Color)."
	attrsOf := func(call *ssa.Call) (int, bool) {
		switch calleeFullName(&call.Call) {
		case colPkg + "New":
			va, ok := variadicArgs(call.Call.Args[0])
			return len(va), ok
		case colRecv + "Add":
			va, ok := variadicArgs(call.Call.Args[1])
			return len(va), ok
		case colPkg + "RGB", colPkg + "BgRGB", colRecv + "AddRGB", colRecv + "AddBgRGB":
			return 5, true
		}
		return 0, false
	}
	isAdder := func(call *ssa.Call) bool {
		n := calleeFullName(&call.Call)
		return n == colRecv+"Add" || n == colRecv+"AddRGB" || n == colRecv+"AddBgRGB"
	}
	var funcs []*ssa.Function
	if init := p.SPkg.Func("init"); init != nil {
		funcs = append(funcs, init)
	}
	for _, f := range p.Funcs {
		if inModule(f) && f != p.SPkg.Func("init") {
			funcs = append(funcs, f)
		}
	}
	type colour struct {
		n    int
		pos  token.Pos
		name string
	}
	var colours []*colour
	held := map[*ssa.Global]*colour{}
	var laterAdds []*ssa.Call // adders whose receiver is not the constructed value itself
	badAttr := ""
	for _, f := range funcs {
		eachInstr(f, func(_ *ssa.BasicBlock, _ int, in ssa.Instruction) {
			call, ok := in.(*ssa.Call)
			if !ok {
				return
			}
			switch name := calleeFullName(&call.Call); {
			case name == colPkg+"New" || name == colPkg+"RGB" || name == colPkg+"BgRGB":
				n, ok := attrsOf(call)
				if !ok {
					badAttr = "the attributes of a colour are not a literal list (" + p.Pos(call.Pos()) + ")"
					return
				}
				col := &colour{n: n, pos: call.Pos(), name: "the colour made at " + p.Pos(call.Pos())}
				colours = append(colours, col)
				// the chain New(...).Add(...)... and the variable that receives the result
				var cur ssa.Value = call
				for steps := 0; cur != nil && steps < 8; steps++ {
					var next ssa.Value
					for _, ref := range *cur.Referrers() {
						switch r := ref.(type) {
						case *ssa.Call:
							if isAdder(r) && r.Call.Args[0] == cur {
								k, ok := attrsOf(r)
								if !ok {
									badAttr = "attributes added to a colour are not a literal list (" + p.Pos(r.Pos()) + ")"
								}
								col.n += k
								next = r
							}
						case *ssa.Store:
							if g, ok := r.Addr.(*ssa.Global); ok && r.Val == cur {
								held[g] = col
								col.name = g.Name()
							}
						}
					}
					cur = next
				}
			case isAdder(call):
				recv := call.Call.Args[0]
				for {
					if prev, ok := recv.(*ssa.Call); ok && isAdder(prev) {
						recv = prev.Call.Args[0]
						continue
					}
					break
				}
				if src, ok := recv.(*ssa.Call); ok && attrsOfIsCtor(calleeFullName(&src.Call)) {
					return // counted with its constructor
				}
				laterAdds = append(laterAdds, call)
			}
		})
	}
	for _, add := range laterAdds {
		recv := add.Call.Args[0]
		for {
			if prev, ok := recv.(*ssa.Call); ok && isAdder(prev) {
				recv = prev.Call.Args[0]
				continue
			}
			break
		}
		k, ok := attrsOf(add)
		ld, isLoad := recv.(*ssa.UnOp)
		var g *ssa.Global
		if isLoad {
			g, _ = ld.X.(*ssa.Global)
		}
		if col := held[g]; ok && g != nil && col != nil {
			col.n += k
		} else {
			badAttr = "attributes are added to a colour that cannot be told (" + p.Pos(add.Pos()) + ")"
		}
	}
	if len(colours) > 0 || badAttr != "" {
		var multi []string
		for _, col := range colours {
			if col.n != 1 {
				multi = append(multi, fmt.Sprintf("%s has %d attributes", col.name, col.n))
			}
		}
		sort.Strings(multi)
		switch {
		case badAttr != "":
			c.bad("error.go|colours with one attribute", fn.Pos(), badAttr)
		case len(multi) > 0:
			c.bad("error.go|colours with one attribute", fn.Pos(), strings.Join(multi, "; ")+": a colour that combines several attributes is written as `ESC [ 1;31 m`, which the matcher's escape pattern does not cover")
		default:
			c.ok("error.go|colours with one attribute", fn.Pos(), fmt.Sprintf("each of the %d colours is one SGR attribute (constructor and later Add calls counted), i.e. one `ESC [ n m` sequence", len(colours)))
		}
	}
}
