package main

import (
	"fmt"
	"go/token"
	"go/types"
	"sort"
	"strings"

	"golang.org/x/tools/go/ssa"
)

func init() {
	register(&Rule{ID: "C09.IMM", Min: 20, Doc: "type objects (ObjectType/ArrayType) are only mutated while they can only be fresh allocations", Run: runC09Imm})
	register(&Rule{ID: "C09.RESET", Min: 8, Doc: "every rule field written while visiting a job is reset for the next job", Run: runC09Reset})
	register(&Rule{ID: "C09.AST", Min: 1, Doc: "the workflow AST is never written outside the parser", Run: runC09Ast})
	register(&Rule{ID: "C09.FRESH", Min: 3, Doc: "expression checkers are created per expression and never kept in rule state", Run: runC09Fresh})
}

func pointeeName(t types.Type) string {
	if p, ok := t.Underlying().(*types.Pointer); ok {
		return typeStr(p.Elem())
	}
	return typeStr(t)
}

// describeOrigins summarises non-fresh origins; empty when all origins are fresh allocations / nil.
func describeOrigins(p *Prog, origs []Origin) []string {
	var bad []string
	for _, o := range origs {
		switch o.Kind {
		case OAlloc, ONil, OConst:
		case OGlobal:
			bad = append(bad, "package-level variable "+o.Name)
		case OElem:
			bad = append(bad, "element of a container read at "+p.Pos(o.Val.Pos())+" (may be shared with other holders)")
		case OParam:
			if len(p.callersOf(o.Fn)) == 0 {
				continue // exported API that nothing in the program calls
			}
			bad = append(bad, "parameter of "+FuncName(o.Fn)+" whose callers cannot be followed")
		case OField:
			bad = append(bad, "field "+o.Field+" (no store found)")
		case OExtern:
			bad = append(bad, "result of "+o.Name)
		default:
			bad = append(bad, "value of unknown origin at "+p.Pos(o.Val.Pos()))
		}
	}
	sort.Strings(bad)
	// dedupe
	var out []string
	for i, b := range bad {
		if i == 0 || b != bad[i-1] {
			out = append(out, b)
		}
	}
	return out
}

func runC09Imm(c *Ctx) {
	p := c.P
	isTypeObj := func(t types.Type) bool {
		n := pointeeName(t)
		return n == "ObjectType" || n == "ArrayType"
	}
	occ := map[string]int{}
	for _, fn := range p.Funcs {
		eachInstr(fn, func(_ *ssa.BasicBlock, _ int, in ssa.Instruction) {
			var obj ssa.Value
			what := ""
			switch x := in.(type) {
			case *ssa.Store:
				fa, ok := x.Addr.(*ssa.FieldAddr)
				if !ok || !isTypeObj(fa.X.Type()) {
					return
				}
				obj, what = fa.X, "assignment to "+fieldAddrName(fa)
			case *ssa.MapUpdate:
				ld, ok := x.Map.(*ssa.UnOp)
				if !ok {
					// the map arrives as a parameter, a phi or a result: the type objects it is a field of
					c09ImmIndirect(c, fn, x, x.Map, "map write", occ)
					return
				}
				fa, ok := ld.X.(*ssa.FieldAddr)
				if !ok || !isTypeObj(fa.X.Type()) {
					return
				}
				obj, what = fa.X, "write to "+fieldAddrName(fa)
			case *ssa.Call:
				if b, ok := x.Call.Value.(*ssa.Builtin); ok && b.Name() == "delete" {
					ld, ok := x.Call.Args[0].(*ssa.UnOp)
					if !ok {
						c09ImmIndirect(c, fn, x, x.Call.Args[0], "delete", occ)
						return
					}
					fa, ok := ld.X.(*ssa.FieldAddr)
					if !ok || !isTypeObj(fa.X.Type()) {
						return
					}
					obj, what = fa.X, "delete from "+fieldAddrName(fa)
				} else {
					return
				}
			default:
				return
			}
			k := FuncName(fn) + "|" + what
			occ[k]++
			construct := fmt.Sprintf("%s#%d", k, occ[k])
			if _, isAlloc := obj.(*ssa.Alloc); isAlloc {
				o := c.ok(construct, in.Pos(), "initialisation of a new object")
				o.trivial = true
				return
			}
			origs := p.Origins(obj, FlowOpts{Params: true, Fields: true, MaxDepth: 12})
			bad := describeOrigins(p, origs)
			if len(bad) == 0 {
				c.ok(construct, in.Pos(), fmt.Sprintf("the mutated type object can only be one of %d fresh allocations (followed through callers, returns and field stores)", len(origs)))
				return
			}
			c.bad(construct, in.Pos(), "mutates a type object that may be shared: it can be "+shortList(bad, 3)+". Types handed out by the checker are shared between expressions, jobs and files")
		})
	}
}

// ---- C09.RESET ----

func embedsRuleBase(t types.Type) bool {
	n := namedOf(t)
	if n == nil {
		return false
	}
	st, ok := n.Underlying().(*types.Struct)
	if !ok {
		return false
	}
	for i := 0; i < st.NumFields(); i++ {
		if st.Field(i).Embedded() && st.Field(i).Name() == "RuleBase" {
			return true
		}
	}
	return false
}

func isZeroValue(v ssa.Value) bool {
	c, ok := v.(*ssa.Const)
	if !ok {
		return false
	}
	if c.IsNil() || c.Value == nil {
		return true
	}
	switch c.Value.Kind().String() {
	}
	s := c.Value.ExactString()
	return s == "0" || s == `""` || s == "false"
}

func runC09Reset(c *Ctx) {
	p := c.P
	scope := p.Main.Types.Scope()
	for _, name := range scope.Names() {
		tn, ok := scope.Lookup(name).(*types.TypeName)
		if !ok || !embedsRuleBase(tn.Type()) {
			continue
		}
		T := name
		jobFns := map[*ssa.Function]bool{}
		var entry []*ssa.Function
		for _, m := range []string{"VisitJobPre", "VisitStep", "VisitJobPost"} {
			if f := p.Method(T, m); f != nil && FuncName(f) == "(*"+T+")."+m {
				entry = append(entry, f)
			}
		}
		// callees on the same receiver, transitively
		var add func(f *ssa.Function)
		add = func(f *ssa.Function) {
			if jobFns[f] || f.Blocks == nil {
				return
			}
			jobFns[f] = true
			eachInstr(f, func(_ *ssa.BasicBlock, _ int, in ssa.Instruction) {
				if call, ok := in.(ssa.CallInstruction); ok {
					g := staticCallee(call.Common())
					if g != nil && g.Signature.Recv() != nil && len(call.Common().Args) > 0 && len(f.Params) > 0 && call.Common().Args[0] == f.Params[0] && inPkg(g, p.SPkg) {
						add(g)
					}
				}
			})
		}
		for _, f := range entry {
			add(f)
		}
		if len(jobFns) == 0 {
			continue
		}
		// fields of T written in job scope: direct stores, or writes into a map/slice held by the field
		type wr struct {
			fn  *ssa.Function
			in  ssa.Instruction
			val ssa.Value
		}
		written := map[string][]wr{}
		fieldIdx := map[string]int{}
		for f := range jobFns {
			recv := f.Params[0]
			eachInstr(f, func(_ *ssa.BasicBlock, _ int, in ssa.Instruction) {
				switch x := in.(type) {
				case *ssa.Store:
					if fa, ok := x.Addr.(*ssa.FieldAddr); ok && fa.X == recv && pointeeName(recv.Type()) == T {
						n := fieldAddrName(fa)
						written[n] = append(written[n], wr{f, x, x.Val})
						fieldIdx[n] = fa.Field
					}
				case *ssa.MapUpdate:
					if ld, ok := x.Map.(*ssa.UnOp); ok {
						if fa, ok := ld.X.(*ssa.FieldAddr); ok && fa.X == recv && pointeeName(recv.Type()) == T {
							n := fieldAddrName(fa)
							written[n] = append(written[n], wr{f, x, nil})
							fieldIdx[n] = fa.Field
						}
					}
				}
			})
		}
		post := p.Method(T, "VisitJobPost")
		pre := p.Method(T, "VisitJobPre")
		if post != nil && FuncName(post) != "(*"+T+").VisitJobPost" {
			post = nil
		}
		if pre != nil && FuncName(pre) != "(*"+T+").VisitJobPre" {
			pre = nil
		}
		for _, fname := range sortedKeys(written) {
			ws := written[fname]
			construct := "rule " + T + "|per-job field " + fname
			idx := fieldIdx[fname]
			// (i) VisitJobPost stores to the field on every path
			if post != nil && storesFieldOnAllPaths(post, idx) {
				c.ok(construct, ws[0].in.Pos(), "reset by VisitJobPost on every path")
				continue
			}
			// (ii) VisitJobPre assigns it before reading it, on every path
			if pre != nil && assignsFieldFirst(pre, idx) {
				c.ok(construct, ws[0].in.Pos(), "assigned by VisitJobPre on every path before any read")
				continue
			}
			// (iii) every non-zero write is followed, in the same function, by a zero store on every path to return
			all := true
			nonZeroStores := 0
			for _, w := range ws {
				if w.val == nil {
					continue // write into the map held by the field: covered when the map itself is created and dropped per job
				}
				if isZeroValue(w.val) {
					continue
				}
				nonZeroStores++
				if !followedByZeroStore(w.fn, w.in, idx) {
					all = false
				}
			}
			if all && nonZeroStores > 0 {
				c.ok(construct, ws[0].in.Pos(), "every write is undone in the same function before it returns")
				continue
			}
			var where []string
			for _, w := range ws {
				where = append(where, FuncName(w.fn)+" ("+p.Pos(w.in.Pos())+")")
			}
			sort.Strings(where)
			c.bad(construct, ws[0].in.Pos(), "written while visiting a job by "+shortList(where, 3)+" but neither reset in VisitJobPost on every path nor assigned first in VisitJobPre: the value leaks into the next job")
		}
	}
}

// storesFieldOnAllPaths: some store to field idx of the receiver sits in a block that dominates every return.
func storesFieldOnAllPaths(f *ssa.Function, idx int) bool {
	return storesFieldOnAllPathsDepth(f, idx, 0)
}

func storesFieldOnAllPathsDepth(f *ssa.Function, idx int, depth int) bool {
	if depth > 3 || f.Blocks == nil || len(f.Params) == 0 {
		return false
	}
	recv := f.Params[0]
	var rets []*ssa.BasicBlock
	for _, b := range f.Blocks {
		if len(b.Instrs) > 0 {
			if _, ok := b.Instrs[len(b.Instrs)-1].(*ssa.Return); ok {
				rets = append(rets, b)
			}
		}
	}
	found := false
	eachInstr(f, func(b *ssa.BasicBlock, _ int, in ssa.Instruction) {
		if call, isCall := in.(*ssa.Call); isCall {
			// a helper on the same receiver that stores the field on all of its paths
			g := staticCallee(&call.Call)
			if g == nil || !inModule(g) || len(call.Call.Args) == 0 || call.Call.Args[0] != ssa.Value(recv) || !storesFieldOnAllPathsDepth(g, idx, depth+1) {
				return
			}
		} else {
			st, ok := in.(*ssa.Store)
			if !ok {
				return
			}
			fa, ok := st.Addr.(*ssa.FieldAddr)
			if !ok || fa.X != recv || fa.Field != idx {
				return
			}
		}
		all := true
		for _, r := range rets {
			if b != r && !b.Dominates(r) {
				all = false
			}
		}
		if all {
			found = true
		}
	})
	return found
}

// assignsFieldFirst: a store to the field dominates every return and every load of the field.
func assignsFieldFirst(f *ssa.Function, idx int) bool {
	recv := f.Params[0]
	var store *ssa.Store
	eachInstr(f, func(b *ssa.BasicBlock, _ int, in ssa.Instruction) {
		st, ok := in.(*ssa.Store)
		if !ok || store != nil {
			return
		}
		if fa, ok := st.Addr.(*ssa.FieldAddr); ok && fa.X == recv && fa.Field == idx {
			all := true
			for _, r := range f.Blocks {
				if len(r.Instrs) > 0 {
					if _, isRet := r.Instrs[len(r.Instrs)-1].(*ssa.Return); isRet && b != r && !b.Dominates(r) {
						all = false
					}
				}
			}
			if all {
				store = st
			}
		}
	})
	if store == nil {
		return false
	}
	ok := true
	eachInstr(f, func(b *ssa.BasicBlock, i int, in ssa.Instruction) {
		ld, isLoad := in.(*ssa.UnOp)
		if !isLoad || ld.Op != token.MUL {
			return
		}
		if fa, isFA := ld.X.(*ssa.FieldAddr); isFA && fa.X == recv && fa.Field == idx {
			if !instrDominates(store.Block(), instrIndex(store), b, i) {
				ok = false
			}
		}
	})
	// calls made before the store could read the field through the receiver: require the store in the entry
	// block before any call that takes the receiver
	if ok {
		for _, in := range f.Blocks[0].Instrs {
			if in == ssa.Instruction(store) {
				break
			}
			if call, isCall := in.(ssa.CallInstruction); isCall {
				for _, a := range call.Common().Args {
					if a == recv {
						// a callee on the same receiver runs before the assignment; accept only if it does not read the field
						if g := staticCallee(call.Common()); g == nil || readsField(g, idx) {
							return false
						}
					}
				}
			}
		}
	}
	return ok
}

func readsField(g *ssa.Function, idx int) bool {
	if g.Blocks == nil || len(g.Params) == 0 {
		return true
	}
	r := false
	eachInstr(g, func(_ *ssa.BasicBlock, _ int, in ssa.Instruction) {
		if ld, ok := in.(*ssa.UnOp); ok && ld.Op == token.MUL {
			if fa, ok := ld.X.(*ssa.FieldAddr); ok && fa.X == g.Params[0] && fa.Field == idx {
				r = true
			}
		}
		if call, ok := in.(ssa.CallInstruction); ok {
			for _, a := range call.Common().Args {
				if a == g.Params[0] {
					r = true // conservatively: deeper callees may read it
				}
			}
		}
	})
	return r
}

// followedByZeroStore: every return reachable from the write is dominated by a zero store to the same field
// that comes after the write.
func followedByZeroStore(f *ssa.Function, w ssa.Instruction, idx int) bool {
	recv := f.Params[0]
	var zeros []*ssa.Store
	eachInstr(f, func(_ *ssa.BasicBlock, _ int, in ssa.Instruction) {
		if st, ok := in.(*ssa.Store); ok && isZeroValue(st.Val) {
			if fa, ok := st.Addr.(*ssa.FieldAddr); ok && fa.X == recv && fa.Field == idx {
				zeros = append(zeros, st)
			}
		}
	})
	if len(zeros) == 0 {
		return false
	}
	wb := w.Block()
	reach := reachableBlocks([]*ssa.BasicBlock{wb}, nil)
	reach[wb] = true
	for b := range reach {
		if len(b.Instrs) == 0 {
			continue
		}
		if _, isRet := b.Instrs[len(b.Instrs)-1].(*ssa.Return); !isRet {
			continue
		}
		covered := false
		for _, z := range zeros {
			zb := z.Block()
			after := zb != wb || instrIndex(z) > instrIndex(w)
			if after && (zb == b || zb.Dominates(b)) && (zb == wb || wb.Dominates(zb)) {
				covered = true
			}
		}
		if !covered {
			return false
		}
	}
	return true
}

// ---- C09.AST ----

func runC09Ast(c *Ctx) {
	p := c.P
	// struct types declared in ast.go
	astTypes := map[string]bool{}
	for _, f := range p.Main.Syntax {
		if !strings.HasSuffix(p.Fset.Position(f.Pos()).Filename, "/ast.go") {
			continue
		}
		for name, obj := range f.Scope.Objects {
			_ = obj
			if tn, ok := p.Main.Types.Scope().Lookup(name).(*types.TypeName); ok {
				if _, isStruct := tn.Type().Underlying().(*types.Struct); isStruct {
					astTypes[name] = true
				}
			}
		}
	}
	if len(astTypes) < 20 {
		c.anchorMissing("struct types of ast.go")
		return
	}
	n, nbad := 0, 0
	for _, fn := range p.Funcs {
		if isParserFunc(fn) {
			continue
		}
		eachInstr(fn, func(_ *ssa.BasicBlock, _ int, in ssa.Instruction) {
			var fa *ssa.FieldAddr
			kind := ""
			switch x := in.(type) {
			case *ssa.Store:
				fa, _ = x.Addr.(*ssa.FieldAddr)
				kind = "assignment to"
			case *ssa.MapUpdate:
				if ld, ok := x.Map.(*ssa.UnOp); ok {
					fa, _ = ld.X.(*ssa.FieldAddr)
				}
				kind = "map write into"
			}
			if fa == nil || !astTypes[pointeeName(fa.X.Type())] {
				return
			}
			n++
			root := fa.X
			for {
				switch r := root.(type) {
				case *ssa.FieldAddr:
					root = r.X
					continue
				case *ssa.IndexAddr:
					root = r.X
					continue
				}
				break
			}
			if _, isAlloc := root.(*ssa.Alloc); isAlloc {
				return // a node (or value) created here, e.g. a synthetic String for a matrix label or a Pos inside a new struct
			}
			// methods of the AST types themselves may not mutate either, but value receivers copy: check pointer identity only
			nbad++
			c.bad(FuncName(fn)+"|"+kind+" "+fieldAddrName(fa), in.Pos(), "a rule writes into the workflow AST: later rules, jobs and steps read the modified node")
		})
	}
	n2, nbad2 := c09AstContainers(c, astTypes)
	n += n2
	if nbad+nbad2 > 0 {
		return
	}
	c.ok("package|AST writes outside the parser", 0, fmt.Sprintf("%d AST struct types; %d writes outside the parser, all into nodes created on the spot", len(astTypes), n))
}

// ---- C09.FRESH ----

// An expression checker (semantics checker, untrusted-input checker) lives for one expression: it is created, used and
// dropped within one activation of the function that checks the expression. The rule decides this from both ends:
// forward from every place where one is created (the value is only held in locals, handed to functions that do not keep
// it, returned to callers for which the same holds, or - the untrusted-input checker - becomes the `untrusted` part of
// exactly one checker created in the same activation), and for every instruction of the package that puts a checker (or
// a slice, map or struct that holds one) anywhere but into a local variable.
func runC09Fresh(c *Ctx) {
	p := c.P
	kinds := map[string]bool{"ExprSemanticsChecker": true, "UntrustedInputChecker": true}
	holds := func(t types.Type) string { return holdsChecker(t, kinds, 0) }
	fresh := func(v ssa.Value, params bool) bool {
		origs := p.Origins(v, FlowOpts{Params: params})
		if len(origs) == 0 {
			return false
		}
		for _, o := range origs {
			if o.Kind != OAlloc {
				return false
			}
		}
		return true
	}
	occ := map[string]int{}
	for _, fn := range p.Funcs {
		eachInstr(fn, func(_ *ssa.BasicBlock, _ int, in ssa.Instruction) {
			switch x := in.(type) {
			case *ssa.Store:
				vt := holds(x.Val.Type())
				if vt == "" {
					return
				}
				switch a := x.Addr.(type) {
				case *ssa.Alloc:
					if _, isArr := a.Type().Underlying().(*types.Pointer).Elem().Underlying().(*types.Array); !isArr {
						return // local variable
					}
					c.bad(FuncName(fn)+"|store of "+vt, x.Pos(), "an expression checker is copied into an array")
				case *ssa.FieldAddr:
					construct := FuncName(fn) + "|store of " + vt + " into " + fieldAddrName(a)
					if fieldAddrName(a) == "ExprSemanticsChecker.untrusted" {
						switch {
						case !fresh(x.Val, false):
							c.bad(construct, x.Pos(), "the untrusted-input checker stored into a semantics checker is not one created for it in this activation: its matcher state (candidate paths, object-filter flag, errors) would be shared between expressions")
						case !fresh(a.X, true):
							c.bad(construct, x.Pos(), "the semantics checker that receives the untrusted-input checker is not one created in this activation")
						default:
							c.ok(construct, x.Pos(), "a newly created untrusted-input checker becomes part of a semantics checker created in the same activation")
						}
						return
					}
					c.bad(construct, x.Pos(), "an expression checker is kept in a field: its state (errors, candidate paths, copied context table) would be shared between expressions")
				case *ssa.IndexAddr:
					occ[FuncName(fn)]++
					c.bad(fmt.Sprintf("%s|store of %s into a slice or array element#%d", FuncName(fn), vt, occ[FuncName(fn)]), x.Pos(), "an expression checker is kept in a slice: its state (errors, candidate paths, copied context table) would be shared between expressions")
				case *ssa.Global:
					c.bad(FuncName(fn)+"|store of "+vt+" into "+a.Name(), x.Pos(), "an expression checker is kept in a package-level variable")
				default:
					c.bad(FuncName(fn)+"|store of "+vt, x.Pos(), "an expression checker is stored outside a local variable")
				}
			case *ssa.MapUpdate:
				if vt := holds(x.Value.Type()); vt != "" {
					where := "a map"
					if f, _ := fieldLoad(x.Map); f != "" {
						where = f
					}
					c.bad(FuncName(fn)+"|store of "+vt+" into "+where, x.Pos(), "an expression checker is kept in a map: the next expression with the same key is checked with the state (errors, candidate paths, copied context table) of the previous one")
				}
			case *ssa.Send:
				if vt := holds(x.X.Type()); vt != "" {
					c.bad(FuncName(fn)+"|send of "+vt, x.Pos(), "an expression checker is sent over a channel")
				}
			}
		})
	}
	// forward from every creation
	n := 0
	for _, fn := range p.Funcs {
		eachInstr(fn, func(_ *ssa.BasicBlock, _ int, in ssa.Instruction) {
			al, ok := in.(*ssa.Alloc)
			if !ok || !kinds[typeStr(al.Type().Underlying().(*types.Pointer).Elem())] {
				return
			}
			n++
			t := &escTracker{p: p, seen: map[ssa.Value]bool{}, fresh: fresh}
			t.track(al, 0)
			construct := FuncName(fn) + "|new " + typeStr(al.Type()) + " does not outlive the check of one expression"
			if len(t.problems) > 0 {
				sort.Strings(t.problems)
				c.bad(construct, al.Pos(), t.problems[0]+": the checker's state would be carried from one expression to the next")
				return
			}
			sort.Strings(t.via)
			sort.Strings(t.handed)
			c.ok(construct, al.Pos(), fmt.Sprintf("only held in local variables; returned through: %s; handed to %d functions of the module, none of which keeps it; part of %d other checker(s)", strings.Join(dedupe(t.via), ", "), len(dedupe(t.handed)), t.owners))
		})
	}
	if n == 0 {
		c.anchorMissing("allocation of ExprSemanticsChecker / UntrustedInputChecker")
	}
}

func dedupe(ss []string) []string {
	var out []string
	for i, s := range ss {
		if i == 0 || s != ss[i-1] {
			out = append(out, s)
		}
	}
	return out
}

// holdsChecker: t is a pointer to a checker, or a slice / array / map / struct value / channel that holds one. Returns a
// description of the type, "" otherwise.
func holdsChecker(t types.Type, kinds map[string]bool, depth int) string {
	if depth > 3 {
		return ""
	}
	switch u := t.Underlying().(type) {
	case *types.Pointer:
		if kinds[typeStr(u.Elem())] {
			return "*" + typeStr(u.Elem())
		}
	case *types.Slice:
		if holdsChecker(u.Elem(), kinds, depth+1) != "" {
			return typeStr(t)
		}
	case *types.Array:
		if holdsChecker(u.Elem(), kinds, depth+1) != "" {
			return typeStr(t)
		}
	case *types.Chan:
		if holdsChecker(u.Elem(), kinds, depth+1) != "" {
			return typeStr(t)
		}
	case *types.Map:
		if holdsChecker(u.Elem(), kinds, depth+1) != "" || holdsChecker(u.Key(), kinds, depth+1) != "" {
			return typeStr(t)
		}
	case *types.Struct:
		if kinds[typeStr(t)] {
			return ""
		}
		for i := 0; i < u.NumFields(); i++ {
			if holdsChecker(u.Field(i).Type(), kinds, depth+1) != "" {
				return typeStr(t)
			}
		}
	}
	return ""
}

// escTracker follows a newly created checker forward.
type escTracker struct {
	p        *Prog
	seen     map[ssa.Value]bool
	fresh    func(v ssa.Value, params bool) bool
	problems []string
	via      []string // return edges followed
	handed   []string // functions that receive it as an argument
	owners   int
}

func (t *escTracker) problem(pos token.Pos, msg string) {
	t.problems = append(t.problems, msg+" at "+t.p.Pos(pos))
}

func (t *escTracker) track(v ssa.Value, depth int) {
	if v == nil || t.seen[v] || v.Referrers() == nil {
		return
	}
	t.seen[v] = true
	if depth > 40 { // termination is by the set of values already followed; this only bounds pathological chains
		t.problem(v.Pos(), "the value is passed on too far to be followed")
		return
	}
	fn := fnOf(v)
	for _, ref := range *v.Referrers() {
		switch r := ref.(type) {
		case *ssa.Store:
			if r.Val != v {
				continue // a write through the pointer
			}
			switch a := r.Addr.(type) {
			case *ssa.Alloc:
				t.local(a, depth)
			case *ssa.FieldAddr:
				if fieldAddrName(a) == "ExprSemanticsChecker.untrusted" && t.fresh(a.X, true) {
					t.owners++
					if t.owners > 1 {
						t.problem(r.Pos(), "it becomes part of more than one semantics checker")
					}
					continue
				}
				t.problem(r.Pos(), "it is kept in the field "+fieldAddrName(a))
			case *ssa.IndexAddr:
				t.problem(r.Pos(), "it is kept in an element of a slice or array")
			case *ssa.Global:
				t.problem(r.Pos(), "it is kept in the package-level variable "+a.Name())
			default:
				t.problem(r.Pos(), "it is stored outside a local variable")
			}
		case *ssa.MapUpdate:
			if r.Value == v || r.Key == v {
				t.problem(r.Pos(), "it is kept in a map")
			}
		case *ssa.Send:
			if r.X == v {
				t.problem(r.Pos(), "it is sent over a channel")
			}
		case *ssa.MakeClosure:
			t.closure(r, v, depth)
		case *ssa.Phi, *ssa.MakeInterface, *ssa.ChangeType, *ssa.ChangeInterface, *ssa.Convert, *ssa.TypeAssert:
			t.track(r.(ssa.Value), depth)
		case *ssa.Extract:
			if ta, ok := r.Tuple.(*ssa.TypeAssert); ok && ta == v && r.Index == 0 {
				t.track(r, depth)
			}
		case *ssa.Return:
			idx := -1
			for i, res := range r.Results {
				if res == v {
					idx = i
				}
			}
			t.returned(fn, idx, len(r.Results), depth)
		case *ssa.Go:
			t.problem(r.Pos(), "it is handed to a goroutine")
		case *ssa.Call:
			t.call(r, v, depth)
		case *ssa.Defer:
			t.call(r, v, depth)
		}
	}
}

// local: a local variable that holds the value: every load of it is followed; a variable captured by a closure is followed
// into the closure when the closure is only called on the spot.
func (t *escTracker) local(a *ssa.Alloc, depth int) {
	if t.seen[a] {
		return
	}
	t.seen[a] = true
	for _, ref := range *a.Referrers() {
		switch r := ref.(type) {
		case *ssa.UnOp:
			t.track(r, depth)
		case *ssa.MakeClosure:
			t.closure(r, a, depth)
		case *ssa.Store, *ssa.DebugRef:
		default:
			t.problem(ref.Pos(), "the address of the variable that holds it is passed on")
		}
	}
}

func (t *escTracker) closure(mc *ssa.MakeClosure, bound ssa.Value, depth int) {
	for _, ref := range *mc.Referrers() {
		switch r := ref.(type) {
		case *ssa.Call:
			if r.Call.Value == ssa.Value(mc) {
				continue
			}
		case *ssa.Defer:
			if r.Call.Value == ssa.Value(mc) {
				continue
			}
		case *ssa.DebugRef:
			continue
		}
		t.problem(mc.Fn.Pos(), "it is captured by a closure that is passed on")
		return
	}
	f, ok := mc.Fn.(*ssa.Function)
	if !ok {
		return
	}
	for i, b := range mc.Bindings {
		if b != bound || i >= len(f.FreeVars) {
			continue
		}
		fv := f.FreeVars[i]
		if _, isVar := bound.(*ssa.Alloc); isVar {
			if t.seen[fv] {
				continue
			}
			t.seen[fv] = true
			for _, ref := range *fv.Referrers() {
				switch r := ref.(type) {
				case *ssa.UnOp:
					t.track(r, depth+1)
				case *ssa.MakeClosure:
					t.closure(r, fv, depth+1)
				case *ssa.Store, *ssa.DebugRef:
				default:
					t.problem(ref.Pos(), "the address of the variable that holds it is passed on")
				}
			}
		} else {
			t.track(fv, depth+1)
		}
	}
}

func (t *escTracker) returned(fn *ssa.Function, idx, nres, depth int) {
	if fn == nil || idx < 0 {
		return
	}
	for _, e := range t.p.callersOf(fn) {
		if e.Site == nil {
			continue
		}
		val := e.Site.Value()
		if val == nil {
			if _, isGo := e.Site.(*ssa.Go); isGo {
				continue
			}
			continue // deferred: the result is dropped
		}
		t.via = append(t.via, FuncName(fn)+" -> "+FuncName(e.Caller.Func))
		if nres == 1 {
			t.track(val, depth+1)
			continue
		}
		for _, ref := range *val.Referrers() {
			if ex, ok := ref.(*ssa.Extract); ok && ex.Index == idx {
				t.track(ex, depth+1)
			}
		}
	}
}

func (t *escTracker) call(site ssa.CallInstruction, v ssa.Value, depth int) {
	cc := site.Common()
	if b, ok := cc.Value.(*ssa.Builtin); ok {
		_ = b
		return // len, print, ...: nothing is kept (append takes its elements from a slice, whose stores are seen)
	}
	callees := t.p.calleesOf(site)
	if len(callees) == 0 {
		t.problem(site.Pos(), "it is handed to a call whose target is not known")
		return
	}
	for _, g := range callees {
		if !inModule(g) || g.Blocks == nil {
			t.problem(site.Pos(), "it is handed to "+funcFullName(g)+", which is outside the module")
			continue
		}
		if cc.IsInvoke() {
			if cc.Value == v && len(g.Params) > 0 {
				t.handed = append(t.handed, FuncName(g))
				t.track(g.Params[0], depth+1)
			}
			for i, a := range cc.Args {
				if a == v && i+1 < len(g.Params) {
					t.handed = append(t.handed, FuncName(g))
					t.track(g.Params[i+1], depth+1)
				}
			}
			continue
		}
		for i, a := range cc.Args {
			if a == v && i < len(g.Params) {
				t.handed = append(t.handed, FuncName(g))
				t.track(g.Params[i], depth+1)
			}
		}
		if cc.Value == v {
			t.problem(site.Pos(), "it is called as a function")
		}
	}
}
