package main

import (
	"fmt"
	"go/token"
	"go/types"
	"sort"
	"strings"

	"golang.org/x/tools/go/ssa"
)

func init() {
	register(&Rule{ID: "C09.IMM", Min: 20, Doc: "type objects (ObjectType/ArrayType) are only mutated while they can only be fresh allocations", Run: runC09Imm})
	register(&Rule{ID: "C09.RESET", Min: 8, Doc: "every rule field written while visiting a job is reset for the next job", Run: runC09Reset})
	register(&Rule{ID: "C09.AST", Min: 1, Doc: "the workflow AST is never written outside the parser", Run: runC09Ast})
	register(&Rule{ID: "C09.FRESH", Min: 2, Doc: "expression checkers are created per expression and never kept in rule state", Run: runC09Fresh})
}

func pointeeName(t types.Type) string {
	if p, ok := t.Underlying().(*types.Pointer); ok {
		return typeStr(p.Elem())
	}
	return typeStr(t)
}

// describeOrigins summarises non-fresh origins; empty when all origins are fresh allocations / nil.
func describeOrigins(p *Prog, origs []Origin) []string {
	var bad []string
	for _, o := range origs {
		switch o.Kind {
		case OAlloc, ONil, OConst:
		case OGlobal:
			bad = append(bad, "package-level variable "+o.Name)
		case OElem:
			bad = append(bad, "element of a container read at "+p.Pos(o.Val.Pos())+" (may be shared with other holders)")
		case OParam:
			if len(p.callersOf(o.Fn)) == 0 {
				continue // exported API that nothing in the program calls
			}
			bad = append(bad, "parameter of "+FuncName(o.Fn)+" whose callers cannot be followed")
		case OField:
			bad = append(bad, "field "+o.Field+" (no store found)")
		case OExtern:
			bad = append(bad, "result of "+o.Name)
		default:
			bad = append(bad, "value of unknown origin at "+p.Pos(o.Val.Pos()))
		}
	}
	sort.Strings(bad)
	// dedupe
	var out []string
	for i, b := range bad {
		if i == 0 || b != bad[i-1] {
			out = append(out, b)
		}
	}
	return out
}

func runC09Imm(c *Ctx) {
	p := c.P
	isTypeObj := func(t types.Type) bool {
		n := pointeeName(t)
		return n == "ObjectType" || n == "ArrayType"
	}
	occ := map[string]int{}
	for _, fn := range p.Funcs {
		eachInstr(fn, func(_ *ssa.BasicBlock, _ int, in ssa.Instruction) {
			var obj ssa.Value
			what := ""
			switch x := in.(type) {
			case *ssa.Store:
				fa, ok := x.Addr.(*ssa.FieldAddr)
				if !ok || !isTypeObj(fa.X.Type()) {
					return
				}
				obj, what = fa.X, "assignment to "+fieldAddrName(fa)
			case *ssa.MapUpdate:
				ld, ok := x.Map.(*ssa.UnOp)
				if !ok {
					return
				}
				fa, ok := ld.X.(*ssa.FieldAddr)
				if !ok || !isTypeObj(fa.X.Type()) {
					return
				}
				obj, what = fa.X, "write to "+fieldAddrName(fa)
			case *ssa.Call:
				if b, ok := x.Call.Value.(*ssa.Builtin); ok && b.Name() == "delete" {
					ld, ok := x.Call.Args[0].(*ssa.UnOp)
					if !ok {
						return
					}
					fa, ok := ld.X.(*ssa.FieldAddr)
					if !ok || !isTypeObj(fa.X.Type()) {
						return
					}
					obj, what = fa.X, "delete from "+fieldAddrName(fa)
				} else {
					return
				}
			default:
				return
			}
			k := FuncName(fn) + "|" + what
			occ[k]++
			construct := fmt.Sprintf("%s#%d", k, occ[k])
			if _, isAlloc := obj.(*ssa.Alloc); isAlloc {
				o := c.ok(construct, in.Pos(), "initialisation of a new object")
				o.trivial = true
				return
			}
			origs := p.Origins(obj, FlowOpts{Params: true, Fields: true, MaxDepth: 12})
			bad := describeOrigins(p, origs)
			if len(bad) == 0 {
				c.ok(construct, in.Pos(), fmt.Sprintf("the mutated type object can only be one of %d fresh allocations (followed through callers, returns and field stores)", len(origs)))
				return
			}
			c.bad(construct, in.Pos(), "mutates a type object that may be shared: it can be "+shortList(bad, 3)+". Types handed out by the checker are shared between expressions, jobs and files")
		})
	}
}

// ---- C09.RESET ----

func embedsRuleBase(t types.Type) bool {
	n := namedOf(t)
	if n == nil {
		return false
	}
	st, ok := n.Underlying().(*types.Struct)
	if !ok {
		return false
	}
	for i := 0; i < st.NumFields(); i++ {
		if st.Field(i).Embedded() && st.Field(i).Name() == "RuleBase" {
			return true
		}
	}
	return false
}

func isZeroValue(v ssa.Value) bool {
	c, ok := v.(*ssa.Const)
	if !ok {
		return false
	}
	if c.IsNil() || c.Value == nil {
		return true
	}
	switch c.Value.Kind().String() {
	}
	s := c.Value.ExactString()
	return s == "0" || s == `""` || s == "false"
}

func runC09Reset(c *Ctx) {
	p := c.P
	scope := p.Main.Types.Scope()
	for _, name := range scope.Names() {
		tn, ok := scope.Lookup(name).(*types.TypeName)
		if !ok || !embedsRuleBase(tn.Type()) {
			continue
		}
		T := name
		jobFns := map[*ssa.Function]bool{}
		var entry []*ssa.Function
		for _, m := range []string{"VisitJobPre", "VisitStep", "VisitJobPost"} {
			if f := p.Method(T, m); f != nil && FuncName(f) == "(*"+T+")."+m {
				entry = append(entry, f)
			}
		}
		// callees on the same receiver, transitively
		var add func(f *ssa.Function)
		add = func(f *ssa.Function) {
			if jobFns[f] || f.Blocks == nil {
				return
			}
			jobFns[f] = true
			eachInstr(f, func(_ *ssa.BasicBlock, _ int, in ssa.Instruction) {
				if call, ok := in.(ssa.CallInstruction); ok {
					g := staticCallee(call.Common())
					if g != nil && g.Signature.Recv() != nil && len(call.Common().Args) > 0 && len(f.Params) > 0 && call.Common().Args[0] == f.Params[0] && inPkg(g, p.SPkg) {
						add(g)
					}
				}
			})
		}
		for _, f := range entry {
			add(f)
		}
		if len(jobFns) == 0 {
			continue
		}
		// fields of T written in job scope: direct stores, or writes into a map/slice held by the field
		type wr struct {
			fn  *ssa.Function
			in  ssa.Instruction
			val ssa.Value
		}
		written := map[string][]wr{}
		fieldIdx := map[string]int{}
		for f := range jobFns {
			recv := f.Params[0]
			eachInstr(f, func(_ *ssa.BasicBlock, _ int, in ssa.Instruction) {
				switch x := in.(type) {
				case *ssa.Store:
					if fa, ok := x.Addr.(*ssa.FieldAddr); ok && fa.X == recv && pointeeName(recv.Type()) == T {
						n := fieldAddrName(fa)
						written[n] = append(written[n], wr{f, x, x.Val})
						fieldIdx[n] = fa.Field
					}
				case *ssa.MapUpdate:
					if ld, ok := x.Map.(*ssa.UnOp); ok {
						if fa, ok := ld.X.(*ssa.FieldAddr); ok && fa.X == recv && pointeeName(recv.Type()) == T {
							n := fieldAddrName(fa)
							written[n] = append(written[n], wr{f, x, nil})
							fieldIdx[n] = fa.Field
						}
					}
				}
			})
		}
		post := p.Method(T, "VisitJobPost")
		pre := p.Method(T, "VisitJobPre")
		if post != nil && FuncName(post) != "(*"+T+").VisitJobPost" {
			post = nil
		}
		if pre != nil && FuncName(pre) != "(*"+T+").VisitJobPre" {
			pre = nil
		}
		for _, fname := range sortedKeys(written) {
			ws := written[fname]
			construct := "rule " + T + "|per-job field " + fname
			idx := fieldIdx[fname]
			// (i) VisitJobPost stores to the field on every path
			if post != nil && storesFieldOnAllPaths(post, idx) {
				c.ok(construct, ws[0].in.Pos(), "reset by VisitJobPost on every path")
				continue
			}
			// (ii) VisitJobPre assigns it before reading it, on every path
			if pre != nil && assignsFieldFirst(pre, idx) {
				c.ok(construct, ws[0].in.Pos(), "assigned by VisitJobPre on every path before any read")
				continue
			}
			// (iii) every non-zero write is followed, in the same function, by a zero store on every path to return
			all := true
			nonZeroStores := 0
			for _, w := range ws {
				if w.val == nil {
					continue // write into the map held by the field: covered when the map itself is created and dropped per job
				}
				if isZeroValue(w.val) {
					continue
				}
				nonZeroStores++
				if !followedByZeroStore(w.fn, w.in, idx) {
					all = false
				}
			}
			if all && nonZeroStores > 0 {
				c.ok(construct, ws[0].in.Pos(), "every write is undone in the same function before it returns")
				continue
			}
			var where []string
			for _, w := range ws {
				where = append(where, FuncName(w.fn)+" ("+p.Pos(w.in.Pos())+")")
			}
			sort.Strings(where)
			c.bad(construct, ws[0].in.Pos(), "written while visiting a job by "+shortList(where, 3)+" but neither reset in VisitJobPost on every path nor assigned first in VisitJobPre: the value leaks into the next job")
		}
	}
}

// storesFieldOnAllPaths: some store to field idx of the receiver sits in a block that dominates every return.
func storesFieldOnAllPaths(f *ssa.Function, idx int) bool {
	return storesFieldOnAllPathsDepth(f, idx, 0)
}

func storesFieldOnAllPathsDepth(f *ssa.Function, idx int, depth int) bool {
	if depth > 3 || f.Blocks == nil || len(f.Params) == 0 {
		return false
	}
	recv := f.Params[0]
	var rets []*ssa.BasicBlock
	for _, b := range f.Blocks {
		if len(b.Instrs) > 0 {
			if _, ok := b.Instrs[len(b.Instrs)-1].(*ssa.Return); ok {
				rets = append(rets, b)
			}
		}
	}
	found := false
	eachInstr(f, func(b *ssa.BasicBlock, _ int, in ssa.Instruction) {
		if call, isCall := in.(*ssa.Call); isCall {
			// a helper on the same receiver that stores the field on all of its paths
			g := staticCallee(&call.Call)
			if g == nil || !inModule(g) || len(call.Call.Args) == 0 || call.Call.Args[0] != ssa.Value(recv) || !storesFieldOnAllPathsDepth(g, idx, depth+1) {
				return
			}
		} else {
			st, ok := in.(*ssa.Store)
			if !ok {
				return
			}
			fa, ok := st.Addr.(*ssa.FieldAddr)
			if !ok || fa.X != recv || fa.Field != idx {
				return
			}
		}
		all := true
		for _, r := range rets {
			if b != r && !b.Dominates(r) {
				all = false
			}
		}
		if all {
			found = true
		}
	})
	return found
}

// assignsFieldFirst: a store to the field dominates every return and every load of the field.
func assignsFieldFirst(f *ssa.Function, idx int) bool {
	recv := f.Params[0]
	var store *ssa.Store
	eachInstr(f, func(b *ssa.BasicBlock, _ int, in ssa.Instruction) {
		st, ok := in.(*ssa.Store)
		if !ok || store != nil {
			return
		}
		if fa, ok := st.Addr.(*ssa.FieldAddr); ok && fa.X == recv && fa.Field == idx {
			all := true
			for _, r := range f.Blocks {
				if len(r.Instrs) > 0 {
					if _, isRet := r.Instrs[len(r.Instrs)-1].(*ssa.Return); isRet && b != r && !b.Dominates(r) {
						all = false
					}
				}
			}
			if all {
				store = st
			}
		}
	})
	if store == nil {
		return false
	}
	ok := true
	eachInstr(f, func(b *ssa.BasicBlock, i int, in ssa.Instruction) {
		ld, isLoad := in.(*ssa.UnOp)
		if !isLoad || ld.Op != token.MUL {
			return
		}
		if fa, isFA := ld.X.(*ssa.FieldAddr); isFA && fa.X == recv && fa.Field == idx {
			if !instrDominates(store.Block(), instrIndex(store), b, i) {
				ok = false
			}
		}
	})
	// calls made before the store could read the field through the receiver: require the store in the entry
	// block before any call that takes the receiver
	if ok {
		for _, in := range f.Blocks[0].Instrs {
			if in == ssa.Instruction(store) {
				break
			}
			if call, isCall := in.(ssa.CallInstruction); isCall {
				for _, a := range call.Common().Args {
					if a == recv {
						// a callee on the same receiver runs before the assignment; accept only if it does not read the field
						if g := staticCallee(call.Common()); g == nil || readsField(g, idx) {
							return false
						}
					}
				}
			}
		}
	}
	return ok
}

func readsField(g *ssa.Function, idx int) bool {
	if g.Blocks == nil || len(g.Params) == 0 {
		return true
	}
	r := false
	eachInstr(g, func(_ *ssa.BasicBlock, _ int, in ssa.Instruction) {
		if ld, ok := in.(*ssa.UnOp); ok && ld.Op == token.MUL {
			if fa, ok := ld.X.(*ssa.FieldAddr); ok && fa.X == g.Params[0] && fa.Field == idx {
				r = true
			}
		}
		if call, ok := in.(ssa.CallInstruction); ok {
			for _, a := range call.Common().Args {
				if a == g.Params[0] {
					r = true // conservatively: deeper callees may read it
				}
			}
		}
	})
	return r
}

// followedByZeroStore: every return reachable from the write is dominated by a zero store to the same field
// that comes after the write.
func followedByZeroStore(f *ssa.Function, w ssa.Instruction, idx int) bool {
	recv := f.Params[0]
	var zeros []*ssa.Store
	eachInstr(f, func(_ *ssa.BasicBlock, _ int, in ssa.Instruction) {
		if st, ok := in.(*ssa.Store); ok && isZeroValue(st.Val) {
			if fa, ok := st.Addr.(*ssa.FieldAddr); ok && fa.X == recv && fa.Field == idx {
				zeros = append(zeros, st)
			}
		}
	})
	if len(zeros) == 0 {
		return false
	}
	wb := w.Block()
	reach := reachableBlocks([]*ssa.BasicBlock{wb}, nil)
	reach[wb] = true
	for b := range reach {
		if len(b.Instrs) == 0 {
			continue
		}
		if _, isRet := b.Instrs[len(b.Instrs)-1].(*ssa.Return); !isRet {
			continue
		}
		covered := false
		for _, z := range zeros {
			zb := z.Block()
			after := zb != wb || instrIndex(z) > instrIndex(w)
			if after && (zb == b || zb.Dominates(b)) && (zb == wb || wb.Dominates(zb)) {
				covered = true
			}
		}
		if !covered {
			return false
		}
	}
	return true
}

// ---- C09.AST ----

func runC09Ast(c *Ctx) {
	p := c.P
	// struct types declared in ast.go
	astTypes := map[string]bool{}
	for _, f := range p.Main.Syntax {
		if !strings.HasSuffix(p.Fset.Position(f.Pos()).Filename, "/ast.go") {
			continue
		}
		for name, obj := range f.Scope.Objects {
			_ = obj
			if tn, ok := p.Main.Types.Scope().Lookup(name).(*types.TypeName); ok {
				if _, isStruct := tn.Type().Underlying().(*types.Struct); isStruct {
					astTypes[name] = true
				}
			}
		}
	}
	if len(astTypes) < 20 {
		c.anchorMissing("struct types of ast.go")
		return
	}
	n := 0
	for _, fn := range p.Funcs {
		if isParserFunc(fn) {
			continue
		}
		eachInstr(fn, func(_ *ssa.BasicBlock, _ int, in ssa.Instruction) {
			var fa *ssa.FieldAddr
			kind := ""
			switch x := in.(type) {
			case *ssa.Store:
				fa, _ = x.Addr.(*ssa.FieldAddr)
				kind = "assignment to"
			case *ssa.MapUpdate:
				if ld, ok := x.Map.(*ssa.UnOp); ok {
					fa, _ = ld.X.(*ssa.FieldAddr)
				}
				kind = "map write into"
			}
			if fa == nil || !astTypes[pointeeName(fa.X.Type())] {
				return
			}
			n++
			root := fa.X
			for {
				switch r := root.(type) {
				case *ssa.FieldAddr:
					root = r.X
					continue
				case *ssa.IndexAddr:
					root = r.X
					continue
				}
				break
			}
			if _, isAlloc := root.(*ssa.Alloc); isAlloc {
				return // a node (or value) created here, e.g. a synthetic String for a matrix label or a Pos inside a new struct
			}
			// methods of the AST types themselves may not mutate either, but value receivers copy: check pointer identity only
			c.bad(FuncName(fn)+"|"+kind+" "+fieldAddrName(fa), in.Pos(), "a rule writes into the workflow AST: later rules, jobs and steps read the modified node")
		})
	}
	c.ok("package|AST writes outside the parser", 0, fmt.Sprintf("%d AST struct types; %d writes outside the parser, all into nodes created on the spot", len(astTypes), n))
}

// ---- C09.FRESH ----

func runC09Fresh(c *Ctx) {
	p := c.P
	n := 0
	for _, fn := range p.Funcs {
		eachInstr(fn, func(_ *ssa.BasicBlock, _ int, in ssa.Instruction) {
			st, ok := in.(*ssa.Store)
			if !ok {
				return
			}
			vt := pointeeName(st.Val.Type())
			if vt != "ExprSemanticsChecker" && vt != "UntrustedInputChecker" {
				return
			}
			if _, isPtr := st.Val.Type().Underlying().(*types.Pointer); !isPtr {
				return
			}
			n++
			switch a := st.Addr.(type) {
			case *ssa.Alloc:
				return // local variable
			case *ssa.FieldAddr:
				if fieldAddrName(a) == "ExprSemanticsChecker.untrusted" {
					c.ok(FuncName(fn)+"|store of *"+vt+" into "+fieldAddrName(a), st.Pos(), "the untrusted-input checker belongs to its per-expression semantics checker")
					return
				}
				c.bad(FuncName(fn)+"|store of *"+vt+" into "+fieldAddrName(a), st.Pos(), "an expression checker is kept in a field: its state (errors, candidate paths, copied context table) would be shared between expressions")
			default:
				c.bad(FuncName(fn)+"|store of *"+vt, st.Pos(), "an expression checker is stored outside a local variable")
			}
		})
	}
	// constructors are only called from the per-expression entry point
	for _, ctor := range []string{"NewExprSemanticsChecker", "NewUntrustedInputChecker"} {
		f := p.Func(ctor)
		if f == nil {
			c.anchorMissing(ctor)
			continue
		}
		callers := p.callerNames(f)
		c.ok("callers of "+ctor, f.Pos(), "created in: "+strings.Join(callers, ", "))
	}
}
