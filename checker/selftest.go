package main

import (
	"fmt"
	"regexp"
	"sort"
	"strings"
)

var wantRe = regexp.MustCompile(`//\s*want:([A-Za-z0-9_.]+)`)
var okRe = regexp.MustCompile(`//\s*silent:([A-Za-z0-9_.]+)`)

// evalFixture checks that every `// want:RULE` line of the positive fixture was reported by RULE, and
// that no `// silent:RULE` line was. Only rules that ran are considered. A fixture that does not
// type-check any more (the repository's API changed under it) is reported as skipped, not as failure.
func evalFixture(fx runResult, src []byte, ran []string) (map[string]interface{}, []string) {
	out := map[string]interface{}{}
	if fx.err != nil {
		out["skipped"] = "fixture does not load with the current tree: " + fx.err.Error()
		return out, nil
	}
	if fx.panic != "" {
		out["skipped"] = "rule panicked on fixture: " + firstLine(fx.panic)
		return out, []string{"panic on fixture: " + firstLine(fx.panic)}
	}
	ranSet := map[string]bool{}
	for _, r := range ran {
		ranSet[r] = true
	}
	type key struct {
		rule string
		line int
	}
	want := map[key]bool{}
	silent := map[key]bool{}
	for i, l := range strings.Split(string(src), "\n") {
		for _, m := range wantRe.FindAllStringSubmatch(l, -1) {
			if ranSet[m[1]] {
				want[key{m[1], i + 1}] = true
			}
		}
		for _, m := range okRe.FindAllStringSubmatch(l, -1) {
			if ranSet[m[1]] {
				silent[key{m[1], i + 1}] = true
			}
		}
	}
	got := map[key]bool{}
	for _, ob := range fx.obs {
		if !ob.fixture || ob.Verdict == OK {
			continue
		}
		var line int
		if i := strings.LastIndex(ob.Pos, ":"); i >= 0 {
			fmt.Sscanf(ob.Pos[i+1:], "%d", &line)
		}
		got[key{ob.Rule, line}] = true
	}
	var fails, fired []string
	for k := range want {
		if got[k] {
			fired = append(fired, fmt.Sprintf("%s@fixture:%d", k.rule, k.line))
		} else {
			fails = append(fails, fmt.Sprintf("%s expected at fixture:%d", k.rule, k.line))
		}
	}
	for k := range silent {
		if got[k] {
			fails = append(fails, fmt.Sprintf("%s fired on a negative example at fixture:%d", k.rule, k.line))
		}
	}
	sort.Strings(fails)
	sort.Strings(fired)
	out["positive_examples_expected"] = len(want)
	out["positive_examples_reported"] = len(fired)
	out["negative_examples"] = len(silent)
	out["fired"] = fired
	return out, fails
}

func firstLine(s string) string {
	if i := strings.IndexByte(s, '\n'); i >= 0 {
		return s[:i]
	}
	return s
}
