package main

import (
	"bufio"
	"bytes"
	"context"
	"fmt"
	"io"
	"os"
	"os/exec"
	"path/filepath"
	"sort"
	"strings"
	"sync"
	"time"
)

// thorough adds to the quick tier: (a) the same rules under other build configurations so that
// build-tagged files are analysed too, (b) rule-sensitivity witnesses: seeded one-instance breakages
// applied to a scratch copy of the current tree, which the named rule must report, (c) the
// pre-installed generic tools as cross-reference only.
func thorough(o options, ps *PropSpec, ruleIDs []string, rev *Reviewed, base []*Ob) (map[string]interface{}, []*Ob) {
	out := map[string]interface{}{}
	var viol []*Ob

	// (a) other build configurations
	baseKeys := map[string]string{}
	for _, ob := range base {
		baseKeys[ob.Key()] = ob.Verdict
	}
	cfgs := [][]string{{"GOOS=windows", "GOARCH=amd64"}, {"GOOS=darwin", "GOARCH=arm64"}, {"GOOS=linux", "GOARCH=386"}}
	var cfgOut []map[string]interface{}
	for _, env := range cfgs {
		p, err := Load(LoadOpts{Dir: o.repo, Env: env, Verif: o.verif})
		entry := map[string]interface{}{"env": strings.Join(env, " ")}
		if err != nil {
			entry["error"] = err.Error()
			viol = append(viol, &Ob{Rule: "LOAD", Construct: "config " + strings.Join(env, " "), Pos: "-", Verdict: UNDECIDED, Detail: err.Error()})
			cfgOut = append(cfgOut, entry)
			continue
		}
		res := runRules(p, ruleIDs, rev)
		if res.panic != "" || res.err != nil {
			viol = append(viol, &Ob{Rule: "LOAD", Construct: "config " + strings.Join(env, " "), Pos: "-", Verdict: UNDECIDED, Detail: res.panic + fmt.Sprint(res.err)})
			continue
		}
		n, newv := 0, 0
		for _, ob := range res.obs {
			n++
			if ob.Verdict != OK && baseKeys[ob.Key()] == "" {
				// a violation that only exists in this configuration
				newv++
				ob.Construct += " [" + strings.Join(env, " ") + "]"
				viol = append(viol, ob)
			}
		}
		entry["obligations"] = n
		entry["functions"] = len(p.Funcs)
		entry["violations_only_in_this_configuration"] = newv
		cfgOut = append(cfgOut, entry)
	}
	out["build_configurations"] = cfgOut

	// (b) witnesses
	wits, werr := loadWitnesses(filepath.Join(o.verif, "checker", "witnesses"))
	if werr != nil {
		out["witness_error"] = werr.Error()
		viol = append(viol, &Ob{Rule: "HARNESS", Construct: "witnesses", Pos: "-", Verdict: UNDECIDED, Detail: "witness set unusable: " + werr.Error()})
	}
	ruleSet := map[string]bool{}
	for _, r := range ruleIDs {
		ruleSet[r] = true
	}
	var sel []*witness
	for _, w := range wits {
		if ruleSet[w.Rule] && (w.Property == "" || w.Property == ps.ID) {
			sel = append(sel, w)
		}
	}
	self, _ := os.Executable()
	results := make([]map[string]interface{}, len(sel))
	var wg sync.WaitGroup
	sem := make(chan struct{}, 4) // one variant per process, at most 4 at a time
	for i, w := range sel {
		wg.Add(1)
		go func(i int, w *witness) {
			defer wg.Done()
			sem <- struct{}{}
			defer func() { <-sem }()
			results[i] = runWitness(self, o, ps.ID, w)
		}(i, w)
	}
	wg.Wait()
	fired, skipped := 0, 0
	for i, r := range results {
		switch r["status"] {
		case "reported":
			fired++
		case "skipped":
			skipped++
		default:
			viol = append(viol, &Ob{Rule: sel[i].Rule, Construct: "witness " + sel[i].Name, Pos: "-", Verdict: UNDECIDED,
				Detail: fmt.Sprintf("insensitive-rule: seeded breakage %q applied but the rule did not report %q (%v)", sel[i].Desc, sel[i].Expect, r["status"])})
		}
	}
	out["witnesses"] = results
	out["witnesses_reported"] = fired
	out["witnesses_skipped_patch_does_not_apply"] = skipped

	// (c) cross-reference only
	out["cross_reference"] = crossReference(o.repo)
	return out, viol
}

type witness struct {
	Name, Rule, Expect, Property, Desc string
	Patch                              []byte
}

func loadWitnesses(dir string) ([]*witness, error) {
	ents, err := os.ReadDir(dir)
	if err != nil {
		return nil, err
	}
	var ws []*witness
	for _, e := range ents {
		if !strings.HasSuffix(e.Name(), ".patch") {
			continue
		}
		b, err := os.ReadFile(filepath.Join(dir, e.Name()))
		if err != nil {
			return nil, err
		}
		w := &witness{Name: strings.TrimSuffix(e.Name(), ".patch"), Patch: b}
		sc := bufio.NewScanner(bytes.NewReader(b))
		for sc.Scan() {
			l := sc.Text()
			if !strings.HasPrefix(l, "#") {
				break
			}
			kv := strings.SplitN(strings.TrimSpace(strings.TrimPrefix(l, "#")), ":", 2)
			if len(kv) != 2 {
				continue
			}
			v := strings.TrimSpace(kv[1])
			switch strings.TrimSpace(kv[0]) {
			case "rule":
				w.Rule = v
			case "expect":
				w.Expect = v
			case "property":
				w.Property = v
			case "desc":
				w.Desc = v
			}
		}
		if w.Rule == "" {
			return nil, fmt.Errorf("witness %s has no '# rule:' header", e.Name())
		}
		if !bytes.Contains(b, []byte("\ndiff --git ")) {
			return nil, fmt.Errorf("witness %s contains no diff", e.Name())
		}
		ws = append(ws, w)
	}
	sort.Slice(ws, func(i, j int) bool { return ws[i].Name < ws[j].Name })
	return ws, nil
}

// copyTree copies what the loader needs (Go sources of the module, go.mod, go.sum) to a scratch directory.
func copyTree(src, dst string) error {
	return filepath.Walk(src, func(path string, info os.FileInfo, err error) error {
		if err != nil {
			return err
		}
		rel, _ := filepath.Rel(src, path)
		if info.IsDir() {
			switch filepath.Base(path) {
			case ".git", "testdata", "docs", "node_modules", "man", "HomebrewFormula":
				if rel != "." {
					return filepath.SkipDir
				}
			}
			return os.MkdirAll(filepath.Join(dst, rel), 0o755)
		}
		if !(strings.HasSuffix(path, ".go") || info.Name() == "go.mod" || info.Name() == "go.sum" || info.Name() == "actionlint-matcher.json") {
			return nil
		}
		in, err := os.Open(path)
		if err != nil {
			return err
		}
		defer in.Close()
		outf, err := os.Create(filepath.Join(dst, rel))
		if err != nil {
			return err
		}
		defer outf.Close()
		_, err = io.Copy(outf, in)
		return err
	})
}

func runWitness(self string, o options, prop string, w *witness) map[string]interface{} {
	res := map[string]interface{}{"witness": w.Name, "rule": w.Rule, "expect": w.Expect, "desc": w.Desc}
	tmp, err := os.MkdirTemp("", "verifchk-")
	if err != nil {
		res["status"] = "error: " + err.Error()
		return res
	}
	defer os.RemoveAll(tmp)
	if err := copyTree(o.repo, tmp); err != nil {
		res["status"] = "error: " + err.Error()
		return res
	}
	pf := filepath.Join(tmp, ".witness.patch")
	os.WriteFile(pf, w.Patch, 0o644)
	ctx, cancel := context.WithTimeout(context.Background(), 5*time.Minute)
	defer cancel()
	ap := exec.CommandContext(ctx, "git", "apply", "--whitespace=nowarn", pf)
	ap.Dir = tmp
	ap.Env = append(os.Environ(), "GIT_CEILING_DIRECTORIES="+filepath.Dir(tmp))
	if outb, err := ap.CombinedOutput(); err != nil {
		res["status"] = "skipped"
		res["note"] = "patch does not apply to the current tree: " + firstLine(string(outb))
		return res
	}
	cmd := exec.CommandContext(ctx, self, "-prop", prop, "-repo", tmp, "-verif", o.verif, "-rules", w.Rule, "-expect", w.Rule+"|"+w.Expect, "-nofixture")
	outb, err := cmd.CombinedOutput()
	if ee, ok := err.(*exec.ExitError); ok && ee.ExitCode() == 1 && bytes.Contains(outb, []byte("REPORTED ")) {
		res["status"] = "reported"
		for _, l := range strings.Split(string(outb), "\n") {
			if strings.HasPrefix(l, "REPORTED ") {
				res["report"] = l
				break
			}
		}
		return res
	}
	res["status"] = "not-reported"
	res["output"] = firstLine(string(outb))
	return res
}

func crossReference(repo string) map[string]interface{} {
	out := map[string]interface{}{"note": "generic tools, cross-reference only: they decide nothing"}
	run := func(name string, args ...string) {
		ctx, cancel := context.WithTimeout(context.Background(), 4*time.Minute)
		defer cancel()
		cmd := exec.CommandContext(ctx, name, args...)
		cmd.Dir = repo
		cmd.Env = baseEnv()
		b, err := cmd.CombinedOutput()
		lines := 0
		var first []string
		for _, l := range strings.Split(strings.TrimSpace(string(b)), "\n") {
			if strings.TrimSpace(l) == "" {
				continue
			}
			lines++
			if len(first) < 5 {
				first = append(first, l)
			}
		}
		e := ""
		if err != nil {
			e = err.Error()
		}
		out[name+" "+strings.Join(args, " ")] = map[string]interface{}{"lines": lines, "first": first, "exit": e}
	}
	run("go", "vet", ".", "./cmd/actionlint")
	if _, err := exec.LookPath("staticcheck"); err == nil {
		run("staticcheck", ".", "./cmd/actionlint")
	}
	if _, err := exec.LookPath("errcheck"); err == nil {
		run("errcheck", ".")
	}
	return out
}
